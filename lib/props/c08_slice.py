"""C08 — slicer for the integer content of shm_ring_buffer.c (second tie, DESIGN.md 4.4).

The functions of shm_ring_buffer.c are not leaves: they load / store the cursors through the
atomic builtins, write message headers through pointers into the data area and (after a
refactoring) call file-local helpers with several statements.  This module turns the clang JSON
AST of a NAMED function of the current C text into a loop-free integer function that the shared
translator lib/leaftrans.py accepts, without looking at the shape of the text:

  * __atomic_load_n(&rb->f, mo)          ->  rb->f            (value of the field)
    __atomic_store_n(&rb->f, v, mo)      ->  rb->f = v
  * members reached through the anonymous unions of muggle_shm_ringbuf_t  ->  rb->f
  * a pointer to a message header is followed back to the line it was computed from
    ((muggle_shm_ringbuf_block_t *)(rb + 1) + pos, through muggle_shm_ringbuf_get_data or any
    single-return helper, through locals, helper parameters and the fields cached_w_hdr /
    cached_r_hdr); the line is materialised in an integer local at the point of computation;
        hdr->n_bytes / hdr->n_cachelines  ->  rb->hN[line] / rb->hC[line]   (two array fields)
        rb->cached_w_hdr = hdr            ->  rb->w_hdr_line = line         (same for cached_r_hdr)
  * calls of functions defined in the same file are inlined in continuation-passing style
    (early returns, several statements, value used in a condition / initialiser / return);
    arguments are evaluated once into fresh locals; locals are renamed apart
  * an out-parameter `uint32_t *p`:  *p = v -> rb->out_p = v ;  `if (p)` -> taken
  * a function returning a pointer is projected to an integer: NULL -> 0, a payload pointer
    (header + 1) -> line + 1

  * pointers into the ring are tracked symbolically as (line, byte offset from the ring base): typed
    arithmetic (rb + 1, block pointer + pos, hdr + 1) and byte arithmetic on char * / uint8_t * /
    void * ((char *)rb + sizeof(ring) + (size_t)pos * 64 + sizeof(*hdr)), in locals, through helper
    parameters and through pure pointer-valued helpers with local declarations; a pointer is a
    header pointer when its byte offset is sizeof(ring), a payload pointer when it is
    sizeof(ring) + sizeof(header)
  * integer locals assigned a literal are followed as constants along each path, conditions that
    are then statically decided keep only the live branch
  * `for` / `while` loops are unrolled (at most 3 iterations, break / continue supported); the loop
    must provably exit: if a 4th iteration is reachable the function is rejected
  * a local of a struct type with integer fields is replaced by one integer local per field (the fields are
    those accessed anywhere in the function and the file-local functions it calls); it may be initialised by
    an initialiser list whose values are all equal ({0}, {0, 0, 0}) or by a file-local function that returns
    the struct by value, and passed to file-local functions by address (`const T *p`: p->f is the field)

Anything else raises LeafError (reported as a broken obligation, never silently skipped)."""
import copy
import re
import leaftrans as L

RING = "muggle_shm_ringbuf_t"
HDRT = "muggle_shm_ringbuf_data_hdr_t"
BLOCKT = "muggle_shm_ringbuf_block_t"
CACHED = {"cached_w_hdr": "w_hdr_line", "cached_r_hdr": "r_hdr_line"}
HFIELD = {"n_bytes": "hN", "n_cachelines": "hC"}
BYTE_T = ("char", "unsigned char", "signed char", "uint8_t", "int8_t", "void")
UNROLL = 3


def qt(n):
    return n.get("type", {}).get("qualType", "")


def strip_all(n):
    while n.get("kind") in ("ParenExpr", "ImplicitCastExpr", "CStyleCastExpr") and \
            (n.get("kind") == "ParenExpr" or n.get("castKind") in ("NoOp", "LValueToRValue", "BitCast")):
        n = n["inner"][-1]
    return n


def lit(v, ty="int"):
    return {"kind": "IntegerLiteral", "value": str(v), "type": {"qualType": ty}}


def var(nm, ty="uint32_t"):
    return {"kind": "ImplicitCastExpr", "castKind": "LValueToRValue", "type": {"qualType": ty},
            "inner": [{"kind": "DeclRefExpr", "referencedDecl": {"name": nm, "kind": "VarDecl"}, "type": {"qualType": ty}}]}


def lvar(nm, ty="uint32_t"):
    return {"kind": "DeclRefExpr", "referencedDecl": {"name": nm, "kind": "VarDecl"}, "type": {"qualType": ty}}


def decl(nm, ty, init):
    return {"kind": "DeclStmt", "inner": [{"kind": "VarDecl", "name": nm, "type": {"qualType": ty}, "inner": [init]}]}


def assign(lhs, rhs, ty="uint32_t"):
    return {"kind": "BinaryOperator", "opcode": "=", "type": {"qualType": ty}, "inner": [lhs, rhs]}


class Slicer:
    def __init__(self, src, cflags, sizeofs=None):
        self.src, self.cflags = src, cflags
        self.sizeofs = sizeofs or {}      # type name -> sizeof, as printed by the params program of this run
        self.cache = {}
        self.uid = 0
        self.ring = None
        self.depth = 0
        self.loops = []
        self.root = None
        self._sf = {}

    # ---- struct locals with integer fields -> one integer local per field ----
    def base_type(self, q):
        return q.replace("const ", "").replace("struct ", "").replace("*", "").strip()

    def preload(self, f):
        """load every file-local function reachable from f (so that struct_fields sees all member accesses)"""
        seen = set()

        def walk(n):
            if n.get("kind") == "CallExpr":
                try:
                    nm = self.callee(n)
                except L.LeafError:
                    nm = None
                if nm and nm not in seen:
                    seen.add(nm)
                    g = self.fn(nm)
                    if g is not None:
                        walk(g)
            for c in n.get("inner", []):
                walk(c)
        walk(f)

    def struct_fields(self, tname):
        """{field: type} of the integer fields of struct type tname that the loaded functions access"""
        if tname in (RING, HDRT, BLOCKT) or not tname or tname in L.INT_TYPES:
            return {}
        if tname not in self._sf:
            out = {}

            def walk(n):
                if n.get("kind") == "MemberExpr" and n.get("inner") and n.get("name"):
                    if self.base_type(qt(n["inner"][0])) == tname and L.ctype(n) is not None:
                        out.setdefault(n["name"], qt(n))
                for c in n.get("inner", []):
                    walk(c)
            for g in [self.root] + list(self.cache.values()):
                if g:
                    walk(g)
            self._sf[tname] = out
        return self._sf[tname]

    def struct_of(self, n, sub):
        """the tracked struct local an expression denotes (x, *p, p for a by-address parameter), else None"""
        n = strip_all(n)
        if n.get("kind") == "UnaryOperator" and n.get("opcode") in ("&", "*"):
            n = strip_all(n["inner"][0])
        if n.get("kind") == "DeclRefExpr":
            v = sub.get(n["referencedDecl"]["name"])
            if v and v[0] == "struct":
                return v
        return None

    def new_struct(self, base, fields, value_of):
        pre, names = [], {}
        for fname in sorted(fields):
            nm = self.fresh(base + "_" + fname)
            pre.append(decl(nm, fields[fname], value_of(fname, fields[fname])))
            names[fname] = (nm, fields[fname])
        return pre, ("struct", names)

    # sizes as printed by the params program of this run
    def size_of(self, ty):
        ty = ty.replace("struct ", "").strip()
        if ty in self.sizeofs:
            return self.sizeofs[ty]
        raise L.LeafError("size of %s is not known" % ty)

    def ring_size(self):
        return self.size_of(RING)

    def hdr_size(self):
        return self.size_of(HDRT)

    # ---- helpers -------------------------------------------------------
    def fn(self, name):
        if name not in self.cache:
            try:
                self.cache[name] = L.load_function(self.src, name, self.cflags)
            except L.LeafError:
                self.cache[name] = None
        return self.cache[name]

    def fresh(self, base):
        self.uid += 1
        return "%s__%d" % (re.sub(r"\W", "_", base), self.uid)

    def ring_ref(self):
        return {"kind": "ImplicitCastExpr", "castKind": "LValueToRValue", "type": {"qualType": RING + " *"},
                "inner": [{"kind": "DeclRefExpr", "referencedDecl": {"name": self.ring, "kind": "ParmVarDecl"},
                           "type": {"qualType": RING + " *"}}]}

    def field(self, name, ty="uint32_t"):
        return {"kind": "MemberExpr", "name": name, "type": {"qualType": ty}, "inner": [self.ring_ref()]}

    def elem(self, arr, idx):
        return {"kind": "ArraySubscriptExpr", "type": {"qualType": "uint32_t"},
                "inner": [{"kind": "MemberExpr", "name": arr, "type": {"qualType": "uint32_t *"}, "inner": [self.ring_ref()]}, idx]}

    def is_ring(self, n, sub):
        n = strip_all(n)
        return n.get("kind") == "DeclRefExpr" and sub.get(n["referencedDecl"]["name"], (None,))[0] == "ring"

    def body_of(self, f):
        return [c for c in f["inner"] if c.get("kind") == "CompoundStmt"][0]

    def single_return(self, f):
        ss = [x for x in self.body_of(f).get("inner", []) if x.get("kind") != "NullStmt"]
        if len(ss) == 1 and ss[0].get("kind") == "ReturnStmt" and ss[0].get("inner"):
            return ss[0]["inner"][0]
        return None

    def callee(self, call):
        c = call["inner"][0]
        while c.get("kind") in ("ImplicitCastExpr", "ParenExpr"):
            c = c["inner"][0]
        if c.get("kind") != "DeclRefExpr":
            raise L.LeafError("indirect call")
        return c["referencedDecl"]["name"]

    def local_call(self, n):
        """a CallExpr of a function defined in this file that is not a single return expression"""
        if n.get("kind") != "CallExpr":
            return False
        f = self.fn(self.callee(n))
        if f is not None and self.struct_fields(self.base_type(f["type"]["qualType"].split("(")[0])):
            return False          # returns a struct by value: handled where the struct local is declared
        return f is not None and self.single_return(f) is None and not self.is_ptr_helper(n)

    def find_hoist(self, n):
        if self.local_call(n):
            return n
        for c in n.get("inner", []):
            r = self.find_hoist(c)
            if r is not None:
                return r
        return None

    def replace_node(self, root, old, new):
        if root is old:
            return new
        if "inner" in root:
            root = dict(root)
            root["inner"] = [self.replace_node(c, old, new) for c in root["inner"]]
        return root

    # ---- path-sensitive constants -------------------------------------------
    def static_int(self, n, sub):
        """value of an integer expression when it is decided by literals and constant locals, else None"""
        k = n.get("kind")
        if k in ("ParenExpr", "ConstantExpr"):
            return self.static_int(n["inner"][0], sub)
        if k in ("ImplicitCastExpr", "CStyleCastExpr"):
            v = self.static_int(n["inner"][-1], sub)
            if v is None:
                return None
            if n.get("castKind") == "IntegralToBoolean":
                return 1 if v != 0 else 0
            if n.get("castKind") in ("LValueToRValue", "NoOp", "IntegralCast"):
                return v
            return None
        if k == "IntegerLiteral":
            return int(n["value"])
        if k == "DeclRefExpr":
            v = sub.get(n["referencedDecl"]["name"])
            if v and v[0] == "var":
                return v[3]
            return None
        if k == "UnaryOperator" and n.get("opcode") == "!":
            v = self.static_int(n["inner"][0], sub)
            return None if v is None else (0 if v else 1)
        if k == "BinaryOperator" and n.get("opcode") in ("||", "&&"):
            a = self.static_int(n["inner"][0], sub)
            b = self.static_int(n["inner"][1], sub)
            if n["opcode"] == "||":
                if (a is not None and a != 0) or (b is not None and b != 0 and a is not None):
                    return 1
                if a == 0:
                    return None if b is None else (1 if b else 0)
                return None
            if a == 0:
                return 0
            if a is not None and a != 0:
                return None if b is None else (1 if b else 0)
            return None
        if k == "BinaryOperator" and n.get("opcode") in ("<", "<=", ">", ">=", "==", "!=", "+", "-", "*"):
            # comparisons / arithmetic of locals whose value is a known constant on this path (loop counters,
            # pass numbers, flags); small values only, so no wrap is involved
            a = self.static_int(n["inner"][0], sub)
            b = self.static_int(n["inner"][1], sub)
            if a is None or b is None or abs(a) > (1 << 30) or abs(b) > (1 << 30):
                return None
            op = n["opcode"]
            if op == "+":
                return a + b
            if op == "-":
                return a - b if (a - b >= 0 or (L.ctype(n) or (True, 0))[0]) else None
            if op == "*":
                return a * b if abs(a * b) <= (1 << 30) else None
            return 1 if {"<": a < b, "<=": a <= b, ">": a > b, ">=": a >= b, "==": a == b, "!=": a != b}[op] else 0
        if k == "UnaryOperator" and n.get("opcode") == "-":
            v = self.static_int(n["inner"][0], sub)
            return None if v is None or not (L.ctype(n) or (True, 0))[0] else -v
        return None

    # ---- symbolic pointers: (line expression | None, byte offset from the ring base) ----
    def pointee(self, n):
        q = qt(n).replace("const ", "").strip()
        if not q.endswith("*"):
            raise L.LeafError("pointer arithmetic on a non-pointer")
        return q[:-1].strip()

    def scale_of(self, n):
        pt = self.pointee(n)
        if pt in BYTE_T:
            return 1
        return self.size_of(pt)

    def add_lines(self, a, b):
        if a is None:
            return b
        if b is None:
            return a
        return {"kind": "BinaryOperator", "opcode": "+", "type": {"qualType": "unsigned long"}, "inner": [a, b]}

    def as_bytes(self, n, sub, rewritten=False):
        """integer expression (byte count) -> (line expression | None, constant) when it is 64 * line + constant"""
        k = n.get("kind")
        if k in ("ParenExpr", "ConstantExpr"):
            return self.as_bytes(n["inner"][0], sub, rewritten)
        if k in ("ImplicitCastExpr", "CStyleCastExpr") and n.get("castKind") in ("LValueToRValue", "NoOp", "IntegralCast"):
            inner = n["inner"][-1]
            if n.get("castKind") == "IntegralCast":
                ty, src = L.ctype(n), L.ctype(inner)
                if ty is None or src is None or ty[1] < src[1]:
                    raise L.LeafError("narrowing cast inside a byte offset")
            return self.as_bytes(inner, sub, rewritten)
        if k == "IntegerLiteral":
            return (None, int(n["value"]))
        if k == "UnaryExprOrTypeTraitExpr":
            return (None, self.sizeof_node(n))
        if k == "DeclRefExpr" and not rewritten:
            v = sub.get(n["referencedDecl"]["name"])
            if v and v[0] == "var":
                if v[3] is not None:
                    return (None, v[3])
                if v[4] is not None:
                    return self.as_bytes(v[4][0], v[4][1])
            if v and v[0] == "expr":
                return self.as_bytes(v[1], sub, True)
        if k == "BinaryOperator" and n.get("opcode") in ("*", "<<"):
            ty = L.ctype(n)
            if ty is None or ty[1] < 64:
                raise L.LeafError("byte offset computed in less than 64 bits")
            a, b = n["inner"]
            for x, y in ((a, b), (b, a)):
                try:
                    cy = self.as_bytes(y, sub, rewritten)
                except L.LeafError:
                    continue
                want = self.size_of(BLOCKT) if n["opcode"] == "*" else 6
                if cy == (None, want) and (n["opcode"] == "*" or y is b):
                    return (x if rewritten else self.rx(x, sub), 0)
            raise L.LeafError("byte offset is not a multiple of the cache line size")
        if k == "BinaryOperator" and n.get("opcode") == "+":
            (l1, c1), (l2, c2) = self.as_bytes(n["inner"][0], sub, rewritten), self.as_bytes(n["inner"][1], sub, rewritten)
            return (self.add_lines(l1, l2), c1 + c2)
        raise L.LeafError("byte offset is not of the form 64 * line + constant")

    def sizeof_node(self, n):
        if n.get("name") != "sizeof":
            raise L.LeafError("unsupported " + str(n.get("name")))
        if "argType" in n:
            return self.size_of(n["argType"]["qualType"])
        return self.size_of(qt(n["inner"][0]))

    def ptr_of(self, n, sub):
        """pointer-valued expression -> (line expression | None, byte offset from the ring base)"""
        while n.get("kind") == "ParenExpr" or (n.get("kind") in ("ImplicitCastExpr", "CStyleCastExpr") and
                                               n.get("castKind") in ("NoOp", "LValueToRValue", "BitCast")):
            n = n["inner"][-1]
        k = n.get("kind")
        if k == "DeclRefExpr":
            v = sub.get(n["referencedDecl"]["name"])
            if v and v[0] == "ptr":
                return (var(v[1]) if v[1] is not None else None, v[2])
            if v and v[0] == "sp":
                return (copy.deepcopy(v[1]), v[2])
            if v and v[0] == "ring":
                return (None, 0)
            raise L.LeafError("pointer variable %s does not point into the ring" % n["referencedDecl"]["name"])
        if k == "MemberExpr" and n.get("name") in CACHED and self.is_ring(self.member_base(n), sub):
            return (self.field(CACHED[n["name"]]), self.ring_size())
        if k == "BinaryOperator" and n.get("opcode") == "+":
            a, b = n["inner"]
            if not qt(a).strip().endswith("*"):
                a, b = b, a
            line, off = self.ptr_of(a, sub)
            sc = self.scale_of(a)
            if sc == 1:
                l2, c2 = self.as_bytes(b, sub)
                return (self.add_lines(line, l2), off + c2)
            if sc == self.size_of(BLOCKT):
                return (self.add_lines(line, self.rx(b, sub)), off)
            c = self.static_int(b, sub)
            if c is None:
                raise L.LeafError("non-constant index on a pointer to " + self.pointee(a))
            return (line, off + c * sc)
        if k == "CallExpr":
            return self.ptr_call(n, sub)
        raise L.LeafError("pointer expression %s cannot be followed into the ring" % k)

    def ptr_call(self, call, sub):
        """a pure pointer-valued helper: local declarations and one return"""
        f = self.fn(self.callee(call))
        if f is None:
            raise L.LeafError("pointer-valued call of %s: no definition in this file" % self.callee(call))
        self.depth += 1
        if self.depth > 12:
            raise L.LeafError("call nesting too deep")
        try:
            parms = [c for c in f.get("inner", []) if c.get("kind") == "ParmVarDecl"]
            args = call["inner"][1:]
            if len(parms) != len(args):
                raise L.LeafError("argument count mismatch calling " + f["name"])
            subh = {}
            for p_, a in zip(parms, args):
                if L.ctype(p_) is not None:
                    subh[p_["name"]] = ("expr", self.rx(a, sub))
                elif qt(p_).strip().endswith("*"):
                    line, off = self.ptr_of(a, sub)
                    subh[p_["name"]] = ("ring",) if (line is None and off == 0 and RING in qt(p_)) else ("sp", line, off)
                else:
                    raise L.LeafError("unsupported parameter of pointer helper " + f["name"])
            stmts = list(self.body_of(f).get("inner", []))
            while stmts:
                s = stmts.pop(0)
                k = s.get("kind")
                if k == "NullStmt":
                    continue
                if k == "CompoundStmt":
                    stmts = list(s.get("inner", [])) + stmts
                    continue
                if k == "ReturnStmt" and s.get("inner"):
                    return self.ptr_of(s["inner"][0], subh)
                if k == "DeclStmt":
                    for d in s.get("inner", []):
                        init = d.get("inner", [])
                        if d.get("kind") != "VarDecl" or not init:
                            raise L.LeafError("unsupported declaration in pointer helper " + f["name"])
                        if L.ctype(d) is not None:
                            subh[d["name"]] = ("var", None, qt(d), self.static_int(init[-1], subh), (init[-1], dict(subh)))
                        elif qt(d).strip().endswith("*"):
                            line, off = self.ptr_of(init[-1], subh)
                            subh[d["name"]] = ("sp", line, off)
                        else:
                            raise L.LeafError("unsupported local in pointer helper " + f["name"])
                    continue
                raise L.LeafError("pointer helper %s is not pure (statement %s)" % (f["name"], k))
            raise L.LeafError("pointer helper %s does not return" % f["name"])
        finally:
            self.depth -= 1

    def hdr_line(self, n, sub):
        line, off = self.ptr_of(n, sub)
        if off != self.ring_size():
            raise L.LeafError("pointer used as a message header is at byte offset %d of its line" % (off - self.ring_size()))
        return line if line is not None else lit(0, "unsigned int")

    def bind_ptr(self, n, sub):
        """materialise the line of a pointer value at the point where it is computed"""
        line, off = self.ptr_of(n, sub)
        if line is None:
            return [], ("ptr", None, off)
        nm = self.fresh("line")
        return [decl(nm, "uint32_t", line)], ("ptr", nm, off)

    def bind_args(self, f, call, sub):
        """-> (pre statements, substitution for the callee)"""
        parms = [c for c in f.get("inner", []) if c.get("kind") == "ParmVarDecl"]
        args = call["inner"][1:]
        if len(parms) != len(args):
            raise L.LeafError("argument count mismatch calling " + f["name"])
        pre, subh = [], {}
        for p, a in zip(parms, args):
            t = qt(p)
            if L.ctype(p) is not None:
                nm = self.fresh(p["name"])
                pre.append(decl(nm, t, self.rx(a, sub)))
                subh[p["name"]] = ("var", nm, t, self.static_int(a, sub), None)
            elif RING in t:
                if not self.is_ring(a, sub):
                    raise L.LeafError("ring pointer argument is not the ring")
                subh[p["name"]] = ("ring",)
            elif t.strip().endswith("*") and L.ctype({"type": {"qualType": t.strip()[:-1].strip()}}) is not None and \
                    strip_all(a).get("kind") == "DeclRefExpr" and sub.get(strip_all(a)["referencedDecl"]["name"], (None,))[0] == "outp":
                subh[p["name"]] = sub[strip_all(a)["referencedDecl"]["name"]]
            elif t.strip().endswith("*") and self.struct_fields(self.base_type(t)):
                v = self.struct_of(a, sub)
                if v is None:
                    raise L.LeafError("argument for %s of %s is not a tracked struct local" % (p["name"], f["name"]))
                subh[p["name"]] = v
            elif t.strip().endswith("*"):
                d, v = self.bind_ptr(a, sub)
                pre += d
                subh[p["name"]] = v
            else:
                raise L.LeafError("unsupported parameter type %s in %s" % (t, f["name"]))
        return pre, subh

    def member_base(self, n):
        b = n["inner"][0]
        while strip_all(b).get("kind") == "MemberExpr" and strip_all(b).get("name", "") == "":
            b = strip_all(b)["inner"][0]
        return b

    # ---- expressions -----------------------------------------------------
    def rx(self, n, sub):
        k = n.get("kind")
        if k == "AtomicExpr":
            if len(n["inner"]) != 2:
                raise L.LeafError("atomic store used as a value")
            p = strip_all(n["inner"][0])
            if p.get("kind") != "UnaryOperator" or p.get("opcode") != "&":
                raise L.LeafError("atomic operand is not the address of a field")
            return {"kind": "ImplicitCastExpr", "castKind": "LValueToRValue", "type": n["type"],
                    "inner": [self.rx(p["inner"][0], sub)]}
        if k == "MemberExpr":
            sv = self.struct_of(n["inner"][0], sub) if n.get("inner") else None
            if sv is not None:
                if n.get("name") not in sv[1]:
                    raise L.LeafError("field %s of a struct local is not an integer field" % n.get("name"))
                nm, ty = sv[1][n["name"]]
                return lvar(nm, ty)
            b = self.member_base(n)
            if self.is_ring(b, sub):
                if n["name"] in CACHED:
                    raise L.LeafError("header pointer field used as an integer")
                return self.field(n["name"], qt(n))
            if n["name"] in HFIELD and HDRT in qt(b):
                return self.elem(HFIELD[n["name"]], self.hdr_line(b, sub))
            raise L.LeafError("unsupported member access ." + n.get("name", "?"))
        if k == "DeclRefExpr":
            nm = n["referencedDecl"]["name"]
            v = sub.get(nm)
            if v is None:
                return copy.deepcopy(n)
            if v[0] == "var":
                if v[1] is None:
                    raise L.LeafError("local of a pointer helper used as a value")
                return lvar(v[1], v[2])
            if v[0] == "expr":
                return copy.deepcopy(v[1])
            if v[0] == "ring":
                return self.ring_ref()["inner"][0]
            raise L.LeafError("pointer variable %s used as an integer" % nm)
        if k == "UnaryExprOrTypeTraitExpr":
            return lit(self.sizeof_node(n), "unsigned long")
        if k == "CallExpr":
            f = self.fn(self.callee(n))
            e = self.single_return(f) if f is not None else None
            if e is None:
                raise L.LeafError("call of %s in an expression cannot be inlined" % self.callee(n))
            parms = [c for c in f.get("inner", []) if c.get("kind") == "ParmVarDecl"]
            subh = {}
            for p, a in zip(parms, n["inner"][1:]):
                if RING in qt(p) and self.is_ring(a, sub):
                    subh[p["name"]] = ("ring",)
                elif L.ctype(p) is not None:
                    subh[p["name"]] = ("expr", self.rx(a, sub))
                elif qt(p).strip().endswith("*"):
                    line, off = self.ptr_of(a, sub)
                    subh[p["name"]] = ("sp", line, off)
                else:
                    raise L.LeafError("unsupported parameter of helper " + f["name"])
            return self.rx(e, subh)
        out = dict(n)
        if "inner" in n:
            out["inner"] = [self.rx(c, sub) for c in n["inner"]]
        return out

    # ---- statements (continuation-passing) ----------------------------------
    def with_loops(self, stack, thunk):
        saved = self.loops
        self.loops = stack
        try:
            return thunk()
        finally:
            self.loops = saved

    def inline(self, call, sub, on_return):
        """inline a call of a file-local function; on_return(raw return expr | None, callee substitution) -> stmts"""
        f = self.fn(self.callee(call))
        if f is None:
            raise L.LeafError("call of %s: no definition in this file" % self.callee(call))
        self.depth += 1
        if self.depth > 12:
            raise L.LeafError("call nesting too deep")
        try:
            pre, subh = self.bind_args(f, call, sub)
            outer = self.loops
            body = self.with_loops([], lambda: self.seq(
                [self.body_of(f)], subh,
                lambda s: self.with_loops(outer, lambda: on_return(None, s)),
                lambda e, s: self.with_loops(outer, lambda: on_return(e, s))))
            return pre + body
        finally:
            self.depth -= 1

    def hoisted(self, stmt, R, sub, cont, retk):
        """stmt contains a call that needs statement-level inlining: evaluate it first into a fresh local"""
        call = self.find_hoist(stmt)
        f = self.fn(self.callee(call))
        rt = f["type"]["qualType"].split("(")[0].strip()
        tmp = self.fresh("ret_" + f["name"][-12:])

        def on_return(e, subh):
            sub2 = dict(sub)
            if rt == "void" or e is None:
                raise L.LeafError("void call used as a value")
            ty = "int" if rt in ("bool", "_Bool") else rt
            if L.ctype({"type": {"qualType": ty}}) is None:
                raise L.LeafError("helper %s returns %s inside an expression" % (f["name"], rt))
            pre = [decl(tmp, ty, self.rx(e, subh))]
            sub2[tmp] = ("var", tmp, ty, self.static_int(e, subh), None)
            new = self.replace_node(stmt, call, lvar(tmp, ty))
            return pre + self.seq([new] + R, sub2, cont, retk)
        return self.inline(call, sub, on_return)

    def loop(self, init, cond, inc, body, R, sub, cont, retk):
        if init is not None:
            return self.seq([init, {"kind": "@loop", "cond": cond, "inc": inc, "body": body}] + R, sub, cont, retk)
        outer = list(self.loops)

        def after(s):
            return self.with_loops(outer, lambda: self.seq(R, s, cont, retk))

        def unroll(k, s):
            if k == 0:
                raise L.LeafError("loop does not provably exit within %d iterations" % UNROLL)
            cv = 1 if cond is None else self.static_int(cond, s)

            def nxt(s1):
                return self.with_loops(outer, lambda: self.seq([inc] if inc is not None else [], s1,
                                                               lambda s2: unroll(k - 1, s2), retk))

            def run(s0):
                return self.with_loops(outer + [(after, nxt)], lambda: self.seq([body], s0, nxt, retk))
            if cv is not None:
                return run(s) if cv else after(s)
            return [{"kind": "IfStmt", "inner": [self.rx(cond, s), {"kind": "CompoundStmt", "inner": run(dict(s))},
                                                 {"kind": "CompoundStmt", "inner": after(dict(s))}]}]
        return unroll(UNROLL, sub)

    def seq(self, stmts, sub, cont, retk):
        if not stmts:
            return cont(sub)
        s, R = stmts[0], list(stmts[1:])
        k = s.get("kind")
        if k == "CompoundStmt":
            return self.seq(list(s.get("inner", [])) + R, sub, cont, retk)
        if k == "NullStmt":
            return self.seq(R, sub, cont, retk)
        if k == "@loop":
            return self.loop(None, s["cond"], s["inc"], s["body"], R, sub, cont, retk)
        if k == "ForStmt":
            init, _cv, cond, inc, body = [(c if c else None) for c in s["inner"]]
            return self.loop(init, cond, inc, body, R, sub, cont, retk)
        if k == "WhileStmt":
            cond, body = s["inner"][-2], s["inner"][-1]
            return self.loop(None, cond, None, body, R, sub, cont, retk)
        if k == "BreakStmt":
            if not self.loops:
                raise L.LeafError("break outside a loop")
            return self.loops[-1][0](sub)
        if k == "ContinueStmt":
            if not self.loops:
                raise L.LeafError("continue outside a loop")
            return self.loops[-1][1](sub)
        if k == "ReturnStmt":
            e = s["inner"][0] if s.get("inner") else None
            if e is not None and self.local_call(strip_all(e)) and not self.is_ptr_helper(strip_all(e)):
                # tail call: the callee's returns are the caller's returns
                return self.inline(strip_all(e), sub, lambda e2, subh: retk(e2, subh))
            if e is not None and self.find_hoist(e) is not None:
                return self.hoisted(s, [], sub, cont, retk)
            return retk(e, sub)
        if k == "IfStmt":
            c = s["inner"][0]
            c0 = strip_all(c)
            if c0.get("kind") == "DeclRefExpr" and sub.get(c0["referencedDecl"]["name"], (None,))[0] == "outp":
                # `if (out_param)`: the drivers always pass a place for the result
                return self.seq([s["inner"][1]] + R, sub, cont, retk)
            if self.find_hoist(c) is not None:
                return self.hoisted(s, R, sub, cont, retk)
            t = s["inner"][1]
            f = s["inner"][2] if len(s["inner"]) > 2 else None
            cv = self.static_int(c, sub)
            if cv is not None:
                return self.seq(([t] if cv else ([f] if f is not None else [])) + R, sub, cont, retk)
            th = self.seq([t] + R, dict(sub), cont, retk)
            el = self.seq(([f] if f is not None else []) + R, dict(sub), cont, retk)
            return [{"kind": "IfStmt", "inner": [self.rx(c, sub), {"kind": "CompoundStmt", "inner": th},
                                                 {"kind": "CompoundStmt", "inner": el}]}]
        if k == "DeclStmt":
            if self.find_hoist(s) is not None:
                return self.hoisted(s, R, sub, cont, retk)
            out = []
            for d in s.get("inner", []):
                if d.get("kind") != "VarDecl":
                    raise L.LeafError("unsupported declaration")
                t = qt(d)
                init = d.get("inner", [])
                if L.ctype(d) is not None:
                    nm = self.fresh(d["name"])
                    out.append(decl(nm, t, self.rx(init[-1], sub) if init else lit(0)))
                    sub[d["name"]] = ("var", nm, t, self.static_int(init[-1], sub) if init else None,
                                      (init[-1], dict(sub)) if init else None)
                elif t.strip().endswith("*"):
                    if init:
                        pre, v = self.bind_ptr(init[-1], sub)
                        out += pre
                        sub[d["name"]] = v
                    else:
                        sub[d["name"]] = ("ptr?",)
                elif self.struct_fields(self.base_type(t)):
                    fields = self.struct_fields(self.base_type(t))
                    i0 = strip_all(init[-1]) if init else None
                    if i0 is not None and i0.get("kind") == "CallExpr":
                        # T x = f(...): f is a file-local function returning the struct by value
                        if len(s.get("inner", [])) != 1:
                            raise L.LeafError("struct local initialised by a call in a multiple declaration")
                        if self.fn(self.callee(i0)) is None:
                            raise L.LeafError("struct local initialised by a call of %s: no definition in this file" % self.callee(i0))

                        def on_return(e, subh, d=d, fields=fields):
                            sv = self.struct_of(e, subh) if e is not None else None
                            if sv is None:
                                raise L.LeafError("returned struct is not a tracked struct local")
                            pre, v = self.new_struct(d["name"], fields, lambda fn_, ty: var(sv[1][fn_][0], ty))
                            sub2 = dict(sub)
                            sub2[d["name"]] = v
                            return pre + self.seq(R, sub2, cont, retk)
                        return out + self.inline(i0, sub, on_return)
                    if i0 is not None and self.struct_of(i0, sub) is not None:
                        sv = self.struct_of(i0, sub)
                        pre, v = self.new_struct(d["name"], fields, lambda fn_, ty: var(sv[1][fn_][0], ty))
                    else:
                        val = 0
                        if i0 is not None:
                            if i0.get("kind") != "InitListExpr":
                                raise L.LeafError("unsupported initialiser of a struct local")
                            vals = [0 if c.get("kind") == "ImplicitValueInitExpr" else self.static_int(c, sub)
                                    for c in i0.get("inner", [])]
                            if any(x is None for x in vals) or len(set(vals + ([0] if len(vals) < len(fields) else []))) > 1:
                                raise L.LeafError("initialiser list of a struct local is not one constant for every field")
                            val = vals[0] if vals else 0
                        pre, v = self.new_struct(d["name"], fields, lambda fn_, ty: lit(val))
                    out += pre
                    sub[d["name"]] = v
                else:
                    raise L.LeafError("unsupported local of type " + t)
            return out + self.seq(R, sub, cont, retk)
        # expression statements
        if k == "AtomicExpr" and len(s["inner"]) == 3:
            p = strip_all(s["inner"][0])
            if p.get("kind") != "UnaryOperator" or p.get("opcode") != "&":
                raise L.LeafError("atomic operand is not the address of a field")
            if self.find_hoist(s["inner"][2]) is not None:
                return self.hoisted(s, R, sub, cont, retk)
            lhs = self.rx(p["inner"][0], sub)
            return [assign(lhs, self.rx(s["inner"][2], sub), qt(lhs))] + self.seq(R, sub, cont, retk)
        if k in ("BinaryOperator", "CompoundAssignOperator") and s.get("opcode", "").endswith("=") and \
                s.get("opcode") not in ("==", "!=", "<=", ">="):
            if self.find_hoist(s) is not None:
                return self.hoisted(s, R, sub, cont, retk)
            lhs, rhs = s["inner"]
            l0 = strip_all(lhs)
            if s.get("opcode") == "=" and self.struct_of(l0, sub) is not None and L.ctype(s) is None:
                # whole-struct assignment from another tracked struct local
                sv, dv = self.struct_of(rhs, sub), self.struct_of(l0, sub)
                if sv is None:
                    raise L.LeafError("struct assigned from something that is not a tracked struct local")
                return [assign(lvar(dv[1][f_][0], dv[1][f_][1]), var(sv[1][f_][0], sv[1][f_][1]), dv[1][f_][1])
                        for f_ in sorted(dv[1])] + self.seq(R, sub, cont, retk)
            if l0.get("kind") == "MemberExpr" and l0.get("name") in CACHED and self.is_ring(self.member_base(l0), sub):
                if s["opcode"] != "=":
                    raise L.LeafError("arithmetic on a cached header pointer")
                return [assign(self.field(CACHED[l0["name"]]), self.hdr_line(rhs, sub))] + self.seq(R, sub, cont, retk)
            if l0.get("kind") == "DeclRefExpr" and sub.get(l0["referencedDecl"]["name"], (None,))[0] in ("ptr", "ptr?"):
                if s["opcode"] != "=":
                    raise L.LeafError("compound assignment to a pointer local")
                pre, v = self.bind_ptr(rhs, sub)
                sub[l0["referencedDecl"]["name"]] = v
                return pre + self.seq(R, sub, cont, retk)
            if l0.get("kind") == "UnaryOperator" and l0.get("opcode") == "*":
                p = strip_all(l0["inner"][0])
                if p.get("kind") == "DeclRefExpr" and sub.get(p["referencedDecl"]["name"], (None,))[0] == "outp":
                    if s["opcode"] != "=":
                        raise L.LeafError("compound assignment through an out-parameter")
                    return [assign(self.field(sub[p["referencedDecl"]["name"]][1]), self.rx(rhs, sub))] + \
                        self.seq(R, sub, cont, retk)
            out = [self.rx(s, sub)]
            if l0.get("kind") == "DeclRefExpr" and sub.get(l0["referencedDecl"]["name"], (None,))[0] == "var":
                v = sub[l0["referencedDecl"]["name"]]
                if s["opcode"] == "=":
                    nv = self.static_int(rhs, sub)
                elif s["opcode"] in ("+=", "-=") and v[3] is not None and self.static_int(rhs, sub) is not None and \
                        (L.ctype(lhs) or (False, 0))[0]:
                    nv = v[3] + self.static_int(rhs, sub) if s["opcode"] == "+=" else v[3] - self.static_int(rhs, sub)
                else:
                    nv = None
                sub[l0["referencedDecl"]["name"]] = (v[0], v[1], v[2], nv, None)
            return out + self.seq(R, sub, cont, retk)
        if k == "UnaryOperator" and s.get("opcode") in ("++", "--"):
            out = [self.rx(s, sub)]
            l0 = strip_all(s["inner"][0])
            if l0.get("kind") == "DeclRefExpr" and sub.get(l0["referencedDecl"]["name"], (None,))[0] == "var":
                v = sub[l0["referencedDecl"]["name"]]
                # a signed counter with a known value stays known (++pass, --i); unsigned ones only while no wrap
                nv = None
                if v[3] is not None and abs(v[3]) < (1 << 30):
                    nv = v[3] + 1 if s["opcode"] == "++" else v[3] - 1
                    if nv < 0 and not (L.ctype(s["inner"][0]) or (False, 0))[0]:
                        nv = None
                sub[l0["referencedDecl"]["name"]] = (v[0], v[1], v[2], nv, None)
            return out + self.seq(R, sub, cont, retk)
        if k == "CallExpr":
            f = self.fn(self.callee(s))
            if f is None:
                raise L.LeafError("call of %s: no definition in this file" % self.callee(s))
            return self.inline(s, sub, lambda e, subh: self.seq(R, dict(sub), cont, retk))
        if k in ("ImplicitCastExpr", "CStyleCastExpr", "ParenExpr"):
            return self.seq([s["inner"][-1]] + R, sub, cont, retk)
        raise L.LeafError("unsupported statement kind " + str(k))

    def is_ptr_helper(self, call):
        """a pointer-valued helper whose value can be computed symbolically (no effects)"""
        f = self.fn(self.callee(call))
        if f is None or not f["type"]["qualType"].split("(")[0].strip().endswith("*"):
            return False
        for st in self.body_of(f).get("inner", []):
            if st.get("kind") not in ("DeclStmt", "ReturnStmt", "NullStmt"):
                return False
        return True

    # ---- entry -----------------------------------------------------------
    def slice(self, name):
        f = self.fn(name)
        if f is None:
            raise L.LeafError("function %s not found in %s" % (name, self.src))
        self.uid = 0
        self.loops = []
        self.root = f
        self.preload(f)
        sub, parms = {}, []
        for p in [c for c in f.get("inner", []) if c.get("kind") == "ParmVarDecl"]:
            t = qt(p)
            if RING in t:
                self.ring = p["name"]
                sub[p["name"]] = ("ring",)
                parms.append(p)
            elif L.ctype(p) is not None:
                parms.append(p)
            elif t.strip().endswith("*") and L.ctype({"type": {"qualType": t.strip()[:-1].strip()}}) is not None:
                sub[p["name"]] = ("outp", "out_" + p["name"])
            else:
                raise L.LeafError("unsupported parameter type " + t)
        if self.ring is None:
            raise L.LeafError("no ring parameter")
        rt = f["type"]["qualType"].split("(")[0].strip()
        if rt == "void":
            newrt = "void"

            def retk(e, s):
                return [{"kind": "ReturnStmt", "inner": []}]
        elif rt.endswith("*"):
            newrt = "long"

            def retk(e, s):
                e0 = e
                while e0.get("kind") == "ParenExpr" or (e0.get("kind") in ("ImplicitCastExpr", "CStyleCastExpr") and
                                                        e0.get("castKind") in ("NullToPointer", "BitCast", "NoOp", "LValueToRValue")):
                    e0 = e0["inner"][-1]
                if e0.get("kind") == "IntegerLiteral" and e0["value"] == "0" or e0.get("kind") == "GNUNullExpr":
                    v = lit(0, "long")
                else:
                    line, off = self.ptr_of(e, s)
                    if off != self.ring_size() + self.hdr_size():
                        raise L.LeafError("returned pointer is neither NULL nor a payload pointer (header + sizeof header)")
                    v = {"kind": "BinaryOperator", "opcode": "+", "type": {"qualType": "long"},
                         "inner": [line if line is not None else lit(0, "long"), lit(1, "long")]}
                return [{"kind": "ReturnStmt", "inner": [v]}]
        else:
            newrt = rt

            def retk(e, s):
                return [{"kind": "ReturnStmt", "inner": [self.rx(e, s)] if e is not None else []}]
        body = self.seq([self.body_of(f)], sub, lambda s: [], retk)
        return {"kind": "FunctionDecl", "name": name, "type": {"qualType": newrt + " (sliced)"},
                "inner": parms + [{"kind": "CompoundStmt", "inner": body}]}


def translate_sliced(src, name, cflags, gname, sizeofs=None):
    """-> (gallina text, fields, params, written, ret_kind): lib/leaftrans.translate on the sliced function"""
    fn = Slicer(src, cflags, sizeofs).slice(name)
    t = L.Tr(fn, None, cflags)
    body = [c for c in fn["inner"] if c.get("kind") == "CompoundStmt"][0]
    rt = fn["type"]["qualType"].split("(")[0].strip()
    ret_kind = None if rt == "void" else ("B" if rt in ("bool", "_Bool") else "Z")
    t.all_written = []
    L.collect_written(body, t.all_written)
    for _ in range(3):
        t.all_written = sorted(set(t.all_written) | set(t.written))
        t.cnt = 0
        env = {p: p for p in t.params}
        code = t.stmts([body], env, ret_kind)
        if set(t.written) <= set(t.all_written):
            break
    code = re.sub(r"@FIELD:(\w+)@", r"\1", code)
    t.fields = sorted(t.fields)
    args = ["(%s : %s)" % (k, "list Z" if a else "Z") for k, a in t.fields] + ["(%s : Z)" % p for p in t.params]
    text = "Definition %s %s :=\n  %s.\n" % (gname, " ".join(args), code)
    return text, t.fields, t.params, t.all_written, ret_kind


# ---------------------------------------------------------------------------------------------------
# muggle_shm_ringbuf_open: the size computation and the initial values of the ring fields.
#
# The function has no ring parameter: the ring is what muggle_shm_open returns.  The slicer treats
#   p = muggle_shm_open(shm, k_name, k_num, flag, <bytes>)   as   ring->seg_bytes = <bytes>; p := the ring
# (the ring pointer is non-NULL: `p == NULL` / `!p` are statically false), expands
#   memset(p, 0, sizeof(*p))                                  to   ring->f = 0 for every integer field f,
# skips muggle_spinlock_init(&p->lock) (no integer content), keeps calls of the pure integer function
# muggle_next_pow_of_2 as an application of the Gallina function `npo2` (C08/Model.v, = the C20 model of that
# function), replaces enum constants by the values printed by the params program of this run, and projects the
# result to 0 (NULL) / 1 (the ring).  The generated function takes the previous values of the ring fields,
# the integer parameters (k_num, flag, nbytes) and returns (result, fields in alphabetical order).
OPEN_FIELDS = ["magic", "n_bytes", "total_bytes", "n_cacheline", "ready", "write_cursor", "cached_remain", "read_cursor"]
EXTERN_PURE = {"muggle_next_pow_of_2": "npo2"}
EXTERN_SKIP = ("muggle_spinlock_init",)
OPEN_RING = "rb__ring"


def _is_null(n):
    while n.get("kind") in ("ParenExpr", "ImplicitCastExpr", "CStyleCastExpr"):
        n = n["inner"][-1]
    return (n.get("kind") == "IntegerLiteral" and n.get("value") == "0") or n.get("kind") == "GNUNullExpr"


class OpenSlicer(Slicer):
    def __init__(self, src, cflags, sizeofs=None, enums=None):
        Slicer.__init__(self, src, cflags, sizeofs)
        self.enums = enums or {}
        self.ring = OPEN_RING

    def shm_open_call(self, n):
        n = strip_all(n)
        if n.get("kind") == "CallExpr":
            try:
                if self.callee(n) == "muggle_shm_open":
                    return n
            except L.LeafError:
                return None
        return None

    def ring_valued(self, n, sub):
        n0 = strip_all(n)
        return n0.get("kind") == "DeclRefExpr" and sub.get(n0["referencedDecl"]["name"], (None,))[0] == "ring"

    def static_int(self, n, sub):
        k = n.get("kind")
        if k == "BinaryOperator" and n.get("opcode") in ("==", "!="):
            a, b = n["inner"]
            for x, y in ((a, b), (b, a)):
                if self.ring_valued(x, sub) and _is_null(y):
                    return 0 if n["opcode"] == "==" else 1
        if k == "UnaryOperator" and n.get("opcode") == "!" and self.ring_valued(n["inner"][0], sub):
            return 0
        if k in ("ImplicitCastExpr", "CStyleCastExpr") and n.get("castKind") == "PointerToBoolean" and \
                self.ring_valued(n["inner"][-1], sub):
            return 1
        if self.ring_valued(n, sub) and qt(strip_all(n)).strip().endswith("*"):
            return 1
        return Slicer.static_int(self, n, sub)

    def find_hoist(self, n):
        # the external calls are not inlined
        if n.get("kind") == "CallExpr":
            try:
                if self.callee(n) in EXTERN_PURE or self.callee(n) in EXTERN_SKIP or self.callee(n) in ("memset", "muggle_shm_open"):
                    for c in n.get("inner", [])[1:]:
                        r = self.find_hoist(c)
                        if r is not None:
                            return r
                    return None
            except L.LeafError:
                pass
        return Slicer.find_hoist(self, n)

    def rx(self, n, sub):
        k = n.get("kind")
        if k == "DeclRefExpr" and n.get("referencedDecl", {}).get("kind") == "EnumConstantDecl":
            nm = n["referencedDecl"]["name"]
            if nm not in self.enums:
                raise L.LeafError("value of the enum constant %s is not known" % nm)
            return lit(self.enums[nm], "int")
        if k == "CallExpr":
            nm = self.callee(n)
            if nm in EXTERN_PURE:
                out = dict(n)
                out["inner"] = [n["inner"][0]] + [self.rx(c, sub) for c in n["inner"][1:]]
                return out
            if nm == "muggle_shm_open":
                raise L.LeafError("result of muggle_shm_open used inside an expression")
        return Slicer.rx(self, n, sub)

    def open_stmts(self, call, sub):
        args = call["inner"][1:]
        if len(args) != 5:
            raise L.LeafError("muggle_shm_open called with %d arguments" % len(args))
        return [assign(self.field("seg_bytes"), self.rx(args[4], sub))]

    def seq(self, stmts, sub, cont, retk):
        if stmts:
            s, R = stmts[0], list(stmts[1:])
            k = s.get("kind")
            if k == "DeclStmt" and len(s.get("inner", [])) >= 1:
                ds = s["inner"]
                for i, d in enumerate(ds):
                    init = d.get("inner", [])
                    if d.get("kind") == "VarDecl" and init and self.shm_open_call(init[-1]) is not None:
                        if RING not in qt(d):
                            raise L.LeafError("result of muggle_shm_open kept in a %s" % qt(d))
                        before = [{"kind": "DeclStmt", "inner": ds[:i]}] if i else []
                        after = [{"kind": "DeclStmt", "inner": ds[i + 1:]}] if ds[i + 1:] else []

                        def k2(s2, d=d, init=init, after=after):
                            pre = self.open_stmts(self.shm_open_call(init[-1]), s2)
                            s2[d["name"]] = ("ring",)
                            return pre + self.seq(after + R, s2, cont, retk)
                        return self.seq(before, sub, k2, retk)
                    if d.get("kind") == "VarDecl" and RING in qt(d) and not init:
                        sub[d["name"]] = ("ring?",)
                        rest = ds[:i] + ds[i + 1:]
                        return self.seq(([{"kind": "DeclStmt", "inner": rest}] if rest else []) + R, sub, cont, retk)
            if k == "BinaryOperator" and s.get("opcode") == "=" and self.shm_open_call(s["inner"][1]) is not None:
                l0 = strip_all(s["inner"][0])
                if l0.get("kind") != "DeclRefExpr" or sub.get(l0["referencedDecl"]["name"], (None,))[0] not in ("ring?", "ring"):
                    raise L.LeafError("result of muggle_shm_open assigned to something that is not a ring pointer local")
                pre = self.open_stmts(self.shm_open_call(s["inner"][1]), sub)
                sub[l0["referencedDecl"]["name"]] = ("ring",)
                return pre + self.seq(R, sub, cont, retk)
            if k in ("ImplicitCastExpr", "CStyleCastExpr", "ParenExpr") and strip_all(s).get("kind") == "CallExpr":
                return self.seq([strip_all(s)] + R, sub, cont, retk)
            if k == "CallExpr":
                nm = self.callee(s)
                if nm == "memset":
                    a = s["inner"][1:]
                    if len(a) != 3 or not self.ring_valued(a[0], sub):
                        raise L.LeafError("memset of something that is not the ring")
                    v = self.static_int(a[1], sub)
                    try:
                        sz = self.as_bytes(a[2], sub)
                    except L.LeafError:
                        sz = None
                    if v is None or sz != (None, self.ring_size()):
                        raise L.LeafError("memset of the ring is not (ring, constant, sizeof(ring))")
                    byte = v & 0xFF
                    out = []
                    for f in OPEN_FIELDS:
                        out.append(assign(self.field(f), lit(byte * 0x01010101, "unsigned int")))
                    return out + self.seq(R, sub, cont, retk)
                if nm in EXTERN_SKIP:
                    a = s["inner"][1:]
                    ok = len(a) == 1
                    if ok:
                        p = strip_all(a[0])
                        ok = p.get("kind") == "UnaryOperator" and p.get("opcode") == "&" and \
                            strip_all(p["inner"][0]).get("kind") == "MemberExpr" and \
                            self.is_ring(self.member_base(strip_all(p["inner"][0])), sub) and \
                            strip_all(p["inner"][0]).get("name", "").endswith("_lock")
                    if not ok:
                        raise L.LeafError("%s is not applied to a lock field of the ring" % nm)
                    return self.seq(R, sub, cont, retk)
                if nm == "muggle_shm_open":
                    raise L.LeafError("result of muggle_shm_open dropped")
        return Slicer.seq(self, stmts, sub, cont, retk)

    def slice_open(self, name):
        f = self.fn(name)
        if f is None:
            raise L.LeafError("function %s not found in %s" % (name, self.src))
        self.uid = 0
        self.loops = []
        self.root = f
        self.preload(f)
        sub = {}
        parms = [{"kind": "ParmVarDecl", "name": OPEN_RING, "type": {"qualType": RING + " *"}}]
        for p in [c for c in f.get("inner", []) if c.get("kind") == "ParmVarDecl"]:
            if L.ctype(p) is not None:
                parms.append(p)
            elif qt(p).strip().endswith("*"):
                sub[p["name"]] = ("opaque",)
            else:
                raise L.LeafError("unsupported parameter type " + qt(p))

        def retk(e, s):
            if e is None:
                raise L.LeafError("return without a value")
            if _is_null(e):
                v = lit(0, "long")
            elif self.ring_valued(e, s):
                v = lit(1, "long")
            else:
                raise L.LeafError("returned pointer is neither NULL nor the ring")
            return [{"kind": "ReturnStmt", "inner": [v]}]
        body = self.seq([self.body_of(f)], sub, lambda s: [], retk)
        return {"kind": "FunctionDecl", "name": name, "type": {"qualType": "long (sliced)"},
                "inner": parms + [{"kind": "CompoundStmt", "inner": body}]}


class OpenTr(L.Tr):
    def ex(self, n, env):
        if n.get("kind") == "CallExpr":
            c = L.strip_ptr(n["inner"][0])
            if c.get("kind") == "DeclRefExpr" and c["referencedDecl"]["name"] in EXTERN_PURE:
                args = [self.z(a, env) for a in n["inner"][1:]]
                return ("(%s %s)" % (EXTERN_PURE[c["referencedDecl"]["name"]], " ".join(args)), "Z")
        return L.Tr.ex(self, n, env)


def translate_open(src, name, cflags, gname, sizeofs=None, enums=None):
    fn = OpenSlicer(src, cflags, sizeofs, enums).slice_open(name)
    t = OpenTr(fn, None, cflags)
    body = [c for c in fn["inner"] if c.get("kind") == "CompoundStmt"][0]
    t.all_written = []
    L.collect_written(body, t.all_written)
    for _ in range(3):
        t.all_written = sorted(set(t.all_written) | set(t.written))
        t.cnt = 0
        env = {p: p for p in t.params}
        code = t.stmts([body], env, "Z")
        if set(t.written) <= set(t.all_written):
            break
    code = re.sub(r"@FIELD:(\w+)@", r"\1", code)
    # every tracked field is an argument, whether this text touches it or not (stable signature)
    fields = sorted(set(k for k, a in t.fields) | set("f_" + f for f in OPEN_FIELDS + ["seg_bytes"]))
    if sorted(t.all_written) != fields:
        raise L.LeafError("fields written by %s are %s, expected %s" % (name, sorted(t.all_written), fields))
    args = ["(%s : Z)" % k for k in fields] + ["(%s : Z)" % p for p in t.params]
    text = "Definition %s %s :=\n  %s.\n" % (gname, " ".join(args), code)
    return text, fields, t.params
