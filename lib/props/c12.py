"""C12 — AES / DES / Triple-DES in ECB, CBC, CFB, OFB, CTR: plugin for bin/check.

Case script (both drivers, see harness/drivers/c12_driver.c):
  setkey <alg> <op> <mode> <bits> <keyhex|-> [nulls]
  state <ivhex> <off> <sbhex>
  crypt <fn> <align> <nulls> <hex | - | @start:len | #seed:len>
  use <slot> / share <slot>      (context slots 0..3: several contexts / interleaved streams; see the C driver)
  expect <hex>        (monitor only: concatenated output of the current phase so far)
"""
import glob
import os
import re
import subprocess
import vcommon as V

ID = "C12"
COQ_DIRS = ["C12"]
MODEL_BASE = "c12_model"
OCAML_DRIVER = "ocaml/c12_driver.ml"
C_DRIVER = "harness/drivers/c12_driver.c"
REPO_SOURCES = ["muggle/c/crypt/aes.c", "muggle/c/crypt/des.c", "muggle/c/crypt/tdes.c",
                "muggle/c/crypt/crypt_utils.c", "muggle/c/crypt/parity.c",
                "muggle/c/crypt/openssl/openssl_aes.c", "muggle/c/crypt/openssl/openssl_des.c",
                "muggle/c/crypt/internal/internal_aes.c", "muggle/c/crypt/internal/internal_des.c"]
HEADER_LINES = 0
SHRINK = False

# The extracted model recurses once per byte / per block (Peano `length`, non-tail-recursive list functions): a single
# call over a megabyte needs a few hundred MB of stack.  The drivers are children of the check process, so the stack
# limit is raised here, once, for everything this process starts (soft limit only, never above the hard limit).
try:
    import resource as _resource
    _soft, _hard = _resource.getrlimit(_resource.RLIMIT_STACK)
    _want = 8 << 30
    if _hard != _resource.RLIM_INFINITY:
        _want = min(_want, _hard)
    if _soft != _resource.RLIM_INFINITY and _soft < _want:
        _resource.setrlimit(_resource.RLIMIT_STACK, (_want, _hard))
except (ImportError, ValueError, OSError):
    pass
CASE_TIMEOUT = 10.0
MODEL_CASE_TIMEOUT = 240.0     # one call over more than 65536 blocks runs for a minute in the extracted model

# ---------------------------------------------------------------------------
# Independent reference: AES (FIPS-197), DES / TDEA (FIPS 46-3, SP 800-67) and the SP 800-38A
# modes in plain Python, written from the standards.  The speed-up tables (multiplication tables,
# SP boxes, byte-indexed permutations) are COMPUTED at import from the standards' own tables;
# nothing here comes from the Coq model or from the library.

# ---- AES -------------------------------------------------------------------

def _xtime(b):
    b <<= 1
    return (b ^ 0x11b) & 0xff if b & 0x100 else b


def _gmul(a, b):
    r = 0
    while b:
        if b & 1:
            r ^= a
        a = _xtime(a)
        b >>= 1
    return r


def _make_sbox():
    # FIPS-197 5.1.1: multiplicative inverse in GF(2^8), then the affine map
    inv = [0] * 256
    for a in range(1, 256):
        for x in range(1, 256):
            if _gmul(a, x) == 1:
                inv[a] = x
                break
    sb = []
    for a in range(256):
        x = inv[a]
        y = 0
        for i in range(8):
            bit = ((x >> i) ^ (x >> ((i + 4) % 8)) ^ (x >> ((i + 5) % 8)) ^ (x >> ((i + 6) % 8)) ^
                   (x >> ((i + 7) % 8)) ^ (0x63 >> i)) & 1
            y |= bit << i
        sb.append(y)
    return sb


AES_SBOX = _make_sbox()
AES_INV_SBOX = [0] * 256
for _i, _v in enumerate(AES_SBOX):
    AES_INV_SBOX[_v] = _i
assert AES_SBOX[0x00] == 0x63 and AES_SBOX[0x53] == 0xed and AES_SBOX[0xff] == 0x16
_M2 = [_gmul(x, 2) for x in range(256)]
_M3 = [_gmul(x, 3) for x in range(256)]
_M9 = [_gmul(x, 9) for x in range(256)]
_MB = [_gmul(x, 11) for x in range(256)]
_MD = [_gmul(x, 13) for x in range(256)]
_ME = [_gmul(x, 14) for x in range(256)]


def aes_expand_key(key):
    nk = len(key) // 4
    assert nk in (4, 6, 8) and len(key) == 4 * nk
    nr = nk + 6
    w = [list(key[4 * i:4 * i + 4]) for i in range(nk)]
    rc = 1
    for i in range(nk, 4 * (nr + 1)):
        t = list(w[i - 1])
        if i % nk == 0:
            t = t[1:] + t[:1]
            t = [AES_SBOX[x] for x in t]
            t[0] ^= rc
            rc = _xtime(rc)
        elif nk > 6 and i % nk == 4:
            t = [AES_SBOX[x] for x in t]
        w.append([a ^ b for a, b in zip(w[i - nk], t)])
    return [sum((w[4 * r + c] for c in range(4)), []) for r in range(nr + 1)]


# state index = r + 4c (FIPS-197 3.4)
_SHIFT = [(i % 4) + 4 * (((i // 4) + (i % 4)) % 4) for i in range(16)]
_INV_SHIFT = [(i % 4) + 4 * (((i // 4) - (i % 4)) % 4) for i in range(16)]


def aes_encrypt_block(rk, blk):
    s = [a ^ b for a, b in zip(blk, rk[0])]
    nr = len(rk) - 1
    for rnd in range(1, nr + 1):
        s = [AES_SBOX[x] for x in s]
        s = [s[j] for j in _SHIFT]
        if rnd != nr:
            t = []
            for c in range(4):
                a0, a1, a2, a3 = s[4 * c:4 * c + 4]
                t += [_M2[a0] ^ _M3[a1] ^ a2 ^ a3, a0 ^ _M2[a1] ^ _M3[a2] ^ a3,
                      a0 ^ a1 ^ _M2[a2] ^ _M3[a3], _M3[a0] ^ a1 ^ a2 ^ _M2[a3]]
            s = t
        k = rk[rnd]
        s = [a ^ b for a, b in zip(s, k)]
    return bytes(s)


def aes_decrypt_block(rk, blk):
    nr = len(rk) - 1
    s = [a ^ b for a, b in zip(blk, rk[nr])]
    for rnd in range(nr - 1, -1, -1):
        s = [s[j] for j in _INV_SHIFT]
        s = [AES_INV_SBOX[x] for x in s]
        s = [a ^ b for a, b in zip(s, rk[rnd])]
        if rnd != 0:
            t = []
            for c in range(4):
                a0, a1, a2, a3 = s[4 * c:4 * c + 4]
                t += [_ME[a0] ^ _MB[a1] ^ _MD[a2] ^ _M9[a3], _M9[a0] ^ _ME[a1] ^ _MB[a2] ^ _MD[a3],
                      _MD[a0] ^ _M9[a1] ^ _ME[a2] ^ _MB[a3], _MB[a0] ^ _MD[a1] ^ _M9[a2] ^ _ME[a3]]
            s = t
    return bytes(s)


# ---- DES -------------------------------------------------------------------
DES_IP = [58, 50, 42, 34, 26, 18, 10, 2, 60, 52, 44, 36, 28, 20, 12, 4,
          62, 54, 46, 38, 30, 22, 14, 6, 64, 56, 48, 40, 32, 24, 16, 8,
          57, 49, 41, 33, 25, 17, 9, 1, 59, 51, 43, 35, 27, 19, 11, 3,
          61, 53, 45, 37, 29, 21, 13, 5, 63, 55, 47, 39, 31, 23, 15, 7]
DES_FP = [40, 8, 48, 16, 56, 24, 64, 32, 39, 7, 47, 15, 55, 23, 63, 31,
          38, 6, 46, 14, 54, 22, 62, 30, 37, 5, 45, 13, 53, 21, 61, 29,
          36, 4, 44, 12, 52, 20, 60, 28, 35, 3, 43, 11, 51, 19, 59, 27,
          34, 2, 42, 10, 50, 18, 58, 26, 33, 1, 41, 9, 49, 17, 57, 25]
DES_E = [32, 1, 2, 3, 4, 5, 4, 5, 6, 7, 8, 9, 8, 9, 10, 11, 12, 13, 12, 13, 14, 15, 16, 17,
         16, 17, 18, 19, 20, 21, 20, 21, 22, 23, 24, 25, 24, 25, 26, 27, 28, 29, 28, 29, 30, 31, 32, 1]
DES_P = [16, 7, 20, 21, 29, 12, 28, 17, 1, 15, 23, 26, 5, 18, 31, 10,
         2, 8, 24, 14, 32, 27, 3, 9, 19, 13, 30, 6, 22, 11, 4, 25]
DES_PC1 = [57, 49, 41, 33, 25, 17, 9, 1, 58, 50, 42, 34, 26, 18, 10, 2, 59, 51, 43, 35, 27, 19, 11, 3, 60, 52, 44, 36,
           63, 55, 47, 39, 31, 23, 15, 7, 62, 54, 46, 38, 30, 22, 14, 6, 61, 53, 45, 37, 29, 21, 13, 5, 28, 20, 12, 4]
DES_PC2 = [14, 17, 11, 24, 1, 5, 3, 28, 15, 6, 21, 10, 23, 19, 12, 4, 26, 8, 16, 7, 27, 20, 13, 2,
           41, 52, 31, 37, 47, 55, 30, 40, 51, 45, 33, 48, 44, 49, 39, 56, 34, 53, 46, 42, 50, 36, 29, 32]
DES_SHIFTS = [1, 1, 2, 2, 2, 2, 2, 2, 1, 2, 2, 2, 2, 2, 2, 1]
DES_S = [
    [[14, 4, 13, 1, 2, 15, 11, 8, 3, 10, 6, 12, 5, 9, 0, 7], [0, 15, 7, 4, 14, 2, 13, 1, 10, 6, 12, 11, 9, 5, 3, 8],
     [4, 1, 14, 8, 13, 6, 2, 11, 15, 12, 9, 7, 3, 10, 5, 0], [15, 12, 8, 2, 4, 9, 1, 7, 5, 11, 3, 14, 10, 0, 6, 13]],
    [[15, 1, 8, 14, 6, 11, 3, 4, 9, 7, 2, 13, 12, 0, 5, 10], [3, 13, 4, 7, 15, 2, 8, 14, 12, 0, 1, 10, 6, 9, 11, 5],
     [0, 14, 7, 11, 10, 4, 13, 1, 5, 8, 12, 6, 9, 3, 2, 15], [13, 8, 10, 1, 3, 15, 4, 2, 11, 6, 7, 12, 0, 5, 14, 9]],
    [[10, 0, 9, 14, 6, 3, 15, 5, 1, 13, 12, 7, 11, 4, 2, 8], [13, 7, 0, 9, 3, 4, 6, 10, 2, 8, 5, 14, 12, 11, 15, 1],
     [13, 6, 4, 9, 8, 15, 3, 0, 11, 1, 2, 12, 5, 10, 14, 7], [1, 10, 13, 0, 6, 9, 8, 7, 4, 15, 14, 3, 11, 5, 2, 12]],
    [[7, 13, 14, 3, 0, 6, 9, 10, 1, 2, 8, 5, 11, 12, 4, 15], [13, 8, 11, 5, 6, 15, 0, 3, 4, 7, 2, 12, 1, 10, 14, 9],
     [10, 6, 9, 0, 12, 11, 7, 13, 15, 1, 3, 14, 5, 2, 8, 4], [3, 15, 0, 6, 10, 1, 13, 8, 9, 4, 5, 11, 12, 7, 2, 14]],
    [[2, 12, 4, 1, 7, 10, 11, 6, 8, 5, 3, 15, 13, 0, 14, 9], [14, 11, 2, 12, 4, 7, 13, 1, 5, 0, 15, 10, 3, 9, 8, 6],
     [4, 2, 1, 11, 10, 13, 7, 8, 15, 9, 12, 5, 6, 3, 0, 14], [11, 8, 12, 7, 1, 14, 2, 13, 6, 15, 0, 9, 10, 4, 5, 3]],
    [[12, 1, 10, 15, 9, 2, 6, 8, 0, 13, 3, 4, 14, 7, 5, 11], [10, 15, 4, 2, 7, 12, 9, 5, 6, 1, 13, 14, 0, 11, 3, 8],
     [9, 14, 15, 5, 2, 8, 12, 3, 7, 0, 4, 10, 1, 13, 11, 6], [4, 3, 2, 12, 9, 5, 15, 10, 11, 14, 1, 7, 6, 0, 8, 13]],
    [[4, 11, 2, 14, 15, 0, 8, 13, 3, 12, 9, 7, 5, 10, 6, 1], [13, 0, 11, 7, 4, 9, 1, 10, 14, 3, 5, 12, 2, 15, 8, 6],
     [1, 4, 11, 13, 12, 3, 7, 14, 10, 15, 6, 8, 0, 5, 9, 2], [6, 11, 13, 8, 1, 4, 10, 7, 9, 5, 0, 15, 14, 2, 3, 12]],
    [[13, 2, 8, 4, 6, 15, 11, 1, 10, 9, 3, 14, 5, 0, 12, 7], [1, 15, 13, 8, 10, 3, 7, 4, 12, 5, 6, 11, 0, 14, 9, 2],
     [7, 11, 4, 1, 9, 12, 14, 2, 0, 6, 10, 13, 15, 3, 5, 8], [2, 1, 14, 7, 4, 10, 8, 13, 15, 12, 9, 0, 3, 5, 6, 11]],
]
for _t, _n in ((DES_IP, 64), (DES_FP, 64), (DES_P, 32)):
    assert sorted(_t) == list(range(1, _n + 1))
assert all(sorted(r) == list(range(16)) for s in DES_S for r in s)
assert [DES_IP[DES_FP[i] - 1] for i in range(64)] == list(range(1, 65))


def _perm_int(x, table, nin):
    """bit 1 = most significant of an nin-bit integer (FIPS 46-3 numbering)."""
    r = 0
    for p in table:
        r = (r << 1) | ((x >> (nin - p)) & 1)
    return r


def _byte_tables(table, nin):
    """8-bit-sliced lookup tables for a bit permutation (computed from the standard's table)."""
    tabs = []
    for k in range(nin // 8):
        shift = nin - 8 * (k + 1)
        tabs.append([_perm_int(v << shift, table, nin) for v in range(256)])
    return tabs


_IP_T = _byte_tables(DES_IP, 64)
_FP_T = _byte_tables(DES_FP, 64)
# SP boxes: S-box output already moved through P, indexed by the 6-bit input
_SP = []
for _k in range(8):
    row = []
    for v in range(64):
        r = ((v >> 5) << 1) | (v & 1)
        c = (v >> 1) & 0xf
        out4 = DES_S[_k][r][c]
        row.append(_perm_int(out4 << (28 - 4 * _k), DES_P, 32))
    _SP.append(row)


def des_subkeys(key):
    k = int.from_bytes(key, "big")
    cd = _perm_int(k, DES_PC1, 64)
    c, d = cd >> 28, cd & 0xfffffff
    ks = []
    for s in DES_SHIFTS:
        c = ((c << s) | (c >> (28 - s))) & 0xfffffff
        d = ((d << s) | (d >> (28 - s))) & 0xfffffff
        ks.append(_perm_int((c << 28) | d, DES_PC2, 56))
    return ks


_E_T = _byte_tables(DES_E, 32)


def des_crypt_block(ks, blk):
    x = int.from_bytes(blk, "big")
    y = 0
    for k in range(8):
        y |= _IP_T[k][(x >> (56 - 8 * k)) & 0xff]
    l, r = y >> 32, y & 0xffffffff
    for sk in ks:
        e = (_E_T[0][r >> 24] | _E_T[1][(r >> 16) & 0xff] | _E_T[2][(r >> 8) & 0xff] | _E_T[3][r & 0xff]) ^ sk
        f = (_SP[0][(e >> 42) & 63] | _SP[1][(e >> 36) & 63] | _SP[2][(e >> 30) & 63] | _SP[3][(e >> 24) & 63] |
             _SP[4][(e >> 18) & 63] | _SP[5][(e >> 12) & 63] | _SP[6][(e >> 6) & 63] | _SP[7][e & 63])
        l, r = r, l ^ f
    x = (r << 32) | l
    y = 0
    for k in range(8):
        y |= _FP_T[k][(x >> (56 - 8 * k)) & 0xff]
    return y.to_bytes(8, "big")


class RefCipher:
    """block cipher with the key fixed: enc(block) / dec(block), block size bs."""

    def __init__(self, alg, key):
        self.alg = alg
        if alg == "aes":
            self.bs = 16
            rk = aes_expand_key(key)
            self.enc = lambda b: aes_encrypt_block(rk, b)
            self.dec = lambda b: aes_decrypt_block(rk, b)
        elif alg == "des":
            self.bs = 8
            ks = des_subkeys(key)
            rks = ks[::-1]
            self.enc = lambda b: des_crypt_block(ks, b)
            self.dec = lambda b: des_crypt_block(rks, b)
        else:
            self.bs = 8
            k1, k2, k3 = (des_subkeys(key[8 * i:8 * i + 8]) for i in range(3))
            r1, r2, r3 = k1[::-1], k2[::-1], k3[::-1]
            # SP 800-67: C = E_k3(D_k2(E_k1(P))),  P = D_k1(E_k2(D_k3(C)))
            self.enc = lambda b: des_crypt_block(k3, des_crypt_block(r2, des_crypt_block(k1, b)))
            self.dec = lambda b: des_crypt_block(r1, des_crypt_block(k2, des_crypt_block(r3, b)))


def _xor(a, b):
    return bytes(x ^ y for x, y in zip(a, b))


def ref_mode(ci, mode, encrypt, iv, data, off=0, sb=None):
    """SP 800-38A over a whole message (any length for the stream modes; the last
    segment is truncated).  iv: IV (CBC/CFB/OFB) or the library's counter block (CTR:
    little-endian integer incremented BEFORE each use, over the whole block width).
    off/sb describe a resumed stream: `off` bytes of the current keystream block were
    already used (CFB/OFB: that block is `iv` itself; CTR: it is `sb`)."""
    bs = ci.bs
    out = bytearray()
    if mode == "ecb":
        for i in range(0, len(data), bs):
            out += (ci.enc if encrypt else ci.dec)(data[i:i + bs])
        return bytes(out)
    if mode == "cbc":
        prev = iv
        for i in range(0, len(data), bs):
            blk = data[i:i + bs]
            if encrypt:
                prev = ci.enc(_xor(blk, prev))
                out += prev
            else:
                out += _xor(ci.dec(blk), prev)
                prev = blk
        return bytes(out)
    pos = 0
    if mode == "cfb":
        reg = iv
        if off:
            n = min(bs - off, len(data))
            seg = data[:n]
            o = _xor(seg, reg[off:off + n])
            out += o
            c = o if encrypt else seg
            reg = reg[:off] + c + reg[off + n:]
            pos = n
            # a partial register is only meaningful if the stream ends here or the block completes
        while pos < len(data):
            seg = data[pos:pos + bs]
            o = _xor(seg, ci.enc(reg)[:len(seg)])
            out += o
            reg = o if encrypt else seg
            pos += len(seg)
        return bytes(out)
    if mode == "ofb":
        reg = iv
        if off:
            n = min(bs - off, len(data))
            out += _xor(data[:n], reg[off:off + n])
            pos = n
        while pos < len(data):
            reg = ci.enc(reg)
            seg = data[pos:pos + bs]
            out += _xor(seg, reg[:len(seg)])
            pos += len(seg)
        return bytes(out)
    if mode == "ctr":
        ctr = int.from_bytes(iv, "little")
        if off:
            n = min(bs - off, len(data))
            out += _xor(data[:n], sb[off:off + n])
            pos = n
        while pos < len(data):
            ctr = (ctr + 1) % (1 << (8 * bs))
            ks = ci.enc(ctr.to_bytes(bs, "little"))
            seg = data[pos:pos + bs]
            out += _xor(seg, ks[:len(seg)])
            pos += len(seg)
        return bytes(out)
    raise ValueError(mode)

# ---------------------------------------------------------------------------
# parameters re-extracted from the working tree on every run -> coq/gen/Params_C12.v
# (tables of openssl_des.c through a C program that #includes the file; PERM_OP argument lists,
#  D_ENCRYPT lookup order, shift schedule and the bitsliced AES S-box circuits from the source text)

def _cexpr_tokens(s):
    return re.findall(r"0[xX][0-9a-fA-F]+[uUlL]*|\d+[uUlL]*|[A-Za-z_][\w.]*|<<|>>|[()^&|~*+\-=;]", s)

class _P:
    """C expressions over & ^ | << >> with constants and identifiers -> Bitvec.exp (C precedence)"""
    def __init__(self, toks, width, var):
        self.t, self.i, self.w, self.var = toks, 0, width, var
    def peek(self): return self.t[self.i] if self.i < len(self.t) else None
    def eat(self, x=None):
        tok = self.peek()
        if x is not None and tok != x: raise ValueError("expected %r got %r" % (x, tok))
        self.i += 1; return tok
    def expr(self): return self.p_or()
    def p_or(self):
        a = self.p_xor()
        while self.peek() == "|": self.eat(); a = "(Or %s %s)" % (a, self.p_xor())
        return a
    def p_xor(self):
        a = self.p_and()
        while self.peek() == "^": self.eat(); a = "(Xor %s %s)" % (a, self.p_and())
        return a
    def p_and(self):
        a = self.p_shift()
        while self.peek() == "&": self.eat(); a = "(And %s %s)" % (a, self.p_shift())
        return a
    def p_shift(self):
        a = self.p_atom()
        while self.peek() in ("<<", ">>"):
            op = self.eat(); k = self.eat()
            if not re.match(r"\d+$", k): raise ValueError("shift amount %r" % k)
            a = "(Shl %d %s %s)" % (self.w, a, k) if op == "<<" else "(Shr %s %s)" % (a, k)
        return a
    def p_atom(self):
        tok = self.eat()
        if tok == "(":
            a = self.expr(); self.eat(")"); return a
        m = re.match(r"(0[xX][0-9a-fA-F]+|\d+)[uUlL]*$", tok)
        if m: return "(Cst %d)" % int(m.group(1), 0)
        if re.match(r"[A-Za-z_][\w.]*$", tok): return "(Var %d)" % self.var(tok)
        raise ValueError("unexpected token %r" % tok)

def _rename(e, f):
    return re.sub(r"\(Var (\d+)\)", lambda m: "(Var %d)" % f(int(m.group(1))), e)


def translate_straightline(body, width, inp=r"\*\s*w", calls=None):
    """body of the form  T x, y, ...;  x = <inp>;  v = e; v op= e; ... <inp> = x;  -> list of (var, exp), out var, #vars.
    Union views A.b[i] of a uint64_t A.d (little-endian host) and calls f(&v) of already translated circuits
    (calls: name -> (stmts, out, nvars)) are expanded in place."""
    names = {}
    def var(n):
        if n not in names: names[n] = len(names)
        return names[n]
    var("IN")                       # variable 0 = the word on entry
    stmts = []
    out = None
    for st in body.split(";"):
        st = st.strip()
        if not st: continue
        if re.match(r"(uint32_t|uint64_t)\s", st):
            for n in re.sub(r"^(uint32_t|uint64_t)\s+", "", st).split(","): var(n.strip())
            continue
        if re.match(r"(openssl_uni|int)\s+\w+$", st): continue
        m = re.match(r"([\w.]+)\s*=\s*" + inp + r"$", st)
        if m: stmts.append((var(m.group(1)), "(Var 0)")); continue
        m = re.match(inp + r"\s*=\s*([\w.]+)$", st)
        if m: out = var(m.group(1)); continue
        m = re.match(r"(\w+)\s*\(\s*&\s*([\w.]+)\s*\)$", st)
        if m:
            if not calls or m.group(1) not in calls: raise ValueError("call of %s" % m.group(1))
            cst, cout, cn = calls[m.group(1)]
            tgt = var(m.group(2)); base = len(names)
            for k in range(1, cn): var("%s#%d#%d" % (m.group(1), len(stmts), k))
            f = lambda v: tgt if v == 0 else base + v - 1
            for v, e in cst: stmts.append((f(v), _rename(e, f)))
            stmts.append((tgt, "(Var %d)" % f(cout)))
            continue
        m = re.match(r"(\w+)\.b\[(\d)\]\s*\^=\s*(\w+)\.b\[(\d)\]$", st)
        if m:
            a, i, b, j = var(m.group(1) + ".d"), int(m.group(2)), var(m.group(3) + ".d"), int(m.group(4))
            stmts.append((a, "(Xor (Var %d) (Shl %d (And (Shr (Var %d) %d) (Cst 255)) %d))" % (a, width, b, 8 * j, 8 * i)))
            continue
        m = re.match(r"([\w.]+)\s*(\^=|&=|\|=|-=|=)\s*(.*)$", st, re.S)
        if not m: raise ValueError("statement not understood: %r" % st)
        v, op, rhs = var(m.group(1)), m.group(2), m.group(3)
        p = _P(_cexpr_tokens(rhs), width, var); e = p.expr()
        if p.peek() is not None: raise ValueError("trailing tokens in %r" % st)
        if op == "-=":
            e = "(Sub %d (Var %d) %s)" % (width, v, e)
        elif op != "=":
            e = "(%s (Var %d) %s)" % ({"^=": "Xor", "&=": "And", "|=": "Or"}[op], v, e)
        stmts.append((v, e))
    if out is None: raise ValueError("no store of the result")
    return stmts, out, len(names)


def loop_body(body):
    """the statements inside the single for (...) { ... } of a function body"""
    m = re.search(r"for\s*\([^)]*\)\s*\{", body)
    if not m: raise ValueError("no for loop")
    i = m.end(); depth = 1
    while depth:
        if body[i] == "{": depth += 1
        elif body[i] == "}": depth -= 1
        i += 1
    return body[m.end():i - 1]


def function_def(src, name):
    """(parameter text, body without comments) of  static void name(...) { ... }"""
    m = re.search(r"static\s+void\s+" + name + r"\s*\(([^)]*)\)\s*\{", src)
    if not m: raise ValueError("function %s not found" % name)
    i = m.end(); depth = 1
    while depth:
        if src[i] == "{": depth += 1
        elif src[i] == "}": depth -= 1
        i += 1
    return m.group(1), re.sub(r"/\*.*?\*/", "", src[m.end():i - 1], flags=re.S)


def function_body(src, name):
    return function_def(src, name)[1]


_inline_counter = [0]


def inline_helpers(body, src, keep, depth=0):
    """Follow calls to same-file static helpers in a straight-line body: the callee's statements are
    substituted for the call, pointer parameters bound to the caller's objects (f(&s, &s1): p->d becomes
    s.d, *p becomes s, a pointer passed on becomes &s), value parameters replaced by the argument
    expression, the callee's locals renamed apart.  Calls of the functions in `keep` (circuits that are
    translated on their own and expanded at the level of the word language) are left alone; so are
    statements that are not calls of a static void function of this file.  Depth is bounded."""
    out = []
    for st in body.split(";"):
        t = st.strip()
        m = re.match(r"(\w+)\s*\((.*)\)$", t, re.S)
        if not m or m.group(1) in keep or m.group(1) in ("for", "if", "while", "switch", "memcpy", "return"):
            out.append(st); continue
        try:
            params, cbody = function_def(src, m.group(1))
        except ValueError:
            out.append(st); continue
        if depth >= 4: raise ValueError("helper calls nested deeper than 4 at %s" % m.group(1))
        args = [x.strip() for x in m.group(2).split(",")] if m.group(2).strip() else []
        pars = [x.strip() for x in params.split(",")] if params.strip() and params.strip() != "void" else []
        if len(args) != len(pars): raise ValueError("call of %s: %d arguments for %d parameters" % (m.group(1), len(args), len(pars)))
        if re.search(r"\b(for|while|if|switch|return|goto)\b", cbody):
            raise ValueError("helper %s is not straight-line code" % m.group(1))
        _inline_counter[0] += 1
        tag = "__%d" % _inline_counter[0]
        # rename the callee's locals apart
        for dm in re.finditer(r"(?:^|;)\s*(?:uint32_t|uint64_t|openssl_uni|int|unsigned char)\s+([^;()]+)", cbody):
            for v in dm.group(1).split(","):
                v = v.strip().lstrip("*").strip()
                if re.match(r"[A-Za-z_]\w*$", v):
                    cbody = re.sub(r"\b%s\b" % v, v + tag, cbody)
        for par, arg in zip(pars, args):
            pm = re.match(r"(?:const\s+)?[\w ]+?(\*?)\s*(\w+)$", par)
            if not pm: raise ValueError("parameter %r of %s" % (par, m.group(1)))
            is_ptr, pn = pm.group(1) == "*", pm.group(2)
            if is_ptr:
                if not arg.startswith("&"): raise ValueError("pointer argument %r of %s is not the address of an object" % (arg, m.group(1)))
                obj = arg[1:].strip()
                cbody = re.sub(r"\b%s\s*->\s*" % pn, obj + ".", cbody)
                cbody = re.sub(r"\*\s*%s\b" % pn, obj, cbody)
                cbody = re.sub(r"\b%s\b(?!\.)" % pn, "&" + obj, cbody)
            else:
                cbody = re.sub(r"\b%s\b" % pn, "(" + arg + ")", cbody)
        out.append(inline_helpers(cbody, src, keep, depth + 1))
    return ";".join(out)


def scan_tdes_set_key(src):
    """Narrow source scan (regular expressions over the comment-free text, not the clang AST) of the body of
    muggle_tdes_set_key: returns (foreign, targets).  `foreign` lists everything that is not one of: argument
    checks (MUGGLE_CHECK_RET / MUGGLE_ASSERT_MSG), int / key-pointer locals computed from the parameters,
    ctx->op / ctx->mode, switch / case / if / else / break / return, and calls
    muggle_des_set_key(<op>, <mode>, <key pointer>, &ctx->ctxN).  Any other call (a key comparison helper,
    memcpy, ...), any loop, any indexing, any other use of ctx->ctxN or store through ctx is foreign: the three
    contexts must be produced by three key-schedule calls and nothing else.  `targets` = the N that occur."""
    m = re.search(r"\bint\s+muggle_tdes_set_key\s*\([^)]*\)\s*\{", src)
    if not m: raise ValueError("muggle_tdes_set_key not found")
    i = m.end(); depth = 1
    while depth:
        if src[i] == "{": depth += 1
        elif src[i] == "}": depth -= 1
        i += 1
    body = src[m.end():i - 1]
    body = re.sub(r"/\*.*?\*/", " ", body, flags=re.S)
    body = re.sub(r"//[^\n]*", " ", body)
    body = re.sub(r'"(?:[^"\\\\]|\\\\.)*"', '""', body)
    foreign = []
    allowed_calls = {"muggle_des_set_key", "MUGGLE_CHECK_RET", "MUGGLE_ASSERT_MSG", "if", "switch", "return"}
    for cm in re.finditer(r"\b([A-Za-z_]\w*)\s*\(", body):
        if cm.group(1) not in allowed_calls:
            foreign.append("call of %s" % cm.group(1))
    for kw in re.findall(r"\b(for|while|do|goto)\b", body):
        foreign.append("loop / jump: %s" % kw)
    if "[" in body:
        foreign.append("array indexing")
    calls = re.findall(r"muggle_des_set_key\s*\(\s*[^;]*?,\s*[^;,]*?,\s*([A-Za-z_]\w*)\s*,\s*&\s*ctx\s*->\s*ctx([123])\s*\)", body)
    if len(calls) != len(re.findall(r"\bmuggle_des_set_key\b", body)):
        foreign.append("muggle_des_set_key call whose key / context arguments are not <pointer>, &ctx->ctxN")
    nctx = len(re.findall(r"\bctx\s*->\s*ctx[123]\b", body))
    if nctx != len(calls):
        foreign.append("ctx->ctxN used outside a muggle_des_set_key call (%d uses, %d calls)" % (nctx, len(calls)))
    for am in re.finditer(r"\bctx\s*->\s*(\w+)\s*(?:[-+*/|&^]|<<|>>)?=(?!=)", body):
        if am.group(1) not in ("op", "mode"):
            foreign.append("store to ctx->%s" % am.group(1))
    if re.search(r"\*\s*ctx\b|\bctx\s*\[", body):
        foreign.append("ctx dereferenced as a whole")
    seen = []
    for f in foreign:
        if f not in seen: seen.append(f)
    return seen, sorted(set(int(n) for _, n in calls))


def gen_params_text(repo, gen_inc, builddir):
    """Never raises for something it cannot read in the sources: the failure becomes a comment and a
    definition that does not type-check in the generated file, i.e. a broken proof obligation whose Coq
    error message carries the reason."""
    des_c = os.path.join(repo, "muggle/c/crypt/openssl/openssl_des.c")
    aes_c = os.path.join(repo, "muggle/c/crypt/openssl/openssl_aes.c")
    fails = []

    def attempt(label, f, fallback):
        try:
            return f()
        except Exception as e:          # noqa: BLE001 - every extraction failure is reported the same way
            fails.append("%s: %s" % (label, str(e).strip().replace("\n", " ")[:300]))
            return fallback

    def tables():
        os.makedirs(builddir, exist_ok=True)
        src = os.path.join(builddir, "c12_params.c")
        with open(src, "w") as f:
            f.write('#include <stdio.h>\n#include "%s"\n' % des_c)
            f.write('int main(void){int i,j;'
                    'for(i=0;i<8;i++){for(j=0;j<64;j++)printf("%lu ",(unsigned long)openssl_des_sptrans[i][j]);printf("\\n");}'
                    'for(i=0;i<8;i++){for(j=0;j<64;j++)printf("%lu ",(unsigned long)openssl_des_skb[i][j]);printf("\\n");}'
                    'return 0;}\n')
        exe = os.path.join(builddir, "c12_params")
        p = subprocess.run(["gcc", "-std=gnu11", "-w", "-DNDEBUG", "-DMUGGLE_C_EXPORTS", "-I" + repo, "-I" + gen_inc, src,
                            os.path.join(repo, "muggle/c/crypt/parity.c"), "-o", exe], capture_output=True, text=True, timeout=120)
        if p.returncode != 0: raise ValueError("cannot compile the table extractor: " + p.stderr[-400:])
        out = subprocess.run([exe], capture_output=True, text=True, timeout=20).stdout.strip().split("\n")
        rows = [[int(x) for x in ln.split()] for ln in out]
        if len(rows) != 16 or any(len(r) != 64 for r in rows): raise ValueError("unexpected table shape")
        return rows
    rows = attempt("openssl_des_sptrans / openssl_des_skb", tables, [[] for _ in range(16)])
    dsrc = open(des_c).read()

    def macro_body(name):
        m = re.search(r"#define\s+" + name + r"\b.*?\n((?:.*\\\n)*.*\n)", dsrc)
        if not m: raise ValueError("macro %s not found" % name)
        return m.group(0)

    def perm_ops(text):
        return [m.groups() for m in re.finditer(
            r"MUGGLE_OPENSSL_DES_(H?)PERM_OP\(\s*(\w+)\s*,\s*(\w+)\s*,(?:\s*(\w+)\s*,)?\s*(-?\d+)\s*,\s*(0x[0-9a-fA-F]+)L?\s*\)", text)]

    def enc_ops(ops):     # (a is the macro's r?, n, mask)
        return "[" + "; ".join("(%s, %d%%nat, %d)" % ("true" if a == "r" else "false", int(n), int(mk, 16)) for (h, a, b, t, n, mk) in ops) + "]"

    def ipfp(name):
        ops = perm_ops(macro_body(name))
        if len(ops) != 5: raise ValueError("expected 5 PERM_OPs, found %d" % len(ops))
        return enc_ops(ops)
    ip = attempt("MUGGLE_OPENSSL_DES_IP", lambda: ipfp("MUGGLE_OPENSSL_DES_IP"), "[]")
    fp = attempt("MUGGLE_OPENSSL_DES_FP", lambda: ipfp("MUGGLE_OPENSSL_DES_FP"), "[]")

    def pc1():
        sk = dsrc[dsrc.index("void muggle_openssl_des_set_key_unchecked"):]
        sk = sk[:sk.index("d = (((d &")]
        o = []
        for (h, a, b, t, n, mk) in perm_ops(sk):
            if h:   # HPERM_OP(a, t, n, m): groups: a=var, b=t
                o.append("inr (%s, %d%%nat, %d)" % ("true" if a == "d" else "false", 16 - int(n), int(mk, 16)))
            else:
                o.append("inl (%s, %d%%nat, %d)" % ("true" if a == "d" else "false", int(n), int(mk, 16)))
        if not o: raise ValueError("no PERM_OP / HPERM_OP found before the d fix-up")
        return "[" + "; ".join(o) + "]"
    pc1ops = attempt("DES_set_key_unchecked PC-1", pc1, "[]")

    def lookups():
        looks = re.findall(r"openssl_des_sptrans\[(\d)\]\[\((u|t)>>\s*(\d+)L\)&0x3f\]", macro_body("MUGGLE_OPENSSL_D_ENCRYPT"))
        if len(looks) != 8: raise ValueError("expected 8 table lookups, found %d" % len(looks))
        return "[%s]" % "; ".join("(%s%%nat, %s, %s%%nat)" % (t, "true" if v == "t" else "false", s) for t, v, s in looks)
    looks = attempt("MUGGLE_OPENSSL_D_ENCRYPT", lookups, "[]")

    def rotations():
        # evaluated from the index arithmetic of the C text (clang AST), whatever way the amounts are written
        from props import c12_slice as S
        flags = ["-std=gnu11", "-I" + repo, "-I" + gen_inc, "-DNDEBUG", "-DMUGGLE_C_EXPORTS"]
        r, l = S.rotation_schedule(des_c, "muggle_openssl_des_set_key_unchecked", flags)
        if any(not (0 <= x < 32) for x in r + l): raise ValueError("rotation amount outside 0..31")
        return "[%s]%%nat" % ";".join(map(str, r)), "[%s]%%nat" % ";".join(map(str, l))
    sh1, sh2 = attempt("key-schedule rotation amounts", rotations, ("[]", "[]"))

    def tab(name, rs):
        return "Definition %s : list (list N) :=\n  [ %s ].\n" % (name, ";\n    ".join("[" + ";".join(str(v) for v in r) + "]" for r in rs))
    txt = ["(* GENERATED by lib/props/c12.py gen_params from muggle/c/crypt/openssl/openssl_des.c and openssl_aes.c",
           "   on every run; do not edit.  Tables are printed by a C program that #includes the .c file; the",
           "   PERM_OP sequences, lookup order and the straight-line circuits are read from the source text; the per-round rotation",
           "   amounts of the DES key schedule are evaluated from the index arithmetic of the clang AST (lib/props/c12_slice.py",
           "   rotation_schedule: two tables, one table and 28 - n, a bit mask with if / else ... give the same lists)",
           "   (calls of same-file static helpers are followed). *)",
           "From Coq Require Import List NArith ZArith Bool String.", "From MV Require Import C12.Bitvec Lib.Leaf.", "Import ListNotations.", "Local Open Scope N_scope.", "",
           tab("des_sptrans", rows[:8]), tab("des_skb", rows[8:]),
           "(* (first macro argument is r, shift n, mask m) for each PERM_OP(a,b,tt,n,m) *)",
           "Definition des_ip_ops : list (bool * nat * N) := %s." % ip,
           "Definition des_fp_ops : list (bool * nat * N) := %s." % fp,
           "(* set_key: inl (a is d, n, m) = PERM_OP(a,b,t,n,m); inr (a is d, 16-n, m) = HPERM_OP(a,t,n,m) *)",
           "Definition des_pc1_ops : list (bool * nat * N + bool * nat * N) := %s." % pc1ops,
           "(* D_ENCRYPT: (table, index taken from t (true) or u (false), right shift) *)",
           "Definition des_round_lookups : list (nat * bool * nat) := %s." % looks,
           "Definition des_shifts1 : list nat := %s." % sh1,
           "Definition des_shifts2 : list nat := %s." % sh2, ""]
    asrc = open(aes_c).read()
    done = {}

    def emit(fn, res):
        stmts, outv, nv = res
        nm = fn.replace("openssl_", "aes_")
        txt.append("Definition %s_prog : prog :=\n  [ %s ].\nDefinition %s_out : nat := %d%%nat.\n" % (
            nm, ";\n    ".join("(%d%%nat, %s)" % (v, e) for v, e in stmts), nm, outv))
    circuits = ("openssl_sub_u64", "openssl_inv_sub_u64", "openssl_sub_u32", "openssl_xtime_u64", "openssl_xtime_u32")
    for fn, w in zip(circuits, (64, 64, 32, 64, 32)):
        res = attempt(fn, lambda: translate_straightline(inline_helpers(function_body(asrc, fn), asrc, circuits), w), ([], 0, 1))
        done[fn] = res
        emit(fn, res)
    # one iteration of the column loop of (inv_)mix_columns: state[c] in, state[c] out, xtime expanded in place
    for fn in ("openssl_mix_columns", "openssl_inv_mix_columns"):
        emit(fn, attempt(fn, lambda: translate_straightline(
            inline_helpers(loop_body(function_body(asrc, fn)), asrc, circuits), 64, inp=r"state\[c\]", calls=done), ([], 0, 1)))
    # muggle_tdes_set_key: only argument checks and three key-schedule calls (narrow source scan)
    tsrc = open(os.path.join(repo, "muggle/c/crypt/tdes.c")).read()
    foreign, targets = attempt("muggle_tdes_set_key", lambda: scan_tdes_set_key(tsrc), (["scan failed"], []))
    txt.append("(* muggle_tdes_set_key (tdes.c): statements that are neither argument checks nor")
    txt.append("   muggle_des_set_key(<op>, <mode>, <key>, &ctx->ctxN) calls; the contexts these calls fill *)")
    txt.append("Definition tdes_set_key_foreign : list string := [%s]." % "; ".join('"%s"%%string' % f.replace('"', '""') for f in foreign))
    txt.append("Definition tdes_set_key_targets : list nat := [%s]%%nat.\n" % ";".join(map(str, targets)))
    txt += setkey_text_params(repo, gen_inc, builddir, attempt)
    for k, msg in enumerate(fails):
        txt.append("(* EXTRACTION FAILED: %s *)" % msg.replace("*)", "* )").replace("(*", "( *"))
        txt.append('Definition extraction_failed_%d : ("%s" = "")%%string := eq_refl.\n' % (k + 1, msg.replace('"', '""')))
    return "\n".join(txt)


# the parameter-validation front of the set_key entry points, re-translated from the C text on every run
# (lib/props/c12_slice.py): (repo file, function, scalar fields of its structure parameter, opaque callees, call slots)
SETKEY_FUNCS = [
    ("muggle/c/crypt/openssl/openssl_aes.c", "muggle_openssl_aes_set_key", ["rounds"], ["openssl_key_expansion"], 1),
    ("muggle/c/crypt/aes.c", "muggle_aes_set_key", ["op", "mode"], ["muggle_openssl_aes_set_key"], 1),
    ("muggle/c/crypt/des.c", "muggle_des_set_key", ["op", "mode"], ["muggle_des_set_key_inner"], 1),
]
SETKEY_ENUMS = ["MUGGLE_OK", "MUGGLE_ERR_NULL_PARAM", "MUGGLE_ERR_INVALID_PARAM", "MUGGLE_ERR_CRYPT_KEY_SIZE",
                "MUGGLE_DECRYPT", "MUGGLE_ENCRYPT", "MUGGLE_BLOCK_CIPHER_MODE_ECB", "MUGGLE_BLOCK_CIPHER_MODE_CBC",
                "MUGGLE_BLOCK_CIPHER_MODE_CFB", "MUGGLE_BLOCK_CIPHER_MODE_OFB", "MUGGLE_BLOCK_CIPHER_MODE_CTR",
                "MAX_MUGGLE_BLOCK_CIPHER_MODE"]
SETKEY_HEADERS = ["muggle/c/base/err.h", "muggle/c/crypt/aes.h", "muggle/c/crypt/des.h", "muggle/c/crypt/tdes.h"]


def setkey_text_params(repo, gen_inc, builddir, attempt):
    """Lines for Params_C12.v: the enumeration values the set_key functions compare with / return, and the three
    functions as Gallina terms over Z (gen_<name>) with the pointer arguments of their key-schedule calls
    (gen_<name>_ptrargs).  A function that cannot be translated becomes a definition of the wrong type (unit) plus
    an extraction_failed_<k> definition: the obligations about it no longer type-check."""
    from props import c12_slice as S
    flags = ["-std=gnu11", "-I" + repo, "-I" + gen_inc, "-DNDEBUG", "-DMUGGLE_C_EXPORTS"]
    bd = builddir
    out = ["", "(* ---- parameter validation of the set_key entry points, translated from the C text of this run by",
           "   lib/props/c12_slice.py (clang JSON AST -> Gallina over Z, see that file for the conventions):",
           "   arguments f_<field> (entry values of the scalar fields, sorted), nn_<pointer parameter> (0 = NULL), the integer",
           "   parameters, ores_k (value returned by the k-th key-schedule call); result (return value, final fields,",
           "   call slot = (callee index or 0, its integer arguments, padded with 0)) ---- *)",
           "Local Open Scope Z_scope."]
    vals = attempt("enumeration values", lambda: S.enum_values(SETKEY_ENUMS, SETKEY_HEADERS, flags, bd), {})
    for n in SETKEY_ENUMS:
        if n in vals:
            out.append("Definition enum_%s : Z := %d." % (n, vals[n]))
        else:
            out.append("Definition enum_%s : unit := tt." % n)
    out.append("")
    for src, name, fields, opaque, nslots in SETKEY_FUNCS:
        res = attempt(name, lambda: S.translate(os.path.join(repo, src), name, flags, "gen_" + name, fields, opaque, nslots,
                                                SETKEY_HEADERS, bd), None)
        if res is None:
            out.append("Definition gen_%s : unit := tt.\nDefinition gen_%s_ptrargs : list string := [].\n" % (name, name))
        else:
            out.append(res[0].rstrip("\n"))
            out.append("Definition gen_%s_ptrargs : list string := [%s].\n" % (
                name, "; ".join('"%s"%%string' % a for a in res[1])))
    out.append("Local Close Scope Z_scope.")
    return out


def gen_params(ctx):
    V.gen_config_header()
    return gen_params_text(V.REPO, V.GEN_INC, os.path.join(V.BUILD, "C12"))


# ---------------------------------------------------------------------------
# script helpers

ALGS = [("aes", 128), ("aes", 192), ("aes", 256), ("des", 64), ("tdes", 192)]
MODES = ["ecb", "cbc", "cfb", "ofb", "ctr"]
BS = {"aes": 16, "des": 8, "tdes": 8}

# FIPS 74 / SP 800-67 3.4.2: the 4 weak and the 6 pairs of semi-weak DES keys
DES_WEAK = ["0101010101010101", "fefefefefefefefe", "e0e0e0e0f1f1f1f1", "1f1f1f1f0e0e0e0e"]
DES_SEMI_WEAK = ["01fe01fe01fe01fe", "fe01fe01fe01fe01", "1fe01fe00ef10ef1", "e01fe01ff10ef10e",
                 "01e001e001f101f1", "e001e001f101f101", "1ffe1ffe0efe0efe", "fe1ffe1ffe0efe0e",
                 "011f011f010e010e", "1f011f010e010e01", "e0fee0fef1fef1fe", "fee0fee0fef1fef1"]


def _hx(b):
    return b.hex() if b else "-"


def _rbytes(rng, n):
    out = bytearray()
    while len(out) < n:
        out += rng.next().to_bytes(8, "little")
    return bytes(out[:n])


def gen_key(rng, alg, bits, kind=None):
    n = {"aes": bits // 8, "des": 8, "tdes": 24}[alg]
    kind = kind or rng.choice(["rand", "rand", "rand", "zero", "one", "bit", "weak", "struct"])
    if kind == "zero":
        return bytes(n)
    if kind == "one":
        return b"\xff" * n
    if kind == "bit":
        k = bytearray(n)
        p = rng.below(8 * n)
        k[p // 8] = 0x80 >> (p % 8)
        return bytes(k)
    if kind == "weak" and alg != "aes":
        ks = DES_WEAK + DES_SEMI_WEAK
        return b"".join(bytes.fromhex(rng.choice(ks)) for _ in range(n // 8))
    if kind == "struct" and alg == "tdes":
        k1, k2 = _rbytes(rng, 8), _rbytes(rng, 8)
        return rng.choice([k1 + k1 + k1, k1 + k2 + k1, k1 + k1 + k2])
    return _rbytes(rng, n)


def gen_iv(rng, mode, bs):
    kind = rng.choice(["rand", "rand", "zero", "one", "edge", "edge"])
    if kind == "zero":
        return bytes(bs)
    if kind == "one":
        return b"\xff" * bs
    if kind == "edge":
        lo = rng.choice([2 ** 64 - 1, 2 ** 64 - 2, 2 ** 64 - 3, 0, 2 ** 32 - 1]).to_bytes(8, "little")
        if bs == 8:
            return lo
        hi = rng.choice([b"\xff" * 8, bytes(8), _rbytes(rng, 8), (2 ** 64 - 2).to_bytes(8, "little")])
        return lo + hi
    return _rbytes(rng, bs)


def gen_msg(rng, n):
    k = rng.below(10)
    if k == 0:
        return bytes(n)
    if k == 1:
        return b"\xff" * n
    return _rbytes(rng, n)


def partition(rng, n, unit, nchunks):
    """cut [0,n) into nchunks pieces at multiples of unit (pieces may be empty)"""
    cuts = sorted(rng.below(n // unit + 1) * unit for _ in range(nchunks - 1))
    pts = [0] + cuts + [n]
    return [(pts[i], pts[i + 1] - pts[i]) for i in range(nchunks)]


def phase_lines(rng, alg, bits, op, mode, key, iv, data_len, data=None, off=0, sb=None, max_chunks=8):
    """one keyed phase over a message of data_len bytes; data=None -> @slices of the previous phase"""
    bs = BS[alg]
    lines = ["setkey %s %s %s %d %s" % (alg, op, mode, bits, _hx(key))]
    if mode != "ecb":
        lines.append("state %s %d %s" % (_hx(iv), off, _hx(sb if sb is not None else bytes(bs))))
    unit = bs if mode in ("ecb", "cbc") else 1
    for (s, l) in partition(rng, data_len, unit, rng.range(1, max_chunks)):
        al = rng.choice([0, 0, 1, 2, 3, 4, 5, 7])
        src = _hx(data[s:s + l]) if data is not None else "@%d:%d" % (s, l)
        lines.append("crypt %s %d - %s" % (mode, al, src))
    return lines


def roundtrip_case(rng, name, alg, bits, mode, first_op, n, key=None, iv=None, msg=None, off=0):
    bs = BS[alg]
    key = key if key is not None else gen_key(rng, alg, bits)
    iv = iv if iv is not None else gen_iv(rng, mode, bs)
    if mode in ("ecb", "cbc"):
        n -= n % bs
        off = 0
    msg = msg if msg is not None else gen_msg(rng, n)
    sb = _rbytes(rng, bs) if off else bytes(bs)
    second = "dec" if first_op == "enc" else "enc"
    lines = phase_lines(rng, alg, bits, first_op, mode, key, iv, n, msg, off, sb)
    lines += phase_lines(rng, alg, bits, second, mode, key, iv, n, None, off, sb)
    return V.Case(name, lines, {"alg": alg, "bits": bits, "mode": mode, "n": n, "kind": "roundtrip"})


def invalid_case(rng, name):
    """parameter rejection: one valid context, then calls that must be refused, then a valid call
    showing that nothing changed"""
    alg, bits = rng.choice(ALGS)
    mode = rng.choice(MODES)
    bs = BS[alg]
    key = gen_key(rng, alg, bits, "rand")
    lines = []
    k = rng.below(6)
    if k == 0:     # bad op / mode / key size / NULL key / NULL ctx at set_key
        what = rng.choice(["op", "mode", "bits", "nullk", "nullc", "null2", "null3"])
        o, m, b, nul = "enc", mode, bits, "-"
        if what == "op":
            o = str(rng.choice([-1, 2, 3, 7, 100, -2147483648, 2147483647]))
        elif what == "mode":
            m = str(rng.choice([-1, 5, 6, 99, 2147483647]))
        elif what == "bits":
            b = rng.choice([x for x in AES_BITS_SWEEP if x not in AES_VALID_BITS]) if rng.chance(1, 2) else \
                rng.choice([0, 64, 96, 127, 129, 136, 160, 191, 193, 200, 224, 255, 257, 288, 320, 384, 512, -128, 1024])
        elif what == "nullk":
            nul = "k"
        elif what == "nullc":
            nul = "c"
        elif what == "null2":
            nul = "2"
        else:
            nul = "3"
        if what == "bits" and alg == "aes":
            key = _key_for(rng, alg, b)
        lines.append("setkey %s %s %s %d %s %s" % (alg, o, m, b, _hx(key), nul))
        lines.append("crypt %s 0 - %s" % (mode, _hx(_rbytes(rng, bs))))
    else:
        op = rng.choice(["enc", "dec"])
        lines.append("setkey %s %s %s %d %s" % (alg, op, mode, bits, _hx(key)))
        iv = gen_iv(rng, mode, bs)
        off = rng.below(bs) if mode in ("cfb", "ofb", "ctr") and rng.chance(1, 2) else 0
        lines.append("state %s %d %s" % (_hx(iv), off, _hx(_rbytes(rng, bs))))
        good = _rbytes(rng, bs * rng.range(1, 3))
        lines.append("crypt %s %d - %s" % (mode, rng.below(8), _hx(good)))
        for _ in range(rng.range(1, 4)):
            what = rng.choice(["fn", "null", "len", "off"])
            if what == "fn":
                other = rng.choice([m for m in MODES if m != mode])
                lines.append("crypt %s %d - %s" % (other, rng.below(8), _hx(_rbytes(rng, bs * rng.range(1, 2)))))
            elif what == "null":
                lines.append("crypt %s %d %s %s" % (mode, rng.below(8), rng.choice(["c", "i", "o", "v", "f", "s", "io", "vf", "cs"]),
                                                    _hx(_rbytes(rng, bs))))
            elif what == "len":
                ln = rng.choice([1, bs - 1, bs + 1, 2 * bs - 1, 3 * bs + bs // 2])
                lines.append("crypt %s %d - %s" % (mode, rng.below(8), _hx(_rbytes(rng, ln))))
            else:
                lines.append("state %s %d %s" % (_hx(iv), rng.choice([bs, bs + 1, 255, 4294967295]), _hx(_rbytes(rng, bs))))
                lines.append("crypt %s %d - %s" % (mode, rng.below(8), _hx(_rbytes(rng, bs))))
                lines.append("state %s %d %s" % (_hx(iv), 0, _hx(bytes(bs))))
        lines.append("crypt %s %d - %s" % (mode, rng.below(8), _hx(good)))
    return V.Case(name, lines, {"kind": "invalid", "alg": alg, "bits": bits, "mode": mode})


def reject_matrix_case(rng, alg, bits, mode):
    """systematic: one context; every non-block length class (ECB/CBC), every out-of-range offset (stream
    modes), every relevant NULL pointer, every non-matching mode function; a valid call before and after"""
    bs = BS[alg]
    key, iv = gen_key(rng, alg, bits, "rand"), _rbytes(rng, bs)
    op = rng.choice(["enc", "dec"])
    lines = ["setkey %s %s %s %d %s" % (alg, op, mode, bits, _hx(key)),
             "state %s 0 %s" % (_hx(iv), _hx(bytes(bs)))]
    good = _rbytes(rng, 2 * bs)
    lines.append("crypt %s %d - %s" % (mode, rng.below(8), _hx(good)))
    if mode in ("ecb", "cbc"):
        # every length 0 .. 4 * bs + 1 (zero and the block multiples are valid, everything else is refused), some longer
        for ln in list(range(0, 4 * bs + 2)) + [5 * bs + bs // 2, 16 * bs - 1, 16 * bs, 16 * bs + 1, 255, 256, 257]:
            lines.append("crypt %s %d - %s" % (mode, rng.below(8), _hx(_rbytes(rng, ln))))
    else:
        # every offset 0 .. 2 * bs + 1 (valid below bs), then values that become valid when masked / narrowed
        offs = list(range(0, 2 * bs + 2)) + [31, 32, 33, 63, 64, 127, 128, 255, 256, 256 + bs - 1, 257, 65535, 65536,
                                               65536 + bs - 1, 2147483648, 4294967295 - bs, 4294967295 - bs + 1, 4294967295]
        lens = [1, bs - 1, bs, bs + 3, 0, 2 * bs + 1, 2]
        for j, off in enumerate(offs):
            lines.append("state %s %d %s" % (_hx(iv), off, _hx(_rbytes(rng, bs))))
            lines.append("crypt %s %d - %s" % (mode, rng.below(8), _hx(_rbytes(rng, lens[j % len(lens)]))))
        lines.append("state %s %d %s" % (_hx(iv), rng.below(bs), _hx(_rbytes(rng, bs))))
    # every non-empty subset of the pointer arguments as NULL (with data, and with zero length); pointers the function
    # does not have are ignored by the driver, so those calls stay valid
    letters = "ciovfs"
    for k in range(1, 1 << len(letters)):
        nul = "".join(l for i, l in enumerate(letters) if (k >> i) & 1)
        if set(nul) & set(_RELEVANT_NULLS[mode]) or k % 5 == 0:
            lines.append("crypt %s %d %s %s" % (mode, rng.below(8), nul, _hx(_rbytes(rng, bs)) if k % 4 else "-"))
    for other in MODES:
        if other != mode:
            lines.append("crypt %s %d - %s" % (other, rng.below(8), _hx(_rbytes(rng, bs))))
    lines.append("crypt %s %d - %s" % (mode, rng.below(8), _hx(good)))
    return V.Case("rejmx-%s%d-%s" % (alg, bits, mode), lines, {"kind": "invalid", "alg": alg, "bits": bits, "mode": mode})


def _len_choice(rng, bs, big):
    k = rng.below(12)
    if k == 0:
        return 0
    if k == 1:
        return rng.choice([1, bs - 1, bs, bs + 1, 2 * bs - 1, 2 * bs, 2 * bs + 1])
    if k < 9:
        return rng.range(1, 12 * bs)
    return rng.range(1, big)


def _xor_bytes(k, mask, where=None):
    """k with `mask` xor-ed into byte `where` (every byte when None)"""
    return bytes(b ^ (mask if where is None or j == where else 0) for j, b in enumerate(k))


def _flip_bit(k, p):
    k = bytearray(k)
    k[p // 8] ^= 0x80 >> (p % 8)
    return bytes(k)


def key_relation_cases(rng, quick):
    """Keys that are related to each other: a cipher that compares, shares, caches or normalises keys or key
    schedules (a two-key Triple-DES shortcut, a parity-insensitive comparison with the wrong mask, ...) is only
    exercised when K1, K2, K3 are equal, equivalent (parity bits only) or differ in one chosen bit or byte.
    Every case is an ECB (some also a stream mode) round trip over three blocks, compared with the extracted
    Spec by the monitor, in both directions."""
    cases = []
    ops = ("enc", "dec")
    cnt = [0]

    def add(name, alg, bits, key, mode="ecb", nblk=3):
        cnt[0] += 1
        cases.append(roundtrip_case(rng, "krel-%s-%s" % (name, mode), alg, bits, mode, ops[cnt[0] % 2], nblk * BS[alg], key=key))

    # ---- Triple-DES: relations between K1, K2, K3
    masks = [("x80", 0x80), ("x01", 0x01), ("xfe", 0xfe), ("x7f", 0x7f), ("x81", 0x81), ("x40", 0x40), ("x02", 0x02), ("xff", 0xff)]
    for b in range(2 if quick else 6):
        k1, k2 = _rbytes(rng, 8), _rbytes(rng, 8)
        if b == 1:
            k1, k2 = bytes.fromhex("0123456789abcdef"), bytes.fromhex("23456789abcdef01")
        add("tdes-eq123-%d" % b, "tdes", 192, k1 + k1 + k1)
        add("tdes-eq13-%d" % b, "tdes", 192, k1 + k2 + k1)
        add("tdes-eq12-%d" % b, "tdes", 192, k1 + k1 + k2)
        add("tdes-eq23-%d" % b, "tdes", 192, k1 + k2 + k2)
        add("tdes-eq13-%d" % b, "tdes", 192, k1 + k2 + k1, mode=rng.choice(["cbc", "cfb", "ofb", "ctr"]))
        for mn, mk in masks:
            # r = K1 xor mask (in every byte / in one byte) placed next to K1 in each pair of positions
            for pn, f in (("k3k1", lambda r: k1 + k2 + r), ("k1k3", lambda r: r + k2 + k1),
                          ("k2k1", lambda r: k1 + r + k2), ("k3k2", lambda r: k2 + k1 + r)):
                add("tdes-%s-%s-all-%d" % (pn, mn, b), "tdes", 192, f(_xor_bytes(k1, mk)))
                for j in (range(8) if (pn == "k3k1" or not quick) else (rng.below(8),)):
                    add("tdes-%s-%s-b%d-%d" % (pn, mn, j, b), "tdes", 192, f(_xor_bytes(k1, mk, j)))
            add("tdes-k3k1-%s-all-%d" % (mn, b), "tdes", 192, k1 + k2 + _xor_bytes(k1, mk), mode=rng.choice(["cfb", "ofb", "ctr"]))
        # the 192 single-bit neighbours of a two-key triple and of a one-key triple
        for bn, base in (("2k", k1 + k2 + k1), ("1k", k1 + k1 + k1)):
            if quick and b > 0 and bn == "1k":
                continue
            for p in range(192):
                add("tdes-bit-%s-%d-p%d" % (bn, b, p), "tdes", 192, _flip_bit(base, p), nblk=2)
    # weak / semi-weak / constant keys in related positions
    specials = [bytes(8), b"\xff" * 8, b"\x80" * 8, b"\x01" * 8, b"\xfe" * 8, b"\x7f" * 8] + \
               [bytes.fromhex(h) for h in DES_WEAK + DES_SEMI_WEAK]
    for j, w in enumerate(specials):
        o = specials[(j + 1) % len(specials)]
        add("tdes-special-%d-a" % j, "tdes", 192, w + o + _xor_bytes(w, 0x80))
        add("tdes-special-%d-b" % j, "tdes", 192, w + o + _xor_bytes(w, 0x01))
        add("tdes-special-%d-c" % j, "tdes", 192, w + w + w)
        add("tdes-special-%d-d" % j, "tdes", 192, w + _xor_bytes(w, 0x80, j % 8) + w)
        add("des-special-%d" % j, "des", 64, w)
        add("des-special-%d-x80" % j, "des", 64, _xor_bytes(w, 0x80))
        add("des-special-%d-x01" % j, "des", 64, _xor_bytes(w, 0x01))
    # ---- DES: parity-equivalent keys and the 64 single-bit neighbours (the 8 parity neighbours must give the
    #      same ciphertext as the base key, the other 56 a different key schedule: the monitor compares both
    #      output and key schedule with the Spec)
    for b in range(1 if quick else 4):
        k = _rbytes(rng, 8)
        add("des-base-%d" % b, "des", 64, k)
        add("des-parity-all-%d" % b, "des", 64, _xor_bytes(k, 0x01))
        for p in range(64):
            add("des-bit-%d-p%d" % (b, p), "des", 64, _flip_bit(k, p), nblk=2)
    # ---- AES: single-bit neighbours of one key per size (every bit in the thorough tier)
    for bits in (128, 192, 256):
        k = _rbytes(rng, bits // 8)
        add("aes%d-base" % bits, "aes", bits, k, nblk=2)
        pos = range(bits) if not quick else sorted(set([0, 7, 8, bits - 1, bits - 8, bits // 2] + [rng.below(bits) for _ in range(26)]))
        for p in pos:
            add("aes%d-bit-p%d" % (bits, p), "aes", bits, _flip_bit(k, p), nblk=2)
        half = bits // 16
        add("aes%d-halves-equal" % bits, "aes", bits, k[:half] + k[:half], nblk=2)
        add("aes%d-halves-x80" % bits, "aes", bits, k[:half] + _xor_bytes(k[:half], 0x80), nblk=2)
    return cases


# ---------------------------------------------------------------------------
# the parameter-validation surface of every set_key / crypt entry point (systematic, not sampled)

# key-bit counts for muggle_aes_set_key: EVERY integer -8 .. 328 (all multiples of 8 and of 32 below 320 - the Rijndael
# sizes 160 / 224 among them - and every neighbour of a valid size), the negated sizes, multiples of 32 and of 64 further
# up, values that become a valid size when narrowed to 8 or 16 bits or when divided / shifted, and the ends of int
AES_BITS_SWEEP = sorted(set(
    list(range(-8, 329)) +
    [-256, -257, -255, -192, -193, -191, -128, -129, -127, -160, -224, -64, -32, -16] +
    list(range(352, 1025, 32)) + [383, 385, 447, 449, 511, 513, 639, 641, 767, 769, 1023, 1025] +
    [1280, 1536, 2048, 4096, 8192, 16, 24, 12, 16 * 8 * 8, 24 * 8 * 8, 32 * 8 * 8] +
    [65536, 65536 + 128, 65536 + 160, 65536 + 192, 65536 + 224, 65536 + 256, 65535, 32768 + 128, 32768, 65536 * 2 + 128] +
    [(1 << 24) + 128, (1 << 24) + 192, (1 << 30), (1 << 30) + 256, (1 << 31) - 1, (1 << 31) - 128, -(1 << 31), -(1 << 31) + 128,
     -(1 << 31) + 256, 128 * 65536, 192 * 65536, 256 * 65536, 128 << 8, 192 << 8, 256 << 8]))
AES_VALID_BITS = (128, 192, 256)
# op / mode values next to and far from the enumeration (0 / 1 and 0 .. 4 are written as names), values that become
# valid when narrowed to 8 or 16 bits, the ends of int
BAD_OPS = [-1, 2, 3, -2, 4, 255, 256, 257, 258, 65536, 65537, -255, -256, 2147483647, -2147483648, -2147483647]
BAD_MODES = [-1, 5, 6, 7, 8, -2, -5, 255, 256, 257, 260, 261, 65536, 65540, 65541, 2147483647, -2147483648, -2147483644]


def _key_for(rng, alg, bits):
    """exact key for a valid size; for an invalid AES size enough bytes that an implementation wrongly accepting it
    would read inside the buffer (so that the verdict is the return code, not only an ASan report)"""
    if alg != "aes":
        return _rbytes(rng, {"des": 8, "tdes": 24}[alg])
    if bits in AES_VALID_BITS:
        return _rbytes(rng, bits // 8)
    return _rbytes(rng, min(64, max(32, (max(bits, 0) + 7) // 8)))


def _probe_lines(rng, alg, mode, nblk=1):
    """a state line and one call on the context just made (known answer through the monitor's reference when the context
    exists, `noctx` when set_key refused)"""
    bs = BS[alg]
    n = bs * nblk if mode in ("ecb", "cbc") else rng.range(1, 2 * bs)
    return ["state %s 0 %s" % (_hx(_rbytes(rng, bs)), _hx(bytes(bs))),
            "crypt %s %d - %s" % (mode, rng.below(8), _hx(_rbytes(rng, n)))]


def keybits_matrix_case(rng, mode, op, sweep=None, name=None):
    """muggle_aes_set_key over the whole sweep of key-bit counts, one context attempt per value; every accepted context
    and every 9th refused one is followed by a call (accepted: must be AES of that size; refused: nothing to run on)"""
    lines = []
    for j, b in enumerate(sweep if sweep is not None else AES_BITS_SWEEP):
        lines.append("setkey aes %s %s %d %s" % (op, mode, b, _hx(_key_for(rng, "aes", b))))
        if b in AES_VALID_BITS or j % 9 == 0:
            lines += _probe_lines(rng, "aes", mode)
    return V.Case(name or "kbits-aes-%s-%s" % (mode, op), lines, {"kind": "invalid", "alg": "aes", "bits": 0, "mode": mode})


def opmode_matrix_case(rng, alg, name=None):
    """every (op, mode) pair from valid names and out-of-range integers through set_key; the accepted ones are used"""
    lines = []
    ops = ["enc", "dec"] + [str(x) for x in BAD_OPS]
    modes = MODES + [str(x) for x in BAD_MODES]
    j = 0
    for o in ops:
        for m in modes:
            bits = {"aes": AES_VALID_BITS[j % 3], "des": 64, "tdes": 192}[alg]
            j += 1
            lines.append("setkey %s %s %s %d %s" % (alg, o, m, bits, _hx(_key_for(rng, alg, bits))))
            if o in _OPS and m in MODES:
                lines += _probe_lines(rng, alg, m, 2)
            elif j % 7 == 0:
                lines += _probe_lines(rng, alg, m if m in MODES else "ecb")
    return V.Case(name or "pvm-%s-opmode" % alg, lines, {"kind": "invalid", "alg": alg, "bits": 0, "mode": "ecb"})


def setkey_nulls_matrix_case(rng, alg, name=None):
    """every subset of NULL pointer arguments of set_key, crossed with valid / invalid op, mode (and key size): which
    error is reported first is compared with the model, that the call is refused is the monitor's"""
    letters = "k23c" if alg == "tdes" else "kc"
    subsets = ["".join(l for i, l in enumerate(letters) if (k >> i) & 1) or "-" for k in range(1 << len(letters))]
    combos = [("enc", "ecb"), ("dec", "ctr"), ("enc", "cbc"), ("7", "cbc"), ("enc", "9"), ("-1", "-1"), ("dec", "ofb"), ("enc", "cfb")]
    sizes = {"aes": (128, 192, 256, 160, 224, 0, 64, -128), "des": (64,), "tdes": (192,)}[alg]
    lines = []
    for nul in subsets:
        for o, m in combos:
            for bits in sizes:
                lines.append("setkey %s %s %s %d %s %s" % (alg, o, m, bits, _hx(_key_for(rng, alg, bits)), nul))
                if nul == "-" and o in _OPS and m in MODES and (alg != "aes" or bits in AES_VALID_BITS):
                    lines += _probe_lines(rng, alg, m)
        lines += _probe_lines(rng, alg, "ecb")
    return V.Case(name or "pnm-%s-nulls" % alg, lines, {"kind": "invalid", "alg": alg, "bits": 0, "mode": "ecb"})


# ---------------------------------------------------------------------------
# several contexts / interleaved streams, and single calls over very long messages

def interleaved_case(rng, name, specs, shared=False):
    """specs: [(alg, bits, mode, first_op, n)], one per context slot.  Every slot runs its own round trip (phase 1 in
    first_op, phase 2 the opposite direction over @slices of its own phase-1 output), but the CALLS of the slots are
    fed alternately in a random merge order.  shared=True: slot 1 does not make a context of its own but uses slot 0's
    context object (`share 0`) with its own caller-held iv / offset / stream block.  A library that keeps anything
    between calls outside the caller's buffers (static scratch or keystream block, cached 'last key' schedule) mixes
    the streams up; the monitor judges every slot as if it had run alone."""
    plans = []
    for k, (alg, bits, mode, first, n) in enumerate(specs):
        bs = BS[alg]
        if mode in ("ecb", "cbc"):
            n -= n % bs
        key = gen_key(rng, alg, bits, "rand")
        iv = gen_iv(rng, mode, bs)
        msg = gen_msg(rng, n)
        unit = bs if mode in ("ecb", "cbc") else 1
        plans.append({"alg": alg, "bits": bits, "mode": mode, "first": first, "n": n, "key": key, "iv": iv, "msg": msg,
                      "unit": unit, "bs": bs})
    if shared:
        for f in ("alg", "bits", "mode", "first", "key", "bs", "unit"):
            plans[1][f] = plans[0][f]
        if plans[1]["mode"] in ("ecb", "cbc"):
            plans[1]["n"] -= plans[1]["n"] % plans[1]["bs"]
            plans[1]["msg"] = plans[1]["msg"][:plans[1]["n"]]
        plans[1]["iv"] = gen_iv(rng, plans[1]["mode"], plans[1]["bs"])
    lines = []
    cur = [0]

    def use(k):
        if cur[0] != k:
            lines.append("use %d" % k)
            cur[0] = k

    for phase in (0, 1):
        queues = []
        for k, p in enumerate(plans):
            use(k)
            op = p["first"] if phase == 0 else ("dec" if p["first"] == "enc" else "enc")
            if shared and k == 1:
                lines.append("share 0")
            else:
                lines.append("setkey %s %s %s %d %s" % (p["alg"], op, p["mode"], p["bits"], _hx(p["key"])))
            if p["mode"] != "ecb":
                lines.append("state %s 0 %s" % (_hx(p["iv"]), _hx(bytes(p["bs"]))))
            q = []
            for (st, ln) in partition(rng, p["n"], p["unit"], rng.range(2, 7)):
                src = _hx(p["msg"][st:st + ln]) if phase == 0 else "@%d:%d" % (st, ln)
                q.append("crypt %s %d - %s" % (p["mode"], rng.choice([0, 0, 1, 3, 4, 7]), src))
            queues.append(q)
        while any(queues):
            k = rng.choice([i for i, q in enumerate(queues) if q])
            use(k)
            lines.append(queues[k].pop(0))
    return V.Case(name, lines, {"kind": "interleaved", "alg": specs[0][0], "bits": specs[0][1], "mode": specs[0][2]})


def interleaved_cases(rng, quick):
    out = []
    stream_modes = ["cfb", "ofb", "ctr"]
    pairs = [(("aes", 128), ("aes", 128)), (("aes", 256), ("aes", 192)), (("des", 64), ("des", 64)), (("tdes", 192), ("tdes", 192)),
             (("des", 64), ("tdes", 192)), (("tdes", 192), ("des", 64)), (("aes", 128), ("des", 64)), (("aes", 192), ("tdes", 192))]
    reps = 1 if quick else 8
    j = 0
    for r in range(reps):
        for (a, b) in pairs:
            # same mode in both slots (a shared static scratch block of that mode function) ...
            for mode in MODES:
                n1, n2 = rng.range(1, 9 * BS[a[0]]), rng.range(1, 9 * BS[b[0]])
                out.append(interleaved_case(rng, "ilv-%s%d-%s%d-%s-%d" % (a[0], a[1], b[0], b[1], mode, j),
                                            [(a[0], a[1], mode, rng.choice(["enc", "dec"]), n1 + BS[a[0]]),
                                             (b[0], b[1], mode, rng.choice(["enc", "dec"]), n2 + BS[b[0]])]))
                j += 1
            # ... and different modes
            m1, m2 = rng.choice(MODES), rng.choice(stream_modes)
            out.append(interleaved_case(rng, "ilv-%s%d-%s-%s%d-%s-%d" % (a[0], a[1], m1, b[0], b[1], m2, j),
                                        [(a[0], a[1], m1, rng.choice(["enc", "dec"]), rng.range(16, 200)),
                                         (b[0], b[1], m2, rng.choice(["enc", "dec"]), rng.range(16, 200))]))
            j += 1
        # two streams with separate caller-held state on ONE context object
        for alg, bits in ALGS:
            for mode in MODES:
                out.append(interleaved_case(rng, "ilv-shared-%s%d-%s-%d" % (alg, bits, mode, j),
                                            [(alg, bits, mode, rng.choice(["enc", "dec"]), rng.range(2 * BS[alg], 12 * BS[alg])),
                                             (alg, bits, mode, "enc", rng.range(2 * BS[alg], 12 * BS[alg]))], shared=True))
                j += 1
        # three and four contexts at once
        for _ in range(3):
            specs = []
            for _k in range(rng.range(3, 4)):
                (alg, bits), mode = rng.choice(ALGS), rng.choice(MODES)
                specs.append((alg, bits, mode, rng.choice(["enc", "dec"]), rng.range(BS[alg], 10 * BS[alg])))
            out.append(interleaved_case(rng, "ilv-multi-%d" % j, specs))
            j += 1
    return out


def long_call_case(rng, name, alg, bits, mode, op, n, tail=True):
    """ONE call over n bytes (the data is the drivers' xorshift64* stream: too long for a hex line), then a short call
    carrying the state on: a block counter narrower than unsigned int, or a separate bulk path for long inputs, shows
    in the output bytes or in the chaining state left behind"""
    bs = BS[alg]
    if mode in ("ecb", "cbc"):
        n -= n % bs
    key = gen_key(rng, alg, bits, "rand")
    lines = ["setkey %s %s %s %d %s" % (alg, op, mode, bits, _hx(key))]
    if mode != "ecb":
        lines.append("state %s 0 %s" % (_hx(gen_iv(rng, mode, bs)), _hx(bytes(bs))))
    lines.append("crypt %s %d - #%d:%d" % (mode, rng.choice([0, 0, 1, 4]), rng.range(1, 2 ** 62), n))
    if tail:
        lines.append("crypt %s %d - %s" % (mode, rng.below(8), _hx(_rbytes(rng, 2 * bs if mode in ("ecb", "cbc") else bs + 5))))
    return V.Case(name, lines, {"kind": "long", "alg": alg, "bits": bits, "mode": mode, "n": n})


def long_call_cases(rng, quick):
    out = []
    ops = ("enc", "dec")
    j = 0
    # beyond 8 KiB (a bulk path) and beyond 64 KiB (a 16-bit byte counter) in one call: every algorithm, ECB / CBC / CTR
    for alg, bits in (("aes", rng.choice([128, 192, 256])), ("des", 64), ("tdes", 192)):
        bs = BS[alg]
        for mode in ("ecb", "cbc", "ctr") + (() if quick else ("cfb", "ofb")):
            out.append(long_call_case(rng, "long-8k-%s%d-%s" % (alg, bits, mode), alg, bits, mode, ops[j % 2], 8192 + 3 * bs + (5 if mode == "ctr" else 0)))
            j += 1
            if alg != "tdes" or not quick:
                out.append(long_call_case(rng, "long-64k-%s%d-%s" % (alg, bits, mode), alg, bits, mode, ops[j % 2],
                                          65536 + bs + (3 if mode == "ctr" else 0)))
                j += 1
    if quick:
        return out
    # more than 65536 BLOCKS in one call (65536 * bs + bs bytes: a 16-bit block counter wraps to 1 block) and about
    # 1.1 MiB, one per block size and loop family; thorough tier only (the extracted model needs 10 - 70 s per case)
    # (the byte-at-a-time CTR model runs ~150 s per MiB: CTR is taken at 65537 blocks for AES and DES and at 1.1 MiB
    #  for DES; the Triple-DES loops of tdes.c at 65537 blocks for ECB / CBC)
    for alg, bits in (("aes", rng.choice([128, 192, 256])), ("des", 64), ("tdes", 192)):
        bs = BS[alg]
        for mode in ("ecb", "cbc", "ctr"):
            if not (alg == "tdes" and mode == "ctr"):
                out.append(long_call_case(rng, "long-65537blk-%s%d-%s" % (alg, bits, mode), alg, bits, mode, ops[j % 2],
                                          65536 * bs + bs + (3 if mode == "ctr" else 0)))
                j += 1
            if alg == "des" or (alg == "aes" and mode != "ctr"):
                out.append(long_call_case(rng, "long-1.1MiB-%s%d-%s" % (alg, bits, mode), alg, bits, mode, ops[j % 2],
                                          1153440 + (7 if mode == "ctr" else 0)))
                j += 1
    return out


def generate(rng, tier):
    cases = []
    quick = tier == "quick"
    per_combo = 6 if quick else 40
    big = 700 if quick else 4096
    i = 0
    for alg, bits in ALGS:
        bs = BS[alg]
        for mode in MODES:
            for first in ("enc", "dec"):
                for _ in range(per_combo):
                    n = _len_choice(rng, bs, big)
                    off = rng.below(bs) if (mode in ("cfb", "ofb", "ctr") and rng.chance(1, 5)) else 0
                    cases.append(roundtrip_case(rng, "rt-%s%d-%s-%s-%d" % (alg, bits, mode, first, i), alg, bits, mode, first, n, off=off))
                    i += 1
            # one maximal message per algorithm and mode (4096 bytes in the thorough tier)
            cases.append(roundtrip_case(rng, "big-%s%d-%s" % (alg, bits, mode), alg, bits, mode, "enc", 4096))
            if not quick:
                for j in range(4):
                    cases.append(roundtrip_case(rng, "big-%s%d-%s-%d" % (alg, bits, mode, j), alg, bits, mode,
                                                rng.choice(["enc", "dec"]), rng.range(3000, 4096)))
            # counter / register edge values, long enough to cross the wrap several blocks later
            if mode == "ctr":
                for lo in (2 ** 64 - 1, 2 ** 64 - 2):
                    for hi in ((0, 2 ** 64 - 1) if bs == 16 else (0,)):
                        iv = lo.to_bytes(8, "little") + (hi.to_bytes(8, "little") if bs == 16 else b"")
                        cases.append(roundtrip_case(rng, "carry-%s%d-%x-%x" % (alg, bits, lo, hi), alg, bits, mode, "enc",
                                                    5 * bs + 3, iv=iv))
        # structured keys through every mode
        kinds = ["zero", "one", "bit"] + ([] if alg == "aes" else ["weak", "weak", "struct"])
        for kj, kind in enumerate(kinds):
            for mode in MODES:
                cases.append(roundtrip_case(rng, "key-%s%d-%s%d-%s" % (alg, bits, kind, kj, mode), alg, bits, mode,
                                            rng.choice(["enc", "dec"]), rng.range(1, 6 * bs), key=gen_key(rng, alg, bits, kind)))
    # all 16 weak / semi-weak DES keys, ECB both directions + one stream mode
    for j, hk in enumerate(DES_WEAK + DES_SEMI_WEAK):
        k = bytes.fromhex(hk)
        cases.append(roundtrip_case(rng, "weak-des-%d" % j, "des", 64, "ecb", "enc", 32, key=k))
        cases.append(roundtrip_case(rng, "weak-des-s-%d" % j, "des", 64, rng.choice(["cbc", "cfb", "ofb", "ctr"]), "enc", 29, key=k))
        cases.append(roundtrip_case(rng, "weak-tdes-%d" % j, "tdes", 192, rng.choice(MODES), "enc", 24,
                                    key=k + bytes.fromhex(rng.choice(DES_WEAK + DES_SEMI_WEAK)) + k))
    cases += key_relation_cases(rng, quick)
    for alg, bits in ALGS:
        for mode in MODES:
            cases.append(reject_matrix_case(rng, alg, bits, mode))
    # set_key: the whole key-size sweep in every mode and direction; the (op, mode) and NULL-pointer matrices
    for mode in MODES:
        for op in ("enc", "dec"):
            cases.append(keybits_matrix_case(rng, mode, op))
    for alg in ("aes", "des", "tdes"):
        cases.append(opmode_matrix_case(rng, alg))
        cases.append(setkey_nulls_matrix_case(rng, alg))
    cases += interleaved_cases(rng, quick)
    cases += long_call_cases(rng, quick)
    ninv = 120 if quick else 1500
    for j in range(ninv):
        cases.append(invalid_case(rng, "inv-%d" % j))
    assert len(set(c.name for c in cases)) == len(cases)
    return cases


def search(rng, diverging, tier):
    """more cases around what diverged (same algorithm / mode), when a proof or the correspondence broke"""
    focus = [(c.meta.get("alg"), c.meta.get("bits"), c.meta.get("mode")) for c in diverging[:20] if c.meta.get("alg")]
    out = []
    # the parameter-validation surface far beyond the standard sweep: every key-bit count -2100 .. 2100, every multiple
    # of 8 up to 2^17, sizes around every power of two; the (op, mode) and NULL matrices again with fresh keys
    wide = sorted(set(list(range(-2100, 2101)) + list(range(0, (1 << 17) + 1, 8)) +
                      [s * (1 << k) + d for k in range(8, 31) for s in (1, -1) for d in (-256, -192, -128, -1, 0, 1, 128, 160, 192, 224, 256)
                       if -(1 << 31) <= s * (1 << k) + d < (1 << 31)]))
    for j in range(0, len(wide), 700):
        out.append(keybits_matrix_case(rng, MODES[(j // 700) % 5], ("enc", "dec")[(j // 700) % 2], sweep=wide[j:j + 700],
                                       name="search-kbits-%d" % (j // 700)))
    for alg in ("aes", "des", "tdes"):
        out.append(opmode_matrix_case(rng, alg, name="search-pvm-%s" % alg))
        out.append(setkey_nulls_matrix_case(rng, alg, name="search-pnm-%s" % alg))
    for j in range(600):
        if focus and rng.chance(3, 4):
            alg, bits, mode = rng.choice(focus)
        else:
            (alg, bits), mode = rng.choice(ALGS), rng.choice(MODES)
        if rng.chance(1, 5):
            out.append(invalid_case(rng, "search-inv-%d" % j))
        else:
            out.append(roundtrip_case(rng, "search-%d" % j, alg, bits, mode, rng.choice(["enc", "dec"]),
                                      _len_choice(rng, BS[alg], 300)))
    return out


def corpus_cases(ctx):
    out = []
    for p in sorted(glob.glob(os.path.join(V.VERIF, "corpus", "C12", "*.case"))):
        c = V.Case.load(p)
        c.meta = {"kind": "corpus", "file": p}
        out.append(c)
    return out


# ---------------------------------------------------------------------------
# independent monitor (works from the script lines and the implementation's lines only)

_RELEVANT_NULLS = {"ecb": "cio", "cbc": "ciov", "cfb": "ciovf", "ofb": "ciovf", "ctr": "ciovfs"}
_OPS = {"enc": True, "dec": False}
_KEYLEN = {"des": 8, "tdes": 24}


def _parse_result(ln):
    w = ln.split(" ")
    if len(w) < 5 or not w[1].startswith("out=") or not w[2].startswith("iv=") or not w[3].startswith("off=") \
            or not w[4].startswith("sb="):
        return None
    return {"rc": w[0], "out": w[1][4:], "iv": w[2][3:], "off": w[3][4:], "sb": w[4][3:], "extra": w[5:]}


def prng_bytes(seed, n):
    """xorshift64* byte stream of the drivers' `#seed:len` data source"""
    M = (1 << 64) - 1
    x = seed or 0x9E3779B97F4A7C15
    out = bytearray()
    while len(out) < n:
        x ^= x >> 12
        x = (x ^ (x << 25)) & M
        x ^= x >> 27
        out += ((x * 2685821657736338717) & M).to_bytes(8, "little")
    return bytes(out[:n])


def monitor(case, lines):
    """Slots are independent by the property (every piece of chaining state is caller-held, a context is only read by
    the mode functions): the script and the implementation's lines are split by context slot and each slot's
    sub-script is judged on its own, as if it had run alone.  `share k` becomes slot k's latest set_key line (and the
    line the implementation printed for it)."""
    if not any(ln.startswith(("use ", "share ")) for ln in case.lines):
        return _monitor_single(case, lines)
    sub = {}            # slot -> ([script lines], [implementation lines])
    last_setkey = {}    # slot -> (script line, implementation line)
    cur, k = 0, 0
    for ln in case.lines:
        w = ln.split()
        if not w:
            continue
        sc, im = sub.setdefault(cur, ([], []))
        if w[0] == "use":
            if len(w) == 2 and w[1].isdigit() and int(w[1]) < 4:
                cur = int(w[1])
            continue
        if w[0] == "share":
            src = int(w[1]) if len(w) == 2 and w[1].isdigit() else -1
            if src in last_setkey and src != cur:
                sc.append(last_setkey[src][0])
                im.append(last_setkey[src][1])
            continue
        sc.append(ln)
        if w[0] in ("setkey", "crypt"):
            if k >= len(lines):
                return "missing output for %r" % ln[:80]
            im.append(lines[k])
            if w[0] == "setkey":
                last_setkey[cur] = (ln, lines[k])
            k += 1
    if k != len(lines):
        return "%d unexpected extra output line(s)" % (len(lines) - k)
    for slot in sorted(sub):
        msg = _monitor_single(V.Case("%s/slot%d" % (case.name, slot), sub[slot][0], case.meta), sub[slot][1])
        if msg:
            return "context slot %d (fed alternately with the other slots): %s" % (slot, msg)
    return None


def _monitor_single(case, lines):
    k = 0                         # index into implementation lines
    cipher = None                 # RefCipher of the current phase (None: no usable context)
    ph = None                     # current phase description
    prev_out = b""                # concatenated output of the previous phase
    prev_ph = None
    bs = 16

    def new_stream(iv, off, sb):
        return {"iv": iv, "off": off, "sb": sb, "inp": bytearray(), "out": bytearray()}
    stream = None
    state = None                  # (ivhex, off, sbhex) as last printed / set

    def check_stream(final=False):
        """chunk invariance + the standard: the concatenated outputs of the calls of one stream
        equal the reference applied once to the concatenated inputs"""
        if stream is None or cipher is None or not stream["inp"]:
            return None
        ref = ref_mode(cipher, ph["mode"], ph["enc"], stream["iv"], bytes(stream["inp"]), stream["off"], stream["sb"])
        if ref != bytes(stream["out"]):
            n = next((i for i in range(min(len(ref), len(stream["out"]))) if ref[i] != stream["out"][i]), 0)
            return ("%s-%s %s %s: %d bytes fed in %d call(s) give %s..., the standard (one call over the whole "
                    "message) gives %s... (first difference at byte %d)" % (
                        ph["alg"], ph["bits"], ph["mode"], "encrypt" if ph["enc"] else "decrypt", len(stream["inp"]),
                        stream.get("calls", 0), bytes(stream["out"][n:n + 8]).hex(), ref[n:n + 8].hex(), n))
        return None

    def check_roundtrip():
        """decrypt(encrypt(x)) = x (and encrypt(decrypt(x)) = x): a phase that consumed the previous phase's
        output under the same key/mode/start state in the opposite direction must reproduce its input"""
        if not ph or not prev_ph or not ph.get("ok") or not prev_ph.get("ok"):
            return None
        same = all(ph[f] == prev_ph[f] for f in ("alg", "bits", "mode", "key", "first_state"))
        if not same or ph["enc"] == prev_ph["enc"] or not ph["slices_tile"] or ph["rejected"] or prev_ph["rejected"]:
            return None
        if ph["nstates"] > 1 or prev_ph["nstates"] > 1:
            return None
        got, want = bytes(ph["all_out"]), bytes(prev_ph["all_in"])[:len(ph["all_out"])]
        if got != want:
            return "%s-%s %s: %s(%s(x)) != x for a %d-byte message" % (
                ph["alg"], ph["bits"], ph["mode"], "decrypt" if not ph["enc"] else "encrypt",
                "encrypt" if not ph["enc"] else "decrypt", len(want))
        return None

    for ln in case.lines:
        w = ln.split()
        if not w:
            continue
        if w[0] == "setkey":
            msg = check_stream() or check_roundtrip()
            if msg:
                return msg
            if ph is not None:
                prev_out = bytes(ph["all_out"])
                prev_ph = ph
            if k >= len(lines):
                return "missing output for %r" % ln
            got = lines[k]
            k += 1
            alg, o, m, bits = w[1], w[2], w[3], int(w[4])
            key = b"" if w[5] == "-" else bytes.fromhex(w[5])
            nulls = w[6] if len(w) > 6 else "-"
            bs = BS.get(alg, 8)
            valid = o in _OPS and m in MODES
            if alg == "aes":
                valid = valid and bits in (128, 192, 256) and len(key) == max(bits, 0) // 8
                valid = valid and not (set(nulls) & set("kc"))
            elif alg == "des":
                valid = valid and len(key) >= 8 and not (set(nulls) & set("kc"))
            else:
                valid = valid and len(key) >= 24 and not (set(nulls) & set("k23c"))
            gw = got.split()
            if ((gw[:2] == ["setkey", "OK"]) != valid) or len(gw) < 2 or gw[0] != "setkey":
                return "set_key(%s): parameters are %s but the call returned %r" % (
                    " ".join(w[1:5]) + " nulls=" + nulls, "valid" if valid else "INVALID (must be rejected)", got)
            if not valid and "ks=untouched" not in gw[2:]:
                return "set_key(%s) refused the call (%s) but wrote into the key-schedule area of the context" % (
                    " ".join(w[1:5]) + " nulls=" + nulls, gw[1])
            cipher = RefCipher(alg, key[:_KEYLEN.get(alg, len(key))]) if valid else None
            ph = {"alg": alg, "bits": bits, "mode": m, "enc": _OPS.get(o), "key": key, "ok": valid,
                  "all_in": bytearray(), "all_out": bytearray(), "slices_tile": True, "next_slice": 0,
                  "rejected": 0, "first_state": None, "nstates": 0}
            state = ("00" * bs, 0, "00" * bs)
            stream = new_stream(bytes(bs), 0, bytes(bs))
        elif w[0] == "state":
            msg = check_stream()
            if msg:
                return msg
            if len(w) != 4 or ph is None:
                continue
            iv = (bytes.fromhex(w[1]) if w[1] != "-" else b"")[:bs].ljust(bs, b"\0")
            sb = (bytes.fromhex(w[3]) if w[3] != "-" else b"")[:bs].ljust(bs, b"\0")
            off = int(w[2])
            state = (iv.hex(), off, sb.hex())
            stream = new_stream(iv, off, sb)
            ph["nstates"] += 1
            if ph["first_state"] is None:
                ph["first_state"] = state
        elif w[0] == "crypt":
            if k >= len(lines):
                return "missing output for %r" % ln[:80]
            got = lines[k]
            k += 1
            if ph is None:
                continue
            if not ph["ok"]:
                if got != "noctx":
                    return "driver protocol: expected noctx, got %r" % got
                continue
            if len(w) != 5:
                if got != "badline":
                    return "driver protocol: expected badline, got %r" % got
                continue
            fn, nulls, src = w[1], w[3], w[4]
            if src.startswith("@"):
                s, l = (int(x) for x in src[1:].split(":"))
                if s + l > len(prev_out):
                    if got != "badslice":
                        return "driver protocol: expected badslice, got %r" % got
                    continue
                data = prev_out[s:s + l]
                if s != ph["next_slice"]:
                    ph["slices_tile"] = False
                ph["next_slice"] = s + l
            elif src.startswith("#"):
                sd, l = (int(x) for x in src[1:].split(":"))
                data = prng_bytes(sd, l)
                ph["slices_tile"] = False
            else:
                data = b"" if src == "-" else bytes.fromhex(src)
                ph["slices_tile"] = False
            r = _parse_result(got)
            if r is None:
                return "unparsable result line %r" % got[:120]
            if r["extra"]:
                return "call %r: %s" % (ln[:60], " ".join(r["extra"]))
            valid = fn == ph["mode"] and not (set(nulls) & set(_RELEVANT_NULLS.get(fn, "")))
            if fn in ("ecb", "cbc"):
                valid = valid and len(data) % bs == 0
            else:
                valid = valid and 0 <= stream["off"] < bs if not stream["inp"] and not stream.get("calls") else valid
            if fn not in MODES:
                continue
            if (r["rc"] == "OK") != valid:
                return "%s_%s(len=%d, ctx mode=%s, nulls=%s, offset=%s): parameters are %s but the call returned %s" % (
                    ph["alg"], fn, len(data), ph["mode"], nulls, state[1],
                    "valid" if valid else "INVALID (must be rejected)", r["rc"])
            if not valid:
                ph["rejected"] += 1
                if r["out"] != "untouched":
                    return "%s_%s rejected the call (%s) but wrote to the output buffer" % (ph["alg"], fn, r["rc"])
                if (r["iv"], int(r["off"]), r["sb"]) != state:
                    return "%s_%s rejected the call (%s) but changed the chaining state" % (ph["alg"], fn, r["rc"])
                continue
            out = bytes.fromhex(r["out"]) if r["out"] else b""
            if len(out) != len(data):
                return "%s_%s: %d bytes in, %d bytes out" % (ph["alg"], fn, len(data), len(out))
            if fn in ("cfb", "ofb", "ctr"):
                want_off = (state[1] + len(data)) % bs
                if int(r["off"]) != want_off:
                    return "%s_%s: offset after %d bytes from offset %d is %s, expected %d" % (
                        ph["alg"], fn, len(data), state[1], r["off"], want_off)
            stream["inp"] += data
            stream["out"] += out
            stream["calls"] = stream.get("calls", 0) + 1
            ph["all_in"] += data
            ph["all_out"] += out
            state = (r["iv"], int(r["off"]), r["sb"])
        elif w[0] == "expect":
            if ph is None:
                continue
            want = bytes.fromhex(w[1]) if len(w) > 1 and w[1] != "-" else b""
            if bytes(ph["all_out"]) != want:
                return "known-answer vector: got %s, the standard's vector is %s" % (bytes(ph["all_out"]).hex()[:96], want.hex()[:96])
    msg = check_stream() or check_roundtrip()
    if msg:
        return msg
    if k != len(lines):
        return "%d unexpected extra output line(s)" % (len(lines) - k)
    return None


def nontrivial_key(case, lines):
    # non-trivial: at least one call transformed at least one byte
    if any(ln.startswith("OK out=") and not ln.startswith("OK out= ") for ln in lines):
        return "\n".join(case.lines)
    return None


def tally(dist, case, lines):
    m = case.meta or {}
    for f in ("kind", "alg", "mode"):
        if m.get(f) is not None:
            key = "%s=%s" % (f, m.get(f) if f != "alg" else "%s%s" % (m.get("alg"), m.get("bits")))
            dist[key] = dist.get(key, 0) + 1
    for ln in lines:
        if ln.startswith("OK out="):
            dist["calls_ok"] = dist.get("calls_ok", 0) + 1
            dist["bytes"] = dist.get("bytes", 0) + (len(ln.split(" ")[1]) - 4) // 2
        elif ln.startswith("setkey "):
            k2 = "setkey_" + (ln.split() + ["?"])[1]
            dist[k2] = dist.get(k2, 0) + 1
        elif " out=" in ln:
            dist["rejected_" + ln.split(" ")[0]] = dist.get("rejected_" + ln.split(" ")[0], 0) + 1
    n = m.get("n")
    if n is not None:
        b = "len=0" if n == 0 else "len<=16" if n <= 16 else "len<=256" if n <= 256 else "len<=1024" if n <= 1024 else "len<=4096"
        dist[b] = dist.get(b, 0) + 1


RULE = ("every algorithm/key size (AES-128/192/256, DES, 3DES) x mode (ECB, CBC, CFB, OFB, CTR) x first direction: "
        "seeded random and structured keys (all-zero, all-one, single-bit, the 4 weak + 12 semi-weak DES keys, 3DES with "
        "k1=k2=k3 / k1=k3), IVs/nonces (random, zero, all-one, counters at 2^64-1, 2^64-2, full 128-bit wrap), messages of "
        "0..4096 bytes (quick tier: mostly below 700 bytes plus one 4096-byte message per algorithm and mode) cut into 1..8 chunks per direction with the state carried, aligned and "
        "misaligned buffers, a second phase that feeds the implementation's own output back in the opposite direction; "
        "parameter-rejection scripts (bad op/mode/key size, NULL pointers, non-block lengths, offset >= block size, mode "
        "function not matching the context); the whole parameter-validation surface, systematically: muggle_aes_set_key with EVERY "
        "key-bit count -8..328 (all multiples of 8 and 32 up to 320 - 160 and 224 among them - and every neighbour of 128/192/256), "
        "negated sizes, multiples of 32 up to 1024, sizes that are valid only after narrowing to 8/16 bits or after a shift, the ends "
        "of int, in every mode and both directions (kbits-*: 413 sizes x 10); every (op, mode) pair from the names and 16 + 18 "
        "out-of-range integers (next to the enumerations, valid only after narrowing) for AES/DES/3DES (pvm-*); every subset of NULL "
        "set_key pointers x valid/invalid op, mode, size (pnm-*); per algorithm and mode every ECB/CBC length 0..4*bs+1, every stream "
        "offset 0..2*bs+1 plus values valid only after masking, zero-length calls, every subset of NULL call pointers (rejmx-*); a "
        "refused set_key must leave the key-schedule area of the context untouched; "
        "several contexts at once (ilv-*: 2-4 context slots of the same or of different algorithms, also two streams with separate "
        "caller-held state on ONE context object, their calls fed alternately in a random merge order, each slot judged as if it had "
        "run alone); single calls over long messages (long-*: 8 KiB+, 64 KiB+ in one call in the quick tier; thorough tier: 65537 "
        "blocks = 65536*bs+bs bytes and 1.1 MiB in ONE call for ECB/CBC/CTR of every loop family, data from the drivers' xorshift64* "
        "stream); related keys (krel-*: 3DES with K1=K2=K3, K1=K3, K1=K2, K2=K3, and K_i = K_j xor "
        "0x80 / 0x01 (parity-equivalent) / 0xfe / 0x7f / 0x81 / 0x40 / 0x02 / 0xff in one byte or all bytes for the position "
        "pairs (3,1) (1,3) (2,1) (3,2), the 192 single-bit neighbours of a two-key and of a one-key triple, constant / weak / "
        "semi-weak keys in related positions; DES: parity-equivalent keys and the 64 single-bit neighbours; AES: single-bit "
        "neighbours and equal / one-bit-apart key halves), each an ECB round trip over 2-3 blocks compared with the Spec; SP 800-38A / FIPS-197 / DES / TDEA known-answer corpus.  A case is non-trivial "
        "when at least one call transformed data; distinct = distinct script text")
TRUSTED_BASE = [
    "'equals the standard' is carried by: (a) the Coq specification layer (Spec_AES.v, Spec_DES.v) being a transcription of "
    "FIPS-197 / FIPS 46-3, validated inside Coq against FIPS-197 App. A/B/C, SP 800-38A F.1-F.5, NBS/SP 800-17 DES and "
    "SP 800-67 TDEA vectors (Examples by vm_compute) - a validated transcription, not a proof against an independent formal "
    "FIPS; (b) implementation = model by the differential run; (c) an independent plain-Python AES/DES/TDEA + SP 800-38A "
    "reference (written from the standards, cross-checked against the OpenSSL CLI during development) used as the monitor",
    "implementation layer (the code that runs, MUGGLE_CRYPT_OPTIMIZATION=1): crypt/openssl/openssl_des.c is modelled as coded "
    "(Impl_DES.v, word-level language of Bitvec.v) and PROVED equal to the specification layer on all inputs; its tables, "
    "PERM_OP argument lists, D_ENCRYPT lookup order and shift schedules are re-extracted from the source on every run "
    "(coq/gen/Params_C12.v).  What is trusted there: the hand transcription of the control structure of openssl_des.c into "
    "Impl_DES.v (macro bodies, statement order, C integer typing) - checked on every run by comparing the key schedule bytes "
    "left in the public context structures with the model's, and by the API-level differential run - and the text extractor "
    "of lib/props/c12.py (regular expressions over the macro bodies; a C program for the tables; the per-round rotation amounts "
    "of DES_set_key_unchecked by lib/props/c12_slice.py rotation_schedule, which walks the clang AST of the function with data "
    "opaque and index arithmetic evaluated - counting loops run, constant tables and locals followed - and records every "
    "(X >> A) | (X << B): the two variables rotated once per round give des_shifts1 / des_shifts2 however the amounts are written)",
    "AES: all of crypt/openssl/openssl_aes.c is modelled as coded (Impl_AES.v) and PROVED equal to FIPS-197 (Spec_AES.v) for "
    "every 128/192/256-bit key and block, both directions (aes_impl_equals_spec, aes_inv_impl_equals_spec).  Re-extracted "
    "from the C source on every run by the small statement/expression translator of lib/props/c12.py (trusted): the "
    "straight-line circuits openssl_sub_u64 / openssl_inv_sub_u64 / openssl_sub_u32, openssl_xtime_u64 / _u32 and one "
    "iteration of the column loops of openssl_mix_columns / openssl_inv_mix_columns (union byte views and xtime calls "
    "expanded).  Transcribed by hand (trusted, compared with the code on every run through the round-key bytes of the public "
    "context and the cipher output): the two-word state and its byte view, the byte loops of openssl_shift_row / "
    "_inv_shift_row, openssl_add_round_key, openssl_rot_word, the loop of openssl_key_expansion, the round loops of "
    "openssl_cipher / openssl_inv_cipher",
    "muggle_tdes_set_key (tdes.c) is tied to tdes_key_schedules_independent by a NARROW SOURCE SCAN (regular expressions "
    "over the comment-free function body in lib/props/c12.py, not the clang AST), run on every check: anything that is not an "
    "argument check (MUGGLE_CHECK_RET / MUGGLE_ASSERT_MSG), a local computed from the parameters, ctx->op / ctx->mode, "
    "switch / if / return, or a call muggle_des_set_key(<op>, <mode>, <key pointer>, &ctx->ctxN) is listed in "
    "tdes_set_key_foreign (any other call such as a key comparison or memcpy, any loop, any indexing, any other use of "
    "ctx->ctxN); the obligation tdes_set_key_text_is_three_schedule_calls requires that list to be empty and the calls to "
    "fill exactly ctx1, ctx2, ctx3.  Which key and direction each call receives is not decided by the scan (so pointer "
    "locals as in a restructured switch stay quiet); that is checked by the ks= comparison of the three schedules on every setkey",
    "the parameter validation of muggle_openssl_aes_set_key (the key-size chain), muggle_aes_set_key and muggle_des_set_key is tied "
    "to the model by a TRANSLATOR: lib/props/c12_slice.py (an extension of the shared leaf translator lib/leaftrans.py) executes "
    "the clang JSON AST of the C text of this run symbolically into one Gallina term over Z per function (coq/gen/Params_C12.v "
    "gen_muggle_*): integer parameters, pointer parameters as 0 / non-0, the scalar fields op / mode / rounds, if / else / switch "
    "/ locals, the key-schedule call as an opaque call slot with its integer arguments; enumeration values printed by a C program. "
    "Trusted: clang 14's AST, that translator, and that NDEBUG removes MUGGLE_ASSERT_MSG as in the release build.  "
    "Not tied by text: muggle_tdes_set_key's argument chain (source scan above + differential run), the check chains of the "
    "fifteen crypt functions (differential run, monitor, and the API theorems over the transcribed chains)",
    "little-endian host (uint32_t/uint64_t views of byte buffers, the CTR nonce read as bytes); caller buffers do not alias",
]
ASSUMPTIONS = ["input, output and iv buffers are distinct objects (in-place use is outside the model: value semantics; in-place CBC and CFB decryption are wrong on the unchanged code and not part of the documented use)",
               "message lengths are lengths of buffers in memory (far below 2^32 - 16), little-endian host",
               "keys have the length the key-size parameter announces"]
EVIDENCE_NOTES = [
    "PROVED (Coq, unbounded, closed under the global context): for ANY block primitive E with inverse D on bs-byte blocks - "
    "ecb/cbc_dec_enc (CBC also ends in the same iv), cfb/ofb/ctr_dec_enc for any E, iv, offset, length; cfb/ofb/ctr chunking "
    "(two calls carrying iv/offset/stream block/nonce = one call) and any partition by induction on the chunk list; CBC "
    "chunking over whole blocks; the counter as coded is the little-endian 128-bit (64-bit for DES) counter incremented mod "
    "2^128 (2^64) - ctr_counter_carry; the byte-at-a-time CFB/OFB/CTR loops equal the block-wise definitions of SP 800-38A "
    "6.3 (s = b) / 6.4 / 6.5 for every E, IV/counter and message length, also when resumed inside a block "
    "(cfb/ofb/ctr_equals_sp80038a; ECB/CBC loops are 6.1/6.2 verbatim).  FIPS-197 InvCipher(Cipher(b)) = b for every 128/192/256-bit key and block "
    "(aes_dec_enc: S-box inverse by a 256-sweep; InvMixColumns.MixColumns = id from 256x256 additivity sweeps of the six "
    "GF(2^8) constant multiplications and 256-sweeps of the 16 matrix-product entries, lifted by lemmas; key expansion yields "
    "Nr+1 well-formed round keys).  FIPS 46-3 deciphering inverts enciphering for every key schedule and block (des_dec_enc: "
    "generic Feistel lemma, IP/IP^-1 on 64 symbolic positions, bit/byte round trips); tdes_dec_enc for the library's EDE key "
    "arrangement in muggle_tdes_set_key (both directions).  At the level of the API functions with their parameter-check "
    "chains: aes/des/tdes_modes_dec_enc (all five modes, decrypting call reproduces the message and the same chaining state), "
    "aes/des/tdes_stream_any_partition (one or more calls, all accepted, = one call), ECB/CBC non-block-multiple lengths and "
    "every other invalid parameter (NULL pointer, mode function not matching the context, offset >= block size; bad op / mode "
    "/ key size / NULL at set_key) are rejected, a rejected call writes nothing and leaves the chaining state unchanged, and "
    "valid calls are accepted.",
    "VALIDATED, not proved: 'produces exactly the output defined by FIPS-197 / FIPS 46-3' for the block primitives.  The "
    "specification layer IS the standards' definition (tables and algorithms transcribed), checked in Coq by vm_compute against "
    "FIPS-197 App. A/B/C, SP 800-38A F.1-F.5 (through the transcribed mode loops, both directions), DES and TDEA known "
    "answers - these vectors are obligations of Properties_C12.v; there is no independent formal FIPS to prove against.",
    "IMPLEMENTATION LAYER PROVED (code that runs, all inputs): des_impl_equals_spec - muggle_openssl_des_gen_subkeys + "
    "muggle_openssl_des_crypt as coded in crypt/openssl/openssl_des.c (C2L loads, IP/FP as PERM_OP sequences, ROTATE, sixteen "
    "D_ENCRYPT with the eight SP tables, DES_set_key_unchecked with PC-1 by PERM_OP/HPERM_OP, 28-bit rotations, PC-2 through the "
    "eight skb tables, the rotated two-word sub-key packing, the sub-key swap for decryption) equals FIPS 46-3 for every key and "
    "block, both directions; des_key_schedule_impl_equals_spec, des_round_impl_equals_spec; tdes_impl_equals_spec - "
    "muggle_openssl_tdes_crypt (IP once, three DES_encrypt2, FP once) equals the E/D/E composition of the standard; "
    "aes_sbox_impl_equals_spec / aes_inv_sbox_impl_equals_spec / aes_subword_impl_equals_spec - the constant-time bitsliced "
    "circuits openssl_sub_u64, openssl_inv_sub_u64, openssl_sub_u32 equal the FIPS-197 S-box / inverse S-box on every byte for "
    "all 2^64 / 2^32 words; aes_impl_equals_spec / aes_inv_impl_equals_spec - muggle_openssl_aes_set_key + "
    "muggle_openssl_aes_encrypt / _decrypt as coded equal KeyExpansion + Cipher / InvCipher of FIPS-197 for every "
    "128/192/256-bit key and every block, with aes_key_expansion_impl_equals_spec (two 32-bit words per loop iteration, "
    "rot_word, SubWord circuit, rcon by openssl_xtime_u32), aes_cipher_loop / aes_inv_cipher_loop (round loops for any round "
    "keys), aes_mix_columns / aes_inv_mix_columns / aes_shift_row / aes_add_round_key / aes_xtime on the packed "
    "uint64_t[2] state.  Method: the C code in a deep-embedded word language (Bitvec.v); a symbolic evaluator over GF(2)-affine "
    "forms of the input bits, proved sound, decides every bit permutation / selection (IP, FP, PC-1, rotations, E-window "
    "extraction, linear skb tables) by computation; 512-entry sweep for the SP tables; for the AES circuits a dependency analysis "
    "(Bitdep.v, proved sound for two runs) shows byte-lane independence, then 256 values per lane are swept; xtime and "
    "(Inv)MixColumns are GF(2)-linear and decided by the affine evaluator (extended by the 'b -= b >> 7' idiom, proved sound "
    "via a 256-case arithmetic lemma) against the bit-level form of the specification; the key expansion by a simulation "
    "between one loop iteration of the code and two steps of the standard, with the index arithmetic decided by computation "
    "for the three key sizes.  The tables, PERM_OP "
    "arguments, lookup order, shift schedules and the S-box circuits come from coq/gen/Params_C12.v, regenerated from the "
    "working tree on every run: a changed table entry, mask or shift breaks these obligations (as well as the differential run).",
    "KEY HANDLING PROVED: des_key_schedule_ignores_parity (keys equal after '& 0xfe' on every byte have the same sixteen "
    "sub-keys; des_key_schedule_impl_ignores_parity for DES_set_key_unchecked as coded) and "
    "des_key_schedule_ignores_exactly_parity (on the 64 key bits: positions 7, 15, .., 63 never matter, and for each of the "
    "other 56 positions a named sub-key bit equals that key bit, so keys differing there have different schedules - a "
    "comparison that also ignores bit 0x80, or any other bit, is not an equivalence of keys); "
    "tdes_key_schedules_independent (for every key triple, direction and mode the three contexts are the DES key schedules of "
    "one key each - tdes_slots names key and direction - and ctx_i does not change when the other keys change); "
    "tdes_key_schedules_impl_independent (the ctx1..ctx3 bytes of the implementation layer are those three schedules); "
    "tdes_set_key_text_is_three_schedule_calls (source scan of muggle_tdes_set_key, see trusted base): a shortcut path that "
    "compares keys or copies a schedule breaks this obligation before any input is found.",
    "PARAMETER VALIDATION PROVED (C12/Proofs_SetKey.v): the key size is modelled as the C int it is (aes_set_key_int, bits : Z); "
    "aes_set_key_accepts_exactly_128_192_256 - for EVERY integer bits, set_key returns OK iff op, mode valid, key and ctx non-NULL "
    "and bits is 128, 192 or 256 (160, 224, 0, negative, neighbours, large values all refused); aes_set_key_error_code_order (argument "
    "checks in the order of the code, the key size last), aes_set_key_other_sizes_rejected, aes_set_key_int_is_aes_set_key (the int "
    "entry point is the entry point of the other API theorems at Z.to_N bits), aes_set_key_context_iff_accepted / "
    "des_tdes_set_key_context_iff_accepted (a refused set_key yields no context - observed by the driver as 'key-schedule area "
    "untouched' and 'nothing to run on' - an accepted one the stored op / mode and the schedule of the announced size and "
    "direction), des_tdes_set_key_accept_exactly.  TIED TO THE C TEXT on every run: set_key_text_matches_reference (the three "
    "translated functions equal reference functions on all integer arguments, by a decision tactic that does not depend on the "
    "shape of the text: conditionals split innermost-first, masks / shifts turned into mod / div, lia under a time limit), "
    "openssl_aes_set_key_text_accepts_exactly_128_192_256 (the translated key-size chain returns 0 exactly for 128/192/256 over all of "
    "Z, otherwise the key-size code and no key-expansion call; on success one call with (Nr, Nk) of the specification's table), "
    "aes_set_key_text_returns_model_error_code (muggle_aes_set_key composed with the chain returns the model's error code for every "
    "int op, mode, bits and NULL / non-NULL key, ctx; bits reaches the chain unchanged), "
    "des_set_key_text_returns_model_error_code (and the schedule direction handed to the key schedule is the model's).  A test "
    "such as 'bits % 32 == 0 && 4 <= bits/32 <= 8' breaks these obligations and is found by the kbits-* sweep as a concrete input.",
    "COVERED BY THE DIFFERENTIAL RUN AND THE MONITOR ONLY: that the hand-transcribed control structure of the implementation "
    "layer is the control structure of the C code (Impl_DES.v against openssl_des.c; in Impl_AES.v the state view, shift_row "
    "byte loops, add_round_key, rot_word, key expansion loop and round loops against openssl_aes.c) - additionally checked on "
    "every setkey by comparing the key schedule bytes of the public AES / DES / 3DES context structures with the "
    "implementation-layer model; the mode loops of aes.c / des.c / tdes.c against Modes.v; memory safety of the loops "
    "(ASan, exact-size heap buffers, aligned and misaligned).  Because that structure is not extracted, behaviour-preserving "
    "rewrites of it (for <-> while, walking round-key pointer, % 4 <-> & 3) leave the obligations untouched.  "
    "crypt/internal/* is dead code in this configuration (MUGGLE_CRYPT_OPTIMIZATION=1) and is not exercised.",
    "NOT COVERED: in-place operation (input == output).  The model has value semantics (input, output and iv are distinct "
    "values), so aliasing is outside every theorem's quantifier and the drivers always pass distinct exact-size heap blocks.  On "
    "the unchanged code in-place DECRYPTION is wrong for CBC (the overwritten ciphertext block is taken as the next iv: aes.c "
    "muggle_aes_cbc, des.c / tdes.c alike) AND for CFB (iv[offset] = input[i] is read after output[i] was stored: aes.c "
    "muggle_aes_cfb128, des.c muggle_des_cfb64, tdes.c muggle_tdes_cfb64); in-place ECB / OFB / CTR and in-place encryption happen "
    "to work but are not checked either - the property text and the headers do not promise in-place use.  Also not covered: "
    "big-endian hosts; lengths >= 2^32 - 16; the MUGGLE_CRYPT_OPTIMIZATION=0 build (crypt/internal/*.c and the #else branches).",
    "Defect confirmed and repaired by fixes/C12-aes-null-offset.patch (committed in the repository as 'fix: reject NULL "
    "iv_offset / nonce in muggle_aes_cfb128, muggle_aes_ofb128, muggle_aes_ctr'): muggle_aes_cfb128 / muggle_aes_ofb128 dereferenced a "
    "NULL iv_offset and muggle_aes_ctr a NULL nonce instead of returning MUGGLE_ERR_NULL_PARAM (the DES/TDES counterparts "
    "check them).  The model has the repaired check chain; on the unrepaired tree the check reports the crash as a VIOLATION "
    "(corpus/C12/regress-aes-null-offset.case).",
    "Self-validation (scratch worktrees): caught with a reproducing replay - CFB decrypt storing the output byte in the "
    "register, CTR carry on nonce[0]==1, CBC decrypt taking the output block as next iv, DES OFB offset not written back, "
    "3DES decrypt key order, one DES SP-table entry, AES ECB length check relaxed to 8, 3DES CTR increment after use, AES-256 "
    "key expansion without the extra SubWord, 3DES CFB offset wrap '% 7', DES CBC iv not written back, two-key 3DES shortcut with a wrong equivalence mask (caught by "
    "the related-key family and by the source-scan obligation); an error-code change "
    "is reported as a broken correspondence (no-failing-input-found); quiet on '& 0x0f' -> '% 16', '/ 8' -> '>> 3', a "
    "rewritten counter carry.  Round 5: AES key-size test rewritten as 'bits % 32 == 0 && 4 <= bits/32 <= 8' (160 / 224 accepted) - "
    "caught by kbits-* / corpus setkey-aes-keysize-160-224 with a concrete replay and by the text obligations; see DESIGN.md 11.",
]
MANIFEST = {
    "level_text": ("Unbounded Coq theorems over (a) an executable specification layer transcribing FIPS-197 and FIPS 46-3 "
                   "and (b) a code layer transcribing the mode loops and parameter checks of aes.c / des.c / tdes.c with the "
                   "block primitive as a parameter: decryption inverts encryption in ECB/CBC/CFB/OFB/CTR for every key, IV, "
                   "message, offset and length (generic over any invertible block primitive, then AES via S-box/MixColumns "
                   "sweeps, DES via a Feistel lemma, 3DES via the library's EDE key arrangement); any partition of a stream "
                   "into calls carrying iv/offset/stream block/nonce equals one call; the counter increment as coded is a "
                   "little-endian 128/64-bit counter; non-block-multiple lengths and other invalid parameters are rejected "
                   "with nothing written.  'Equals the standard' = the specification layer is the standard's definition "
                   "(validated in Coq against FIPS-197 A/B/C, SP 800-38A F.1-F.5, DES/TDEA vectors) + implementation = model "
                   "by a differential run of the extracted model against the public API compiled from the working tree under "
                   "ASan, plus an independent plain-Python AES/DES/3DES + SP 800-38A monitor.  Implementation layer: the DES / "
                   "3DES code that runs (openssl_des.c: SP tables, skb tables, PERM_OP sequences, key schedule) and the whole "
                   "constant-time AES (openssl_aes.c: bitsliced S-boxes, xtime, MixColumns, ShiftRows, key expansion, round loops), "
                   "with tables and straight-line circuits re-extracted from the source on every run, are proved equal to the "
                   "specification layer on all inputs."),
    "design_ref": "DESIGN.md section 6 / C12",
    "level_note": ("Trusted: Coq kernel (vm_compute for finite sweeps), extraction (ExtrOcamlBasic), the differential harness "
                   "and the Python reference; the hand transcription of openssl_des.c's control structure and the source-text "
                   "extractor / translator."),
    "technique": ("Coq: generic mode-loop theorems by induction, AES inverse by complete finite sweeps lifted by lemmas, DES "
                  "inverse by a generic Feistel lemma; vm_compute known-answer validation; implementation layer in a deep-embedded "
                  "word language with verified symbolic evaluators (GF(2)-affine forms; bit dependencies) + table sweeps; "
                  "extracted-model differential run; independent reference monitor"),
}
