"""C16 — logging: one whole line per accepted call per handler; truncation at the fixed maximum
without out-of-bounds access; async logger equals sync, drains on destroy, leaks nothing.
Plugin for bin/check."""
import os
import re
import time
import vcommon as V

ID = "C16"
COQ_DIRS = ["C16"]
MODEL_BASE = "c16_model"
OCAML_DRIVER = "ocaml/c16_driver.ml"
OCAML_INCLUDES = ["ocaml/vsacc.ml.inc"]
C_DRIVER = "harness/drivers/c16_driver.c"
EXTRA_C = ["harness/c16_alloc.c"]
REPO_SOURCES = V.all_repo_sources()
WRAPS = ["malloc", "free", "calloc", "realloc", "aligned_alloc", "timespec_get", "time", "syscall",
         "fwrite", "fclose", "fopen", "pthread_create", "pthread_join"]
HEADER_LINES = 3
SHRINK_BUDGET = 30
CASE_TIMEOUT = 20.0
MODEL_CASE_TIMEOUT = 20.0
SCRATCH = os.path.join(V.BUILD, "C16", "scratch")
IMPL_ENV = {"C16_SCRATCH": SCRATCH}

LIMIT_DEFAULT = 4096
PRE_EXISTING = b"PRE-EXISTING LINE\n"
SRC_BASENAME = "c16_src.c"
SRC_FUNC = "c16_case"
LEVELS = [0, 256, 512, 768, 1024, 1280]
ODD_LEVELS = [-1, 255, 257, 767, 1279, 1281, 1536]
LEVEL_NAMES = ["TRACE", "DEBUG", "INFO", "WARNING", "ERROR", "FATAL"]
ESC_RED, ESC_YEL, ESC_RST = b"\x1b[31m", b"\x1b[33m", b"\x1b[0m"

RULE = ("mode seq (also: the library's own entry points muggle_log_simple_init / muggle_log_complicated_init on the default logger "
        "through the MUGGLE_LOG_DEFAULT macro; the plain file handler in append mode, with a relative path, without its mutex; "
        "blocks allocated by the log calls pre-filled with 64-bit patterns; the prefix of every formatter over all level names, "
        "clocks around leap days / month / year ends, line numbers of 1..10 digits): every level x handler-level pair (the six levels plus off-grid values), message lengths 0..3xLIMIT with "
        "all boundaries of the formatted line around LIMIT, printable / format-like ('%s%n') / non-ASCII content, both "
        "built-in formatters, custom + file + console + rotating handlers, sync and async loggers, malloc failure "
        "positions; mode thr: 1..16 real producer threads with tagged payloads (sync, async below and above queue "
        "capacity), incl. the console handler (colours on / off; stdout / stderr captured at fwrite, escape sequence + line + reset "
        "must stay together), incl. 2..8 threads through the size-rotating handler with a small max_bytes (dozens of rotations) and "
        "the time-rotating handler with the per-call clock crossing periods, the stream checked being all backup / period "
        "files + the live file; mode vs (rotating handlers too: fclose / fopen of a rotation are scheduling points): the same code under the deterministic scheduler (handler-mutex atomicity; async queue-full "
        "and shutdown paths) with every trace replayed on the extracted model; non-trivial = a call is filtered and "
        "another accepted, or a line reaches/exceeds LIMIT, or threads contend / the queue overflows; distinct = "
        "distinct case text")
TRUSTED_BASE = [
    "modelled, not verified: vsnprintf/snprintf (oracle: the driver reports the text and the two built-in formatters' "
    "unbounded output for every call; the monitor recomputes both independently in Python), fwrite/fflush and the file "
    "system, terminal colour codes; clock, thread id, malloc family, fwrite, pthread_create/join are interposed with "
    "-Wl,--wrap",
    "fwrite on a handler stream is executed as two partial writes separated by a scheduling point (the C standard gives "
    "no atomicity for concurrent fwrite; the guarantee has to come from the handler mutex)",
    "the channel is modelled as a bounded FIFO with FULL whose push / full / pop linearise at the store of write_cursor / "
    "the load of read_cursor / the store of read_cursor (C01's subject); usable capacity = next_pow_of_2(capacity) - 2",
    "LIMIT, the level enum and MUGGLE_LOGGER_MAX_HANDLER are re-extracted from the headers into coq/gen/Params_C16.v on every run",
    "second tie (translator kind): lib/props/c16_slice.py slices, out of the clang JSON AST of the C text of this run, "
    "muggle_log_handler_should_write, the log functions of both loggers (pre-filter loop unrolled to the re-extracted "
    "MUGGLE_LOGGER_MAX_HANDLER, early-out, msg.level, size given to vsnprintf and capacity of the payload buffer, allocation "
    "and channel-full paths of the async logger), the write function of the four built-in handlers (formatter call, ret<0, "
    "clamp, newline store, count handed to fwrite, offset / rotation test of the size-rotating handler, detect / rotate before "
    "the write in the time-rotating one), the printf layout of the two built-in formatters (format string, source of every "
    "%s, integer argument of every numeric conversion) and the name table of muggle_log_level_to_str; pointers are followed "
    "symbolically, helpers of the log module are inlined, libc / mutex / channel calls become events on ghost fields; "
    "lib/leaftrans.py turns the slices into Gallina (coq/gen/Params_C16.v gen_*); obligations gen_*_matches_model prove them "
    "equal to the model by shape-independent decision tactics; trusted: clang 14 AST, the slicer and the translator; the "
    "dispatch loop of muggle_logger_write is not in this tie (2^MAX_HANDLER paths), it stays with the differential run",
    "the model's formatters (Model.fmt_simple / fmt_complicated, decimal rendering proved exact, gmtime as the civil-from-days "
    "algorithm) produce the whole line; the drivers only supply the call's source location (c16_src.c / c16_case), the "
    "interposed clock and thread id; muggle_path_basename (C20) and libc's gmtime_r / snprintf conversions are modelled, "
    "not verified, and compared byte for byte on every call",
]
ASSUMPTIONS = [
    "handler formatters are set before add_handler; handler levels may change at any time between calls "
    "(muggle_log_handler_set_level): a call is matched against each handler's level at the time of the call (async: at "
    "the time the writer thread processes it; the driver waits for the writer thread to be idle before a level change); "
    "payloads contain no NUL and no newline; no logging concurrent with or after destroy; a formatter line ends with a newline",
    "async logger: channel capacity >= 3 (usable capacity >= 1) for destroy to return",
    "a handler may look at any field of the message: fields the log function does not stamp (timestamp / thread id without the "
    "matching formatter hint) read as 0 = 'not set' on both loggers (repaired for the async logger by "
    "fixes/C16-async-msg-uninitialised-ts.patch)",
]
EVIDENCE_NOTES = [
    "async_destroy_drains and async_no_leak_on_full are proved in full for the repaired code (C16/ProofsAcct.v: counting "
    "invariant a_remaining = number of producers still logging, 'the sentinel is the last thing ever queued', and the "
    "allocation books as a sum over the producer threads), for any number of producers >= 1, calls, handlers and capacity.",
    "known finding async-capacity-unusable follows the pattern of DESIGN.md 3.2: in_known_class A = (usable capacity 0); "
    "async_destroy_returns_refuted: in the class no schedule makes destroy return (universal invariant) plus the concrete "
    "retry-loop witness; async_destroy_returns_partial: outside the class every refusal of the sentinel leaves messages for "
    "the writer thread, which has not exited and has no lost wake-up (safety core); async_destroy_returns_fair "
    "(C16/ProofsFair.v, scheme of C14/ProofsFair.v): outside the class destroy returns under EVERY fair schedule (rounds "
    "scheduling the writer thread and every producer at least once) within G rounds, G an explicit measure no step "
    "increases and every enabled step decreases except the sentinel retry against a full queue; "
    "async_destroy_clause_in_full combines it with async_destroy_drains and async_no_leak_on_full.",
    "log_no_oob_refuted_before_repair and async_leak_and_hang_before_repair record the defects of the code as first found; "
    "the model the implementation is compared with is the repaired one (commits 59dfdd3, ad89fa8, 0e247d7, cd82dd8).",
    "handler levels are live state: handler_level_filter_exact holds for every history of add_handler / set_level / "
    "log calls on the repaired code (the log functions' early-out asks the attached handlers, "
    "fixes/C16-stale-lowest-level.patch); handler_level_filter_stale_before_repair records the defect (snapshot "
    "lowest_log_level dropped calls after a handler was lowered); corpus/C16/regress-stale-lowest-level.case is its "
    "regression case.  The interleaving models use the static threshold min_level (handler_level_prefilter_static).",
    "formatted line: log_line_is_truncated_format now includes the layout of the two built-in formatters (level name from the "
    "table re-extracted from log_level.c, date / time / milliseconds, file:line, function, thread id, ' - ', payload, newline); "
    "the model driver prints its own 'call' lines (unbounded output of both formatters per call) which are compared with the "
    "implementation's, and every handler stream is compared whole, prefix included; the monitor recomputes both layouts "
    "independently (Python) for every call and every stream.  gen_fmt_*_matches_model / gen_level_index_matches_model tie the "
    "layout and the names to the C text: a swapped field, a changed separator, width or name breaks an obligation and is "
    "found by the differential run with a concrete replay.",
    "translator tie: an off-by-one in any handler's clamp or newline index, a changed ret<0 / fmt==NULL path, > for >= in "
    "should_write or in a pre-filter loop, a payload buffer shorter than the size given to vsnprintf, a changed rotation test "
    "or a write moved across the rotation breaks a gen_*_matches_model obligation even when no generated case reaches it; "
    "renamed locals, a named maximum, the store before the assignment, lock / unlock helpers, a reloaded FILE pointer, "
    "conditions merged with && keep them (refactored/C16-A..D stay quiet).",
    "no free parameters: handler_level_threshold_is_prefilter, log_per_thread_order_tied and "
    "async_call_passes_iff_prefilter_tied tie the threshold sc_lowest / as_lowest of the interleaving models to the attached "
    "handlers (the least handler level; 2^31 without handlers) = the code's pre-filter; async_usable_capacity_spec / "
    "async_known_class_is_capacity_le_2 state as_usable = (least power of two >= requested capacity) - 2 and the known class as "
    "'requested capacity <= 2' (that the channel itself behaves so is C01's subject; here it is what the vs traces are accepted "
    "against).",
    "genuine defect found with the allocation fill (cases uninit-*): muggle_async_logger_log left msg->ts / msg->tid of the "
    "allocated message unset when no formatter carries the time / thread hint, and the time-rotating handler reads "
    "msg->ts.tv_sec; with the block holding a later time the line went to the file of a bogus period.  Repair: "
    "fixes/C16-async-msg-uninitialised-ts.patch (zero the message as the sync logger does); regression case "
    "corpus/C16/regress-async-uninit-ts.case.",
    "quick tier: the extracted handler_write is index-level (quadratic in unary nat), so the quick tier uses a coarse length "
    "grid plus the exact boundary of every built-in handler kind x formatter (edge-*); the thorough tier uses the full grid.",
]


def build_impl(ctx):
    os.makedirs(SCRATCH, exist_ok=True)
    return V.build_vsched_driver(ID, C_DRIVER, REPO_SOURCES, extra_c=EXTRA_C, extra_wraps=WRAPS)


# ---------------------------------------------------------------------------
# parameters from the headers

def _read_params():
    V.gen_config_header()
    d = os.path.join(V.BUILD, "C16")
    os.makedirs(d, exist_ok=True)
    exe = os.path.join(d, "params.%d" % os.getpid())
    rc, out, err = V.sh([V.CC, "-I" + V.REPO, "-I" + V.GEN_INC, os.path.join(V.VERIF, "harness/drivers/c16_params.c"), "-o", exe],
                        timeout=120)
    if rc != 0:
        raise RuntimeError("c16_params build failed: " + err[-2000:])
    rc, out, err = V.sh([exe], timeout=20)
    try:
        os.remove(exe)
    except OSError:
        pass
    vals = {}
    for ln in out.split("\n"):
        w = ln.split()
        if len(w) == 2:
            vals[w[0]] = int(w[1])
    return vals


_params_cache = {}


def params():
    if not _params_cache:
        _params_cache.update(_read_params())
    return _params_cache


def gen_params(ctx):
    p = params()
    lv = [p[k] for k in ("trace", "debug", "info", "warning", "error", "fatal")]
    head = ("(* generated by lib/props/c16.py from muggle/c/log/{log_msg.h,log_level.h,log_logger.h} and, below, by\n"
            "   lib/props/c16_slice.py from the C text of muggle/c/log/*.c; do not edit *)\n"
            "From MV Require Import C16.Model.\n"
            "From MV Require Import Lib.Leaf.\n"
            "Local Open Scope Z_scope.\n"
            "Definition code_limit : nat := %d%%nat.\n"
            "Definition code_level_offset : Z := %d.\n"
            "Definition code_level_values : list Z := [%s].\n"
            "Definition code_levels : levels :=\n"
            "  {| lv_warning := %d; lv_error := %d; lv_fatal := %d; lv_max_handler := %d%%nat |}.\n" % (
                p["limit"], p["offset"], "; ".join(("(%d)" % v) if v < 0 else str(v) for v in lv),
                p["warning"], p["error"], p["fatal"], p["max_handler"]))
    # second tie (DESIGN.md 4.4): level test, pre-filter loops, payload / line clamps, rotation test, formatter layouts
    # and level names, sliced out of the C text of this run (lib/props/c16_slice.py) and translated by lib/leaftrans.py
    from props import c16_slice as S
    flags = ["-std=gnu11", "-I" + V.REPO, "-I" + V.GEN_INC, "-DNDEBUG"]
    try:
        body = S.generate(V.REPO, flags, p["max_handler"], cache_dir=os.path.join(V.BUILD, "C16", "astcache"), cc=V.CC)
    except Exception as e:      # a broken slicer must break the obligations, not the machinery
        body = "(* slicer failure: %s *)\n" % str(e)[:300].replace("*)", "* )").replace("(*", "( *")
    tail = ""
    if "Definition code_level_names " not in body:
        # keep this file (and the extracted model) compiling; gen_level_index_matches_model is broken by the missing gen_level_index
        tail += ("Definition code_level_names : list (list byte) := [].\n"
                 "Definition code_level_unknown : list byte := [].\n")
    tail += ("Definition code_fmtcfg : fmtcfg :=\n"
             "  {| fc_names := code_level_names; fc_unknown := code_level_unknown; fc_offset := code_level_offset |}.\n")
    return head + "\n(* --- re-translated from muggle/c/log/*.c on this run --- *)\n" + body + "\n" + tail


# ---------------------------------------------------------------------------
# case construction

def _hx(b):
    return bytes(b).hex()


def _content(rng, kind, n):
    if kind == "ascii":
        return bytes(32 + (i * 7 + n) % 95 for i in range(n)).replace(b"%", b"p")
    if kind == "fmt":
        pat = b"%s%n%d%%%5$x %p%lu{%}"
        return (pat * (n // len(pat) + 1))[:n]
    if kind == "utf8":
        pat = "héllo 世界 üñ ".encode("utf-8")
        return (pat * (n // len(pat) + 1))[:n]
    if kind == "high":
        return bytes(0x80 + (i * 13 + 5) % 0x80 for i in range(n))
    return bytes([rng.choice([c for c in range(1, 256) if c not in (10, 37)]) for _ in range(n)])


def _seq(name, logger, hs, ops, clock=(1700000000, 123456789), meta=None):
    lines = ["mode seq", "logger " + logger, "clock %d %d" % clock]
    lines += ["h %s %d %s" % h for h in hs]
    for o in ops:
        if o[0] == "log":
            lines.append("log %d %d %s %s" % (o[1], o[2], o[3], _hx(o[4])))
        elif o[0] == "set":
            lines.append("setlevel %d %d" % (o[1], o[2]))
        elif o[0] == "fail":
            lines.append("failmalloc %d" % o[1])
        elif o[0] == "hold":
            lines.append("hold %d %d %s %s" % (o[1], o[2], o[3], _hx(o[4])))
        elif o[0] == "release":
            lines.append("release")
        elif o[0] == "fill":
            lines.append("fill64 %d" % o[1])
    return V.Case(name, lines, meta or {})


def _thr(name, mode, logger, hs, n, msgs, paylen, sched=None, lossy=False, tick=0):
    lines = ["mode " + mode, "logger " + logger, "clock 1700000000 123456789"]
    lines += ["h %s %d %s" % h for h in hs]
    lines.append("threads %d %d %d" % (n, msgs, paylen))
    if tick:
        lines.append("tick %d" % tick)
    if lossy:
        lines.append("lossy 1")
    if sched:
        lines.append("sched " + sched)
    return V.Case(name, lines, {})


def _boundary_lengths(limit, tier="thorough"):
    # payload lengths that put the formatted line (prefix ~20 simple / ~58 complicated, + newline) around LIMIT.
    # The extracted model's handler_write is index-level (quadratic in unary nat), so the quick tier keeps the
    # grid coarse here; the exact boundary of every handler kind x formatter is hit by the "edge-*" cases.
    ls = {0, 1, 2, 100, limit // 2, limit - 2, limit - 1, limit, limit + 1, 2 * limit, 3 * limit}
    for prefix in ((20, 59) if tier == "quick" else (20, 21, 59, 60)):
        for d in ((-1, 0, 1) if tier == "quick" else (-3, -2, -1, 0, 1, 2)):
            ls.add(limit - 1 - prefix + d)
    return sorted(x for x in ls if x >= 0)


def corpus_cases(ctx):
    limit = params().get("limit", LIMIT_DEFAULT)
    cs = [
        # the probe of DESIGN.md section 5: a file handler gets more bytes than its buffer holds
        _seq("corpus-overlong-file", "sync", [("cap", 512, "simple"), ("file", 512, "simple")],
             [("log", 512, 10, "s", b"x" * (limit - 6)), ("log", 512, 11, "s", b"next")]),
        _seq("corpus-payload-limit", "sync", [("cap", 0, "raw")],
             [("log", 512, 10, "s", b"q" * (limit - 2)), ("log", 512, 10, "s", b"r" * (limit - 1)), ("log", 512, 10, "s", b"s" * limit),
              ("log", 512, 10, "ds", b"t" * limit)]),
        _seq("corpus-payload-limit-async", "async 16", [("cap", 0, "raw")],
             [("log", 512, 10, "s", b"r" * (limit - 1)), ("log", 512, 10, "s", b"s" * (limit + 7))]),
        _seq("corpus-exact-limit", "sync", [("file", 0, "simple")],
             [("log", 512, 10, "s", b"y" * (limit - 21)), ("log", 512, 10, "s", b"y" * (limit - 20)), ("log", 512, 11, "s", b"z")]),
        _seq("corpus-formatlike", "sync", [("cap", 0, "simple"), ("file", 0, "complicated"), ("console", 0, "simple")],
             [("log", 512, 7, "s", b"%s%n%n%s%d %100000d"), ("log", 768, 8, "ds", b"%s%n"), ("log", 1024, 9, "s", b"caf\xc3\xa9 \xff\xfe")]),
        _seq("corpus-nine-handlers", "sync", [("cap", 256 * (i % 6), "simple") for i in range(9)],
             [("log", lv, 5, "s", b"m%d" % lv) for lv in LEVELS]),
        _seq("corpus-async-payload-malloc-fails", "async 16", [("cap", 0, "simple")],
             [("log", 512, 1, "s", b"a"), ("fail", 2), ("log", 512, 2, "s", b"b"), ("fail", 1), ("log", 512, 3, "s", b"c"), ("log", 512, 4, "s", b"d")]),
        # the writer thread never runs while the only producer bursts past the queue capacity and then
        # destroys: messages refused by the full queue; the NULL sentinel refused as well
        _thr("corpus-vs-async-full-then-destroy", "vs", "async 4", [("cap", 0, "simple")], 1, 4, 12,
             sched="list - " + " ".join(["1"] * 300)),
        _thr("corpus-vs-async-two-producers-full", "vs", "async 3", [("cap", 256, "simple"), ("file", 0, "simple")], 2, 3, 12,
             sched="list - " + " ".join(["1", "2"] * 150)),
        _thr("corpus-vs-rot-contended", "vs", "sync", [("rots", 0, "simple"), ("trots", 0, "simple")], 3, 3, 12, tick=1,
             sched="list - " + " ".join(["0", "1", "2"] * 200)),
        _thr("corpus-vs-sync-contended", "vs", "sync", [("file", 0, "simple"), ("cap", 0, "complicated")], 3, 2, 12,
             sched="list - " + " ".join(["0", "1", "2"] * 100)),
    ]
    # regression cases kept as files (corpus/C16/*.case)
    d = os.path.join(V.VERIF, "corpus", ID)
    if os.path.isdir(d):
        for f in sorted(os.listdir(d)):
            if f.endswith(".case"):
                cs.append(V.Case.load(os.path.join(d, f)))
    return cs


def generate(rng, tier):
    limit = params().get("limit", LIMIT_DEFAULT)
    cases = []
    allv = LEVELS + ODD_LEVELS
    # (a) every level x handler-level pair, both formatters, sync and async
    for i, hl in enumerate(allv):
        for logger in ("sync", "async 64"):
            hs = [("cap", hl, "simple"), ("file", hl, "complicated"), ("cap", allv[(i + 5) % len(allv)], "complicated")]
            ops = [("log", lv, 100 + j, rng.choice(["s", "ds"]), b"lv%d/%d" % (lv, hl)) for j, lv in enumerate(allv)]
            cases.append(_seq("pairs-%s-%d" % (logger.split()[0], hl), logger, hs, ops))
    # (a2) the prefix of both formatters: every level name (and the name of a level outside the table), clocks at the
    # epoch, around a leap day, at the end of a month / year, milliseconds 000 and 999, one- to ten-digit line numbers
    clocks = [(0, 0), (951782399, 999999999), (951782400, 999999), (1709251199, 1000000), (1735689599, 500000000)]
    if tier != "quick":
        clocks += [(59, 1), (1078012800, 123000000), (1999999999, 999000000), (rng.below(2000000000), rng.below(1000000000))]
    for i, ck in enumerate(clocks):
        ops = [("log", lv, [1, 9, 10, 77, 4096, 65535, 99999, 1000000, 2147483647, 2147483646, 123, 5, 42][j % 13], "s", b"p%d" % j)
               for j, lv in enumerate(allv)]
        cases.append(_seq("prefix-%d" % i, "sync" if i % 2 else "async 64",
                          [("cap", -5000, "complicated"), ("file", -5000, "simple"), ("cap", -5000, "simple")], ops, clock=ck))
    # (b) lengths x content x handler kinds
    kinds_sets = [[("cap", 0, "raw"), ("file", 0, "simple")],
                  [("cap", 0, "complicated"), ("file", 0, "complicated"), ("cap", 0, "raw")],
                  [("console", 0, "simple"), ("rot", 0, "complicated")],
                  [("trot", 0, "simple"), ("conplain", 0, "complicated")]]
    lens = _boundary_lengths(limit, tier)
    contents = ["ascii", "fmt", "utf8", "high", "rand"]
    k = 0
    for n in lens:
        reps = 1 if tier == "quick" else 3
        for r in range(reps):
            hs = kinds_sets[k % len(kinds_sets)]
            ck = contents[k % len(contents)]
            lv = LEVELS[(k * 5 + 2) % 6]
            logger = "sync" if k % 3 else "async 64"
            ops = [("log", lv, 10 + k % 80, "s", _content(rng, ck, n)), ("log", lv, 11 + k % 80, "ds", b"after")]
            cases.append(_seq("len-%d-%s-%d" % (n, ck, r), logger, hs, ops))
            k += 1
    # (b2) every built-in handler kind x formatter at the exact boundary: formatted line of LIMIT-2 .. LIMIT+2 bytes
    for kd in ("file", "console", "conplain", "rot", "trot"):
        for fm in (0, 1):
            lv, srcline = LEVELS[(len(kd) + fm) % 6], 77
            base = limit - len(format_line(fm, lv, srcline, 4242, (1700000000, 123456789), b""))
            ops = [("log", lv, srcline, "s", _content(rng, "ascii", base + d))
                   for d in ((-1, 0, 1) if tier == "quick" else (-2, -1, 0, 1, 2))]
            ops.append(("log", lv, srcline, "s", b"after"))
            hs_edge = [(kd, 0, "complicated" if fm else "simple")] + ([] if tier == "quick" else [("cap", 0, "raw")])
            cases.append(_seq("edge-%s-%d" % (kd, fm), "sync" if fm else "async 64", hs_edge, ops))
    # (c) random mixes
    nrand = 40 if tier == "quick" else 600
    for i in range(nrand):
        nhs = rng.range(1, 4)
        hs = []
        con = False
        for _ in range(nhs):
            kd = rng.choice(["cap", "cap", "file", "file", "rot", "trot", "console", "conplain"])
            if kd.startswith("con"):
                if con:
                    kd = "file"
                con = True
            hs.append((kd, rng.choice(allv), rng.choice(["simple", "complicated"])))
        ops = []
        for j in range(rng.range(1, 8)):
            if tier == "quick":
                n = rng.choice([0, 1, 5, 40, 200, rng.below(300)]) if rng.chance(19, 20) else rng.choice([limit - 60 + rng.below(70), rng.below(3 * limit)])
            else:
                n = rng.choice([0, 1, 5, 40, 200, rng.below(300), limit - 60 + rng.below(70)]) if rng.chance(9, 10) else rng.below(3 * limit)
            ck = rng.choice(contents)
            tm = rng.choice(["s", "s", "ds", "lit"])
            c = _content(rng, ck, n)
            if tm == "lit":
                c = c.replace(b"%", b"#")
            ops.append(("log", rng.choice(allv), rng.range(1, 99999), tm, c))
        logger = rng.choice(["sync", "sync", "async 256"])
        cases.append(_seq("mix-%d" % i, logger, hs, ops, clock=(rng.below(2000000000), rng.below(1000000000))))
    # (d) malloc failure positions (async)
    for i in range(4 if tier == "quick" else 20):
        ops = []
        for j in range(6):
            if rng.chance(1, 2):
                ops.append(("fail", rng.choice([1, 2])))
            ops.append(("log", rng.choice(LEVELS), j, "s", b"m%d" % j))
        cases.append(_seq("mfail-%d" % i, "async 64", [("cap", 256, "simple")], ops))
    # (e) handler levels changed with muggle_log_handler_set_level between calls (the level is live state, the
    # logger's lowest_log_level a snapshot): 1, 2 and 3 handlers, sync and async, raised / above FATAL / below TRACE /
    # lowered, also below the level the handler had when it was attached (the logger's early-out must follow the live
    # levels: repaired by fixes/C16-stale-lowest-level.patch).
    for logger in ("sync", "async 64"):
        lg = logger.split()[0]
        cases.append(_seq("lvl-raise-1-%s" % lg, logger, [("cap", 256, "simple")],
                          [("log", 256, 1, "s", b"a"), ("set", 0, 1024), ("log", 512, 2, "s", b"b"), ("log", 1024, 3, "s", b"c"),
                           ("set", 0, 300), ("log", 300, 4, "s", b"d"), ("log", 299, 5, "s", b"e"), ("set", 0, 5000),
                           ("log", 1280, 6, "s", b"f"), ("log", 5000, 7, "s", b"g")]))
        cases.append(_seq("lvl-above-fatal-1-%s" % lg, logger, [("file", 1536, "simple")],
                          [("log", lv, 10 + j, "s", b"x%d" % lv) for j, lv in enumerate([1024, 1280, 1281, 1535, 1536, 2000])]))
        cases.append(_seq("lvl-below-trace-1-%s" % lg, logger, [("cap", -1, "complicated")],
                          [("log", -2, 1, "s", b"a"), ("log", -1, 2, "s", b"b"), ("set", 0, 0), ("log", -1, 3, "s", b"c"),
                           ("log", 0, 4, "s", b"d"), ("set", 0, -1), ("log", -1, 5, "s", b"e")]))
        for nhs in (1, 2, 3):
            for r in range(2 if tier == "quick" else 12):
                hs = [(rng.choice(["cap", "file"]), rng.choice(allv), rng.choice(["simple", "complicated"])) for _ in range(nhs)]
                ops = []
                for j in range(rng.range(6, 12)):
                    if rng.chance(1, 3):
                        ops.append(("set", rng.below(nhs), rng.choice(allv + [2000, 5000, -300])))
                    else:
                        ops.append(("log", rng.choice(allv + [2000]), 20 + j, "s", b"m%d" % j))
                cases.append(_seq("lvl-%s-%d-%d" % (lg, nhs, r), logger, hs, ops))
        if True:
            cases.append(_seq("lvl-lower-%s" % lg, logger, [("cap", 768, "simple"), ("cap", 1024, "simple")],
                              [("log", 512, 1, "s", b"a"), ("set", 0, 256), ("log", 512, 2, "s", b"b"), ("log", 800, 3, "s", b"c"),
                               ("set", 1, 2000), ("log", 1280, 4, "s", b"d")]))
            cases.append(_seq("lvl-lower-1-%s" % lg, logger, [("file", 512, "simple")],
                              [("set", 0, 256), ("log", 256, 1, "s", b"a"), ("log", 512, 2, "s", b"b")]))
    # async logger, level changed while messages wait in the queue (writer thread held inside handler 0's write):
    # the waiting messages meet the levels as they are when the writer thread processes them
    cases.append(_seq("lvl-held-raise-1", "async 64", [("cap", 512, "simple")],
                      [("hold", 512, 1, "s", b"h0"), ("log", 512, 2, "s", b"queued-then-raised"), ("log", 1024, 3, "s", b"stays"),
                       ("set", 0, 768), ("release",), ("log", 512, 4, "s", b"below-now"), ("log", 768, 5, "s", b"ok")]))
    cases.append(_seq("lvl-held-lower-2", "async 64", [("cap", 768, "complicated"), ("file", 1024, "simple")],
                      [("hold", 768, 1, "s", b"h0"), ("log", 800, 2, "s", b"a"), ("set", 1, 256), ("log", 300, 3, "s", b"only-after-lowering"),
                       ("set", 0, 2000), ("release",), ("log", 1280, 4, "s", b"b")]))
    for r in range(2 if tier == "quick" else 10):
        nhs = rng.range(1, 3)
        hs = [("cap", rng.choice(LEVELS[:4]), rng.choice(["simple", "complicated"]))] + \
             [(rng.choice(["cap", "file"]), rng.choice(LEVELS), "simple") for _ in range(nhs - 1)]
        ops = [("hold", hs[0][1], 1, "s", b"h0")]
        for j in range(rng.range(3, 8)):
            if rng.chance(1, 3):
                ops.append(("set", rng.below(nhs), rng.choice(LEVELS + [1536])))
            else:
                ops.append(("log", rng.choice(LEVELS), 10 + j, "s", b"q%d" % j))
        ops.append(("release",))
        ops.append(("log", rng.choice(LEVELS), 30, "s", b"after"))
        cases.append(_seq("lvl-held-%d" % r, "async 64", hs, ops))
    # (e1) the plain file handler's other ways in: append mode on a file that already has a line, a path relative to the
    # working directory (curdir + join), the handler without its mutex (muggle_log_handler_set_mutex(false), one thread)
    for i, (kd, logger) in enumerate([("filea", "sync"), ("filea", "async 64"), ("filerel", "sync"), ("filerel", "async 64"),
                                      ("filenm", "sync")]):
        n0 = limit - len(format_line(1, 512, 77, 4242, (1700000000, 123456789), b""))
        cases.append(_seq("filevar-%s-%d" % (kd, i), logger, [(kd, 256, "complicated"), ("cap", 0, "simple"), (kd, 768, "simple")],
                          [("log", 512, 77, "s", b"one"), ("log", 768, 77, "ds", b"two"), ("log", 0, 77, "s", b"filtered"),
                           ("log", 512, 77, "s", _content(rng, "ascii", n0 + 1)), ("log", 1280, 77, "s", b"last")]))
    # (e1b) the library's own entry points (log.c): muggle_log_simple_init / muggle_log_complicated_init on the default
    # logger, calls through the MUGGLE_LOG_DEFAULT macro: console (colours on) + rotating file "log/<process>.log"
    # relative to the working directory / console + time-rotating file; the formatters they install are private to
    # log.c (level|sec.nsec|file:line|func|tid - payload, and a copy of the complicated layout)
    for i, (lc, lf) in enumerate([(0, 0), (512, 256), (768, -1), (-1, 0), (1280, 1024)] if tier == "quick" else
                                 [(0, 0), (512, 256), (768, -1), (-1, 0), (1280, 1024), (256, 1536), (-1, -1), (1, 255)]):
        for which, fm, fkind in (("inits", "initsimple", "rotrel"), ("initc", "complicated", "trot")):
            hs = ([("console", lc, fm)] if lc >= 0 else []) + ([(fkind, lf, fm)] if lf >= 0 else [])
            base = limit - len(format_line(3 if which == "inits" else 1, 512, 77, 4242, (1700000000 + i, 123456789), b""))
            ops = [("log", lv, 77, "s", b"init %d/%d" % (j, lv)) for j, lv in enumerate(allv)]
            ops += [("log", 1024, 77, "s", _content(rng, "ascii", base + d)) for d in (-1, 0, 1)]
            ops.append(("log", 512, 77, "s", _content(rng, "fmt", 60)))
            cases.append(_seq("init-%s-%d" % (which, i), "%s %d %d" % (which, lc, lf), hs, ops, clock=(1700000000 + i, 123456789)))
    # (e2) nothing may depend on what malloc leaves in a fresh block: the async logger's message is allocated, and
    # its clock / thread id are stored only when some formatter asked for them; handlers that look at them anyway
    # (the time-rotating handler reads msg->ts) must see "not set" (0 -> time(NULL)), as with the sync logger.
    # The blocks allocated by the log calls are pre-filled with a 64-bit word: a plausible future time, 1, a huge
    # value, all ones.
    fills = [1800000000, 1, 1 << 62, (1 << 64) - 1] if tier == "quick" else \
        [1800000000, 1, 86400, 1 << 31, 1 << 62, (1 << 64) - 1, 0x0101010101010101, rng.below(1 << 40)]
    for i, fv in enumerate(fills):
        for kd in (("trot",) if tier == "quick" else ("trot", "trots", "rot", "file")):
            cases.append(_seq("uninit-%s-%d" % (kd, i), "async 64", [(kd, 0, "simple"), ("cap", 0, "simple")],
                              [("fill", fv), ("log", 512, 5, "s", b"first"), ("log", 1024, 6, "ds", b"second"),
                               ("log", 256, 7, "s", b"third")]))
    cases.append(_seq("uninit-hinted", "async 64", [("trot", 0, "simple"), ("cap", 0, "complicated")],
                      [("fill", 1800000000), ("log", 512, 5, "s", b"first"), ("log", 1024, 6, "s", b"second")]))
    # (f) real threads
    tn = [1, 2, 4, 8, 16]
    msgs = 40 if tier == "quick" else 400
    for n in tn:
        for logger in ("sync", "async 4096"):
            hs = [("cap", 256, "simple"), ("file", 512, "complicated"), ("file", 0, "simple")]
            cases.append(_thr("thr-%s-%d" % (logger.split()[0], n), "thr", logger, hs, n, msgs, 24 + n))
    for n in (2, 8, 16):
        cases.append(_thr("thr-async-burst-%d" % n, "thr", "async 8", [("cap", 0, "simple"), ("file", 256, "simple")],
                          n, msgs, 30, lossy=True))
    # (f2) real threads through the ROTATING handlers with rotations actually happening: size rotation with a
    # small max_bytes (dozens of rotations), time rotation with the per-call clock crossing periods; the stream
    # checked is the concatenation of all backup / period files + the live file
    for n in ((2, 4, 8) if tier == "quick" else (2, 3, 4, 6, 8)):
        for r in range(1 if tier == "quick" else 4):
            cases.append(_thr("thr-rot-size-%d-%d" % (n, r), "thr", "sync",
                              [("rots", 256, "simple"), ("rots", 0, "complicated")], n, msgs, 24 + n, tick=1))
            cases.append(_thr("thr-rot-time-%d-%d" % (n, r), "thr", "sync",
                              [("trots", 0, "complicated"), ("trots", 512, "simple"), ("rots", 512, "simple")], n, msgs, 20 + n, tick=1))
    cases.append(_thr("thr-rot-async-4", "thr", "async 4096", [("rots", 0, "simple"), ("trots", 256, "complicated")], 4, msgs, 30, tick=1))
    # (f3) the console handler under real threads (stdout below WARNING, stderr from WARNING on, colours on / off): what it
    # hands to fwrite is captured; the three writes of a coloured line must not be separated by another thread's bytes
    for n in ((2, 8, 16) if tier == "quick" else (2, 3, 4, 8, 12, 16)):
        cases.append(_thr("thr-con-%d" % n, "thr", "sync", [("console", 256, "simple"), ("file", 512, "complicated")], n, msgs, 24 + n))
        cases.append(_thr("thr-conplain-%d" % n, "thr", "sync", [("cap", 0, "simple"), ("conplain", 0, "complicated")], n, msgs, 20 + n))
    cases.append(_thr("thr-con-async-4", "thr", "async 4096", [("console", 0, "complicated"), ("file", 256, "simple")], 4, msgs, 30))
    # (g) deterministic scheduler: handler-mutex atomicity (sync) and the async queue-full / shutdown paths
    nvs = 12 if tier == "quick" else 150
    for i in range(nvs):
        n, m = rng.range(2, 4), rng.range(1, 3)
        hs = [(rng.choice(["cap", "file"]), rng.choice(LEVELS[:4]), rng.choice(["simple", "complicated"])) for _ in range(rng.range(1, 3))]
        cases.append(_thr("vs-sync-%d" % i, "vs", "sync", hs, n, m, 12,
                          sched="rand %d %d 0 0" % (rng.below(1 << 30), rng.choice([20, 50, 80]))))
    # rotating handlers under the scheduler: fclose / fopen of a rotation are scheduling points, so the window in
    # which the handler has no stream is exposed to every other thread
    for i in range(nvs):
        n, m = rng.range(2, 3), rng.range(2, 4)
        hs = [(rng.choice(["rots", "rots", "trots"]), rng.choice(LEVELS[:3]), rng.choice(["simple", "complicated"]))
              for _ in range(rng.range(1, 2))]
        cases.append(_thr("vs-rot-%d" % i, "vs", "sync", hs, n, m, 12, tick=1,
                          sched="rand %d %d 0 0" % (rng.below(1 << 30), rng.choice([20, 50, 80]))))
    # the console handler under the scheduler: its mutex is what keeps escape sequence + line + reset together
    for i in range(nvs):
        n, m = rng.range(2, 4), rng.range(2, 4)
        hs = [(rng.choice(["console", "console", "conplain"]), rng.choice(LEVELS[:4]), rng.choice(["simple", "complicated"]))]
        if rng.chance(1, 2):
            hs.append((rng.choice(["cap", "file"]), rng.choice(LEVELS[:4]), "simple"))
        if rng.chance(1, 2):
            hs.reverse()
        cases.append(_thr("vs-con-%d" % i, "vs", "sync", hs, n, m, 12,
                          sched="rand %d %d 0 0" % (rng.below(1 << 30), rng.choice([20, 50, 80]))))
    for i in range(max(2, nvs // 4)):
        cases.append(_thr("vs-con-async-%d" % i, "vs", "async 8", [("console", rng.choice([0, 512]), "simple")], rng.range(1, 3),
                          rng.range(1, 4), 12, sched="rand %d %d 0 0" % (rng.below(1 << 30), rng.choice([20, 50, 80]))))
    for capy in (3, 4, 8):
        for i in range(nvs):
            n, m = rng.range(1, 3), rng.range(1, 5)
            hs = [("cap", rng.choice([0, 256, 512]), "simple")] + ([("file", rng.choice([0, 512]), "complicated")] if rng.chance(1, 2) else [])
            cases.append(_thr("vs-async-c%d-%d" % (capy, i), "vs", "async %d" % capy, hs, n, m, 12,
                              sched="rand %d %d 0 0" % (rng.below(1 << 30), rng.choice([20, 50, 80, 95]))))
    if any(k["class"] == "async-capacity-unusable" for k in V.load_known_findings(ID)):
        for capy in (1, 2):
            cases.append(_thr("vs-async-unusable-c%d" % capy, "vs", "async %d" % capy, [("cap", 0, "simple")], 1, 2, 12,
                              sched="rand %d 50 0 0" % rng.below(1 << 30)))
    return cases


def search(rng, diverging, tier):
    limit = params().get("limit", LIMIT_DEFAULT)
    out = []
    for i in range(60):
        n = limit - 80 + rng.below(160)
        hs = [(rng.choice(["file", "rot", "trot", "console"]), 0, rng.choice(["simple", "complicated"])), ("cap", 0, "simple")]
        out.append(_seq("search-len-%d" % i, rng.choice(["sync", "async 64"]), hs,
                        [("log", rng.choice(LEVELS), 10, "s", _content(rng, "ascii", n)), ("log", 512, 11, "s", b"after")]))
    for i, hl in enumerate(LEVELS + ODD_LEVELS):
        out.append(_seq("search-pairs-%d" % i, "sync", [("cap", hl, "simple"), ("file", hl, "simple")],
                        [("log", lv, 1, "s", b"x") for lv in LEVELS + ODD_LEVELS]))
    # the prefix of both formatters: every level name, clocks across month / year ends and leap days, line numbers
    for i, sec in enumerate([0, 59, 951782399, 951782400, 1078012800, 1700000000, 1709251199, 1735689599, 1999999999]):
        out.append(_seq("search-prefix-%d" % i, "sync", [("cap", -5000, "complicated"), ("file", -5000, "simple")],
                        [("log", lv, 1 + 37 * j * (i + 1), "s", b"p") for j, lv in enumerate(LEVELS + ODD_LEVELS)],
                        clock=(sec, (i * 123456789) % 1000000000)))
    return out


def model_cases(cases, impl_results):
    out = []
    for c in cases:
        r = impl_results.get(c.name)
        lines = list(c.lines) + ["TRACE"] + (list(r["lines"]) if r else [])
        out.append(V.Case(c.name, lines, c.meta))
    return out


# ---------------------------------------------------------------------------
# independent monitor

def _parse_case(case):
    cfg = {"mode": "seq", "async": False, "cap": 0, "init": None, "clock": (1700000000, 123456789), "hs": [], "ops": [],
           "threads": None, "lossy": False, "sched": None, "tick": 0}
    for ln in case.lines:
        w = ln.split()
        if not w:
            continue
        if w[0] == "mode" and len(w) > 1:
            cfg["mode"] = w[1]
        elif w[0] == "logger":
            cfg["async"] = len(w) > 1 and w[1] == "async"
            cfg["cap"] = int(w[2]) if len(w) > 2 else 0
            cfg["init"] = {"inits": 3, "initc": 1}.get(w[1]) if len(w) > 1 else None
        elif w[0] == "clock" and len(w) == 3:
            cfg["clock"] = (int(w[1]), int(w[2]))
        elif w[0] == "h" and len(w) == 4:
            cfg["hs"].append((w[1], int(w[2]), {"complicated": 1, "raw": 2, "initsimple": 3}.get(w[3], 0)))
        elif w[0] == "setlevel" and len(w) == 3:
            cfg["ops"].append(("set", int(w[1]), int(w[2])))
        elif w[0] == "failmalloc" and len(w) == 2:
            cfg["ops"].append(("fail", int(w[1])))
        elif w[0] in ("log", "hold") and len(w) >= 4:
            cfg["ops"].append((w[0], int(w[1]), int(w[2]), w[3], bytes.fromhex(w[4]) if len(w) > 4 else b""))
        elif w[0] == "release":
            cfg["ops"].append(("release",))
        elif w[0] == "threads" and len(w) == 4:
            cfg["threads"] = (int(w[1]), int(w[2]), int(w[3]))
        elif w[0] == "lossy":
            cfg["lossy"] = True
        elif w[0] == "tick" and len(w) == 2:
            cfg["tick"] = int(w[1])
        elif w[0] == "sched":
            cfg["sched"] = ln[6:]
    return cfg


def level_name(lv):
    i = lv >> 8
    return LEVEL_NAMES[i] if 0 <= i < 6 else "UNKNOWN"


def format_line(fmt, level, srcline, tid, clock, payload):
    """The two built-in formatters of log_fmt.c, recomputed independently."""
    if fmt == 2:
        return payload              # the driver's custom formatter: the payload alone
    if fmt == 0:
        head = "%s|%s:%d - " % (level_name(level), SRC_BASENAME, srcline)
    elif fmt == 3:
        # the formatter muggle_log_simple_init installs: level|seconds.nanoseconds|file:line|function|thread id - payload
        head = "%s|%d.%09d|%s:%d|%s|%d - " % (level_name(level), clock[0], clock[1], SRC_BASENAME, srcline, SRC_FUNC, tid)
    else:
        t = time.gmtime(clock[0])
        head = "%s|%d-%02d-%02dT%02d:%02d:%02d.%03d|%s:%d|%s|%d - " % (
            level_name(level), t.tm_year, t.tm_mon, t.tm_mday, t.tm_hour, t.tm_min, t.tm_sec,
            clock[1] // 1000000, SRC_BASENAME, srcline, SRC_FUNC, tid)
    return head.encode() + payload + b"\n"


def cut_line(line, limit):
    """The formatted line cut at the fixed maximum: at most LIMIT-1 bytes, still newline-terminated."""
    if len(line) <= limit - 1:
        return line
    return line[:limit - 2] + b"\n"


def _field(ln):
    """'tag idx len:hex' -> (idx, bytes)"""
    w = ln.split()
    n, hx = w[2].split(":", 1)
    b = bytes.fromhex(hx)
    if len(b) != int(n):
        raise ValueError("length field %s does not match %d bytes" % (n, len(b)))
    return int(w[1]), b


def _streams(lines):
    st = {}
    for ln in lines:
        if ln.startswith(("file ", "out ", "err ")):
            tag = ln.split()[0]
            idx, b = _field(ln)
            st[(tag, idx)] = b
    return st


def _first_diff(a, b):
    k = next((i for i in range(min(len(a), len(b))) if a[i] != b[i]), min(len(a), len(b)))
    return k


def monitor(case, lines):
    cfg = _parse_case(case)
    limit = params().get("limit", LIMIT_DEFAULT)
    for ln in lines:
        if ln.startswith("limit "):
            if int(ln.split()[1]) != limit:
                return "driver LIMIT %s differs from the header's %d" % (ln.split()[1], limit)
    if cfg["mode"] == "seq":
        return _mon_seq(cfg, lines, limit)
    if cfg["mode"] == "thr":
        return _mon_thr(cfg, lines, limit)
    if cfg["mode"] == "vs":
        return _mon_vs(cfg, lines, limit)
    return None


def _attached(cfg):
    maxh = params().get("max_handler", 8)
    return [i < maxh for i in range(len(cfg["hs"]))]


def _mon_seq(cfg, lines, limit):
    p = params()
    warning, error = p.get("warning", 768), p.get("error", 1024)
    att = _attached(cfg)
    for i, a in enumerate(att):
        exp = "add %d %s" % (i, "ok" if a else "refused")
        if exp not in lines:
            return "add_handler #%d: expected %r" % (i, exp)
    levels = [h[1] for h in cfg["hs"]]
    expect = {("file", i): PRE_EXISTING for i, h in enumerate(cfg["hs"]) if h[0] == "filea"}   # opened with "ab": kept
    rets = {i: [] for i in range(len(cfg["hs"]))}
    nhs = len(cfg["hs"])

    def process(msg, first):
        """the handlers first.. test the message against their CURRENT levels"""
        level, srcline, payload = msg
        for i in range(first, nhs):
            kind, _hl, fmt = cfg["hs"][i]
            if not att[i] or level < levels[i]:
                continue
            line = cut_line(format_line(fmt, level, srcline, 4242, cfg["clock"], payload), limit)
            rets[i].append(len(line))
            if kind.startswith("con"):
                tag = "err" if level >= warning else "out"
                if kind == "console" and level >= warning:
                    line = (ESC_RED if level >= error else ESC_YEL) + line + ESC_RST
            else:
                tag = "file"
            expect[(tag, i)] = expect.get((tag, i), b"") + line

    # sync logger: a call is matched against every handler's level at the time of the call.
    # async logger: the call is accepted if some attached handler's level admits it at the time of the call
    # (the early-out of the log function); each handler's level is then tested when the writer thread PROCESSES
    # the message - normally at once, but while the harness holds the writer thread inside handler 0's write
    # (hold ... release) the calls wait in the queue and meet the levels as they are at release time.
    fail = 0
    held, pending = None, []
    # the formatters themselves: per call the implementation prints the unbounded output of its two built-in
    # formatters for the bounded payload; the whole line (level name, clock fields, file:line, function, thread id,
    # separators, payload, newline) must be the documented layout, with the canonical clock and thread id of the case
    k = 0
    got_calls = {int(ln.split()[1]): ln for ln in lines if ln.startswith("call ")}
    for o in cfg["ops"]:
        if o[0] not in ("log", "hold"):
            continue
        _op, level, srcline, tmpl, content = o
        text = (b"%d|" % srcline + content) if tmpl == "ds" else content
        ln = got_calls.get(k)
        if ln is None:
            return "no formatter line for call %d" % k
        w = ln.split()
        try:
            fields = {x.split("=", 1)[0]: bytes.fromhex(x.split("=", 1)[1].split(":", 1)[1]) for x in w[3:]}
        except (IndexError, ValueError):
            return "bad formatter line for call %d" % k
        for fm, nm in ((0, "simple"), (1, "complicated")):
            exp = format_line(fm, level, srcline, 4242, cfg["clock"], text[:limit - 1])
            if fields.get(nm) != exp:
                g = fields.get(nm, b"")
                kk = _first_diff(g, exp)
                return ("call %d: the %s formatter's line differs from the layout at byte %d: got %r expected %r" % (
                    k, nm, kk, g[max(0, kk - 8):kk + 24], exp[max(0, kk - 8):kk + 24]))
        if cfg["init"] is not None:
            # the library's own entry points (log.c): the formatter they install, same canonical call site
            ic = [x for x in lines if x.startswith("icall %d " % k)]
            if not ic:
                return "no line of the init formatter for call %d" % k
            try:
                g = bytes.fromhex(ic[0].split("init=", 1)[1].split(":", 1)[1])
            except (IndexError, ValueError):
                return "bad init formatter line for call %d" % k
            exp = format_line(cfg["init"], level, srcline, 4242, cfg["clock"], text[:limit - 1])
            if g != exp:
                kk = _first_diff(g, exp)
                return ("call %d: the formatter installed by muggle_log_%s_init differs from its layout at byte %d: got %r "
                        "expected %r" % (k, "simple" if cfg["init"] == 3 else "complicated", kk, g[max(0, kk - 8):kk + 24],
                                         exp[max(0, kk - 8):kk + 24]))
        k += 1
    if cfg["init"] is not None:
        want = "initcnt %d" % len(cfg["hs"])
        if want not in lines:
            return "the init entry point attached %s handler(s), expected %d" % (
                ([x.split()[1] for x in lines if x.startswith("initcnt ")] or ["?"])[0], len(cfg["hs"]))

    def release():
        nonlocal held, pending
        if held is not None:
            process(held, 1)
            for m in pending:
                process(m, 0)
        held, pending = None, []

    for o in cfg["ops"]:
        if o[0] == "set":
            if 0 <= o[1] < len(levels):
                levels[o[1]] = o[2]
            continue
        if o[0] == "fail":
            fail = o[1]
            continue
        if o[0] == "release":
            release()
            continue
        op, level, srcline, tmpl, content = o
        text = (b"%d|" % srcline + content) if tmpl == "ds" else content
        msg = (level, srcline, text[:limit - 1])
        dropped = cfg["async"] and fail in (1, 2)
        fail = 0
        if dropped:
            continue
        if not cfg["async"]:
            process(msg, 0)
            continue
        if not any(att[i] and level >= levels[i] for i in range(nhs)):
            continue
        if held is not None:
            pending.append(msg)
        elif op == "hold" and nhs > 0 and att[0] and cfg["hs"][0][0] == "cap" and level >= levels[0]:
            saved = list(att)
            for j in range(1, nhs):
                att[j] = False
            process(msg, 0)             # handler 0 writes it now (and stops inside that write)
            att[:] = saved
            held = msg
        else:
            process(msg, 0)
    release()
    f = [ln for ln in lines if ln.startswith("F ")]
    if not f:
        return "no summary line (run did not finish)"
    m = re.match(r"F destroyed=(\d+) live=(-?\d+)", f[-1])
    if not m:
        return "bad summary %r" % f[-1]
    if m.group(1) != "1":
        return "destroy did not return"
    if m.group(2) != "0":
        return "%s allocation(s) outstanding after destroy" % m.group(2)
    try:
        got = _streams(lines)
    except ValueError as e:
        return str(e)
    for i, (kind, _hl, _f) in enumerate(cfg["hs"]):
        if not att[i]:
            continue
        tags = ("out", "err") if kind.startswith("con") else ("file",)
        for tag in tags:
            e = expect.get((tag, i), b"")
            g = got.get((tag, i))
            if g is None:
                return "no '%s %d' stream in the output" % (tag, i)
            if g != e:
                k = _first_diff(g, e)
                return ("handler %d (%s) stream '%s': %d bytes, expected %d (one formatted line, cut at %d bytes, per "
                        "accepted call; none below the handler level); first difference at byte %d: got %r expected %r" % (
                            i, kind, tag, len(g), len(e), limit - 1, k, g[k:k + 24], e[k:k + 24]))
        if kind == "cap":
            r = [ln for ln in lines if ln.startswith("rets %d" % i)]
            if r and [int(x) for x in r[0].split()[2:]] != rets[i]:
                return "handler %d: write lengths %s, expected %s" % (i, r[0].split()[2:], rets[i])
    return None


# ---- threads ----
def thr_level(t, k):
    return LEVELS[(t + k) % 6]


def make_payload(paylen, t, k):
    ln = paylen + (k * 7 + t * 3) % 11
    s = bytearray(b"T%02d-%06d-" % (t, k))
    n = len(s)
    while n < ln:
        s.append(ord("a") + (t * 5 + k + n) % 26)
        n += 1
    return bytes(s)


TAG = re.compile(rb" - T(\d\d)-(\d{6})-")


def _clock(cfg, k):
    """clock of call k of every thread (thr / vs scenarios with 'tick')"""
    return (cfg["clock"][0] + k * cfg["tick"], cfg["clock"][1])


def _check_streams_threads(cfg, lines, limit, lossy, partial_ok=False):
    """Every stream consists of whole formatted lines of tagged calls; per thread the message
    numbers increase; exactly the accepted calls appear (lossy: a subset, no duplicates)."""
    n, msgs, paylen = cfg["threads"]
    try:
        got = _streams(lines)
    except ValueError as e:
        return str(e)
    for ln in lines:
        if ln.startswith("retention "):
            w = ln.split()
            nfiles, mx = int(w[2].split("=")[1]), int(w[3].split("=")[1])
            if nfiles >= mx:
                # the size-rotating handler keeps backup_count backups and discards the oldest beyond that: lines
                # removed with their whole backup file are not lost lines; the scenario is mis-sized
                raise RuntimeError("harness error: scenario mis-sized for handler %s: %d backup files of at most %d, the "
                                   "rotation's retention has discarded the oldest backups (not a property violation)" % (
                                       w[1], nfiles, mx))
    for i, (kind, hl, fmt) in enumerate(cfg["hs"]):
        if kind.startswith("con"):
            err = _check_console_threads(cfg, got, i, kind, hl, fmt, limit, lossy, partial_ok)
            if err:
                return err
            continue
        g = got.get(("file", i))
        if g is None:
            return "no 'file %d' stream in the output" % i
        if g and not g.endswith(b"\n"):
            if partial_ok:
                g = g[:g.rfind(b"\n") + 1]
            else:
                return "handler %d stream does not end with a newline: torn last line %r" % (i, g[-40:])
        recs = g.split(b"\n")[:-1] if g else []
        last = {}
        seen = set()
        for r in recs:
            m = TAG.search(r)
            if not m:
                return "handler %d: line without a whole tag (torn or interleaved): %r" % (i, r[:80])
            t, k = int(m.group(1)), int(m.group(2))
            if t >= n or k >= msgs:
                return "handler %d: line of an unknown call T%d-%d: %r" % (i, t, k, r[:80])
            level = thr_level(t, k)
            exp = cut_line(format_line(fmt, level, 1000 + t, 100 + t, _clock(cfg, k), make_payload(paylen, t, k)[:limit - 1]), limit)
            if r + b"\n" != exp:
                kk = _first_diff(r + b"\n", exp)
                return "handler %d: torn/interleaved line for call T%d-%d at byte %d: got %r expected %r" % (
                    i, t, k, kk, r[kk:kk + 30], exp[kk:kk + 30])
            if level < hl:
                return "handler %d (level %d) wrote a line of level %d (call T%d-%d)" % (i, hl, level, t, k)
            if (t, k) in seen:
                return "handler %d: call T%d-%d written twice" % (i, t, k)
            seen.add((t, k))
            if t in last and last[t] >= k:
                return "handler %d: thread %d's lines out of order (%d after %d)" % (i, t, k, last[t])
            last[t] = k
        if not lossy:
            want = {(t, k) for t in range(n) for k in range(msgs) if thr_level(t, k) >= hl}
            if seen != want:
                miss = sorted(want - seen)[:3]
                return "handler %d: %d of %d accepted calls written; missing e.g. %s" % (i, len(seen), len(want), miss)
    return None


def _split_console(g):
    """a console stream -> [(escape sequence | b"", line with its newline, reset | b"")], error"""
    recs, pos = [], 0
    while pos < len(g):
        esc = b""
        for e in (ESC_RED, ESC_YEL):
            if g.startswith(e, pos):
                esc = e
                pos += len(e)
                break
        nl = g.find(b"\n", pos)
        if nl < 0:
            return recs, g[pos:pos + 40]
        line = g[pos:nl + 1]
        pos = nl + 1
        rst = b""
        if g.startswith(ESC_RST, pos):
            rst = ESC_RST
            pos += len(ESC_RST)
        recs.append((esc, line, rst))
    return recs, None


def _check_console_threads(cfg, got, i, kind, hl, fmt, limit, lossy, partial_ok):
    """console handler under threads: stdout holds the whole lines below WARNING, stderr those from WARNING on; with
    colours every line is escape sequence + line + reset, never interleaved with another thread's bytes"""
    n, msgs, paylen = cfg["threads"]
    p = params()
    warning, error = p.get("warning", 768), p.get("error", 1024)
    seen = set()
    for tag in ("out", "err"):
        g = got.get((tag, i))
        if g is None:
            return "no '%s %d' stream in the output" % (tag, i)
        recs, torn = _split_console(g)
        if torn is not None and not partial_ok:
            return "handler %d (%s) stream '%s' does not end with a whole line: %r" % (i, kind, tag, torn)
        last = {}
        for esc, line, rst in recs:
            m = TAG.search(line)
            if not m:
                return "handler %d (%s) '%s': line without a whole tag (torn or interleaved): %r" % (i, kind, tag, line[:80])
            t, k = int(m.group(1)), int(m.group(2))
            if t >= n or k >= msgs:
                return "handler %d (%s): line of an unknown call T%d-%d" % (i, kind, t, k)
            level = thr_level(t, k)
            exp = cut_line(format_line(fmt, level, 1000 + t, 100 + t, _clock(cfg, k), make_payload(paylen, t, k)[:limit - 1]), limit)
            if line != exp:
                kk = _first_diff(line, exp)
                return "handler %d (%s) '%s': torn/interleaved line for call T%d-%d at byte %d: got %r expected %r" % (
                    i, kind, tag, t, k, kk, line[kk:kk + 30], exp[kk:kk + 30])
            coloured = kind == "console" and level >= warning
            want_esc = (ESC_RED if level >= error else ESC_YEL) if coloured else b""
            want_rst = ESC_RST if coloured else b""
            if esc != want_esc or (rst != want_rst and not (partial_ok and rst == b"")):
                return ("handler %d (%s) '%s': colour sequences around the line of call T%d-%d are %r ... %r, expected %r ... %r "
                        "(another thread's bytes in between)" % (i, kind, tag, t, k, esc, rst, want_esc, want_rst))
            if (level >= warning) != (tag == "err"):
                return "handler %d (%s): line of level %d on %s" % (i, kind, level, "stderr" if tag == "err" else "stdout")
            if level < hl:
                return "handler %d (level %d) wrote a line of level %d (call T%d-%d)" % (i, hl, level, t, k)
            if (t, k) in seen:
                return "handler %d: call T%d-%d written twice" % (i, t, k)
            seen.add((t, k))
            if t in last and last[t] >= k:
                return "handler %d '%s': thread %d's lines out of order (%d after %d)" % (i, tag, t, k, last[t])
            last[t] = k
    if not lossy:
        want = {(t, k) for t in range(n) for k in range(msgs) if thr_level(t, k) >= hl}
        if seen != want:
            miss = sorted(want - seen)[:3]
            return "handler %d (%s): %d of %d accepted calls written; missing e.g. %s" % (i, kind, len(seen), len(want), miss)
    return None


def _mon_thr(cfg, lines, limit):
    f = [ln for ln in lines if ln.startswith("F ")]
    if not f:
        return "no summary line (run did not finish)"
    m = re.match(r"F destroyed=(\d+) live=(-?\d+)", f[-1])
    if not m:
        return "bad summary %r" % f[-1]
    if m.group(1) != "1":
        return "destroy did not return"
    if m.group(2) != "0":
        return "%s allocation(s) outstanding after destroy (messages dropped on a full queue are leaked)" % m.group(2)
    return _check_streams_threads(cfg, lines, limit, cfg["lossy"])


def usable_capacity(capacity):
    p = 1
    while p < capacity:
        p *= 2
    return max(0, p - 2)


def _mon_vs(cfg, lines, limit):
    """Works on the scheduler trace and the final streams; independent of the Coq model."""
    n, msgs, paylen = cfg["threads"]
    off = 1 if cfg["async"] else 0
    hang = [ln for ln in lines if ln.startswith("DEADLOCK") or ln.startswith("LIVELOCK")]
    cur_k = {}
    in_destroy = set()
    accepted = []          # (thread, k) in the order the channel accepted them
    refused = []
    mallocs, frees = {}, {}
    destroyed_at = None
    last_emit = None
    holder = {}
    for pos, ln in enumerate(lines):
        w = ln.split()
        if not w:
            continue
        if w[0] == "R":
            t = int(w[1])
            if w[2] == "call":
                cur_k[t] = int(w[3])
            elif w[2] == "destroy":
                in_destroy.add(t)
            elif w[2] == "destroyed":
                destroyed_at = pos
            elif w[2] == "malloc":
                mallocs[w[3]] = pos
            elif w[2] == "free":
                if w[3] in frees:
                    return "allocation %s freed twice" % w[3]
                frees[w[3]] = pos
            elif w[2] == "mallocfail":
                pass
            elif w[2] == "fwclosed":
                return ("thread %d writes to a stream of handler %s that a rotation has already closed (the handler mutex "
                        "does not cover the write)" % (t, w[3]))
            elif w[2] == "rotop":
                if not cfg["async"]:
                    if w[3] != "-" and holder.get(int(w[3])) != t:
                        return "thread %d rotates handler %s's file without holding its mutex (holder: %s)" % (t, w[3], holder.get(int(w[3])))
                    if w[3] == "-" and t not in holder.values():
                        return "thread %d reopens a handler file without holding the handler mutex" % t
            elif w[2] in ("emit1", "emit2", "fw1", "fw2"):
                last_emit = pos
                h = int(w[3])
                if not cfg["async"] and holder.get(h) != t:
                    return "thread %d writes to handler %d's stream without holding its mutex (holder: %s)" % (t, h, holder.get(h))
        elif w[0] == "E":
            t = int(w[1])
            if w[2] == "mlock" and w[3].startswith("hmtx"):
                h = int(w[3][4:])
                if holder.get(h) is not None:
                    return "handler %d mutex acquired by thread %d while held by %s" % (h, t, holder[h])
                holder[h] = t
            elif w[2] == "munlock" and w[3].startswith("hmtx"):
                holder[int(w[3][4:])] = None
            elif w[2] == "store" and w[3] == "wcur":
                if t not in in_destroy:
                    accepted.append((t - off, cur_k.get(t)))
    if hang:
        return "the run does not terminate: %s (destroy never returns%s)" % (
            hang[0], "; the stop sentinel was refused by the full queue" if "DEADLOCK" in hang[0] else "")
    f = [ln for ln in lines if ln.startswith("F ")]
    if not f:
        return "no summary line"
    m = re.match(r"F destroyed=(\d+) live=(-?\d+)", f[-1])
    if not m:
        return "bad summary %r" % f[-1]
    if m.group(1) != "1":
        return "destroy did not return"
    if m.group(2) != "0":
        lost = sorted(set(mallocs) - set(frees), key=int)
        return ("%s allocation(s) outstanding after destroy (never freed: ids %s; a message refused by the full queue "
                "is neither written nor released)" % (m.group(2), ",".join(lost[:8])))
    if set(mallocs) - set(frees):
        return "allocations %s never freed" % sorted(set(mallocs) - set(frees))[:5]
    if cfg["async"]:
        if destroyed_at is None:
            return "no 'destroyed' note although the run finished"
        if last_emit is not None and last_emit > destroyed_at:
            return "a line was written after destroy had returned"
    err = _check_streams_threads(cfg, lines, limit, lossy=cfg["async"])
    if err:
        return err
    if cfg["async"]:
        # same lines as the sync logger for the accepted history, in acceptance (FIFO) order
        try:
            got = _streams(lines)
        except ValueError as e:
            return str(e)
        for i, (kind, hl, fmt) in enumerate(cfg["hs"]):
            if kind.startswith("con"):
                continue                # stdout / stderr split: checked line by line above
            exp = b""
            for (t, k) in accepted:
                lv = thr_level(t, k)
                if lv >= hl:
                    exp += cut_line(format_line(fmt, lv, 1000 + t, 100 + t, _clock(cfg, k), make_payload(paylen, t, k)[:limit - 1]), limit)
            if got.get(("file", i)) != exp:
                g = got.get(("file", i), b"")
                return ("handler %d: the async logger's stream differs from the lines of the %d accepted calls in queue order "
                        "(%d bytes, expected %d)" % (i, len(accepted), len(g), len(exp)))
    return None


# ---------------------------------------------------------------------------

def canon(lines):
    """Threaded runs: any interleaving of whole lines is the same result (sort the lines of each
    stream); lossy runs (queue overflow with real threads): which calls are dropped is not
    determined, only the summary is compared."""
    lines = [ln for ln in lines if not ln.startswith("retention ")]     # harness bookkeeping (monitor only)
    if "mode thr" not in lines:
        return lines
    lossy = "lossy" in lines
    out = []
    for ln in lines:
        if ln.startswith("file "):
            if lossy:
                continue
            w = ln.split()
            n, hx = w[2].split(":", 1)
            recs = bytes.fromhex(hx).split(b"\n")
            out.append("file %s %s:%s" % (w[1], n, b"\n".join(sorted(recs)).hex()))
        elif ln.startswith(("out ", "err ")):
            if lossy:
                continue
            w = ln.split()
            n, hx = w[2].split(":", 1)
            recs, torn = _split_console(bytes.fromhex(hx))
            body = b"".join(sorted(a + b + c for a, b, c in recs)) + (b"<torn>" + torn if torn is not None else b"")
            out.append("%s %s %s:%s" % (w[0], w[1], n, body.hex()))
        else:
            out.append(ln)
    return out


def nontrivial_key(case, lines):
    txt = "\n".join(case.lines)
    cfg = _parse_case(case)
    if cfg["mode"] == "seq":
        lv = [o[1] for o in cfg["ops"] if o[0] == "log"]
        hl = [h[1] for h in cfg["hs"]]
        mixed = any(a < b for a in lv for b in hl) and any(a >= b for a in lv for b in hl)
        longl = any(o[0] == "log" and len(o[4]) > params().get("limit", LIMIT_DEFAULT) - 80 for o in cfg["ops"])
        return txt if (mixed or longl) else None
    if cfg["mode"] == "thr":
        return txt if cfg["threads"] and cfg["threads"][0] > 1 else None
    if any(" mlock " in ln for ln in lines) or any("fwait" in ln for ln in lines):
        return hash("\n".join(lines))
    return None


def tally(dist, case, lines):
    cfg = _parse_case(case)
    key = "mode=%s/%s" % (cfg["mode"], "async" if cfg["async"] else "sync")
    dist[key] = dist.get(key, 0) + 1
    if cfg["mode"] == "seq":
        limit = params().get("limit", LIMIT_DEFAULT)
        for o in cfg["ops"]:
            if o[0] == "log":
                dist["calls"] = dist.get("calls", 0) + 1
                b = "len<LIMIT-80" if len(o[4]) < limit - 80 else ("len~LIMIT" if len(o[4]) <= limit + 1 else "len>LIMIT")
                dist[b] = dist.get(b, 0) + 1
        for h in cfg["hs"]:
            dist["handler=" + h[0]] = dist.get("handler=" + h[0], 0) + 1
    elif cfg["threads"]:
        dist["threads=%d" % cfg["threads"][0]] = dist.get("threads=%d" % cfg["threads"][0], 0) + 1
    for ln in lines:
        if ln.startswith("DEADLOCK") or ln.startswith("LIVELOCK"):
            dist["hang_events"] = dist.get("hang_events", 0) + 1


def known_class(case, failure_text):
    cfg = _parse_case(case)
    if cfg["mode"] == "vs" and cfg["async"] and usable_capacity(cfg["cap"]) == 0 and failure_text and \
            "does not terminate" in failure_text:
        return "async-capacity-unusable"
    return None


MANIFEST = {
    "level_text": ("Coq theorems over an executable model of the loggers and handlers: level filter exact for every handler "
                   "and level pair; emitted bytes = the formatted line cut at LIMIT-1 with every buffer index < LIMIT "
                   "(index-level model of the handlers' stack buffer; refuted for the code as found, proved for the "
                   "repaired code); per-handler line atomicity and per-thread order for every schedule and any number of "
                   "threads (handler mutex at scheduler granularity); async logger (abstract bounded FIFO, any number of "
                   "producers): same lines as sync, destroy drains, nothing outstanding after destroy even when the queue "
                   "overflows; capacity <= 2 characterised as a known finding (never returns).  Tie: differential run of the extracted model against "
                   "the real loggers/handlers under ASan (custom, file, console, rotating handlers), real threads with "
                   "tagged payloads, deterministic-scheduler traces replayed on the model, independent Python monitor."),
    "design_ref": "DESIGN.md section 6 / C16, section 5",
    "level_note": ("Trusted: Coq kernel, extraction, harness; snprintf/vsnprintf as oracle (recomputed independently by the "
                   "monitor); the channel as a linearizable bounded FIFO (C01); vsched's mutex/futex semantics; fwrite "
                   "modelled as two partial writes."),
    "technique": "Coq model + invariant proofs (sequential and all-interleavings), extracted-model differential run, ASan, deterministic scheduler replay, allocation accounting",
}
