"""C16 — slicer for the integer / layout content of the log module (second tie, DESIGN.md 4.4).

The functions of muggle/c/log are not leaves: they call through function pointers, libc, the mutex
and channel modules, keep pointers to buffers and structs and loop over the attached handlers.  This
module turns the clang JSON AST of NAMED functions of the current C text into loop-free integer
functions over one synthetic state struct that the shared translator lib/leaftrans.py accepts,
without looking at the shape of the text:

  * pointers are followed symbolically: the handler / logger / message objects (through casts,
    locals, helper parameters, embedded base structs), the formatting buffer (a char array or an
    allocation), handler slot i of the logger, pointer-valued fields (nullness = an integer input);
  * integer members of those objects become fields of the state  (msg->ts.tv_nsec -> msg_ts_tv_nsec);
  * the calls that carry the property become events on ghost fields:
        fmt->fmt_func(msg, buf, n)      value = input fret;  fmt_size := n
        fwrite(buf, a, b, fp)            wr_cnt := a * b;  wr_n += 1;  value = b
        buf[i] = v                       store into the list field buf
        vsnprintf(p, n, ...)             pay_size := n;  pay_cap := capacity of p
        malloc / p_alloc                 k-th allocation, nullness = input alloc<k>_ok
        muggle_logger_write / muggle_channel_write(.., msg) / handler->write     written / queued / wr_order
        free / p_free                    freed += 1
        <handler>_rotate / _detect       opaque: counted, result = an input, handler fields they may change
                                          start a new generation
  * calls of functions defined in the log module (same file or log_handler.c) are inlined in
    continuation-passing style (early returns, several statements, value used in a condition);
  * `for` / `while` loops are unrolled up to the re-extracted MUGGLE_LOGGER_MAX_HANDLER; one more
    iteration sets the ghost field overrun;  a && b / a || b with a call on the right are split so that
    the call stays guarded;  literal-valued locals are followed along each path;
  * enum constants and sizeof are evaluated with the compiler of this run.

Separately, the snprintf call of the two built-in formatters is parsed into a printf layout
(literal text, %s sources, decimal conversions with their integer argument expressions) and the
name table of muggle_log_level_to_str is read from its initialiser.

Anything else raises LeafError (reported as a broken obligation, never silently skipped)."""
import copy
import hashlib
import json
import os
import re
import subprocess
import leaftrans as L

LeafError = L.LeafError


# ---------------------------------------------------------------------------
# AST helpers

def qt(n):
    return n.get("type", {}).get("qualType", "")


def dq(n):
    t = n.get("type", {})
    return (t.get("desugaredQualType") or t.get("qualType", "")).strip()


def clean(t):
    return re.sub(r"\b(const|volatile|restrict)\b", "", t).replace("  ", " ").strip()


def is_ptr(n):
    q = clean(dq(n))
    return q.endswith("*") or "(*)" in q


def is_int(n):
    return L.ctype(n) is not None


def lit(v, ty="int"):
    return {"kind": "IntegerLiteral", "value": str(v), "type": {"qualType": ty}}


def lvar(nm, ty="int"):
    return {"kind": "DeclRefExpr", "referencedDecl": {"name": nm, "kind": "VarDecl"}, "type": {"qualType": ty}}


def rval(n):
    return {"kind": "ImplicitCastExpr", "castKind": "LValueToRValue", "type": n.get("type", {"qualType": "int"}), "inner": [n]}


def decl(nm, ty, init):
    return {"kind": "DeclStmt", "inner": [{"kind": "VarDecl", "name": nm, "type": {"qualType": ty}, "inner": [init]}]}


def assign(lhs, rhs, ty="int"):
    return {"kind": "BinaryOperator", "opcode": "=", "type": {"qualType": ty}, "inner": [lhs, rhs]}


def binop(op, a, b, ty="int"):
    return {"kind": "BinaryOperator", "opcode": op, "type": {"qualType": ty}, "inner": [a, b]}


STATE = "h"
STATE_T = "struct c16_state *"


def state_ref():
    return rval({"kind": "DeclRefExpr", "referencedDecl": {"name": STATE, "kind": "ParmVarDecl"}, "type": {"qualType": STATE_T}})


def field(name, ty="int"):
    return {"kind": "MemberExpr", "name": name, "type": {"qualType": ty}, "inner": [state_ref()]}


def elem(arr, idx, ty="int"):
    return {"kind": "ArraySubscriptExpr", "type": {"qualType": ty},
            "inner": [{"kind": "MemberExpr", "name": arr, "type": {"qualType": ty + " *"}, "inner": [state_ref()]}, idx]}


def strip_all(n):
    while n.get("kind") in ("ParenExpr", "ImplicitCastExpr", "CStyleCastExpr", "ConstantExpr") and \
            (n.get("kind") in ("ParenExpr", "ConstantExpr") or
             n.get("castKind") in ("NoOp", "LValueToRValue", "BitCast", "ArrayToPointerDecay", "FunctionToPointerDecay")):
        n = n["inner"][-1]
    return n


def c_unquote(s):
    """the source text of a C string literal (as clang prints it) -> bytes"""
    if s.startswith(("L", "u", "U")) or not (s.startswith('"') and s.endswith('"')):
        raise LeafError("unsupported string literal " + s[:20])
    s, out, i = s[1:-1], bytearray(), 0
    simple = {"n": 10, "t": 9, "r": 13, "0": 0, "\\": 92, '"': 34, "'": 39, "a": 7, "b": 8, "f": 12, "v": 11, "e": 27, "?": 63}
    while i < len(s):
        c = s[i]
        if c != "\\":
            out += c.encode("utf-8")
            i += 1
            continue
        i += 1
        c = s[i]
        if c == "x":
            m = re.match(r"[0-9a-fA-F]+", s[i + 1:])
            if not m:
                raise LeafError("bad \\x escape")
            out.append(int(m.group(0), 16) & 255)
            i += 1 + len(m.group(0))
        elif c in "01234567":
            m = re.match(r"[0-7]{1,3}", s[i:])
            out.append(int(m.group(0), 8) & 255)
            i += len(m.group(0))
        elif c in simple:
            out.append(simple[c])
            i += 1
        else:
            raise LeafError("unsupported escape \\" + c)
    return bytes(out)


def coq_bytes(b):
    return "[" + "; ".join(str(x) for x in b) + "]%N"


# ---------------------------------------------------------------------------
# loading functions / constants from the C text of this run

class Loader:
    def __init__(self, repo, cflags, cache_dir=None, cc="gcc"):
        self.repo, self.cflags, self.cc = repo, list(cflags), cc
        self.cache_dir = cache_dir
        if cache_dir:
            os.makedirs(cache_dir, exist_ok=True)
        self.mem, self.text, self.consts = {}, {}, {}

    def path(self, rel):
        return os.path.join(self.repo, rel)

    def src_text(self, rel):
        if rel not in self.text:
            try:
                self.text[rel] = open(self.path(rel), errors="replace").read()
            except OSError:
                self.text[rel] = ""
        return self.text[rel]

    def defines(self, rel, name):
        """cheap textual test before asking clang: does the file contain a definition of `name`?"""
        return re.search(r"\b%s\s*\([^;{}]*\)\s*\{" % re.escape(name), self.src_text(rel)) is not None

    def fn(self, name, files):
        for rel in files:
            key = (rel, name)
            if key not in self.mem:
                self.mem[key] = self._load(rel, name) if self.defines(rel, name) else None
            if self.mem[key] is not None:
                return self.mem[key], rel
        return None, None

    def _load(self, rel, name):
        cf = None
        if self.cache_dir:
            h = hashlib.sha256((self.src_text(rel) + "\0" + name + "\0" + " ".join(self.cflags) + "\0" +
                                self._hdr_stamp()).encode()).hexdigest()
            cf = os.path.join(self.cache_dir, h + ".json")
            if os.path.exists(cf):
                try:
                    return json.load(open(cf))
                except (OSError, ValueError):
                    pass
        try:
            obj = L.load_function(self.path(rel), name, self.cflags)
        except LeafError:
            obj = None
        if cf and obj is not None:
            tmp = cf + ".tmp%d" % os.getpid()
            with open(tmp, "w") as f:
                json.dump(obj, f)
            os.replace(tmp, cf)
        return obj

    def _hdr_stamp(self):
        """content of the log / base headers (types, enums, macros the AST depends on)"""
        if not hasattr(self, "_stamp"):
            h = hashlib.sha256()
            for d in ("muggle/c/log", "muggle/c/base"):
                p = self.path(d)
                if os.path.isdir(p):
                    for f in sorted(os.listdir(p)):
                        if f.endswith(".h"):
                            h.update(open(os.path.join(p, f), "rb").read())
            self._stamp = h.hexdigest()
        return self._stamp

    def const(self, expr):
        """value of an integer constant expression (enum constant, sizeof(type)) with this run's headers"""
        if expr in self.consts:
            if self.consts[expr] is None:
                raise LeafError("cannot evaluate the constant " + expr)
            return self.consts[expr]
        d = self.cache_dir or "/tmp"
        base = os.path.join(d, "const.%d" % os.getpid())
        open(base + ".c", "w").write(
            '#include <stdio.h>\n#include <time.h>\n#include "muggle/c/log/log.h"\n#include "muggle/c/base/err.h"\n'
            'int main(void){printf("%%lld\\n",(long long)(%s));return 0;}\n' % expr)
        val = None
        try:
            p = subprocess.run([self.cc, "-w"] + [f for f in self.cflags if f.startswith(("-I", "-D", "-std"))] +
                               [base + ".c", "-o", base + ".exe"], stdout=subprocess.PIPE, stderr=subprocess.PIPE,
                               text=True, timeout=120)
            if p.returncode == 0:
                q = subprocess.run([base + ".exe"], stdout=subprocess.PIPE, text=True, timeout=20)
                val = int(q.stdout.strip())
        except (OSError, ValueError, subprocess.SubprocessError):
            val = None
        for f in (base + ".c", base + ".exe"):
            try:
                os.remove(f)
            except OSError:
                pass
        self.consts[expr] = val
        if val is None:
            raise LeafError("cannot evaluate the constant " + expr)
        return val


# ---------------------------------------------------------------------------
# symbolic pointers

class PV:
    """symbolic pointer value.
       obj/path : points to (a sub-object of) a tracked object ("handler", "logger", "msg", "tm")
       hidx     : points to handler slot <hidx> of the logger (an integer expression node)
       buf      : (name, capacity) of a tracked byte buffer; capacity is an int or an expression node
       null     : None = known non-null, "null" = the NULL literal, else an integer expression (non-zero iff non-null)
       strv     : bytes of a string literal;  tab : (table name, index node) element of a static string table
       tag      : description of anything else (stdout, a parameter the slice does not look into)"""

    def __init__(self, obj=None, path=(), hidx=None, buf=None, null=None, strv=None, tab=None, tag=None):
        self.obj, self.path, self.hidx, self.buf, self.null = obj, tuple(path), hidx, buf, null
        self.strv, self.tab, self.tag = strv, tab, tag

    def key(self):
        return (self.obj, self.path, json.dumps(self.hidx, sort_keys=True) if self.hidx is not None else None,
                self.buf and self.buf[0], self.null if isinstance(self.null, (str, type(None))) else json.dumps(self.null, sort_keys=True),
                self.strv, self.tab and self.tab[0], self.tag)

    def __eq__(self, o):
        return isinstance(o, PV) and self.key() == o.key()

    def __ne__(self, o):
        return not self.__eq__(o)

    def __repr__(self):
        return "PV%r" % (self.key(),)


NULLPV = PV(null="null")

# embedded base structs: a derived handler starts with `muggle_log_handler_t handler`, the async /
# sync logger with `muggle_logger_t logger`
EMBED = {"handler": "handler", "logger": "logger"}

OBJ_OF_TYPE = (("muggle_log_msg", "msg"), ("handler", "handler"), ("logger", "logger"), ("struct tm", "tm"))


def obj_of_type(t):
    t = clean(t)
    for pat, obj in OBJ_OF_TYPE:
        if pat in t:
            return obj
    return None


class Slicer:
    """cfg: unroll (int | None), drop (callee names without effect on the sliced state),
            opaque {callee: {"tag": t, "havoc": [handler fields]}}, files (where callees are looked up),
            inline_skip (callees that are events, not inlined)"""

    def __init__(self, loader, cfg):
        self.loader, self.cfg = loader, cfg
        self.uid, self.depth, self.loops = 0, 0, []
        self.notes = {}          # facts for the caller: buffer capacity, string table, ...

    def fresh(self, base):
        self.uid += 1
        return "%s__%d" % (re.sub(r"\W", "_", base), self.uid)

    # ---- names of state fields ------------------------------------------------
    def norm_path(self, obj, path):
        path = tuple(p for p in path if p != "")
        if path and EMBED.get(obj) == path[0] and len(path) > 1:
            path = path[1:]
        return path

    def fname(self, obj, path, sub):
        base = "_".join((obj,) + self.norm_path(obj, path))
        g = sub.get("@gen", {}).get(base, 0)
        return base + ("_g%d" % g if g else "")

    def havoc(self, obj, names, sub):
        gen = dict(sub.get("@gen", {}))
        for nm in names:
            base = obj + "_" + nm
            gen[base] = gen.get(base, 0) + 1
            gen[base + "_ok"] = gen.get(base + "_ok", 0) + 1
        sub["@gen"] = gen
        fl = dict(sub.get("@fld", {}))
        for k in list(fl):
            if k[0] == obj and k[1] and k[1][0] in names:
                del fl[k]
        sub["@fld"] = fl

    # ---- lvalues of tracked objects --------------------------------------------
    def lv(self, n, sub):
        """struct-typed or member lvalue -> (obj, path, hidx)"""
        while n.get("kind") in ("ParenExpr",) or (n.get("kind") in ("ImplicitCastExpr", "CStyleCastExpr") and
                                                  n.get("castKind") == "NoOp"):
            n = n["inner"][-1]
        k = n.get("kind")
        if k == "MemberExpr":
            if n.get("isArrow"):
                p = self.pv(n["inner"][0], sub)
                if p.obj is None and p.hidx is None and p.tag == "alloc" and obj_of_type(qt(n["inner"][0])):
                    p = PV(obj=obj_of_type(qt(n["inner"][0])))      # a fresh allocation used as that object
                if p.obj is None and p.hidx is None:
                    raise LeafError("member .%s of a pointer the slice cannot follow (%s)" % (n.get("name"), p))
                obj, path, hidx = p.obj, p.path, p.hidx
            else:
                obj, path, hidx = self.lv(n["inner"][0], sub)
            return (obj, path + (n.get("name", ""),), hidx)
        if k == "DeclRefExpr":
            b = sub.get(n["referencedDecl"]["name"])
            if b and b[0] == "struct":
                return (b[1], tuple(b[2]), None)
            raise LeafError("%s is not a tracked struct" % n["referencedDecl"]["name"])
        if k == "UnaryOperator" and n.get("opcode") == "*":
            p = self.pv(n["inner"][0], sub)
            if p.obj is None and p.hidx is None:
                raise LeafError("dereference of a pointer the slice cannot follow")
            return (p.obj, p.path, p.hidx)
        raise LeafError("unsupported lvalue " + str(k))

    def int_field(self, n, sub):
        """integer-typed member lvalue -> state field lvalue node"""
        obj, path, hidx = self.lv(n, sub)
        ty = clean(dq(n))
        if L.ctype({"type": {"qualType": ty}}) is None:
            raise LeafError("member %s has non-integer type %s" % (n.get("name"), ty))
        if hidx is not None:
            if len(path) != 1:
                raise LeafError("nested member of a handler slot")
            return elem("hl_" + path[0], copy.deepcopy(hidx), ty)
        return field(self.fname(obj, path, sub), ty)

    # ---- pointer-valued expressions ---------------------------------------------
    def pv(self, n, sub):
        k = n.get("kind")
        if k == "@pv":
            return n["pv"]
        if k in ("ParenExpr", "ConstantExpr"):
            return self.pv(n["inner"][0], sub)
        if k in ("ImplicitCastExpr", "CStyleCastExpr"):
            ck = n.get("castKind")
            if ck == "NullToPointer":
                return NULLPV
            if ck in ("LValueToRValue", "NoOp", "BitCast", "ArrayToPointerDecay", "FunctionToPointerDecay"):
                return self.pv(n["inner"][-1], sub)
            raise LeafError("unsupported pointer cast " + str(ck))
        if k == "GNUNullExpr":
            return NULLPV
        if k == "StringLiteral":
            return PV(strv=c_unquote(n.get("value", "")))
        if k == "DeclRefExpr":
            nm = n["referencedDecl"]["name"]
            b = sub.get(nm)
            if b is not None:
                if b[0] == "ptr":
                    if b[1] is None:
                        raise LeafError("pointer %s used before it is set" % nm)
                    return b[1]
                if b[0] == "arr":
                    return PV(buf=(b[1], b[2]))
                if b[0] == "strtab":
                    return PV(tab=(nm, None))
                raise LeafError("%s used as a pointer" % nm)
            if n["referencedDecl"].get("kind") == "FunctionDecl":
                return PV(tag="fn:" + nm)
            if nm in ("stdout", "stderr", "stdin"):
                return PV(tag=nm)
            raise LeafError("unknown pointer variable " + nm)
        if k == "MemberExpr":
            obj, path, hidx = self.lv(n, sub)
            if hidx is not None:
                # a pointer member of handler slot i (its write function): only callable
                return PV(tag="slotfield:" + ".".join(path), strv=None, tab=("@slot", copy.deepcopy(hidx)))
            npath = self.norm_path(obj, path)
            st = sub.get("@fld", {}).get((obj, npath))
            if st is not None:
                return st
            if "[" in clean(dq(n)):
                return PV(obj=obj, path=path, tag="array")
            nm = self.fname(obj, path, sub)
            if nm in self.cfg.get("nonnull", ()):
                return PV(tag="fld:" + nm)
            return PV(null=field(nm + "_ok", "int"), tag="fld:" + nm)
        if k == "UnaryOperator" and n.get("opcode") == "&":
            x = n["inner"][0]
            while x.get("kind") == "ParenExpr":
                x = x["inner"][0]
            if x.get("kind") == "DeclRefExpr":
                b = sub.get(x["referencedDecl"]["name"])
                if b and b[0] == "struct":
                    return PV(obj=b[1], path=b[2])
                if b and b[0] == "arr":
                    return PV(buf=(b[1], b[2]))
                return PV(tag="&" + x["referencedDecl"]["name"])
            if x.get("kind") == "MemberExpr":
                obj, path, hidx = self.lv(x, sub)
                if hidx is not None:
                    raise LeafError("address of a handler slot member")
                return PV(obj=obj, path=path)
            raise LeafError("unsupported address-of")
        if k == "ArraySubscriptExpr":
            base = strip_all(n["inner"][0])
            if base.get("kind") == "DeclRefExpr":
                b = sub.get(base["referencedDecl"]["name"])
                if b and b[0] == "strtab":
                    return PV(tab=(base["referencedDecl"]["name"], self.rx(n["inner"][1], sub)))
            p = self.pv(n["inner"][0], sub)
            if p.obj == "logger" and self.norm_path("logger", p.path) == ("handlers",):
                return PV(hidx=self.rx(n["inner"][1], sub))
            raise LeafError("unsupported pointer element access")
        if k == "ConditionalOperator":
            a, b = self.pv(n["inner"][1], sub), self.pv(n["inner"][2], sub)
            if a == b:
                return a
            # p ? p : ""   (a missing string is printed as the empty string; the model has no NULL strings)
            for x, y in ((a, b), (b, a)):
                if y.strv == b"" and x.tag and x.tag.startswith("fld:") and is_ptr(n["inner"][0]) and \
                        self.pv(n["inner"][0], sub) == x:
                    return x
            if a.null is None and b.null is None and a.obj is None and b.obj is None and a.buf is None and b.buf is None:
                return PV(tag="either")
            raise LeafError("conditional pointer value")
        if k == "CallExpr":
            raise LeafError("pointer-valued call inside an expression")
        raise LeafError("unsupported pointer expression " + str(k))

    def nonnull(self, p):
        if p.null is None:
            return lit(1)
        if p.null == "null":
            return lit(0)
        return copy.deepcopy(p.null)

    def as_int(self, n, sub):
        if is_ptr(n):
            return binop("!=", self.nonnull(self.pv(n, sub)), lit(0))
        return self.rx(n, sub)

    # ---- integer expressions ------------------------------------------------------
    def sizeof_node(self, n, sub):
        if n.get("name") != "sizeof":
            raise LeafError("unsupported " + str(n.get("name")))
        t = n["argType"]["qualType"] if "argType" in n else qt(n["inner"][0])
        m = re.match(r"^(?:const\s+)?(?:unsigned\s+|signed\s+)?char\s*\[(\d+)\]$", clean(t))
        if m:
            return int(m.group(1))
        if "argType" not in n:
            x = strip_all(n["inner"][0])
            if x.get("kind") == "DeclRefExpr":
                b = sub.get(x["referencedDecl"]["name"])
                if b and b[0] == "arr" and isinstance(b[2], int):
                    return b[2]
        return self.loader.const("sizeof(%s)" % clean(t))

    def rx(self, n, sub):
        k = n.get("kind")
        if k in ("IntegerLiteral", "CharacterLiteral"):
            return copy.deepcopy(n)
        if k == "@rx":
            return copy.deepcopy(n["node"])
        if k in ("ParenExpr", "ConstantExpr"):
            return self.rx(n["inner"][0], sub)
        if k in ("ImplicitCastExpr", "CStyleCastExpr"):
            ck = n.get("castKind")
            if ck in ("LValueToRValue", "NoOp", "IntegralCast", "IntegralToBoolean", "BooleanToSignedIntegral"):
                if is_ptr(n["inner"][-1]) and ck == "LValueToRValue":
                    raise LeafError("pointer used as an integer")
                out = {kk: vv for kk, vv in n.items() if kk != "inner"}
                out["inner"] = [self.rx(n["inner"][-1], sub)]
                return out
            if ck == "PointerToBoolean":
                return self.as_int(n["inner"][-1], sub)
            if ck == "ToVoid":
                return lit(0)
            raise LeafError("unsupported cast " + str(ck))
        if k == "DeclRefExpr":
            d = n["referencedDecl"]
            if d.get("kind") == "EnumConstantDecl":
                return lit(self.loader.const(d["name"]), clean(qt(n)) or "int")
            b = sub.get(d["name"])
            if b and b[0] == "var":
                if b[3] is not None:
                    return lit(b[3], b[2])          # a local whose value is a literal on this path
                return lvar(b[1], b[2])
            if b and b[0] == "expr":
                return copy.deepcopy(b[1])
            raise LeafError("unknown variable %s in an integer expression" % d["name"])
        if k == "MemberExpr":
            return self.int_field(n, sub)
        if k == "ArraySubscriptExpr":
            p = self.pv(n["inner"][0], sub)
            if p.buf is not None and p.buf[0] == sub.get("@fmtbuf"):
                return elem("buf", self.rx(n["inner"][1], sub), "char")
            raise LeafError("unsupported array read")
        if k == "UnaryExprOrTypeTraitExpr":
            return lit(self.sizeof_node(n, sub), "unsigned long")
        if k == "UnaryOperator":
            op = n.get("opcode")
            if op == "!":
                x = n["inner"][0]
                if is_ptr(x):
                    return binop("==", self.nonnull(self.pv(x, sub)), lit(0))
            if op in ("!", "-", "~", "+"):
                out = {kk: vv for kk, vv in n.items() if kk != "inner"}
                out["inner"] = [self.rx(n["inner"][0], sub)]
                return out
            raise LeafError("unsupported unary %s in an expression" % op)
        if k == "BinaryOperator":
            op = n.get("opcode")
            a, b = n["inner"]
            if op in ("==", "!=") and (is_ptr(a) or is_ptr(b)):
                pa, pb = self.pv(a, sub), self.pv(b, sub)
                if pb.null == "null":
                    x = pa
                elif pa.null == "null":
                    x = pb
                else:
                    raise LeafError("comparison of two pointers")
                return binop(op, self.nonnull(x), lit(0))
            if op in ("&&", "||"):
                return binop(op, self.as_int(a, sub), self.as_int(b, sub))
            if op in ("=", ","):
                raise LeafError("assignment / comma inside an expression")
            out = {kk: vv for kk, vv in n.items() if kk != "inner"}
            out["inner"] = [self.rx(a, sub), self.rx(b, sub)]
            return out
        if k == "ConditionalOperator":
            out = {kk: vv for kk, vv in n.items() if kk != "inner"}
            out["inner"] = [self.as_int(n["inner"][0], sub), self.rx(n["inner"][1], sub), self.rx(n["inner"][2], sub)]
            return out
        if k == "CallExpr":
            raise LeafError("call of %s inside an expression" % self.callee(n)[0])
        raise LeafError("unsupported expression kind " + str(k))

    # ---- constants along a path -------------------------------------------------------
    def static_int(self, n, sub):
        k = n.get("kind")
        if k in ("ParenExpr", "ConstantExpr"):
            return self.static_int(n["inner"][0], sub)
        if k in ("ImplicitCastExpr", "CStyleCastExpr"):
            if is_ptr(n["inner"][-1]):
                return None
            v = self.static_int(n["inner"][-1], sub)
            if v is None:
                return None
            if n.get("castKind") == "IntegralToBoolean":
                return 1 if v else 0
            if n.get("castKind") in ("LValueToRValue", "NoOp", "IntegralCast"):
                return v
            return None
        if k == "IntegerLiteral":
            return int(n["value"])
        if k == "DeclRefExpr":
            b = sub.get(n["referencedDecl"]["name"])
            if b and b[0] in ("var", "expr"):
                return b[3]
            return None
        if k == "UnaryOperator" and n.get("opcode") == "!":
            if is_ptr(n["inner"][0]):
                try:
                    p = self.pv(n["inner"][0], sub)
                except LeafError:
                    return None
                return 0 if p.null is None else (1 if p.null == "null" else None)
            v = self.static_int(n["inner"][0], sub)
            return None if v is None else (0 if v else 1)
        if k == "BinaryOperator" and n.get("opcode") in ("==", "!=") and (is_ptr(n["inner"][0]) or is_ptr(n["inner"][1])):
            try:
                pa, pb = self.pv(n["inner"][0], sub), self.pv(n["inner"][1], sub)
            except LeafError:
                return None
            x = pa if pb.null == "null" else (pb if pa.null == "null" else None)
            if x is None or not (x.null is None or x.null == "null"):
                return None
            return int((x.null == "null") == (n["opcode"] == "=="))
        if k == "BinaryOperator" and n.get("opcode") in ("==", "!=") and not is_ptr(n["inner"][0]) and not is_ptr(n["inner"][1]):
            a, b = self.static_int(n["inner"][0], sub), self.static_int(n["inner"][1], sub)
            if a is None or b is None:
                return None
            return int((a == b) == (n["opcode"] == "=="))
        return None

    # ---- calls ---------------------------------------------------------------------------
    def callee(self, call):
        c0 = call["inner"][0]
        while c0.get("kind") in ("ImplicitCastExpr", "ParenExpr"):
            c0 = c0["inner"][0]
        if c0.get("kind") == "DeclRefExpr" and c0["referencedDecl"].get("kind") == "FunctionDecl":
            return (c0["referencedDecl"]["name"], c0)
        return (None, c0)

    def find_call(self, n):
        if n.get("kind") == "CallExpr":
            return n
        for c in n.get("inner", []) if n.get("kind") != "@pv" else []:
            r = self.find_call(c)
            if r is not None:
                return r
        return None

    def guarded(self, root, call):
        """is `call` evaluated only conditionally inside expression `root`?"""
        def walk(n, g):
            if n is call:
                return g
            k = n.get("kind")
            for i, c in enumerate(n.get("inner", []) if k != "@pv" else []):
                gg = g or (k == "BinaryOperator" and n.get("opcode") in ("&&", "||") and i == 1) or \
                    (k == "ConditionalOperator" and i > 0)
                r = walk(c, gg)
                if r is not None:
                    return r
            return None
        return bool(walk(root, False))

    def replace_node(self, root, old, new):
        if root is old:
            return new
        if "inner" in root and root.get("kind") != "@pv":
            root = dict(root)
            root["inner"] = [self.replace_node(c, old, new) for c in root["inner"]]
        return root

    def bump(self, name, ty="int"):
        return assign(field(name, ty), binop("+", rval(field(name, ty)), lit(1), ty), ty)

    def expand_call(self, call, sub, k):
        """k(value, sub) -> statements;  value: integer expression node | PV | None"""
        name, c0 = self.callee(call)
        args = call["inner"][1:]
        cfg = self.cfg
        if name is None:
            if c0.get("kind") != "MemberExpr":
                raise LeafError("indirect call through " + str(c0.get("kind")))
            m = c0.get("name")
            if m == "fmt_func":
                return self.ev_fmt(args, sub, k)
            if m == "p_alloc":
                return self.ev_alloc(args[0], sub, k)
            if m == "p_free":
                return [self.bump("freed")] + k(None, sub)
            if m == "write":
                obj, path, hidx = self.lv(c0, sub)
                if hidx is None:
                    raise LeafError("write called on something that is not a handler slot of the logger")
                return [assign(elem("wr_order", rval(field("wr_n"))), copy.deepcopy(hidx)), self.bump("wr_n")] + k(None, sub)
            raise LeafError("indirect call through member " + str(m))
        if name in cfg.get("drop", ()):
            return k(None, sub)
        if name in cfg.get("values", ()):
            return k(lit(0, "unsigned long"), sub)     # environment readings (thread id) stored in fields the slice drops
        if name == "fwrite":
            pb = self.pv(args[0], sub)
            if pb.buf is not None:
                if pb.buf[0] != sub.get("@fmtbuf"):
                    raise LeafError("fwrite of a buffer that was not formatted")
                n1, n2 = self.rx(args[1], sub), self.rx(args[2], sub)
                st = [assign(field("wr_cnt", "unsigned long"), binop("*", n1, n2, "unsigned long"), "unsigned long"),
                      self.bump("wr_n")]
                sub["@wrote"] = True
                return st + k(self.rx(args[2], sub), sub)
            if pb.obj is not None or pb.hidx is not None:
                raise LeafError("fwrite of a tracked object")
            return k(None, sub)          # colour codes and the like
        if name in ("vsnprintf", "vsprintf"):
            pb = self.pv(args[0], sub)
            if pb.buf is None:
                raise LeafError("vsnprintf into something that is not a tracked buffer")
            if name == "vsprintf":
                raise LeafError("unbounded vsprintf")
            cap = lit(pb.buf[1], "unsigned long") if isinstance(pb.buf[1], int) else copy.deepcopy(pb.buf[1])
            st = [assign(field("pay_size", "unsigned long"), self.rx(args[1], sub), "unsigned long"),
                  assign(field("pay_cap", "unsigned long"), cap, "unsigned long")]
            sub["@paybuf"] = pb.buf[0]
            return st + k(None, sub)
        if name in ("malloc",):
            return self.ev_alloc(args[0], sub, k)
        if name == "free":
            return [self.bump("freed")] + k(None, sub)
        if name in cfg.get("events", {}):
            return [self.bump(cfg["events"][name])] + k(None, sub)
        if name == "muggle_channel_write" and cfg.get("channel"):
            pd = self.pv(args[1], sub)
            return [self.bump("sentinel" if pd.null == "null" else "queued")] + k(rval(field("chan_ret", "int")), sub)
        if cfg.get("layout") and name in ("muggle_log_level_to_str", "muggle_path_basename", "gmtime_r", "snprintf"):
            return self.ev_layout(name, args, sub, k)
        o = next((spec for rx_, spec in cfg.get("opaque_re", ()) if re.search(rx_, name)), None)
        if o is not None:
            for a in args:
                if is_ptr(a):
                    p = self.pv(a, sub)
                    if p.buf is not None:
                        raise LeafError("the buffer is passed to %s, which the slice does not look into" % name)
            st = []
            if o.get("at"):
                st.append(assign(field(o["tag"] + "_at"), rval(field("wr_n"))))
            st.append(self.bump(o["tag"] + "_n"))
            self.havoc("handler", o.get("havoc", []), sub)
            return st + k(rval(field(o["tag"] + "_ret", "int")), sub)
        f, rel = self.loader.fn(name, cfg.get("files", []))
        if f is None:
            raise LeafError("call of %s: neither a known library call nor defined in the log module" % name)
        return self.inline(call, f, sub, k)

    def ev_fmt(self, args, sub, k):
        if len(args) != 3:
            raise LeafError("formatter called with %d arguments" % len(args))
        pb = self.pv(args[1], sub)
        if pb.buf is None:
            raise LeafError("the formatter's output is not a tracked buffer")
        if sub.get("@fmtbuf") is not None:
            raise LeafError("formatter called twice on one path")
        sub["@fmtbuf"] = pb.buf[0]
        cap = lit(pb.buf[1], "unsigned long") if isinstance(pb.buf[1], int) else copy.deepcopy(pb.buf[1])
        st = [assign(field("fmt_size", "unsigned long"), self.rx(args[2], sub), "unsigned long"),
              assign(field("buf_cap", "unsigned long"), cap, "unsigned long")]
        return st + k(rval(field("fret", "int")), sub)

    def ev_alloc(self, size, sub, k):
        n = sub.get("@alloc", 0) + 1
        sub["@alloc"] = n
        p = PV(buf=("alloc%d" % n, self.rx(size, sub)), null=field("alloc%d_ok" % n), tag="alloc")
        return k(p, sub)

    def inline(self, call, f, sub, k):
        self.depth += 1
        if self.depth > 10:
            raise LeafError("call nesting too deep")
        try:
            parms = [c for c in f.get("inner", []) if c.get("kind") == "ParmVarDecl"]
            args = call["inner"][1:]
            if len(parms) != len(args):
                raise LeafError("argument count mismatch calling " + f["name"])
            pre, subh = [], {kk: vv for kk, vv in sub.items() if kk.startswith("@")}
            for p_, a in zip(parms, args):
                t = clean(dq(p_))
                if is_int(p_) and cfg_subst(self):
                    subh[p_["name"]] = ("expr", self.rx(a, sub), t, self.static_int(a, sub))
                elif is_int(p_):
                    nm = self.fresh(p_["name"])
                    pre.append(decl(nm, t, self.rx(a, sub)))
                    subh[p_["name"]] = ("var", nm, t, self.static_int(a, sub))
                elif is_ptr(p_):
                    subh[p_["name"]] = ("ptr", self.pv(a, sub))
                else:
                    raise LeafError("unsupported parameter type %s of %s" % (t, f["name"]))
            rt = clean(f["type"]["qualType"].split("(")[0])
            body = [c for c in f["inner"] if c.get("kind") == "CompoundStmt"][0]
            outer = self.loops

            def back(subh2):
                s2 = dict(sub)
                for kk, vv in subh2.items():
                    if kk.startswith("@"):
                        s2[kk] = vv
                return s2

            def on_ret0(e, subh2):
                if e is None or rt == "void":
                    return k(None, back(subh2))
                if rt.endswith("*"):
                    return k(self.pv(e, subh2), back(subh2))
                ty = "int" if rt in ("bool", "_Bool") else rt
                if L.ctype({"type": {"qualType": ty}}) is None:
                    raise LeafError("%s returns %s" % (f["name"], rt))
                if cfg_subst(self):
                    return k(self.rx(e, subh2), back(subh2))
                tmp = self.fresh("r_" + f["name"][-10:])
                s2 = back(subh2)
                s2[tmp] = ("var", tmp, ty, self.static_int(e, subh2))
                return [decl(tmp, ty, self.rx(e, subh2))] + k(rval(lvar(tmp, ty)), s2)

            def on_ret(e, subh2):
                return self.with_loops(outer, lambda: on_ret0(e, subh2))

            out = self.with_loops([], lambda: self.seq([body], subh, lambda s: on_ret(None, s), on_ret))
            return pre + out
        finally:
            self.depth -= 1

    def hoist(self, stmt, R, sub, cont, retk):
        call = self.find_call(stmt)
        if self.guarded(stmt, call):
            raise LeafError("a call is evaluated conditionally inside an expression")

        def k(v, s2):
            if v is None:
                x = stmt
                while x.get("kind") in ("ParenExpr", "CStyleCastExpr", "ImplicitCastExpr"):
                    x = x["inner"][-1]
                if x is call:
                    return self.seq(R, s2, cont, retk)
                raise LeafError("the result of %s is used but the slice has no value for it" % (self.callee(call)[0] or "an indirect call"))
            if isinstance(v, PV):
                new = {"kind": "@pv", "pv": v, "type": call.get("type", {})}
            elif cfg_subst(self) or v.get("kind") == "IntegerLiteral":
                new = {"kind": "@rx", "node": v, "type": call.get("type", {"qualType": "int"})}
            else:
                ty = clean(dq(call)) or "int"
                if L.ctype({"type": {"qualType": ty}}) is None:
                    ty = "int"
                tmp = self.fresh("c")
                s2[tmp] = ("var", tmp, ty, self.static_int(v, s2))
                return [decl(tmp, ty, v)] + self.seq([self.replace_node(stmt, call, rval(lvar(tmp, ty)))] + R, s2, cont, retk)
            return self.seq([self.replace_node(stmt, call, new)] + R, s2, cont, retk)
        return self.expand_call(call, sub, k)

    # ---- the snprintf call of a formatter --------------------------------------------------
    def is_state_field(self, n, name):
        while n.get("kind") in ("ParenExpr", "ImplicitCastExpr", "CStyleCastExpr", "ConstantExpr"):
            n = n["inner"][-1]
        return n.get("kind") == "MemberExpr" and n.get("name") == name and \
            strip_all(n["inner"][0]).get("referencedDecl", {}).get("name") == STATE

    def ev_layout(self, name, args, sub, k):
        if name == "muggle_log_level_to_str":
            if not self.is_state_field(self.rx(args[0], sub), "msg_level"):
                raise LeafError("muggle_log_level_to_str is not applied to msg->level")
            return k(PV(tag="levelname"), sub)
        if name == "muggle_path_basename":
            src, dst = self.pv(args[0], sub), self.pv(args[1], sub)
            if src.tag != "fld:msg_src_loc_file" or dst.buf is None:
                raise LeafError("muggle_path_basename is not applied to msg->src_loc.file and a local buffer")
            sz = self.rx(args[2], sub)
            while sz.get("kind") in ("ImplicitCastExpr", "CStyleCastExpr", "ParenExpr"):
                sz = sz["inner"][-1]
            if sz.get("kind") != "IntegerLiteral" or int(sz["value"]) > dst.buf[1]:
                raise LeafError("muggle_path_basename: size argument exceeds the buffer")
            sub["@basename"] = dst.buf[0]
            return k(lit(0), sub)
        if name == "gmtime_r":
            a, b = self.pv(args[0], sub), self.pv(args[1], sub)
            if (a.obj, self.norm_path("msg", a.path)) != ("msg", ("ts", "tv_sec")) or b.obj != "tm":
                raise LeafError("gmtime_r is not applied to &msg->ts.tv_sec and a local struct tm")
            self.notes["tm_ok"] = True
            return k(PV(obj="tm"), sub)
        # snprintf(buf, bufsize, "...", args...)
        dst = self.pv(args[0], sub)
        sz = strip_all(args[1])
        if not (dst.tag or "").startswith("param:") or sz.get("kind") != "DeclRefExpr" or \
                sub.get(sz["referencedDecl"]["name"], ("",))[0] != "var":
            raise LeafError("snprintf does not write to the formatter's (buf, bufsize)")
        fs = self.pv(args[2], sub)
        if fs.strv is None:
            raise LeafError("format string is not a literal")
        items = self.parse_format(fs.strv, args[3:], sub)
        self.notes.setdefault("layouts", []).append(items)
        return k(rval(field("snp", "int")), sub)

    def parse_format(self, fmt, args, sub):
        items, i, ai, cur = [], 0, 0, bytearray()

        def flush():
            if cur:
                items.append(("lit", bytes(cur)))
                del cur[:]
        while i < len(fmt):
            c = fmt[i:i + 1]
            if c != b"%":
                cur += c
                i += 1
                continue
            m = re.match(rb"%(0?)(\d*)(hh|h|ll|l|z|j|t)?([dius%])", fmt[i:])
            if not m:
                raise LeafError("unsupported conversion at %r" % fmt[i:i + 8])
            i += len(m.group(0))
            zero, width, ln, conv = m.group(1), m.group(2), (m.group(3) or b"").decode(), m.group(4).decode()
            if conv == "%":
                cur += b"%"
                continue
            if ai >= len(args):
                raise LeafError("more conversions than arguments")
            a = args[ai]
            ai += 1
            if conv == "s":
                if zero or width or ln:
                    raise LeafError("unsupported %s flags")
                p = self.pv(a, sub)
                if p.strv is not None:
                    cur += p.strv
                    continue
                flush()
                if p.tag == "levelname":
                    items.append(("str", "SLevel"))
                elif p.buf is not None and p.buf[0] == sub.get("@basename"):
                    items.append(("str", "SFile"))
                elif p.tag == "fld:msg_src_loc_func":
                    items.append(("str", "SFunc"))
                elif p.tag == "fld:msg_payload":
                    items.append(("str", "SPayload"))
                else:
                    raise LeafError("%%s argument %d is not a string the model knows (%s)" % (ai, p))
                continue
            if width and not zero:
                raise LeafError("space-padded conversion")
            flush()
            bits = {"": 32, "l": 64, "ll": 64, "z": 64, "j": 64, "t": 64, "h": 16, "hh": 8}[ln]
            e = self.rx(a, sub)
            ty = L.ctype(a)
            if ty is None:
                raise LeafError("conversion %d applied to a non-integer" % ai)
            if ty[1] > bits and ty[1] > 32:
                raise LeafError("argument %d is wider than its conversion" % ai)
            items.append(("num", int(width or 0), conv in ("d", "i"), bits, e))
        if ai != len(args):
            raise LeafError("more arguments than conversions")
        flush()
        return items

    # ---- statements (continuation-passing) ----------------------------------------------
    def with_loops(self, stack, thunk):
        saved = self.loops
        self.loops = stack
        try:
            return thunk()
        finally:
            self.loops = saved

    def loop(self, init, cond, inc, body, R, sub, cont, retk):
        if init is not None:
            return self.seq([init, {"kind": "@loop", "cond": cond, "inc": inc, "body": body}] + R, sub, cont, retk)
        bound = self.cfg.get("unroll")
        if bound is None:
            raise LeafError("loop in a function that is sliced without loops")
        outer = list(self.loops)

        def after(s):
            return self.with_loops(outer, lambda: self.seq(R, s, cont, retk))

        def unroll(k, s):
            cv = 1 if cond is None else self.static_int(cond, s)
            if k == 0:
                if cv == 0:
                    return after(s)
                # one iteration more than MUGGLE_LOGGER_MAX_HANDLER: outside the stated domain
                over = [assign(field("overrun"), lit(1))]
                if cv is None and cond is not None:
                    return [{"kind": "IfStmt", "inner": [self.as_int(cond, s), {"kind": "CompoundStmt", "inner": over + after(dict(s))},
                                                         {"kind": "CompoundStmt", "inner": after(dict(s))}]}]
                return over + after(s)

            def nxt(s1):
                return self.with_loops(outer, lambda: self.seq([inc] if inc is not None else [], s1,
                                                               lambda s2: unroll(k - 1, s2), retk))

            def run(s0):
                return self.with_loops(outer + [(after, nxt)], lambda: self.seq([body], s0, nxt, retk))
            if cv is not None:
                return run(s) if cv else after(s)
            if self.find_call(cond) is not None:
                raise LeafError("call in a loop condition")
            return [{"kind": "IfStmt", "inner": [self.as_int(cond, s), {"kind": "CompoundStmt", "inner": run(dict(s))},
                                                 {"kind": "CompoundStmt", "inner": after(dict(s))}]}]
        return unroll(bound, sub)

    def is_noop(self, body, sub):
        """does `body` neither emit anything nor change the symbolic state nor leave the function?"""
        if body is None:
            return True
        snap_uid = self.uid
        try:
            probe = dict(sub)
            out = self.with_loops([], lambda: self.seq([body], probe, lambda s2: [("@end", s2)], lambda e, s2: [("@ret",)]))
        except LeafError:
            self.uid = snap_uid
            return False
        self.uid = snap_uid
        return len(out) == 1 and isinstance(out[0], tuple) and out[0][0] == "@end" and out[0][1] == sub

    def seq(self, stmts, sub, cont, retk):
        if not stmts:
            return cont(sub)
        s, R = stmts[0], list(stmts[1:])
        k = s.get("kind")
        if k == "CompoundStmt":
            return self.seq(list(s.get("inner", [])) + R, sub, cont, retk)
        if k == "NullStmt":
            return self.seq(R, sub, cont, retk)
        if k == "@loop":
            return self.loop(None, s["cond"], s["inc"], s["body"], R, sub, cont, retk)
        if k == "ForStmt":
            init, _cv, cond, inc, body = [(c if c else None) for c in s["inner"]]
            return self.loop(init, cond, inc, body, R, sub, cont, retk)
        if k == "WhileStmt":
            return self.loop(None, s["inner"][-2], None, s["inner"][-1], R, sub, cont, retk)
        if k == "BreakStmt":
            if not self.loops:
                raise LeafError("break outside a loop")
            return self.loops[-1][0](sub)
        if k == "ContinueStmt":
            if not self.loops:
                raise LeafError("continue outside a loop")
            return self.loops[-1][1](sub)
        if k == "ReturnStmt":
            e = s["inner"][0] if s.get("inner") else None
            if e is not None and self.find_call(e) is not None:
                return self.hoist(s, [], sub, cont, retk)
            return retk(e, sub)
        if k == "IfStmt":
            return self.if_stmt(s, R, sub, cont, retk)
        if k == "DeclStmt":
            return self.decl_stmt(s, R, sub, cont, retk)
        if k in ("ImplicitCastExpr", "CStyleCastExpr", "ParenExpr"):
            return self.seq([s["inner"][-1]] + R, sub, cont, retk)
        if k == "CallExpr":
            return self.expand_call(s, sub, lambda v, s2: self.seq(R, s2, cont, retk))
        if k in ("DeclRefExpr", "IntegerLiteral", "MemberExpr"):
            return self.seq(R, sub, cont, retk)          # (void)x;
        if k in ("BinaryOperator", "CompoundAssignOperator") and s.get("opcode", "").endswith("=") and \
                s.get("opcode") not in ("==", "!=", "<=", ">="):
            return self.assign_stmt(s, R, sub, cont, retk)
        if k == "UnaryOperator" and s.get("opcode") in ("++", "--"):
            l0 = s["inner"][0]
            while l0.get("kind") == "ParenExpr":
                l0 = l0["inner"][0]
            out = {kk: vv for kk, vv in s.items() if kk != "inner"}
            if l0.get("kind") == "DeclRefExpr":
                b = sub.get(l0["referencedDecl"]["name"])
                if not b or b[0] != "var":
                    raise LeafError("++ / -- on %s" % l0["referencedDecl"]["name"])
                out["inner"] = [lvar(b[1], b[2])]
                c = None if b[3] is None else b[3] + (1 if s["opcode"] == "++" else -1)
                sub[l0["referencedDecl"]["name"]] = (b[0], b[1], b[2], c)
            elif l0.get("kind") == "MemberExpr":
                out["inner"] = [self.int_field(l0, sub)]
            else:
                raise LeafError("++ / -- on " + str(l0.get("kind")))
            return [out] + self.seq(R, sub, cont, retk)
        raise LeafError("unsupported statement kind " + str(k))

    def if_stmt(self, s, R, sub, cont, retk):
        inner = s["inner"]
        c, t = inner[0], inner[1]
        f = inner[2] if len(inner) > 2 else None
        c0 = c
        while c0.get("kind") == "ParenExpr":
            c0 = c0["inner"][0]
        if c0.get("kind") == "BinaryOperator" and c0.get("opcode") in ("&&", "||") and self.find_call(c0["inner"][1]) is not None:
            a, b = c0["inner"]
            if c0["opcode"] == "&&":      # if (a && b) T else F  ==  if (a) { if (b) T else F } else F
                new = {"kind": "IfStmt", "inner": [a, {"kind": "IfStmt", "inner": [b, t] + ([f] if f is not None else [])}] +
                       ([f] if f is not None else [])}
            else:                         # if (a || b) T else F  ==  if (a) T else { if (b) T else F }
                new = {"kind": "IfStmt", "inner": [a, t, {"kind": "IfStmt", "inner": [b, t] + ([f] if f is not None else [])}]}
            return self.seq([new] + R, sub, cont, retk)
        if self.find_call(c) is not None:
            return self.hoist(s, R, sub, cont, retk)
        cv = self.static_int(c, sub)
        if cv is None and is_ptr(c):
            p = self.pv(c, sub)
            cv = 1 if p.null is None else (0 if p.null == "null" else None)
        if cv is not None:
            return self.seq(([t] if cv else ([f] if f is not None else [])) + R, sub, cont, retk)
        if self.is_noop(t, sub) and self.is_noop(f, sub):
            return self.seq(R, sub, cont, retk)
        cond = self.as_int(c, sub)
        th = self.seq([t] + R, dict(sub), cont, retk)
        el = self.seq(([f] if f is not None else []) + R, dict(sub), cont, retk)
        return [{"kind": "IfStmt", "inner": [cond, {"kind": "CompoundStmt", "inner": th}, {"kind": "CompoundStmt", "inner": el}]}]

    def decl_stmt(self, s, R, sub, cont, retk):
        out = []
        ds = s.get("inner", [])
        for i, d in enumerate(ds):
            if d.get("kind") != "VarDecl":
                if d.get("kind") in ("RecordDecl", "TypedefDecl", "EnumDecl"):
                    continue
                raise LeafError("unsupported declaration " + str(d.get("kind")))
            init = [c for c in d.get("inner", []) if not c.get("kind", "").endswith("Attr")]
            if init and self.find_call(init[-1]) is not None:
                # evaluate the call first, then re-enter with the remaining declarators
                rest = {"kind": "DeclStmt", "inner": ds[i:]}
                return out + self.hoist(rest, R, sub, cont, retk)
            t = clean(dq(d))
            nm = d["name"]
            if is_int(d) and self.cfg.get("subst"):
                # locals are substituted (the layout of a formatter needs closed argument expressions)
                e = self.rx(init[-1], sub) if init else lit(0)
                sub[nm] = ("expr", {"kind": "ImplicitCastExpr", "castKind": "IntegralCast", "type": {"qualType": t}, "inner": [e]},
                           t, self.static_int(init[-1], sub) if init else None)
            elif is_int(d):
                new = self.fresh(nm)
                out.append(decl(new, t, self.rx(init[-1], sub) if init else lit(0)))
                sub[nm] = ("var", new, t, self.static_int(init[-1], sub) if init else None)
            elif re.match(r"^(unsigned |signed )?char ?\[\d+\]$", t):
                sub[nm] = ("arr", nm, int(re.search(r"\[(\d+)\]", t).group(1)))
            elif init and init[-1].get("kind") == "InitListExpr" and t.endswith("]") and "*" in t:
                names = []
                for e in init[-1].get("inner", []):
                    e0 = strip_all(e)
                    if e0.get("kind") != "StringLiteral":
                        raise LeafError("initialiser of %s is not a string literal" % nm)
                    names.append(c_unquote(e0["value"]))
                m = re.search(r"\[(\d+)\]", t)
                if m and int(m.group(1)) != len(names):
                    raise LeafError("table %s has %s slots but %d initialisers" % (nm, m.group(1), len(names)))
                sub[nm] = ("strtab", names)
                self.notes.setdefault("strtab", {})[nm] = names
            elif is_ptr(d):
                sub[nm] = ("ptr", self.pv(init[-1], sub) if init else None)
            elif obj_of_type(t) in ("msg", "tm") and not t.endswith("]"):
                sub[nm] = ("struct", obj_of_type(t), ())
            else:
                sub[nm] = ("other", t)
        return out + self.seq(R, sub, cont, retk)

    def assign_stmt(self, s, R, sub, cont, retk):
        if self.find_call(s) is not None:
            return self.hoist(s, R, sub, cont, retk)
        lhs, rhs = s["inner"]
        l0 = lhs
        while l0.get("kind") == "ParenExpr":
            l0 = l0["inner"][0]
        k = l0.get("kind")
        out = {kk: vv for kk, vv in s.items() if kk != "inner"}
        if k == "DeclRefExpr":
            nm = l0["referencedDecl"]["name"]
            b = sub.get(nm)
            if b and b[0] == "var" and s["opcode"] == "=" and b[3] is not None and self.static_int(rhs, sub) == b[3]:
                return self.seq(R, sub, cont, retk)          # the local already holds this literal on this path
            if b and b[0] == "var":
                out["inner"] = [lvar(b[1], b[2]), self.rx(rhs, sub)]
                sub[nm] = (b[0], b[1], b[2], self.static_int(rhs, sub) if s["opcode"] == "=" else None)
                return [out] + self.seq(R, sub, cont, retk)
            if b and b[0] == "expr":
                if s["opcode"] != "=":
                    raise LeafError("compound assignment to a substituted local")
                e = {"kind": "ImplicitCastExpr", "castKind": "IntegralCast", "type": {"qualType": b[2]}, "inner": [self.rx(rhs, sub)]}
                sub[nm] = ("expr", e, b[2], self.static_int(rhs, sub))
                return self.seq(R, sub, cont, retk)
            if b and b[0] == "ptr":
                if s["opcode"] != "=":
                    raise LeafError("pointer arithmetic on " + nm)
                sub[nm] = ("ptr", self.pv(rhs, sub))
                return self.seq(R, sub, cont, retk)
            raise LeafError("assignment to " + nm)
        if k == "MemberExpr":
            obj, path, hidx = self.lv(l0, sub)
            npath = self.norm_path(obj, path) if obj else path
            if is_ptr(l0):
                if s["opcode"] != "=" or hidx is not None:
                    raise LeafError("unsupported store to pointer member " + str(l0.get("name")))
                fl = dict(sub.get("@fld", {}))
                fl[(obj, npath)] = self.pv(rhs, sub)
                sub["@fld"] = fl
                return self.seq(R, sub, cont, retk)
            keep = self.cfg.get("keep", {}).get(obj)
            if keep is not None and (not npath or npath[0] not in keep):
                return self.seq(R, sub, cont, retk)          # a message field the slice does not follow (clock, thread id)
            out["inner"] = [self.int_field(l0, sub), self.rx(rhs, sub)]
            return [out] + self.seq(R, sub, cont, retk)
        if k == "ArraySubscriptExpr":
            p = self.pv(l0["inner"][0], sub)
            if p.buf is None or p.buf[0] != sub.get("@fmtbuf"):
                raise LeafError("store into an array that is not the formatted buffer")
            if sub.get("@wrote"):
                raise LeafError("store into the buffer after it was handed to fwrite")
            if s["opcode"] != "=":
                raise LeafError("compound assignment to a buffer byte")
            return [assign(elem("buf", self.rx(l0["inner"][1], sub), "char"), self.rx(rhs, sub), "char")] + self.seq(R, sub, cont, retk)
        raise LeafError("unsupported assignment target " + str(k))

    # ---- entry ------------------------------------------------------------------------------
    def slice(self, name, files):
        f, rel = self.loader.fn(name, files)
        if f is None:
            raise LeafError("function %s not found in %s" % (name, ", ".join(files)))
        self.uid, self.loops, self.depth = 0, [], 0
        sub, scalars = {"@gen": {}, "@fld": {}, "@alloc": 0}, []
        for p in [c for c in f.get("inner", []) if c.get("kind") == "ParmVarDecl"]:
            t = clean(dq(p))
            if is_int(p):
                scalars.append(p)
                sub[p["name"]] = ("var", p["name"], t, None)
            elif is_ptr(p):
                o = obj_of_type(t)
                sub[p["name"]] = ("ptr", PV(obj=o) if o else PV(tag="param:" + p["name"]))
            else:
                raise LeafError("unsupported parameter type " + t)
        rt = clean(f["type"]["qualType"].split("(")[0])
        if rt == "void":
            newrt = "void"

            def retk(e, s):
                return [{"kind": "ReturnStmt", "inner": []}]
        elif rt.endswith("*"):
            newrt = "int"

            def retk(e, s):
                p = self.pv(e, s)
                if p.tab is not None and p.tab[0] != "@slot" and p.tab[1] is not None:
                    self.notes["table"] = p.tab[0]
                    return [{"kind": "ReturnStmt", "inner": [copy.deepcopy(p.tab[1])]}]
                if p.strv is not None:
                    if self.notes.setdefault("other_str", p.strv) != p.strv:
                        raise LeafError("two different strings outside the table")
                    return [{"kind": "ReturnStmt", "inner": [{"kind": "UnaryOperator", "opcode": "-", "type": {"qualType": "int"},
                                                              "inner": [lit(1)]}]}]
                raise LeafError("returned pointer is neither a table element nor a string literal")
        else:
            newrt = "int" if rt in ("bool", "_Bool") else rt
            if L.ctype({"type": {"qualType": newrt}}) is None:
                raise LeafError("unsupported return type " + rt)
            if rt in ("bool", "_Bool"):
                newrt = "bool"

            def retk(e, s):
                return [{"kind": "ReturnStmt", "inner": [self.as_int(e, s)] if e is not None else []}]
        body = [c for c in f["inner"] if c.get("kind") == "CompoundStmt"][0]
        out = self.seq([body], sub, lambda s: retk(None, s) if newrt == "void" else [], retk)
        hp = {"kind": "ParmVarDecl", "name": STATE, "type": {"qualType": STATE_T}}
        return {"kind": "FunctionDecl", "name": name, "type": {"qualType": newrt + " (sliced)"},
                "inner": [hp] + scalars + [{"kind": "CompoundStmt", "inner": out}]}


def translate_node(fn, gname):
    """lib/leaftrans on a sliced function -> (text, fields [(key, is_array)], scalar params, written keys, ret kind)"""
    t = L.Tr(fn, None, ())
    body = [c for c in fn["inner"] if c.get("kind") == "CompoundStmt"][0]
    rt = fn["type"]["qualType"].split("(")[0].strip()
    ret_kind = None if rt == "void" else ("B" if rt in ("bool", "_Bool") else "Z")
    t.all_written = []
    L.collect_written(body, t.all_written)
    code = ""
    for _ in range(3):
        t.all_written = sorted(set(t.all_written) | set(t.written))
        t.cnt = 0
        env = {p: p for p in t.params}
        code = t.stmts([body], env, ret_kind)
        if set(t.written) <= set(t.all_written):
            break
    code = re.sub(r"@FIELD:(\w+)@", r"\1", code)
    t.fields = sorted(t.fields)
    args = ["(%s : %s)" % (k, "list Z" if a else "Z") for k, a in t.fields] + ["(%s : Z)" % p for p in t.params]
    text = "Definition %s %s :=\n  %s.\n" % (gname, " ".join(args), code)
    return text, t.fields, t.params, t.all_written, ret_kind

def cfg_subst(s):
    return bool(s.cfg.get("subst"))


# ---------------------------------------------------------------------------
# targets

LOGDIR = "muggle/c/log/"
HANDLER_C = LOGDIR + "log_handler.c"

DROP = {"muggle_mutex_lock", "muggle_mutex_unlock", "fflush", "fprintf", "printf", "fputs", "memset", "memcpy", "strlen",
        "timespec_get", "clock_gettime", "__builtin_va_start", "__builtin_va_end", "va_start", "va_end",
        "muggle_print_stacktrace", "abort", "muggle_thread_yield"}

# the state records of coq/C16/Model.v (hwio: a handler's write function; lgio: a logger function)
HW_FIELDS = ["io_buf", "io_fret", "io_fmt_ok", "io_fp_ok", "io_fp_ok2", "io_need_mutex", "io_color", "io_level", "io_offset",
             "io_max_bytes", "io_rot_ret", "io_detect_ret", "io_ret", "io_fmt_size", "io_buf_cap", "io_wr_cnt", "io_wr_n",
             "io_rot_n", "io_rot_at", "io_detect_n"]
HW_KEYS = {"f_buf": "io_buf", "f_fret": "io_fret", "f_handler_fmt_ok": "io_fmt_ok", "f_handler_fp_ok": "io_fp_ok",
           "f_handler_fp_g1_ok": "io_fp_ok2", "f_handler_need_mutex": "io_need_mutex", "f_handler_enable_color": "io_color",
           "f_msg_level": "io_level", "f_handler_offset": "io_offset", "f_handler_max_bytes": "io_max_bytes",
           "f_rot_ret": "io_rot_ret", "f_detect_ret": "io_detect_ret", "f_fmt_size": "io_fmt_size", "f_buf_cap": "io_buf_cap",
           "f_wr_cnt": "io_wr_cnt", "f_wr_n": "io_wr_n", "f_rot_n": "io_rot_n", "f_rot_at": "io_rot_at", "f_detect_n": "io_detect_n"}
LG_FIELDS = ["lo_cnt", "lo_levels", "lo_fmt_hint", "lo_level", "lo_alloc1_ok", "lo_alloc2_ok", "lo_chan_ret", "lo_msg_level",
             "lo_pay_size", "lo_pay_cap", "lo_written", "lo_queued", "lo_sentinel", "lo_freed", "lo_overrun", "lo_wr_n",
             "lo_wr_order"]
LG_KEYS = {"f_logger_cnt": "lo_cnt", "f_hl_level": "lo_levels", "f_logger_fmt_hint": "lo_fmt_hint", "f_alloc1_ok": "lo_alloc1_ok",
           "f_alloc2_ok": "lo_alloc2_ok", "f_chan_ret": "lo_chan_ret", "f_msg_level": "lo_msg_level", "f_pay_size": "lo_pay_size",
           "f_pay_cap": "lo_pay_cap", "f_written": "lo_written", "f_queued": "lo_queued", "f_sentinel": "lo_sentinel",
           "f_freed": "lo_freed", "f_overrun": "lo_overrun", "f_wr_n": "lo_wr_n", "f_wr_order": "lo_wr_order"}

HANDLERS = [("file", LOGDIR + "log_file_handler.c", "muggle_log_file_handler_write"),
            ("console", LOGDIR + "log_console_handler.c", "muggle_log_console_handler_write"),
            ("rotate", LOGDIR + "log_file_rotate_handler.c", "muggle_log_file_rotate_handler_write"),
            ("time_rot", LOGDIR + "log_file_time_rot_handler.c", "muggle_log_file_time_rot_handler_write")]
OPAQUE_RE = [(r"_rotate$", {"tag": "rot", "havoc": ["fp", "offset"], "at": True}),
             (r"_detect$", {"tag": "detect", "havoc": []})]

FE = {"f_msg_level": "fe_level e", "f_msg_src_loc_line": "fe_line e", "f_msg_tid": "fe_tid e", "f_msg_ts_tv_sec": "fe_sec e",
      "f_msg_ts_tv_nsec": "fe_nsec e", "f_tm_tm_year": "tm_year t", "f_tm_tm_mon": "tm_mon t", "f_tm_tm_mday": "tm_mday t",
      "f_tm_tm_hour": "tm_hour t", "f_tm_tm_min": "tm_min t", "f_tm_tm_sec": "tm_sec t"}


def wrapper(gname, raw, fields, params, written, ret_kind, rec, rec_fields, keymap, param_projs, ret_proj):
    """the raw function applied to the projections of the model's state record, its results put back by name:
    the Coq statements do not depend on which fields the C text happens to touch"""
    args = []
    for key, _arr in fields:
        if key not in keymap:
            raise LeafError("the function uses %s, which the model's state record %s does not have" % (key[2:], rec))
        args.append("(%s s)" % keymap[key])
    for i, p in enumerate(params):
        if i >= len(param_projs):
            raise LeafError("unexpected scalar parameter " + p)
        args.append("(%s s)" % param_projs[i])
    outs, val = [], {}
    if ret_kind:
        outs.append("r_")
        if ret_proj:
            val[ret_proj] = "r_" if ret_kind == "Z" else "(b2z r_)"
    for k in written:
        if k not in keymap:
            raise LeafError("the function writes %s, which the model's state record %s does not have" % (k[2:], rec))
        outs.append("w_" + k)
        val[keymap[k]] = "w_" + k
    body = "{| " + ";\n     ".join("%s := %s" % (f, val.get(f, "%s s" % f)) for f in rec_fields) + " |}"
    call = ("%s %s" % (raw, " ".join(args))).strip()
    if not outs:
        head = "let _ := %s in" % call
    elif len(outs) == 1:
        head = "let %s := %s in" % (outs[0], call)
    else:
        head = "let '(%s) := %s in" % (", ".join(outs), call)
    return "Definition %s (s : %s) : %s :=\n  %s\n  %s.\n" % (gname, rec, rec, head, body)


def slice_handler(loader, kind, rel, fname):
    cfg = {"unroll": None, "drop": DROP, "files": [rel, HANDLER_C], "opaque_re": OPAQUE_RE}
    s = Slicer(loader, cfg)
    fn = s.slice(fname, [rel])
    raw = "gen_%s_write_raw" % kind
    text, fields, params, written, rk = translate_node(fn, raw)
    if "f_fret" not in [k for k, _ in fields]:
        raise LeafError("the write function never calls the handler's formatter")
    return text + wrapper("gen_%s_write" % kind, raw, fields, params, written, rk, "hwio", HW_FIELDS, HW_KEYS, [], "io_ret")


def slice_logger(loader, gname, rel, fname, maxh, log_fn):
    cfg = {"unroll": maxh, "drop": DROP, "files": [rel, HANDLER_C], "keep": {"msg": {"level"}}}
    if log_fn:
        cfg.update({"events": {"muggle_logger_write": "written"}, "channel": True,
                    "values": {"muggle_thread_current_readable_id": "tid_now"}})
    s = Slicer(loader, cfg)
    fn = s.slice(fname, [rel])
    raw = gname + "_raw"
    text, fields, params, written, rk = translate_node(fn, raw)
    return text + wrapper(gname, raw, fields, params, written, rk, "lgio", LG_FIELDS, LG_KEYS, ["lo_level"], None)


def slice_should_write(loader):
    text, fields, params, written, rk = L.translate(loader.path(HANDLER_C), "muggle_log_handler_should_write", loader.cflags,
                                                     gname="gen_should_write_raw")
    if len(fields) != 1 or fields[0][1] or len(params) != 1 or written or rk != "B":
        raise LeafError("muggle_log_handler_should_write is not a predicate of one handler field and the level")
    return text + "Definition gen_should_write (hl lv : Z) : bool := gen_should_write_raw hl lv.\n"


def slice_level_names(loader):
    s = Slicer(loader, {"unroll": None, "drop": set(), "files": [LOGDIR + "log_level.c"]})
    fn = s.slice("muggle_log_level_to_str", [LOGDIR + "log_level.c"])
    text, fields, params, written, rk = translate_node(fn, "gen_level_index")
    if fields or written or len(params) != 1:
        raise LeafError("muggle_log_level_to_str is not a function of the level alone")
    tab, unk = s.notes.get("table"), s.notes.get("other_str")
    if tab is None or unk is None:
        raise LeafError("muggle_log_level_to_str: no table lookup / no name for levels outside the table")
    names = s.notes["strtab"][tab]
    return (text + "Definition code_level_names : list (list byte) := [%s].\n" % "; ".join(coq_bytes(b) for b in names) +
            "Definition code_level_unknown : list byte := %s.\n" % coq_bytes(unk))


def slice_formatter(loader, fname, gname, rel=LOGDIR + "log_fmt.c"):
    cfg = {"unroll": None, "drop": set(), "files": [rel], "layout": True, "subst": True,
           "nonnull": {"msg_payload"}}
    s = Slicer(loader, cfg)
    fn = s.slice(fname, [rel])
    lays = s.notes.get("layouts", [])
    if not lays:
        raise LeafError("no snprintf call reached")

    def canon(items):
        return json.dumps([list(it[:-1]) + [it[-1]] if it[0] == "num" else [it[0], it[1].hex() if isinstance(it[1], bytes) else it[1]]
                           for it in items], sort_keys=True)
    if any(canon(x) != canon(lays[0]) for x in lays[1:]):
        raise LeafError("the layout differs between paths")
    fake = {"kind": "FunctionDecl", "inner": [{"kind": "ParmVarDecl", "name": STATE, "type": {"qualType": STATE_T}}]}
    out = []
    for it in lays[0]:
        if it[0] == "lit":
            out.append("FLit %s" % coq_bytes(it[1]))
        elif it[0] == "str":
            out.append("FStr %s" % it[1])
        else:
            _k, w, sgn, bits, node = it
            t = L.Tr(fake, None, ())
            txt = t.z(node, {})
            lets = ""
            for key, arr in sorted(t.fields):
                if key not in FE or arr:
                    raise LeafError("a conversion argument uses %s, which the model's message does not have" % key[2:])
                if key.startswith("f_tm_") and not s.notes.get("tm_ok"):
                    raise LeafError("struct tm read without gmtime_r")
                lets += "let %s := %s in " % (key, FE[key])
            out.append("FNum %d%%nat %s %d (fun (e : fenv) (t : tmz) => %s%s)" % (w, "true" if sgn else "false", bits, lets, txt))
    text = "Definition %s : list fitem :=\n  [%s].\n" % (gname, ";\n   ".join(out))
    rtext, fields, params, written, rk = translate_node(fn, gname + "_ret_raw")
    if written or rk != "Z":
        raise LeafError("the formatter does not return an integer")
    args = ["snp" if k == "f_snp" else "other" for k, _a in fields] + ["other" for _p in params]
    if "snp" not in args:
        raise LeafError("the formatter does not return what snprintf returned")
    text += rtext + "Definition %s_ret (snp other : Z) : Z := %s_ret_raw %s.\n" % (gname, gname, " ".join(args))
    return text


def generate(repo, cflags, maxh, cache_dir=None, cc="gcc"):
    """-> Gallina text (appended to coq/gen/Params_C16.v).  A target that cannot be sliced leaves a comment
    instead of its definition: the gen_*_matches_model obligation that names it then fails."""
    ld = Loader(repo, cflags, cache_dir, cc)
    out = []

    def target(title, thunk):
        try:
            out.append("(* %s *)\n%s" % (title, thunk()))
        except LeafError as e:
            out.append("(* slicer / translator error for %s: %s *)\n" % (title, str(e).replace("*)", "* )").replace("(*", "( *")))
        except Exception as e:      # a broken AST must break the obligation, not the machinery
            out.append("(* slicer failure for %s: %s: %s *)\n" % (title, type(e).__name__,
                                                                str(e)[:300].replace("*)", "* )").replace("(*", "( *")))
    target("muggle_log_handler_should_write (log_handler.c)", lambda: slice_should_write(ld))
    target("muggle_log_level_to_str (log_level.c)", lambda: slice_level_names(ld))
    target("muggle_log_fmt_simple (log_fmt.c)", lambda: slice_formatter(ld, "muggle_log_fmt_simple", "gen_fmt_simple"))
    target("muggle_log_fmt_complicated (log_fmt.c)", lambda: slice_formatter(ld, "muggle_log_fmt_complicated", "gen_fmt_complicated"))
    target("muggle_log_simple_init_fmt (log.c)",
           lambda: slice_formatter(ld, "muggle_log_simple_init_fmt", "gen_fmt_init_simple", LOGDIR + "log.c"))
    target("muggle_log_complicated_init_fmt (log.c)",
           lambda: slice_formatter(ld, "muggle_log_complicated_init_fmt", "gen_fmt_init_complicated", LOGDIR + "log.c"))
    for kind, rel, fname in HANDLERS:
        target("%s (%s)" % (fname, os.path.basename(rel)), lambda kind=kind, rel=rel, fname=fname: slice_handler(ld, kind, rel, fname))
    # muggle_logger_write (the dispatch loop) is not sliced: every handler either writes or not and the loop goes on,
    # so the loop-free form has 2^MUGGLE_LOGGER_MAX_HANDLER paths; it stays with the differential run
    target("muggle_sync_logger_log (log_sync_logger.c)",
           lambda: slice_logger(ld, "gen_sync_log", LOGDIR + "log_sync_logger.c", "muggle_sync_logger_log", maxh, True))
    target("muggle_async_logger_log (log_async_logger.c)",
           lambda: slice_logger(ld, "gen_async_log", LOGDIR + "log_async_logger.c", "muggle_async_logger_log", maxh, True))
    return "\n".join(out)

