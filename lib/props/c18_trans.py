"""C18 translator: C function (clang JSON AST) -> resource-protocol program (Gallina term of coq/C18/Model.v).

For an init / grow / destroy function the translator keeps only the resource-relevant skeleton:
  * acquisitions   p = malloc/calloc/aligned_alloc/eventfd/epoll_create/socket/fopen(...)   -> Alloc r
  * releases       free/close/fclose(p)                                                     -> Free r
  * p = NULL / fd = -1 on an owned field, memset(obj, 0, ..)                                -> SetNull r
  * p = q  (ownership handed from a local to a field)                                       -> Move p q
  * tests of those pointers  (== NULL, != NULL, !p, p, ||, &&)                               -> IfNull / IfSet
  * calls of functions that (transitively) acquire or release, with the test of the result -> Call body asg onfail
    (the callee is translated in place, its object parameter bound to the caller's access path)
  * goto label                                                                              -> the label's block expanded
  * switch / if on scalars decided from the scenario's argument values                      -> the taken branch
  * return                                                                                  -> Ret (class of the value)
Everything else (plain stores, arithmetic, loops without resource statements) is dropped.  Calls of functions
that make no acquisition (mutex / condvar init, memset, ...) are assumed to succeed.  Anything the translator
cannot classify raises TransError: the plugin turns that into a broken proof obligation, never a silent skip.
"""
import hashlib
import json
import os
import re
import subprocess


class TransError(Exception):
    pass


ACQUIRE = {"malloc", "calloc", "aligned_alloc", "eventfd", "epoll_create", "epoll_create1", "socket", "fopen",
           # returns fopen(..) as its last action, NULL before any acquisition (os/os.c)
           "muggle_os_fopen"}
RELEASE = {"free", "close", "fclose", "closesocket", "muggle_ev_fd_close", "muggle_socket_close"}
# libc / pthread calls without a body in the repository: no acquisition in the property's fault class
EXTERNAL_NEUTRAL = {"memset", "memcpy", "memmove", "strncpy", "strlen", "snprintf", "fprintf", "fseek", "ftell",
                    "pthread_mutex_init", "pthread_mutex_destroy", "pthread_cond_init", "pthread_cond_destroy",
                    "pthread_self", "sched_yield", "clock_gettime", "FD_ZERO", "FD_SET", "abort", "assert"}


def _strip(n):
    while n.get("kind") in ("ImplicitCastExpr", "ParenExpr", "CStyleCastExpr", "ConstantExpr") and \
            not (n.get("kind") == "ConstantExpr" and "value" in n):
        n = n["inner"][0]
    return n


class AstLoader:
    """clang AST of one function, cached on disk by source text + header hash."""

    def __init__(self, repo, cflags, cache_dir, hdr_hash):
        self.repo, self.cflags, self.cache_dir, self.hh = repo, list(cflags), cache_dir, hdr_hash
        os.makedirs(cache_dir, exist_ok=True)
        self.index = None
        self.mem = {}

    def _build_index(self):
        self.index = {}
        for dp, dn, fn in sorted(os.walk(os.path.join(self.repo, "muggle/c"))):
            dn.sort()
            for f in sorted(fn):
                if not f.endswith(".c"):
                    continue
                p = os.path.join(dp, f)
                txt = open(p, errors="replace").read()
                for m in re.finditer(r"(?m)^[A-Za-z_][^;{}()=\n]*?\b([A-Za-z_]\w*)\s*\([^;{}]*\)\s*\{", txt):
                    self.index.setdefault(m.group(1), [])
                    if p not in self.index[m.group(1)]:
                        self.index[m.group(1)].append(p)

    def find(self, name):
        if self.index is None:
            self._build_index()
        return self.index.get(name, [])

    def load(self, name, src=None):
        key = (name, src)
        if key in self.mem:
            return self.mem[key]
        cands = [src] if src else self.find(name)
        res = None
        for path in cands:
            if not os.path.exists(path):
                continue
            h = hashlib.sha256((open(path, "rb").read().decode("utf-8", "replace") + self.hh + name +
                                " ".join(self.cflags)).encode()).hexdigest()
            cf = os.path.join(self.cache_dir, h + ".json")
            if os.path.exists(cf):
                obj = json.load(open(cf))
            else:
                obj = self._clang(path, name)
                with open(cf + ".tmp%d" % os.getpid(), "w") as f:
                    json.dump(obj, f)
                os.replace(cf + ".tmp%d" % os.getpid(), cf)
            if obj:
                res = obj
                break
        self.mem[key] = res
        return res

    def _clang(self, path, name):
        cmd = ["clang", "-fsyntax-only", "-w"] + self.cflags + ["-Xclang", "-ast-dump=json", "-Xclang",
                                                                 "-ast-dump-filter=" + name, path]
        p = subprocess.run(cmd, stdout=subprocess.PIPE, stderr=subprocess.PIPE, text=True, timeout=180)
        txt, dec, i, found = p.stdout, json.JSONDecoder(), 0, None
        while i < len(txt):
            while i < len(txt) and txt[i].isspace():
                i += 1
            if i >= len(txt):
                break
            obj, i = dec.raw_decode(txt, i)
            if obj.get("kind") == "FunctionDecl" and obj.get("name") == name and \
                    any(c.get("kind") == "CompoundStmt" for c in obj.get("inner", [])):
                found = obj
        return found

    def enum_value(self, name):
        cf = os.path.join(self.cache_dir, "enum_" + hashlib.sha256((name + self.hh).encode()).hexdigest() + ".txt")
        if os.path.exists(cf):
            t = open(cf).read().strip()
            return int(t) if t else None
        src = cf + ".c"
        open(src, "w").write('#include <stdio.h>\n#include "muggle/c/muggle_c.h"\nint main(void){printf("%%lld\\n",(long long)(%s));return 0;}\n' % name)
        exe = cf + ".exe"
        p = subprocess.run(["gcc", "-w"] + [f for f in self.cflags if f.startswith(("-I", "-D", "-std"))] +
                           [src, "-o", exe], stdout=subprocess.PIPE, stderr=subprocess.PIPE, text=True, timeout=120)
        val = None
        if p.returncode == 0:
            q = subprocess.run([exe], stdout=subprocess.PIPE, text=True, timeout=20)
            try:
                val = int(q.stdout.strip())
            except ValueError:
                val = None
        for f in (src, exe):
            try:
                os.remove(f)
            except OSError:
                pass
        open(cf, "w").write("" if val is None else str(val))
        return val


# ---------------------------------------------------------------------------------------------
# abstract values
NULLV = ("null",)
UNK = ("unk",)
OKCALL = ("okcall",)      # result of a call that makes no acquisition: assumed success


class Scenario:
    """resource numbering shared by the functions of one scenario (pre / op / destroy on the same object)."""

    def __init__(self, loader, neutral=(), hints=None):
        self.loader = loader
        self.ids = {}                 # path -> id
        self.neutral = set(neutral)   # callees assumed to have no resource effect in this scenario (justified by caller)
        self.hints = hints or {}      # condition source text -> bool   (scalar conditions the arguments do not decide)
        self.notes = []
        self.rel_memo = {}
        self.collect = True
        self.pending = set()          # pointer members tested against NULL before their acquisition was seen

    def rid(self, path):
        if path not in self.ids:
            if not self.collect:
                raise TransError("resource path %r appears only in the second pass" % (path,))
            self.ids[path] = len(self.ids)
        return self.ids[path]

    def known(self, path):
        return path in self.ids

    # does a function (transitively) acquire or release?
    def relevant(self, name, stack=()):
        if name in ACQUIRE or name in RELEASE:
            return True
        if name in self.neutral or name in EXTERNAL_NEUTRAL:
            return False
        if name in self.rel_memo:
            return self.rel_memo[name]
        if name in stack:
            return False
        fn = self.loader.load(name)
        if fn is None:
            self.rel_memo[name] = None      # no body in the repository
            return None
        res = False
        for callee in _callees(fn):
            r = self.relevant(callee, stack + (name,))
            if r:
                res = True
                break
        self.rel_memo[name] = res
        return res


def _callees(node, acc=None):
    acc = [] if acc is None else acc
    if isinstance(node, dict):
        if node.get("kind") == "CallExpr":
            f = _strip(node["inner"][0])
            if f.get("kind") == "DeclRefExpr":
                acc.append(f["referencedDecl"]["name"])
            else:
                acc.append("<indirect>")
        for c in node.get("inner", []) or []:
            _callees(c, acc)
    return acc


def _ret_kind(fn):
    t = fn["type"]["qualType"].split("(")[0].strip()
    if t == "void":
        return "void"
    if t in ("bool", "_Bool"):
        return "bool"
    if t.endswith("*"):
        return "ptr"
    return "int"


class FnTr:
    def __init__(self, sc, fn, binds, depth=0, ret_slot=None):
        self.sc, self.fn, self.depth = sc, fn, depth
        self.kind = _ret_kind(fn)
        self.env = dict(binds)          # var name -> abstract value: ("obj", path) | ("int", n) | UNK | ("resvar", path) ...
        self.body = [c for c in fn["inner"] if c.get("kind") == "CompoundStmt"][0]
        self.retvars = set()
        self._find_retvars(self.body)
        # ownership through the return value: the caller says where the returned pointer goes (ret_slot); the
        # local that the function returns IS that destination from its declaration on
        self.ret_slot = ret_slot
        self.alias = {}
        if ret_slot is not None and self.kind == "ptr":
            ptr_locals = [v for v in sorted(self.retvars) if self._local_is_pointer(v)]
            if len(ptr_locals) == 1:
                self.alias[ptr_locals[0]] = ret_slot
        # a pointer local that is later stored into a field (`T *p = malloc(..); ...; obj->f = p;`) is that field
        # from its declaration on, provided the field is not mentioned before the store
        self._prescan_alias()
        self.labels = {}
        top = self.body.get("inner", [])
        for i, s in enumerate(top):
            if s.get("kind") == "LabelStmt":
                self.labels[s["name"]] = i
        if depth > 8:
            raise TransError("call nesting too deep at %s" % fn["name"])

    def _find_retvars(self, n):
        if isinstance(n, dict):
            if n.get("kind") == "ReturnStmt" and n.get("inner"):
                e = _strip(n["inner"][0])
                if e.get("kind") == "DeclRefExpr" and e["referencedDecl"].get("kind") == "VarDecl":
                    self.retvars.add(e["referencedDecl"]["name"])
            for c in n.get("inner", []) or []:
                self._find_retvars(c)

    def _local_is_pointer(self, name):
        found = []

        def walk(n):
            if isinstance(n, dict):
                if n.get("kind") == "VarDecl" and n.get("name") == name:
                    found.append(n["type"]["qualType"].rstrip().endswith("*"))
                for c in n.get("inner", []) or []:
                    walk(c)
        walk(self.body)
        return bool(found) and all(found)

    def _prescan_alias(self):
        seen = []           # member paths mentioned so far, in source order
        locals_ = set()
        # member paths that this function overwrites with a local pointer (`obj->f = p;`): a local that was
        # initialised from such a field BEFORE the store (`T *old = obj->f; obj->f = p; free(old);`) takes the old
        # block over instead of being another name of the field
        self.reassigned = set()

        def collect_locals(n):
            if isinstance(n, dict):
                if n.get("kind") == "VarDecl" and n["type"]["qualType"].rstrip().endswith("*") \
                        and "(*)" not in n["type"]["qualType"]:
                    locals_.add(n["name"])
                for c in n.get("inner", []) or []:
                    collect_locals(c)
        collect_locals(self.body)

        saved_env = dict(self.env)

        def walk(n):
            if not isinstance(n, dict):
                return
            if n.get("kind") == "VarDecl" and n["type"]["qualType"].rstrip().endswith("*") and n.get("inner"):
                # a local that is just another name of (part of) the object - `T *impl = (T *)obj;`,
                # `T *list = obj->list;` - must resolve in the stores that follow (bound for this prescan only)
                init = [c for c in n["inner"] if "kind" in c and c["kind"] not in ("FullComment",) and not c["kind"].endswith("Attr")]
                if init and n.get("name") not in self.env:
                    e = _strip(init[-1])
                    if e.get("kind") in ("DeclRefExpr", "MemberExpr", "UnaryOperator", "ArraySubscriptExpr"):
                        pth0 = self.path_of(e)
                        if pth0 is not None:
                            self.env[n["name"]] = ("obj", pth0)
            if n.get("kind") == "BinaryOperator" and n.get("opcode") == "=":
                l, r = _strip(n["inner"][0]), _strip(n["inner"][1])
                if r.get("kind") == "DeclRefExpr" and r["referencedDecl"].get("kind") == "VarDecl" \
                        and r["referencedDecl"]["name"] in locals_ and l.get("kind") in ("MemberExpr", "ArraySubscriptExpr"):
                    pth = self.path_of(l)
                    nm = r["referencedDecl"]["name"]
                    if pth is not None:
                        self.reassigned.add(pth)
                    if pth is not None and "[?]" not in pth and pth not in seen and nm not in self.alias:
                        self.alias[nm] = pth
                    walk(n["inner"][1])
                    if pth is not None:
                        seen.append(pth)
                    return
            if n.get("kind") == "MemberExpr":
                pth = self.path_of(n)
                if pth is not None:
                    seen.append(pth)
            for c in n.get("inner", []) or []:
                walk(c)
        walk(self.body)
        self.env = saved_env

    def local_path(self, name):
        return self.alias.get(name, ("$" + self.fn["name"], name))

    def err(self, msg, n=None):
        loc = ""
        if n is not None:
            r = n.get("range", {}).get("begin", {})
            loc = " (line %s)" % (r.get("line") or r.get("expansionLoc", {}).get("line") or "?")
        raise TransError("%s: %s%s" % (self.fn["name"], msg, loc))

    # ---------------------------------------------------------------- paths
    def path_of(self, n):
        """access path of an l-value / pointer expression, or None."""
        n = _strip(n)
        k = n.get("kind")
        if k == "DeclRefExpr":
            v = self.env.get(n["referencedDecl"]["name"])
            if v and v[0] in ("obj", "resvar"):
                return v[1]
            return None
        if k == "MemberExpr":
            b = self.path_of(n["inner"][0])
            return None if b is None else b + (n["name"],)
        if k == "ArraySubscriptExpr":
            b = self.path_of(n["inner"][0])
            i = self.ival(n["inner"][1])
            if b is None:
                return None
            if i is None:
                return b + ("[?]",)
            return b + ("[%d]" % i,)
        if k == "UnaryOperator" and n.get("opcode") == "&":
            return self.path_of(n["inner"][0])
        if k == "UnaryOperator" and n.get("opcode") == "*":
            i = _strip(n["inner"][0])
            b = self.path_of(i)
            if b is None:
                return None
            if i.get("kind") == "DeclRefExpr" and self.env.get(i["referencedDecl"]["name"], ("",))[0] == "obj":
                return b                     # *object_pointer: the object
            return b + ("[0]",)              # *p for an owned pointer p: what it points to, not p itself
        return None

    # ---------------------------------------------------------------- integers
    def ival(self, n):
        n = _strip(n)
        k = n.get("kind")
        if k == "ConstantExpr" and "value" in n:
            try:
                return int(n["value"])
            except ValueError:
                return None
        if k == "IntegerLiteral":
            return int(n["value"])
        if k == "CharacterLiteral":
            return int(n["value"])
        if k == "CXXBoolLiteralExpr":
            return 1 if n["value"] else 0
        if k == "DeclRefExpr":
            d = n["referencedDecl"]
            if d.get("kind") == "EnumConstantDecl":
                return self.sc.loader.enum_value(d["name"])
            v = self.env.get(d["name"])
            if v and v[0] == "int":
                return v[1]
            return None
        if k == "UnaryOperator":
            a = self.ival(n["inner"][0])
            if a is None:
                return None
            return {"-": -a, "+": a, "!": int(not a), "~": ~a}.get(n["opcode"])
        if k == "BinaryOperator":
            op = n["opcode"]
            a, b = self.ival(n["inner"][0]), self.ival(n["inner"][1])
            if op == "&&":
                if a == 0 or b == 0:
                    return 0
                return None if a is None or b is None else 1
            if op == "||":
                if (a is not None and a != 0) or (b is not None and b != 0):
                    return 1
                return None if a is None or b is None else 0
            if a is None or b is None:
                return None
            try:
                return {"+": a + b, "-": a - b, "*": a * b, "&": a & b, "|": a | b, "^": a ^ b,
                        "<<": a << b if 0 <= b < 64 else None, ">>": a >> b if 0 <= b < 64 else None,
                        "==": int(a == b), "!=": int(a != b), "<": int(a < b), "<=": int(a <= b),
                        ">": int(a > b), ">=": int(a >= b),
                        "/": (a // b if b else None), "%": (a % b if b else None)}.get(op)
            except Exception:
                return None
        if k == "ConditionalOperator":
            c = self.ival(n["inner"][0])
            if c is None:
                # a scalar condition the arguments do not decide: the scenario's hint for that condition applies to
                # `c ? a : b` exactly as it applies to `if (c)`
                key = self.text_key(n["inner"][0])
                if key in self.sc.hints:
                    c = 1 if self.sc.hints[key] else 0
                    self.sc.notes.append("%s: condition `%s` taken as %s (scenario hint)" % (self.fn["name"], key, self.sc.hints[key]))
                else:
                    return None
            return self.ival(n["inner"][1 if c else 2])
        return None

    # ---------------------------------------------------------------- calls
    def call_name(self, n):
        n = _strip(n)
        if n.get("kind") != "CallExpr":
            return None
        f = _strip(n["inner"][0])
        if f.get("kind") == "DeclRefExpr":
            return f["referencedDecl"]["name"]
        return "<indirect>"

    def is_acquire(self, n):
        return self.call_name(n) in ACQUIRE

    def inline(self, n, ret_slot=None):
        """translate a resource-relevant callee in place; returns (stmts, callee return kind).
        ret_slot: where the caller puts the returned (owned) pointer."""
        n = _strip(n)
        name = self.call_name(n)
        fn = self.sc.loader.load(name)
        if fn is None:
            self.err("call of %s: no body found" % name, n)
        params = [c for c in fn.get("inner", []) if c.get("kind") == "ParmVarDecl"]
        args = n["inner"][1:]
        binds = {}
        for p, a in zip(params, args):
            if "name" not in p:
                continue
            path = self.path_of(a)
            if path is not None:
                binds[p["name"]] = ("obj", path)
            else:
                v = self.ival(a)
                binds[p["name"]] = ("int", v) if v is not None else UNK
        t = FnTr(self.sc, fn, binds, self.depth + 1, ret_slot)
        return t.run(), t.kind

    # ---------------------------------------------------------------- conditions
    def cond(self, n):
        """-> ("const", bool) | ("null", [ids]) (true iff some is NULL) | ("set", [ids]) (true iff all non-NULL)
              | ("callfail", call node, sense)  sense True: condition true == callee FAILED
              | ("retfail", var, sense) | ("unk",)"""
        n = _strip(n)
        k = n.get("kind")
        v = self.ival(n)
        if v is not None:
            return ("const", bool(v))
        if k == "UnaryOperator" and n.get("opcode") == "!":
            return self.neg(self.cond(n["inner"][0]))
        if k == "BinaryOperator" and n["opcode"] in ("==", "!="):
            a, b = _strip(n["inner"][0]), _strip(n["inner"][1])
            eq = n["opcode"] == "=="
            for x, y in ((a, b), (b, a)):
                yv = self.ival(y)
                pth = self.path_of(x)
                # pointer / fd against NULL, 0, -1, INVALID
                if pth is not None and self.is_nullish(y) and self.res_test(pth, x, yv):
                    c = ("null", [self.sc.rid(pth)])
                    return c if eq else self.neg(c)
                cn = self.call_name(x)
                if cn and cn not in ACQUIRE and yv is not None:
                    c = self.call_cond(x, yv)
                    if c:
                        return c if eq else self.neg(c)
                if x.get("kind") == "DeclRefExpr" and yv is not None:
                    c = self.var_cond(x["referencedDecl"]["name"], yv)
                    if c:
                        return c if eq else self.neg(c)
            return UNK
        if k == "BinaryOperator" and n["opcode"] in ("||", "&&"):
            a, b = self.cond(n["inner"][0]), self.cond(n["inner"][1])
            if n["opcode"] == "||":
                if a[0] == "null" and b[0] == "null":
                    return ("null", a[1] + b[1])
                if a == ("const", False):
                    return b
                if b == ("const", False):
                    return a
            else:
                if a[0] == "set" and b[0] == "set":
                    return ("set", a[1] + b[1])
                if a == ("const", True):
                    return b
                if b == ("const", True):
                    return a
            return UNK
        pth = self.path_of(n)
        if pth is not None and self.res_test(pth, n):
            return ("set", [self.sc.rid(pth)])
        if pth is not None and self.is_object(n):
            return ("const", True)          # the object pointer itself is valid
        cn = self.call_name(n)
        if cn and cn not in ACQUIRE:
            c = self.call_cond(n, None)
            if c:
                return c
        if k == "DeclRefExpr":
            c = self.var_cond(n["referencedDecl"]["name"], None)
            if c:
                return c
        return UNK

    def is_object(self, n):
        n = _strip(n)
        return n.get("kind") == "DeclRefExpr" and self.env.get(n["referencedDecl"]["name"], ("",))[0] == "obj"

    def res_test(self, pth, n, cmpv=None):
        """is the tested l-value an owned pointer / descriptor?  Known paths are; while the owned paths are still
        being collected (a cleanup block can be translated before the acquisition that it undoes), a data-pointer
        member of the object that is tested against NULL is registered as owned."""
        if self.sc.known(pth):
            return True
        n = _strip(n)
        q = n.get("type", {}).get("qualType", "")
        is_ptr = q.rstrip().endswith("*") and "(*)" not in q
        is_fd = cmpv == -1 and q.strip() in ("int", "muggle_event_fd", "muggle_socket_t")   # descriptor against -1 / INVALID
        # the tested l-value names a member of the object: written as obj->f, obj->a[i], or as *out where the helper's
        # parameter `out` is bound to &obj->f (a helper that hands an owned pointer back through an out-parameter)
        names_member = n.get("kind") in ("MemberExpr", "ArraySubscriptExpr") or \
            (n.get("kind") == "UnaryOperator" and n.get("opcode") == "*" and self.is_object(n["inner"][0]))
        if self.sc.collect and names_member and (is_ptr or is_fd) and len(pth) >= 2:
            self.sc.pending.add(pth)
        return False

    def is_nullish(self, y):
        y = _strip(y)
        if y.get("kind") == "GNUNullExpr":
            return True
        v = self.ival(y)
        return v in (0, -1)

    def neg(self, c):
        if c[0] == "const":
            return ("const", not c[1])
        if c[0] == "null":                 # "some pointer is NULL"  <->  "all are non-NULL"
            return ("set", c[1])
        if c[0] == "set":
            return ("null", c[1])
        if c[0] in ("callfail", "retfail"):
            return (c[0], c[1], not c[2])
        return UNK

    def succ_is_zero(self, kind):
        return kind == "int"

    def call_cond(self, call, cmpv):
        """truth of `call == cmpv` (cmpv None: truth of `call`) in terms of the callee failing."""
        name = self.call_name(call)
        rel = self.sc.relevant(name)
        fn = self.sc.loader.load(name)
        kind = _ret_kind(fn) if fn else None
        if kind is None or kind == "void":
            return None
        # value meaning success: int -> 0 ; bool -> non-zero ; ptr -> non-NULL
        if cmpv is None:
            true_means_fail = (kind == "int")         # `if (f())` : non-zero
        else:
            if kind == "int":
                true_means_fail = (cmpv != 0)
            else:
                true_means_fail = (cmpv == 0)
        if rel:
            return ("callfail", call, true_means_fail)
        # no acquisition inside: assumed to succeed
        return ("const", not true_means_fail)

    def var_cond(self, var, cmpv):
        v = self.env.get(var)
        if not v:
            return None
        if v[0] == "callres":            # value of a resource-relevant call, kind in v[2]
            kind = v[2]
            tf = (kind == "int") if cmpv is None else ((cmpv != 0) if kind == "int" else (cmpv == 0))
            return ("retfail", var, tf)
        if v == OKCALL or v[0] == "okcall":
            kind = v[1] if len(v) > 1 else "int"
            tf = (kind == "int") if cmpv is None else ((cmpv != 0) if kind == "int" else (cmpv == 0))
            return ("const", not tf)
        return None

    # ---------------------------------------------------------------- statements
    def run(self):
        out, _ = self.block(self.body.get("inner", []), 0)
        return out

    def has_res(self, n):
        """does the sub-tree contain a resource-relevant statement (acquire/release/relevant call/NULL store)?"""
        if not isinstance(n, dict):
            return False
        k = n.get("kind")
        if k == "CallExpr":
            nm = self.call_name(n)
            if nm in ACQUIRE or nm in RELEASE:
                return True
            if nm == "<indirect>":
                return False
            if nm == "memset":
                p = self.path_of(n["inner"][1])
                if p is not None and any(q[:len(p)] == p for q in self.sc.ids):
                    return True
            if self.sc.relevant(nm):
                return True
        if k == "BinaryOperator" and n.get("opcode") == "=":
            p = self.path_of(n["inner"][0])
            if p is not None and self.sc.known(p):
                return True
        if k == "GotoStmt":
            return True
        for c in n.get("inner", []) or []:
            if self.has_res(c):
                return True
        return False

    def only_returns(self, n):
        """sub-tree has no resource statement (it may return)."""
        return not self.has_res(n)

    def block(self, stmts, start):
        out = []
        i = start
        while i < len(stmts):
            s = stmts[i]
            nxt = stmts[i + 1] if i + 1 < len(stmts) else None
            if s.get("kind") == "IfStmt" and len(s["inner"]) == 2:
                c = self.cond(s["inner"][0])
                if c[0] == "callfail" and not c[2]:
                    # if (call_succeeded) { A }  REST   ==   call; on failure: REST (must return); on success: A; REST
                    body, _ = self.inline(c[1])
                    envs = dict(self.env)
                    h, hr = self.block(stmts, i + 1)
                    if not hr:
                        self.err("success test of a call: the statements after it must end in a return on the failure path", s)
                    self.env = dict(envs)
                    a, ar, _ = self.stmt(s["inner"][1])
                    out += [("Call", body, False, h)] + a
                    if ar:
                        return out, True
                    i += 1
                    continue
            o, ret, skip = self.stmt(s, nxt)
            out += o
            if ret:
                return out, True
            i += 1 + skip
        return out, False

    def stmt(self, s, nxt=None):
        """-> (protocol stmts, definitely returns, number of following statements consumed)"""
        k = s.get("kind")
        if k in ("NullStmt", "BreakStmt", "ContinueStmt"):
            return [], False, 0
        if k == "CompoundStmt":
            o, r = self.block(s.get("inner", []), 0)
            return o, r, 0
        if k == "LabelStmt":
            return self.stmt(s["inner"][0], nxt)
        if k == "GotoStmt":
            # clang gives the label declaration id; match through the LabelStmt's declId
            tgt = s.get("targetLabelDeclId")
            top = self.body.get("inner", [])
            for idx, t in enumerate(top):
                if t.get("kind") == "LabelStmt" and t.get("declId") == tgt:
                    o, r = self.block(top, idx)
                    if not r:
                        o = o + [("Ret", self.default_ret())]
                    return o, True, 0
            self.err("goto to a label that is not at the top level of the function", s)
        if k == "ReturnStmt":
            return self.retstmt(s), True, 0
        if k == "DeclStmt":
            out = []
            for d in s.get("inner", []):
                if d.get("kind") != "VarDecl":
                    continue
                init = [c for c in d.get("inner", []) if c.get("kind") not in ("FullComment",)]
                o, consumed = self.assign_var(d["name"], d["type"]["qualType"], init[0] if init else None, nxt, s)
                out += o
                if consumed:
                    return out, False, 1
            return out, False, 0
        if k == "IfStmt":
            return self.ifstmt(s)
        if k == "SwitchStmt":
            return self.switch(s)
        if k in ("ForStmt", "WhileStmt", "DoStmt"):
            return self.loop(s)
        # expression statements
        e = _strip(s)
        ek = e.get("kind")
        if ek == "BinaryOperator" and e.get("opcode") == "=":
            return self.assign(e, nxt)
        if ek == "CallExpr":
            return self.callstmt(e), False, 0
        if ek in ("UnaryOperator", "CompoundAssignOperator", "BinaryOperator"):
            if self.has_res(e):
                self.err("unsupported expression statement with a resource effect", s)
            self.kill_scalars(e)
            return [], False, 0
        if self.has_res(s):
            self.err("unsupported statement kind %s" % k, s)
        return [], False, 0

    def kill_assigned(self, n):
        """scalars written inside a branch whose execution is undecided are no longer known."""
        if not isinstance(n, dict):
            return
        if n.get("kind") in ("BinaryOperator", "CompoundAssignOperator") and (n.get("opcode", "").endswith("=")) \
                and n.get("opcode") not in ("==", "!=", "<=", ">="):
            l = _strip(n["inner"][0])
            if l.get("kind") == "DeclRefExpr" and self.env.get(l["referencedDecl"]["name"], ("",))[0] in ("int", "okcall"):
                self.env[l["referencedDecl"]["name"]] = UNK
        if n.get("kind") == "UnaryOperator" and n.get("opcode") in ("++", "--"):
            l = _strip(n["inner"][0])
            if l.get("kind") == "DeclRefExpr" and self.env.get(l["referencedDecl"]["name"], ("",))[0] == "int":
                self.env[l["referencedDecl"]["name"]] = UNK
        for c in n.get("inner", []) or []:
            self.kill_assigned(c)

    def kill_scalars(self, e):
        # a scalar that is incremented / compound-assigned is no longer known
        for c in e.get("inner", []) or []:
            c = _strip(c)
            if c.get("kind") == "DeclRefExpr" and self.env.get(c["referencedDecl"]["name"], ("",))[0] == "int":
                self.env[c["referencedDecl"]["name"]] = UNK

    def default_ret(self):
        return "Ok"

    def retstmt(self, s):
        if s.get("inner"):
            e = _strip(s["inner"][0])
            if self.ret_slot is not None and self.kind == "ptr":
                # ownership leaves through the return value
                if e.get("kind") == "GNUNullExpr" or self.ival(e) == 0:
                    return [("SetNull", self.sc.rid(self.ret_slot)), ("Ret", "Fail")]
                pth = self.path_of(e)
                if pth is not None and (self.sc.known(pth) or pth == self.ret_slot):
                    if pth == self.ret_slot:
                        return [("Ret", "Ok")]
                    return [("Move", self.sc.rid(self.ret_slot), self.sc.rid(pth)), ("Ret", "Ok")]
                if self.is_acquire(e):
                    # `return malloc(..);` in a helper: the block goes straight to the caller's destination
                    r = self.sc.rid(self.ret_slot)
                    return [("Alloc", r), ("IfNull", [r], [("Ret", "Fail")]), ("Ret", "Ok")]
                cnp = self.call_name(e)
                if cnp and cnp != "<indirect>" and self.sc.relevant(cnp) and self.callee_kind(cnp) == "ptr":
                    body, _ = self.inline(e, self.ret_slot)      # `return other_helper(..);`
                    return [("Call", body, True, []), ("Ret", None)]
                self.err("returned pointer cannot be traced to an acquisition", s)
            if self.kind == "bool" and self.ival(e) is None:
                c = self.cond(e)
                if c[0] == "null":        # true iff some pointer is NULL; true = success for a bool function
                    return [("IfNull", c[1], [("Ret", "Ok")]), ("Ret", "Fail")]
                if c[0] == "set":
                    body = [("Ret", "Ok")]
                    for i in reversed(c[1]):
                        body = [("IfSet", i, body)]
                    return body + [("Ret", "Fail")]
                if c[0] == "const":
                    return [("Ret", "Ok" if c[1] else "Fail")]
            # `return relevant_call(..);` - the callee's result class is the caller's (same return convention only)
            cnr = self.call_name(e)
            if cnr and cnr not in ACQUIRE and cnr != "<indirect>" and self.sc.relevant(cnr) and not self.ret_slot:
                ck = self.callee_kind(cnr)
                if ck == self.kind and ck in ("int", "bool"):
                    body, _ = self.inline(e)
                    return [("Call", body, True, []), ("Ret", None)]
        return [("Ret", self.ret_class(s))]

    def ret_class(self, s):
        if not s.get("inner"):
            return "Ok"
        e = _strip(s["inner"][0])
        if e.get("kind") == "DeclRefExpr" and e["referencedDecl"].get("kind") == "VarDecl":
            v = self.env.get(e["referencedDecl"]["name"])
            if v and v[0] == "int":
                return self.class_of_int(v[1])
            if v and v[0] in ("callres", "dyn"):
                return None                      # Ret None: the `ret` variable
            if v and v[0] == "okcall":
                return "Ok"
            if v and v[0] in ("obj", "resvar"):
                return "Ok"
            return None
        v = self.ival(e)
        if v is not None:
            return self.class_of_int(v)
        if e.get("kind") == "GNUNullExpr":
            return "Fail"
        cn = self.call_name(e)
        if cn:
            if self.sc.relevant(cn):
                self.err("return of a resource-relevant call is not supported", s)
            return "Ok"
        if self.path_of(e) is not None:
            return "Ok"
        self.err("cannot classify the returned value", s)

    def class_of_int(self, v):
        if self.kind == "bool":
            return "Ok" if v else "Fail"
        if self.kind == "ptr":
            return "Fail" if v == 0 else "Ok"
        return "Ok" if v == 0 else "Fail"

    # --- assignments
    def assign_var(self, name, qual, init, nxt, s):
        """local declaration; returns (stmts, consumed_next)"""
        if init is None:
            self.env[name] = UNK
            if qual.rstrip().endswith("*"):
                self.env[name] = ("resvar", self.local_path(name))
            return [], False
        e = _strip(init)
        if self.is_acquire(e):
            p = self.local_path(name)
            self.env[name] = ("resvar", p)
            return [("Alloc", self.sc.rid(p))], False
        cn = self.call_name(e)
        if cn and cn != "<indirect>" and self.sc.relevant(cn):
            if self.callee_kind(cn) == "ptr":
                p = self.local_path(name)
                self.env[name] = ("resvar", p)
                self.sc.rid(p)
                body, _ = self.inline(e, p)
                return [("Call", body, False, [])], False
            return self.call_into(name, e, nxt, s)
        if cn:
            fn = self.sc.loader.load(cn) if cn != "<indirect>" else None
            self.env[name] = ("okcall", _ret_kind(fn)) if fn else UNK
            return [], False
        pth = self.path_of(e)
        if pth is not None:
            if self.sc.known(pth) and pth in getattr(self, "reassigned", ()) and qual.rstrip().endswith("*") \
                    and name not in self.alias:
                # `T *old = obj->f;` and obj->f is overwritten with another pointer later: the local takes the
                # block over (it is what gets released), the field is free for its new value
                p = self.local_path(name)
                self.env[name] = ("resvar", p)
                return [("Move", self.sc.rid(p), self.sc.rid(pth))], False
            if self.sc.known(pth):
                # local copy of an owned pointer (e.g. FILE *fp = handler->fp): same variable
                self.env[name] = ("resvar", pth)
            else:
                self.env[name] = ("obj", pth)
            return [], False
        v = self.ival(e)
        self.env[name] = ("int", v) if v is not None else UNK
        if qual.rstrip().endswith("*") and v is None:
            self.env[name] = ("resvar", self.local_path(name))
        return [], False

    def callee_kind(self, name):
        fn = self.sc.loader.load(name)
        return _ret_kind(fn) if fn else None

    def call_into(self, var, call, nxt, s):
        """var = relevant_call(..); a directly following `if (var ...)` is merged as the failure handler."""
        body, kind = self.inline(call)
        self.env[var] = ("callres", var, kind)
        asg = var in self.retvars
        if nxt is not None and nxt.get("kind") == "IfStmt":
            c = self.cond(nxt["inner"][0])
            if c[0] == "retfail" and c[1] == var:
                then_s = nxt["inner"][1]
                else_s = nxt["inner"][2] if len(nxt["inner"]) > 2 else None
                if c[2]:
                    if else_s is not None and self.has_res(else_s):
                        self.err("else branch after a failure test is not supported", nxt)
                    h, r, _ = self.stmt(then_s)
                    return [("Call", body, asg, h)], True
                else:
                    if else_s is None:
                        self.err("success test of a call without else branch", nxt)
                    h, r, _ = self.stmt(else_s)
                    if not r:
                        self.err("failure branch of a call must return", nxt)
                    o, r2, _ = self.stmt(then_s)
                    return [("Call", body, asg, h)] + o, True
        self.env[var] = ("dyn",)
        return [("Call", body, asg, [])], False

    def assign(self, e, nxt):
        lhs, rhs = e["inner"][0], _strip(e["inner"][1])
        pth = self.path_of(lhs)
        l = _strip(lhs)
        # scalar / ret variable
        if l.get("kind") == "DeclRefExpr" and self.env.get(l["referencedDecl"]["name"], ("",))[0] not in ("obj", "resvar"):
            name = l["referencedDecl"]["name"]
            cn = self.call_name(rhs)
            if cn and cn not in ACQUIRE and cn != "<indirect>" and self.sc.relevant(cn):
                if self.callee_kind(cn) == "ptr":
                    p = self.local_path(name)
                    self.env[name] = ("resvar", p)
                    self.sc.rid(p)
                    body, _ = self.inline(rhs, p)
                    return [("Call", body, False, [])], False, 0
                o, consumed = self.call_into(name, rhs, nxt, e)
                return o, False, 1 if consumed else 0
            if cn and cn not in ACQUIRE:
                fn = self.sc.loader.load(cn) if cn != "<indirect>" else None
                self.env[name] = ("okcall", _ret_kind(fn)) if fn else UNK
                return [], False, 0
            if self.is_acquire(rhs):
                p = self.local_path(name)
                self.env[name] = ("resvar", p)
                return [("Alloc", self.sc.rid(p))], False, 0
            v = self.ival(rhs)
            self.env[name] = ("int", v) if v is not None else UNK
            if name in self.retvars and v is not None:
                return [("SetRet", self.class_of_int(v))], False, 0
            return [], False, 0
        if pth is None:
            if self.has_res(e["inner"][1]):
                self.err("resource-relevant value stored to an untracked location", e)
            return [], False, 0
        if self.is_acquire(rhs):
            return [("Alloc", self.sc.rid(pth))], False, 0
        cn0 = self.call_name(rhs)
        if cn0 and cn0 not in ACQUIRE and cn0 != "<indirect>" and self.sc.relevant(cn0) and self.callee_kind(cn0) == "ptr":
            self.sc.rid(pth)                   # field = helper_that_returns_an_owned_pointer(..)
            body, _ = self.inline(rhs, pth)
            return [("Call", body, False, [])], False, 0
        if self.sc.known(pth):
            if self.is_nullish(rhs):
                return [("SetNull", self.sc.rid(pth))], False, 0
            src = self.path_of(rhs)
            if src is not None and self.sc.known(src) and src != pth:
                return [("Move", self.sc.rid(pth), self.sc.rid(src))], False, 0
            cn = self.call_name(rhs)
            if cn and self.sc.relevant(cn):
                self.err("owned pointer assigned from a resource-relevant call", e)
            if src == pth:
                return [], False, 0
            self.err("owned pointer %r assigned a value the translator cannot classify" % (pth,), e)
        else:
            src = self.path_of(rhs)
            if src is not None and self.sc.known(src):
                # first time we see the destination: it becomes an owned field
                return [("Move", self.sc.rid(pth), self.sc.rid(src))], False, 0
            # chained assignment a = b = 0 and other plain stores
            if rhs.get("kind") == "BinaryOperator" and rhs.get("opcode") == "=":
                return self.assign(rhs, None)
        return [], False, 0

    def callstmt(self, e):
        name = self.call_name(e)
        if name in RELEASE:
            p = self.path_of(e["inner"][1])
            if p is None:
                self.err("release of an untracked pointer", e)
            return [("Free", self.sc.rid(p))]
        if name in ACQUIRE:
            self.err("result of an acquisition is dropped", e)
        if name == "memset":
            p = self.path_of(e["inner"][1])
            v = self.ival(e["inner"][2])
            if p is not None and v == 0:
                return [("SetNull", i) for q, i in sorted(self.sc.ids.items(), key=lambda t: t[1])
                        if q[:len(p)] == p and len(q) > len(p)]
            return []
        if name == "<indirect>":
            return []
        if self.sc.relevant(name):
            body, kind = self.inline(e)
            return [("Call", body, False, [])]
        return []

    # --- control flow
    def ifstmt(self, s):
        inner = s["inner"]
        c = self.cond(inner[0])
        then_s = inner[1]
        else_s = inner[2] if len(inner) > 2 else None
        if c[0] == "const":
            tgt = then_s if c[1] else else_s
            if tgt is None:
                return [], False, 0
            o, r, _ = self.stmt(tgt)
            return o, r, 0
        if c[0] in ("null", "set"):
            envs = dict(self.env)
            to, tr, _ = self.stmt(then_s)
            self.env = dict(envs)
            eo, er = [], False
            if else_s is not None:
                eo, er, _ = self.stmt(else_s)
                self.env = dict(envs)
            ids = c[1]

            def wrap(kind, body):
                if not body:
                    return []
                if kind == "null":
                    return [("IfNull", ids, body)]
                res = body
                for i in reversed(ids):
                    res = [("IfSet", i, res)]
                return res
            other = "set" if c[0] == "null" else "null"
            if eo:
                if len(ids) != 1:
                    self.err("else branch of a test on several pointers", s)
                if not tr and self.writes(to, ids[0]):
                    self.err("then-branch changes the tested pointer and an else branch exists", s)
            out = wrap(c[0], to) + wrap(other, eo)
            return out, (tr and er and else_s is not None), 0
        if c[0] == "callfail":
            body, kind = self.inline(c[1])
            if c[2]:
                if else_s is not None and self.has_res(else_s):
                    self.err("else branch after a failed-call test", s)
                h, r, _ = self.stmt(then_s)
                return [("Call", body, False, h)], False, 0
            if else_s is None:
                # if (call_succeeded) { A }  without else: A runs only on success
                o, r, _ = self.stmt(then_s)
                if not r:
                    self.err("success test of a call: the then-branch must return when there is no else", s)
                # failure falls through to the statements after the if: emit as  Call body false [] is wrong;
                # encode with a marker handled by block(): not needed by the functions in scope
                self.err("success test of a call without else is not supported", s)
            h, r, _ = self.stmt(else_s)
            if not r:
                self.err("failure branch of a call must return", s)
            o, r2, _ = self.stmt(then_s)
            return [("Call", body, False, h)] + o, r2, 0
        if c[0] == "retfail":
            self.err("test of a call result that does not directly follow the call", s)
        # undecided scalar condition
        key = self.text_key(inner[0])
        if key in self.sc.hints:
            tgt = then_s if self.sc.hints[key] else else_s
            self.sc.notes.append("%s: condition `%s` taken as %s (scenario hint)" % (self.fn["name"], key, self.sc.hints[key]))
            if tgt is None:
                return [], False, 0
            o, r, _ = self.stmt(tgt)
            return o, r, 0
        if self.only_returns(then_s) and (else_s is None or self.only_returns(else_s)):
            # a scalar test that guards no resource statement (argument validation, plain stores):
            # neither branch changes the protocol state; a `return` in it is an argument rejection, assumed not taken
            self.sc.notes.append("%s: undecided scalar condition `%s` guards no resource statement: skipped" % (self.fn["name"], key))
            self.kill_assigned(then_s)
            if else_s is not None:
                self.kill_assigned(else_s)
            return [], False, 0
        self.err("cannot decide the condition `%s` and it guards resource statements (add a scenario hint)" % key, s)

    def writes(self, stmts, rid):
        for t in stmts:
            if t[0] in ("Alloc", "SetNull", "Free") and t[1] == rid:
                return True
            if t[0] == "Move" and rid in (t[1], t[2]):
                return True
            if t[0] == "IfNull" and self.writes(t[2], rid):
                return True
            if t[0] == "IfSet" and self.writes(t[2], rid):
                return True
            if t[0] == "Call" and (self.writes(t[1], rid) or self.writes(t[3], rid)):
                return True
        return False

    def text_key(self, n):
        """a stable textual key of an expression (names and operators only)."""
        n = _strip(n)
        k = n.get("kind")
        if k == "DeclRefExpr":
            return n["referencedDecl"]["name"]
        if k == "MemberExpr":
            return self.text_key(n["inner"][0]) + ("->" if n.get("isArrow") else ".") + n["name"]
        if k in ("IntegerLiteral",):
            return str(n["value"])
        if k == "ConstantExpr" and "value" in n:
            return str(n["value"])
        if k == "BinaryOperator":
            return "%s %s %s" % (self.text_key(n["inner"][0]), n["opcode"], self.text_key(n["inner"][1]))
        if k == "UnaryOperator":
            return "%s%s" % (n["opcode"], self.text_key(n["inner"][0]))
        if k == "CallExpr":
            return "%s(..)" % self.call_name(n)
        if k == "ArraySubscriptExpr":
            return "%s[%s]" % (self.text_key(n["inner"][0]), self.text_key(n["inner"][1]))
        return k or "?"

    def switch(self, s):
        inner = s["inner"]
        v = self.ival(inner[0])
        body = inner[-1]
        items = body.get("inner", []) if body.get("kind") == "CompoundStmt" else [body]
        if v is None:
            if not self.has_res(body):
                self.kill_assigned(body)
                return [], False, 0
            self.err("cannot decide the switch scrutinee `%s`" % self.text_key(inner[0]), s)
        # flatten: a CaseStmt wraps the first statement of its arm (possibly another CaseStmt)
        start, default = None, None
        flat = []
        for it in items:
            while it.get("kind") in ("CaseStmt", "DefaultStmt"):
                if it["kind"] == "CaseStmt":
                    cv = self.ival(it["inner"][0])
                    if cv is None:
                        self.err("case label without a constant value", it)
                    if cv == v and start is None:
                        start = len(flat)
                    it = it["inner"][-1]
                else:
                    default = len(flat)
                    it = it["inner"][-1]
            flat.append(it)
        if start is None:
            start = default
        if start is None:
            return [], False, 0
        out = []
        for it in flat[start:]:
            if it.get("kind") == "BreakStmt":
                break
            if it.get("kind") == "CompoundStmt" and it.get("inner") and it["inner"][-1].get("kind") == "BreakStmt":
                o, r = self.block(it["inner"][:-1], 0)
                out += o
                if r:
                    return out, True, 0
                break
            o, r, _ = self.stmt(it)
            out += o
            if r:
                return out, True, 0
        return out, False, 0

    def loop(self, s):
        if not self.has_res(s):
            self.kill_assigned(s)
            return [], False, 0
        k = s.get("kind")
        if k == "ForStmt":
            init, _, cnd, inc, body = (s["inner"] + [None] * 5)[:5]
            # shape 1: for (T i = a; i < N; ++i) with known small bounds  -> unrolled
            var, a = None, None
            if init and init.get("kind") == "DeclStmt" and len(init.get("inner", [])) == 1:
                d = init["inner"][0]
                ini = [c for c in d.get("inner", [])]
                if ini:
                    var, a = d["name"], self.ival(ini[0])
            elif init and _strip(init).get("kind") == "BinaryOperator" and _strip(init)["opcode"] == "=":
                e = _strip(init)
                l = _strip(e["inner"][0])
                if l.get("kind") == "DeclRefExpr":
                    var, a = l["referencedDecl"]["name"], self.ival(e["inner"][1])
            if var is not None and a is not None and cnd is not None:
                c = _strip(cnd)
                if c.get("kind") == "BinaryOperator" and c["opcode"] in ("<", "<="):
                    b = self.ival(c["inner"][1])
                    l = _strip(c["inner"][0])
                    if b is not None and l.get("kind") == "DeclRefExpr" and l["referencedDecl"]["name"] == var:
                        hi = b if c["opcode"] == "<" else b + 1
                        if hi - a <= 8:
                            out = []
                            for i in range(a, hi):
                                self.env[var] = ("int", i)
                                o, r, _ = self.stmt(body)
                                out += o
                                if r:
                                    return out, True, 0
                            self.env[var] = UNK
                            return out, False, 0
            # shape 2: for (i = 0; i < obj->count; ++i) free(obj->arr[i]);  -> every known element is released
            rel = self.single_release(body)
            if rel is not None and var is not None:
                self.env[var] = UNK
                p = self.path_of(rel["inner"][1])
                if p is not None and p[-1] == "[?]":
                    base = p[:-1]
                    elems = sorted((q, i) for q, i in self.sc.ids.items()
                                   if q[:len(base)] == base and len(q) == len(base) + 1 and q[-1].startswith("[") and q[-1] != "[?]")
                    self.sc.notes.append("%s: loop releasing every element of %s" % (self.fn["name"], "/".join(base)))
                    return [("Free", i) for q, i in elems], False, 0
        self.err("loop with resource statements of an unrecognised shape", s)

    def single_release(self, body):
        b = body
        while b.get("kind") == "CompoundStmt" and len(b.get("inner", [])) == 1:
            b = b["inner"][0]
        e = _strip(b)
        if e.get("kind") == "CallExpr" and self.call_name(e) in RELEASE:
            return e
        return None


# ---------------------------------------------------------------------------------------------
def translate(sc, src, name, args, obj_param=None):
    """program of function `name` with its object parameter bound to the scenario's object."""
    fn = sc.loader.load(name, src)
    if fn is None:
        raise TransError("function %s with a body not found in %s" % (name, src))
    binds = {}
    first = True
    for p in [c for c in fn.get("inner", []) if c.get("kind") == "ParmVarDecl"]:
        if "name" not in p:
            continue
        q = p["type"]["qualType"]
        if p["name"] in args:
            binds[p["name"]] = ("int", args[p["name"]])
        elif q.rstrip().endswith("*") and (p["name"] == obj_param or (obj_param is None and first)):
            binds[p["name"]] = ("obj", ("self",))
            first = False
        else:
            binds[p["name"]] = UNK
    return FnTr(sc, fn, binds).run()


def gallina(stmts, ind=2):
    def one(t):
        k = t[0]
        if k in ("Alloc", "Free", "SetNull"):
            return "%s %d" % (k, t[1])
        if k == "Move":
            return "Move %d %d" % (t[1], t[2])
        if k == "SetRet":
            return "SetRet %s" % t[1]
        if k == "Ret":
            return "Ret None" if t[1] is None else "Ret (Some %s)" % t[1]
        if k == "IfNull":
            return "IfNull [%s] %s" % ("; ".join(map(str, t[1])), gallina(t[2], ind + 2))
        if k == "IfSet":
            return "IfSet %d %s" % (t[1], gallina(t[2], ind + 2))
        if k == "Call":
            return "Call %s %s %s" % (gallina(t[1], ind + 2), "true" if t[2] else "false", gallina(t[3], ind + 2))
        raise TransError("unknown protocol statement %r" % (t,))
    if not stmts:
        return "[]"
    pad = " " * ind
    return "[ " + (";\n" + pad).join(one(t) for t in stmts) + " ]"


def scenario_programs(loader, spec):
    """spec: dict(pre=[(src, fn, args)], op=(src, fn, args), destroy=(src, fn, args), neutral=[...], hints={...})
    -> (pre programs, op program, destroy program, notes).  Two passes: the first collects the owned paths."""
    sc = Scenario(loader, spec.get("neutral", ()), spec.get("hints"))
    res = None
    last_err = None
    for pas in range(1, 7):
        sc.collect = True
        sc.notes = []
        n_before = len(sc.ids)
        last_err = None
        try:
            pre = [translate(sc, s, f, a, spec.get("obj")) for s, f, a in spec.get("pre", [])]
            op = translate(sc, *spec["op"], spec.get("obj"))
            d = translate(sc, *spec["destroy"], spec.get("obj")) if spec.get("destroy") else []
            res = (pre, op, d, list(sc.notes), dict(sc.ids))
        except TransError as e:
            last_err = e
        # pointer members that a cleanup block tested before the acquisition was translated: own them if some
        # function of the scenario acquires or releases them (they are known by now), then translate again
        newly = [p for p in sc.pending if not sc.known(p)]
        for p in sorted(newly):
            sc.rid(p)
        sc.pending = set()
        if last_err is None and len(sc.ids) == n_before and not newly:
            break
    if last_err is not None:
        raise last_err
    return res


def params_file(loader, specs, repo):
    """text of coq/gen/Params_C18.v: one (pre, op, destroy) triple per scenario id, plus the list of scenarios
    the translator could not handle (a non-empty list is a broken proof obligation)."""
    out = ["(* GENERATED on every run by lib/props/c18_trans.py from the C sources of the repository: the",
           "   resource-protocol skeleton of each init / grow / destroy function.  Do not edit. *)",
           "From MV Require Import C18.Model.", ""]
    rows, errors = [], []
    for iid in sorted(specs):
        sp = dict(specs[iid])
        R = os.path.join(repo, "muggle/c") + "/"
        sp["pre"] = [(R + s, f, a) for s, f, a in sp.get("pre", [])]
        for k in ("op", "destroy"):
            if sp.get(k):
                sp[k] = (R + sp[k][0], sp[k][1], sp[k][2])
        names = [f for _, f, _ in sp["pre"]] + [sp["op"][1]] + ([sp["destroy"][1]] if sp.get("destroy") else [])
        try:
            pre, op, d, notes, ids = scenario_programs(loader, sp)
        except TransError as e:
            errors.append(iid)
            out.append("(* scenario %d (%s): TRANSLATION FAILED: %s *)" % (iid, ", ".join(names), str(e).replace("*)", "* )")))
            out.append("")
            continue
        out.append("(* scenario %d: %s" % (iid, ", ".join(names)))
        for pth, i in sorted(ids.items(), key=lambda t: t[1]):
            out.append("     %d = %s" % (i, "->".join(x for x in pth if x != "self") or "self"))
        for nt in sorted(set(notes)):
            out.append("     note: %s" % nt.replace("*)", "* )"))
        for nm in sp.get("neutral", ()):
            out.append("     assumed to touch no resource here (container is empty): %s" % nm)
        out.append("*)")
        out.append("Definition g%d_pre : list stmt :=\n  %s." % (
            iid, gallina([("Call", p, False, []) for p in pre])))
        out.append("Definition g%d_op : list stmt :=\n  %s." % (iid, gallina(op)))
        out.append("Definition g%d_destroy : list stmt :=\n  %s." % (iid, gallina(d)))
        out.append("")
        rows.append("(%d, (g%d_pre, g%d_op, g%d_destroy))" % (iid, iid, iid, iid))
    out.append("Definition gen_table : list (nat * (list stmt * list stmt * list stmt)) :=\n  [ %s ]." % ";\n    ".join(rows))
    out.append("Definition gen_errors : list nat := [%s]." % "; ".join(map(str, errors)))
    return "\n".join(out) + "\n"
