"""C13 - slicer for the event-loop back-ends (second tie of the translator kind, DESIGN.md 4.4).

Symbolic execution of a NAMED function of the current C text (clang JSON AST, loaded with
lib/leaftrans.load_function; precedents lib/props/c06_slice.py, c08_slice.py) into ONE Gallina term over
Z / bool / list Z.  The term describes, for every path through the function, WHICH callbacks and
bookkeeping calls run IN WHICH ORDER and what the back-end's tables look like afterwards; it does
not depend on the shape of the text (helpers, loop forms, guard clauses, pointer walks, hoisted
locals, De Morgan'd conditions all give the same function).

Vocabulary of the generated terms
  * result of every path: (trace, observables) where trace : list Z is a flat list of pairs
    [code; argument; code; argument; ...] (TOK below) in execution order, and the observables are
    fixed per instance (tables handed to the next kernel call, return value, ...).
  * callbacks are opaque: the k-th callback of a path (read / close / wake / clear / exit / timer)
    emits its token and HAVOCS what a callback may change and the loop reads again: every
    context's flags become (FL k id), evloop->to_exit becomes (TE k) - FL and TE are arguments of
    the generated function (oracles); k is the number of callbacks so far on that path.
    Not havocked (stated in the evidence): registrations made from inside a callback (nfd / fd-set /
    ctx_list growth) - that interplay is in the model (Model.poll_step ...) and in the
    differential run, not in this tie.
  * the kernel call (poll / select / epoll_wait) is opaque: the FIRST one on a path emits its token
    with the count handed over, fills revents / the ready set / the event array with the
    instance's symbolic inputs and returns the instance's n; reaching it a SECOND time ends the
    path (observable: continue), returning from the function ends the path (observable: return).
  * tables have small CONCRETE sizes with SYMBOLIC cells, so every loop unrolls; several instances
    per function (table sizes 2 and 3, event batches, list lengths) are generated.
  * success path only: malloc / epoll_create / list append / set_nonblock succeed (allocation
    failure is C18's); evloop->timeout = -1 and cb_timer = NULL (no timer, as in the drivers);
    every other callback is set.
Anything outside the supported subset raises LeafError, which the plugin writes as a comment into
coq/gen/Params_C13.v: the obligation breaks (never a silent skip)."""
import copy
import re
import leaftrans as L

LeafError = L.LeafError

TOK = {
    "READ": 1, "SETFLAG": 2, "FLAGVAL": 3, "CLOSE": 4, "LREM": 5, "WAKECLR": 6, "WAKECB": 7, "EPDEL": 8,
    "FDCLR": 9, "FDSET": 10, "FDZERO": 11, "KPOLL": 12, "KSEL": 13, "KEPOLL": 14, "EXITREQ": 15,
    "CLEARCB": 16, "EXITCB": 17, "EPADD": 18, "EPMASK": 19, "LAPPEND": 20, "NONBLOCK": 21, "BADD": 22,
    "BRUN": 23, "MALLOC": 24, "EPCREATE": 25, "TIMERCB": 26, "WAKEUP": 27, "KWATCH": 28, "SETTID": 29,
    "KTMO": 30, "LINIT": 31, "SIGINIT": 32,
}
FUEL = 16


def Zc(n):
    return ("z", "(%d)" % n, int(n))


def Zs(t):
    return ("z", t, None)


def Bc(b):
    return ("b", "true" if b else "false", bool(b))


def Bs(t):
    return ("b", t, None)


NULL = ("p", "null")


def qt(n):
    return n.get("type", {}).get("qualType", "")


def dq(n):
    t = n.get("type", {})
    return t.get("desugaredQualType") or t.get("qualType", "")


def is_ptr_type(t):
    t = t.strip()
    return t.endswith("*") or "(*)" in t


def strip_parens(n):
    while n.get("kind") in ("ParenExpr", "ConstantExpr"):
        n = n["inner"][0]
    return n


def strip_casts(n):
    while True:
        k = n.get("kind")
        if k in ("ParenExpr", "ConstantExpr"):
            n = n["inner"][0]
        elif k in ("ImplicitCastExpr", "CStyleCastExpr") and n.get("castKind") in (
                "NoOp", "LValueToRValue", "BitCast", "FunctionToPointerDecay", "ArrayToPointerDecay"):
            n = n["inner"][-1]
        else:
            return n


class Ctx:
    def __init__(self, fall, ret, brk=None, cont=None):
        self.fall, self.ret, self.brk, self.cont = fall, ret, brk, cont


class St:
    def __init__(self):
        self.frames = [{}]     # locals of the function being executed (one frame per inlined call)
        self.fld = {}          # scalar / pointer fields of the loop object
        self.arr = {}          # array objects: name -> {"cells": [...], "default": v|None, "symw": [...]}
        self.ls = {}           # local structs, fd sets: name -> dict
        self.flagovl = {}      # ctx id -> flags value stored since the last callback
        self.te = None         # to_exit value stored since the last callback (None: TE k)
        self.k = 0             # callbacks so far
        self.tr = []           # trace (texts)
        self.clist = []        # ctx_list (ids)
        self.kcalls = 0
        self.nadds = 0         # registrations made by read callbacks on this path
        self.args = {}         # fields of the init-args object
        self.nmalloc = 0
        self.uid = 0

    def copy(self):
        return copy.deepcopy(self)

    def loc(self):
        return self.frames[-1]


class Sx:
    def __init__(self, src, cflags, consts, sizeofs, inst):
        self.src, self.cflags = src, cflags
        self.consts, self.sizeofs, self.inst = consts, sizeofs, inst
        self.cache = {}
        self.depth = 0
        self.nleaves = 0

    # ------------------------------------------------------------------ utilities
    def fn(self, name):
        if name not in self.cache:
            try:
                self.cache[name] = L.load_function(self.src, name, self.cflags)
            except LeafError:
                self.cache[name] = None
        return self.cache[name]

    @staticmethod
    def body_of(f):
        return [c for c in f["inner"] if c.get("kind") == "CompoundStmt"][0]

    def const(self, name):
        if name not in self.consts:
            raise LeafError("enum / macro constant %s is not in the constant table of this run" % name)
        return Zc(self.consts[name])

    def size_of(self, t):
        t = t.replace("const ", "").strip()
        if t in self.sizeofs:
            return self.sizeofs[t]
        if t.endswith("*"):
            return self.sizeofs.get("void *", 8)
        ty = L.INT_TYPES.get(t)
        if ty:
            return max(1, ty[1] // 8)
        raise LeafError("size of %s is not known" % t)

    def tok(self, st, code, arg):
        st.tr.append("%d" % TOK[code])
        st.tr.append(arg if isinstance(arg, str) else self.ztext(arg))

    @staticmethod
    def ztext(v):
        if v[0] == "z":
            return v[1]
        if v[0] == "b":
            return "(b2z %s)" % v[1]
        raise LeafError("pointer used as an integer")

    # ------------------------------------------------------------------ integers
    def tobool(self, v):
        if v[0] == "b":
            return v
        if v[0] == "z":
            if v[2] is not None:
                return Bc(v[2] != 0)
            return Bs("(z2b %s)" % v[1])
        if v[0] == "p":
            return Bc(v != NULL)
        raise LeafError("value cannot be used as a condition")

    def toz(self, v):
        if v[0] == "z":
            return v
        if v[0] == "b":
            if v[2] is not None:
                return Zc(1 if v[2] else 0)
            return Zs("(b2z %s)" % v[1])
        raise LeafError("pointer used as an integer")

    def wrap(self, n, v):
        ty = L.ctype(n)
        if ty is None:
            raise LeafError("non-integer arithmetic (%s)" % qt(n))
        if ty[0]:
            return v
        if v[2] is not None:
            return Zc(v[2] % (1 << ty[1]))
        return Zs("(wrapu %d %s)" % (ty[1], v[1]))

    def binop(self, n, op, a, b):
        if op in ("==", "!=") and (a[0] == "p" or b[0] == "p"):
            if a[0] == "z" and a[2] == 0:
                a = NULL
            if b[0] == "z" and b[2] == 0:
                b = NULL
            if a[0] != "p" or b[0] != "p":
                raise LeafError("pointer compared with an integer")
            return Bc((a == b) == (op == "=="))
        a, b = self.toz(a), self.toz(b)
        ca, cb = a[2], b[2]
        if op in ("<", "<=", ">", ">=", "==", "!="):
            if ca is not None and cb is not None:
                return Bc({"<": ca < cb, "<=": ca <= cb, ">": ca > cb, ">=": ca >= cb, "==": ca == cb, "!=": ca != cb}[op])
            if op == "!=":
                return Bs("(negb (%s =? %s))" % (a[1], b[1]))
            m = {"<": "<?", "<=": "<=?", ">": ">?", ">=": ">=?", "==": "=?"}
            return Bs("(%s %s %s)" % (a[1], m[op], b[1]))
        if op in ("+", "-", "*"):
            if ca is not None and cb is not None:
                return self.wrap(n, Zc({"+": ca + cb, "-": ca - cb, "*": ca * cb}[op]))
            if op in ("+", "-") and cb == 0:
                return self.wrap(n, a)
            return self.wrap(n, Zs("(%s %s %s)" % (a[1], op, b[1])))
        if op in ("&", "|", "^"):
            if ca is not None and cb is not None:
                return Zc({"&": ca & cb, "|": ca | cb, "^": ca ^ cb}[op])
            if op == "&":
                for x, y in ((a, b), (b, a)):
                    if len(x) > 3 and y[2] is not None and y[2] >= 0 and (y[2] & ~x[3]) == 0:
                        return Zc(y[2])       # every bit of the mask was set by an earlier |
            f = {"&": "Z.land", "|": "Z.lor", "^": "Z.lxor"}[op]
            r = Zs("(%s %s %s)" % (f, a[1], b[1]))
            if op == "|":
                m = (ca if ca is not None and ca >= 0 else 0) | (cb if cb is not None and cb >= 0 else 0)
                m |= (a[3] if len(a) > 3 else 0) | (b[3] if len(b) > 3 else 0)
                if m:
                    r = r + (m,)
            return r
        if op == "/":
            if ca is not None and cb not in (None, 0):
                q = abs(ca) // abs(cb)
                return Zc(q if (ca >= 0) == (cb >= 0) else -q)
            return Zs("(cdiv %s %s)" % (a[1], b[1]))
        if op == "%":
            if ca is not None and cb not in (None, 0):
                r = abs(ca) % abs(cb)
                return Zc(r if ca >= 0 else -r)
            return Zs("(crem %s %s)" % (a[1], b[1]))
        if op == "<<":
            if ca is not None and cb is not None:
                return self.wrap(n, Zc(ca << cb))
            return self.wrap(n, Zs("(Z.shiftl %s %s)" % (a[1], b[1])))
        if op == ">>":
            if ca is not None and cb is not None:
                return Zc(ca >> cb)
            return Zs("(Z.shiftr %s %s)" % (a[1], b[1]))
        raise LeafError("unsupported binary operator " + op)

    # ------------------------------------------------------------------ branching
    def branch(self, b, st, kt, kf):
        if b[2] is not None:
            return kt(st) if b[2] else kf(st)
        t = kt(st.copy())
        e = kf(st.copy())
        if t == e:
            return t
        return "(if %s\n then %s\n else %s)" % (b[1], t, e)

    def condk(self, n, st, kt, kf):
        n0 = strip_parens(n)
        k = n0.get("kind")
        if k == "BinaryOperator" and n0.get("opcode") == "&&":
            return self.condk(n0["inner"][0], st, lambda s: self.condk(n0["inner"][1], s, kt, kf), kf)
        if k == "BinaryOperator" and n0.get("opcode") == "||":
            return self.condk(n0["inner"][0], st, kt, lambda s: self.condk(n0["inner"][1], s, kt, kf))
        if k == "UnaryOperator" and n0.get("opcode") == "!":
            return self.condk(n0["inner"][0], st, kf, kt)
        if k in ("ImplicitCastExpr", "CStyleCastExpr") and n0.get("castKind") in (
                "IntegralToBoolean", "PointerToBoolean", "IntegralCast", "NoOp") and \
                strip_parens(n0["inner"][-1]).get("kind") in ("BinaryOperator", "UnaryOperator") and \
                strip_parens(n0["inner"][-1]).get("opcode") in ("&&", "||", "!"):
            return self.condk(n0["inner"][-1], st, kt, kf)
        return self.evk(n0, st, lambda v, s: self.branch(self.tobool(v), s, kt, kf))

    # ------------------------------------------------------------------ lvalues
    def lvalk(self, n, st, k):
        n = strip_parens(n)
        kind = n.get("kind")
        if kind == "DeclRefExpr":
            nm = n["referencedDecl"]["name"]
            if nm in st.loc():
                return k(("loc", nm), st)
            if "@" + nm in st.loc():
                return k(("ls", st.loc()["@" + nm], ""), st)
            raise LeafError("unknown variable " + nm)
        if kind == "MemberExpr":
            name = n.get("name", "")
            if n.get("isArrow"):
                return self.evk(n["inner"][0], st, lambda p, s: k(self.member_of_ptr(p, name, s), s))
            return self.lvalk(n["inner"][0], st, lambda lv, s: k(self.member_of_lv(lv, name), s))
        if kind == "ArraySubscriptExpr":
            def with_base(p, s):
                def with_idx(i, s2):
                    return k(self.index_ptr(p, self.toz(i), s2), s2)
                return self.evk(n["inner"][1], s, with_idx)
            return self.evk(n["inner"][0], st, with_base)
        if kind == "UnaryOperator" and n.get("opcode") == "*":
            return self.evk(n["inner"][0], st, lambda p, s: k(self.index_ptr(p, Zc(0), s), s))
        if kind in ("ImplicitCastExpr", "CStyleCastExpr") and n.get("castKind") in ("NoOp", "BitCast"):
            return self.lvalk(n["inner"][-1], st, k)
        raise LeafError("unsupported lvalue " + str(kind))

    def member_of_ptr(self, p, name, st):
        if p[0] != "p":
            raise LeafError("member access through a non-pointer")
        pk = p[1]
        if pk == "null":
            raise LeafError("NULL pointer dereferenced on a path (->%s)" % name)
        if pk == "loop":
            if name == "base":
                return ("loopbase",)
            if name == "allset":
                return ("ls", "@allset", "")
            return ("fld", name)
        if pk == "args":
            return ("argf", name)
        if pk == "arr":
            return ("cell" if isinstance(p[3], int) else "cellsym", p[2], p[3], name)
        if pk == "node":
            return ("nodef", p[2], name)
        if pk == "ctx":
            return ("ctxf", p[2], name)
        if pk == "ls":
            return ("ls", p[2], (p[3] + "." + name) if p[3] else name)
        raise LeafError("member %s of an opaque object" % name)

    def member_of_lv(self, lv, name):
        if lv[0] == "loopbase":
            return ("fld", name)
        if lv[0] in ("cell", "cellsym"):
            return (lv[0], lv[1], lv[2], (lv[3] + "." + name) if lv[3] else name)
        if lv[0] == "ls":
            return ("ls", lv[1], (lv[2] + "." + name) if lv[2] else name)
        if lv[0] == "fld" and lv[1] == "base":
            return ("fld", name)
        raise LeafError("unsupported member access ." + name)

    def index_ptr(self, p, i, st):
        if p[0] != "p":
            raise LeafError("subscript of a non-pointer")
        if p[1] == "null":
            raise LeafError("NULL pointer dereferenced on a path")
        if p[1] == "arr":
            base = p[3]
            if isinstance(base, int) and i[2] is not None:
                return ("cell", p[2], base + i[2], "")
            bt = ("(%d)" % base) if isinstance(base, int) else base
            return ("cellsym", p[2], i[1] if base == 0 else "(%s + %s)" % (bt, i[1]), "")
        if p[1] == "ls" and i[2] == 0:
            return ("ls", p[2], p[3])
        if p[1] in ("node", "ctx") and i[2] == 0:
            raise LeafError("whole-object access to a node / context")
        raise LeafError("unsupported pointer dereference")

    def cell(self, st, arr, idx):
        a = st.arr.get(arr)
        if a is None:
            raise LeafError("unknown array object " + arr)
        if a.get("heap") and 0 <= idx < 64:
            while len(a["cells"]) <= idx:
                a["cells"].append({})
        if idx < 0 or idx >= len(a["cells"]):
            raise LeafError("array %s indexed out of its bounds (%d)" % (arr, idx))
        return a["cells"]

    def load(self, lv, st):
        k = lv[0]
        if k == "loc":
            v = st.loc().get(lv[1])
            if v is None:
                raise LeafError("local %s read before it is assigned" % lv[1])
            return v
        if k == "fld":
            if lv[1] == "to_exit":
                return st.te if st.te is not None else Zs("(TE %d)" % st.k)
            if lv[1] not in st.fld:
                raise LeafError("loop field %s is not part of this instance" % lv[1])
            return st.fld[lv[1]]
        if k == "argf":
            if lv[1] not in st.args:
                raise LeafError("init-args field %s is not part of this instance" % lv[1])
            return st.args[lv[1]]
        if k == "cell":
            c = self.cell(st, lv[1], lv[2])[lv[2]]
            if lv[3] == "":
                if isinstance(c, dict):
                    return ("struct", dict(c))
                return c
            if not isinstance(c, dict) or lv[3] not in c:
                raise LeafError("cell member %s.%s read before it is written" % (lv[1], lv[3]))
            return c[lv[3]]
        if k == "cellsym":
            for (i, m, v) in reversed(st.arr[lv[1]]["symw"]):
                if i == lv[2] and m == lv[3]:
                    return v
            raise LeafError("array %s read at a symbolic index" % lv[1])
        if k == "nodef":
            if lv[2] == "data":
                return ("p", "ctx", lv[1])
            raise LeafError("list node member " + lv[2])
        if k == "ctxf":
            if lv[2] == "flags":
                return st.flagovl.get(lv[1], Zs("(FL %d %s)" % (st.k, lv[1])))
            if lv[2] == "fd":
                return Zs("(fdof %s)" % lv[1])
            raise LeafError("context member " + lv[2])
        if k == "ls":
            o = st.ls.get(lv[1])
            if o is None:
                raise LeafError("unknown local object " + lv[1])
            if lv[2] == "":
                return ("struct", copy.deepcopy(o))
            if lv[2] not in o:
                raise LeafError("member %s of local %s read before it is written" % (lv[2], lv[1]))
            return o[lv[2]]
        raise LeafError("unsupported read")

    def store(self, lv, v, st):
        k = lv[0]
        if k == "loc":
            st.loc()[lv[1]] = v
        elif k == "fld":
            if lv[1] == "to_exit":
                st.te = self.toz(v)
            else:
                st.fld[lv[1]] = v
        elif k == "argf":
            st.args[lv[1]] = v
        elif k == "cell":
            cells = self.cell(st, lv[1], lv[2])
            if lv[3] == "":
                cells[lv[2]] = dict(v[1]) if v[0] == "struct" else v
            else:
                if not isinstance(cells[lv[2]], dict):
                    cells[lv[2]] = {}
                cells[lv[2]][lv[3]] = v
        elif k == "cellsym":
            st.arr[lv[1]]["symw"].append((lv[2], lv[3], v))
        elif k == "ctxf":
            if lv[2] != "flags":
                raise LeafError("store to context member " + lv[2])
            v = self.toz(v)
            st.flagovl[lv[1]] = v
            self.tok(st, "SETFLAG", lv[1])
            self.tok(st, "FLAGVAL", v)
        elif k == "ls":
            o = st.ls.setdefault(lv[1], {})
            if lv[2] == "":
                if v[0] != "struct":
                    raise LeafError("scalar stored into a whole struct")
                st.ls[lv[1]] = copy.deepcopy(v[1])
            else:
                o[lv[2]] = v
        else:
            raise LeafError("unsupported store")

    # ------------------------------------------------------------------ expressions (CPS)
    def evk(self, n, st, k):
        kind = n.get("kind")
        if kind in ("ParenExpr", "ConstantExpr"):
            return self.evk(n["inner"][0], st, k)
        if kind in ("ImplicitCastExpr", "CStyleCastExpr"):
            ck = n.get("castKind")
            inner = n["inner"][-1]
            if ck == "LValueToRValue":
                return self.lvalk(inner, st, lambda lv, s: k(self.load(lv, s), s))
            if ck in ("NoOp", "BitCast", "FunctionToPointerDecay"):
                return self.evk(inner, st, k)
            if ck == "ArrayToPointerDecay":
                return self.lvalk(inner, st, lambda lv, s: k(self.addr_of(lv), s))
            if ck == "NullToPointer":
                return k(NULL, st)
            if ck == "ToVoid":
                return self.evk(inner, st, k)
            if ck in ("IntegralCast", "BooleanToSignedIntegral"):
                def cast(v, s):
                    v = self.toz(v)
                    ty, src = L.ctype(n), L.ctype(inner)
                    if ty is None:
                        raise LeafError("cast to non-integer " + qt(n))
                    if ty[1] == 1:
                        return k(self.tobool(v), s)
                    if not ty[0]:
                        if src and not src[0] and src[1] <= ty[1]:
                            return k(v, s)
                        if v[2] is not None:
                            return k(Zc(v[2] % (1 << ty[1])), s)
                        return k(Zs("(wrapu %d %s)" % (ty[1], v[1])), s)
                    return k(v, s)
                return self.evk(inner, st, cast)
            if ck in ("IntegralToBoolean", "PointerToBoolean"):
                return self.evk(inner, st, lambda v, s: k(self.tobool(v), s))
            raise LeafError("unsupported cast " + str(ck))
        if kind == "IntegerLiteral":
            return k(Zc(int(n["value"])), st)
        if kind == "CharacterLiteral":
            return k(Zc(int(n["value"])), st)
        if kind == "GNUNullExpr":
            return k(NULL, st)
        if kind == "DeclRefExpr":
            rd = n["referencedDecl"]
            if rd.get("kind") == "EnumConstantDecl":
                return k(self.const(rd["name"]), st)
            return self.lvalk(n, st, lambda lv, s: k(self.load(lv, s), s))
        if kind == "MemberExpr" or kind == "ArraySubscriptExpr":
            return self.lvalk(n, st, lambda lv, s: k(self.load(lv, s), s))
        if kind == "UnaryExprOrTypeTraitExpr":
            if n.get("name") != "sizeof":
                raise LeafError("unsupported " + str(n.get("name")))
            t = n["argType"]["qualType"] if "argType" in n else qt(n["inner"][0])
            return k(Zc(self.size_of(t)), st)
        if kind == "UnaryOperator":
            op = n["opcode"]
            if op == "&":
                return self.lvalk(n["inner"][0], st, lambda lv, s: k(self.addr_of(lv), s))
            if op == "*":
                return self.lvalk(n, st, lambda lv, s: k(self.load(lv, s), s))
            if op in ("++", "--"):
                return self.incdec(n, st, k)
            if op == "!":
                return self.condk(n["inner"][0], st, lambda s: k(Bc(False), s), lambda s: k(Bc(True), s))

            def un(v, s):
                v = self.toz(v)
                if op == "-":
                    return k(self.wrap(n, Zc(-v[2]) if v[2] is not None else Zs("(- %s)" % v[1])), s)
                if op == "+":
                    return k(v, s)
                if op == "~":
                    ty = L.ctype(n)
                    if ty and not ty[0]:
                        if v[2] is not None:
                            return k(Zc((1 << ty[1]) - 1 - v[2]), s)
                        return k(Zs("(2 ^ %d - 1 - %s)" % (ty[1], v[1])), s)
                    if v[2] is not None:
                        return k(Zc(-v[2] - 1), s)
                    return k(Zs("(- %s - 1)" % v[1]), s)
                raise LeafError("unsupported unary " + op)
            return self.evk(n["inner"][0], st, un)
        if kind == "BinaryOperator":
            op = n["opcode"]
            a, b = n["inner"]
            if op == "=":
                return self.assign(n, st, k)
            if op == ",":
                return self.evk(a, st, lambda _v, s: self.evk(b, s, k))
            if op in ("&&", "||"):
                return self.condk(n, st, lambda s: k(Bc(True), s), lambda s: k(Bc(False), s))

            def with_a(va, s):
                def with_b(vb, s2):
                    if op in ("+", "-") and va[0] == "p":
                        return k(self.padd(va, self.toz(vb), op == "-"), s2)
                    if op == "+" and vb[0] == "p":
                        return k(self.padd(vb, self.toz(va), False), s2)
                    return k(self.binop(n, op, va, vb), s2)
                return self.evk(b, s, with_b)
            return self.evk(a, st, with_a)
        if kind == "CompoundAssignOperator":
            return self.assign(n, st, k)
        if kind == "ConditionalOperator":
            c, a, b = n["inner"]
            return self.condk(c, st, lambda s: self.evk(a, s, k), lambda s: self.evk(b, s, k))
        if kind == "CallExpr":
            return self.call(n, st, k)
        raise LeafError("unsupported expression kind " + str(kind))

    def addr_of(self, lv):
        if lv[0] == "cell" and lv[3] == "":
            return ("p", "arr", lv[1], lv[2])
        if lv[0] == "cellsym" and lv[3] == "":
            return ("p", "arr", lv[1], lv[2])
        if lv[0] == "ls":
            return ("p", "ls", lv[1], lv[2])
        if lv[0] == "loc":
            return ("p", "locaddr", lv[1])
        if lv[0] == "fld":
            return ("p", "fldaddr", lv[1])
        raise LeafError("unsupported address-of")

    def padd(self, p, i, neg):
        if p[1] != "arr":
            raise LeafError("arithmetic on a pointer that is not into an array")
        if isinstance(p[3], int) and i[2] is not None:
            return ("p", "arr", p[2], p[3] - i[2] if neg else p[3] + i[2])
        bt = ("(%d)" % p[3]) if isinstance(p[3], int) else p[3]
        return ("p", "arr", p[2], "(%s %s %s)" % (bt, "-" if neg else "+", i[1]))

    def assign(self, n, st, k):
        lhs, rhs = n["inner"]
        op = n["opcode"]

        def with_lv(lv, s):
            if op == "=":
                def fin(v, s2):
                    self.store(lv, v, s2)
                    return k(v, s2)
                return self.evk(rhs, s, fin)

            def fin2(v, s2):
                cur = self.load(lv, s2)
                fake = {"type": n.get("computeResultType", n["type"])}
                if cur[0] == "p":
                    nv = self.padd(cur, self.toz(v), op[:-1] == "-")
                else:
                    nv = self.binop(fake, op[:-1], cur, v)
                    ty = L.ctype(n)
                    if ty and not ty[0]:
                        nv = self.wrap(n, self.toz(nv))
                self.store(lv, nv, s2)
                return k(nv, s2)
            return self.evk(rhs, s, fin2)
        return self.lvalk(lhs, st, with_lv)

    def incdec(self, n, st, k):
        def with_lv(lv, s):
            cur = self.load(lv, s)
            d = 1 if n["opcode"] == "++" else -1
            if cur[0] == "p":
                nv = self.padd(cur, Zc(1), d < 0)
            else:
                nv = self.binop(n, "+" if d > 0 else "-", cur, Zc(1))
            self.store(lv, nv, s)
            return k(cur if n.get("isPostfix") else nv, s)
        return self.lvalk(n["inner"][0], st, with_lv)

    # ------------------------------------------------------------------ calls
    def callee(self, n):
        c = strip_casts(n["inner"][0])
        if c.get("kind") == "DeclRefExpr":
            return ("fn", c["referencedDecl"]["name"])
        if c.get("kind") == "MemberExpr":
            return ("member", c)
        raise LeafError("indirect call through " + str(c.get("kind")))

    def args_k(self, args, st, k, acc=None):
        acc = acc or []
        if not args:
            return k(acc, st)
        return self.evk(args[0], st, lambda v, s: self.args_k(args[1:], s, k, acc + [v]))

    def havoc(self, st):
        st.k += 1
        st.flagovl = {}
        st.te = None

    def ctx_id(self, v):
        if v[0] == "p" and v[1] == "ctx":
            return v[2]
        if v[0] == "p" and v[1] == "ls":
            return "(sigctx)"
        raise LeafError("callback argument is not a context")

    def call(self, n, st, k):
        kind, c = self.callee(n)
        args = n["inner"][1:]
        if kind == "member":
            name = c.get("name")
            if name in ("cb_read", "cb_close", "cb_clear"):
                def cb1(vs, s):
                    if vs[0] != ("p", "loop"):
                        raise LeafError("callback called with another loop")
                    self.tok(s, {"cb_read": "READ", "cb_close": "CLOSE", "cb_clear": "CLEARCB"}[name], self.ctx_id(vs[1]))
                    self.havoc(s)
                    if name == "cb_read" and s.nadds < self.inst.get("adds", 0):
                        # the read callback may register one more context (muggle_evloop_add_ctx): oracle AD k
                        def yes(s2):
                            s2.nadds += 1
                            self.inst["do_add"](self, s2)
                            return k(Zc(0), s2)
                        return self.branch(Bs("(AD %d)" % s.k), s, yes, lambda s2: k(Zc(0), s2))
                    return k(Zc(0), s)
                return self.args_k(args, st, cb1)
            if name in ("cb_wake", "cb_exit", "cb_timer"):
                def cb2(vs, s):
                    self.tok(s, {"cb_wake": "WAKECB", "cb_exit": "EXITCB", "cb_timer": "TIMERCB"}[name], "0")
                    self.havoc(s)
                    return k(Zc(0), s)
                return self.args_k(args, st, cb2)
            if name == "fn_add_ctx":
                def badd(vs, s):
                    self.tok(s, "BADD", self.ctx_id(vs[1]))
                    return k(Zs("bret"), s)
                return self.args_k(args, st, badd)
            if name == "fn_run":
                def brun(vs, s):
                    self.tok(s, "BRUN", "0")
                    self.havoc(s)
                    return k(Zc(0), s)
                return self.args_k(args, st, brun)
            raise LeafError("call through member " + str(name))
        name = c
        h = getattr(self, "x_" + name, None)
        if h is not None:
            return self.args_k(args, st, lambda vs, s: h(vs, s, k))
        f = self.fn(name)
        if f is None:
            raise LeafError("call of %s: not defined in this file and not a known library function" % name)
        return self.args_k(args, st, lambda vs, s: self.inline(f, vs, s, k))

    def inline(self, f, vs, st, k):
        self.depth += 1
        if self.depth > 12:
            self.depth -= 1
            raise LeafError("call nesting too deep")
        try:
            parms = [p for p in f.get("inner", []) if p.get("kind") == "ParmVarDecl"]
            if len(parms) != len(vs):
                raise LeafError("argument count mismatch calling " + f["name"])
            st.frames.append({p["name"]: v for p, v in zip(parms, vs)})

            def ret(v, s):
                s.frames.pop()
                return k(v if v is not None else Zc(0), s)
            return self.ex([self.body_of(f)], st, Ctx(lambda s: ret(None, s), ret))
        finally:
            self.depth -= 1

    # --- library functions (meaning supplied here; names resolved by getattr "x_<name>")
    def x_muggle_time_counter_init(self, vs, st, k):
        return k(Bc(True), st)

    def x_muggle_time_counter_start(self, vs, st, k):
        return k(Zc(0), st)
    x_muggle_time_counter_end = x_muggle_time_counter_start
    x_muggle_time_counter_move_end_to_start = x_muggle_time_counter_start

    def x_muggle_time_counter_interval_ms(self, vs, st, k):
        return k(Zs("elapsed"), st)

    def x_muggle_event_lasterror(self, vs, st, k):
        return k(Zs("err"), st)

    def x_muggle_thread_current_id(self, vs, st, k):
        return k(self.inst.get("curtid", Zc(7)), st)

    def x_muggle_thread_equal(self, vs, st, k):
        return k(self.binop({"type": {"qualType": "int"}}, "==", vs[0], vs[1]), st)

    def x_muggle_ev_signal_rfd(self, vs, st, k):
        return k(Zs("evfd"), st)

    def x_muggle_ev_signal_clearup(self, vs, st, k):
        self.tok(st, "WAKECLR", "0")
        return k(Zc(1), st)

    def x_muggle_ev_signal_wakeup(self, vs, st, k):
        self.tok(st, "WAKEUP", "0")
        return k(Zc(0), st)

    def x_muggle_evloop_wakeup(self, vs, st, k):
        self.tok(st, "WAKEUP", "0")
        return k(Zc(0), st)

    def x_muggle_evloop_exit(self, vs, st, k):
        if self.fn("muggle_evloop_exit") is not None:
            return self.inline(self.fn("muggle_evloop_exit"), vs, st, k)
        self.tok(st, "EXITREQ", "0")
        st.te = self.const("MUGGLE_EV_LOOP_EXIT_STATUS_EXIT")
        return k(Zc(0), st)

    def x_muggle_ev_ctx_set_flag(self, vs, st, k):
        cid = self.ctx_id(vs[0])
        cur = st.flagovl.get(cid, Zs("(FL %d %s)" % (st.k, cid)))
        self.store(("ctxf", cid, "flags"), self.binop({"type": {"qualType": "int"}}, "|", cur, vs[1]), st)
        return k(Zc(0), st)

    def x_muggle_ev_ctx_init(self, vs, st, k):
        p = vs[0]
        if p[0] == "p" and p[1] == "ls":
            st.ls[p[2]] = {"fd": self.toz(vs[1]), "flags": Zc(0), "data": vs[2]}
            return k(Zc(0), st)
        raise LeafError("muggle_ev_ctx_init on a context that is not a local")

    def x_muggle_ev_fd_set_nonblock(self, vs, st, k):
        self.tok(st, "NONBLOCK", self.toz(vs[0]))
        return k(self.inst.get("nbret", Zc(0)), st)

    def x_muggle_linked_list_init(self, vs, st, k):
        self.tok(st, "LINIT", self.toz(vs[1]))
        return k(Bc(True), st)

    def x_muggle_ev_signal_init(self, vs, st, k):
        self.tok(st, "SIGINIT", "0")
        return k(Zc(0), st)

    def x_muggle_ev_fd_read(self, vs, st, k):
        """the read(2) behind muggle_ev_ctx_read: the first call returns the instance's n, a second one ends the path"""
        if st.kcalls:
            return self.terminal(st, "cont", None)
        st.kcalls += 1
        return k(Zs("n"), st)

    def x_muggle_linked_list_first(self, vs, st, k):
        return k(("p", "node", st.clist[0]) if st.clist else NULL, st)

    def x_muggle_linked_list_next(self, vs, st, k):
        nd = vs[1]
        if nd[0] != "p" or nd[1] != "node":
            raise LeafError("muggle_linked_list_next of something that is not a node")
        if nd[2] not in st.clist:
            raise LeafError("muggle_linked_list_next of a node that was removed from ctx_list")
        i = st.clist.index(nd[2])
        return k(("p", "node", st.clist[i + 1]) if i + 1 < len(st.clist) else NULL, st)

    def x_muggle_linked_list_remove(self, vs, st, k):
        nd = vs[1]
        if nd[0] != "p" or nd[1] != "node":
            raise LeafError("muggle_linked_list_remove of something that is not a node")
        self.tok(st, "LREM", nd[2])
        nxt = NULL
        if nd[2] in st.clist:
            i = st.clist.index(nd[2])
            if i + 1 < len(st.clist):
                nxt = ("p", "node", st.clist[i + 1])
            st.clist.pop(i)
        return k(nxt, st)

    def x_muggle_linked_list_append(self, vs, st, k):
        cid = self.ctx_id(vs[2])
        self.tok(st, "LAPPEND", cid)
        st.clist.append(cid)
        return k(("p", "node", cid), st)

    def x_malloc(self, vs, st, k):
        st.nmalloc += 1
        name = "heap%d" % st.nmalloc
        self.tok(st, "MALLOC", self.toz(vs[0]))
        st.arr[name] = {"cells": [{} for _ in range(self.inst.get("heap_cells", 4))], "default": None, "symw": [], "heap": True}
        return k(("p", "arr", name, 0), st)

    def x_free(self, vs, st, k):
        return k(Zc(0), st)

    def x_muggle_evloop_destroy(self, vs, st, k):
        raise LeafError("the failure path of an init function is reached in the success scenario")

    def x_epoll_create(self, vs, st, k):
        self.tok(st, "EPCREATE", self.toz(vs[0]))
        return k(Zc(3), st)

    def x_memset(self, vs, st, k):
        p, v = vs[0], self.toz(vs[1])
        if p[0] == "p" and p[1] == "ls":
            o = st.ls.setdefault(p[2], {})
            for key in list(o):
                if not key.startswith("__"):
                    del o[key]
            o["__zero"] = v
            return k(p, st)
        if p[0] == "p" and p[1] == "arr":
            a = st.arr[p[2]]
            if isinstance(p[3], int) and vs[2][2] is not None and not a.get("heap"):
                raise LeafError("memset of a table of the loop")
            a["default"] = v
            if isinstance(p[3], int):
                for c in a["cells"]:
                    if isinstance(c, dict):
                        c.clear()
            return k(p, st)
        raise LeafError("unsupported memset target")

    def x_memcpy(self, vs, st, k):
        d, s_, nbytes = vs[0], vs[1], self.toz(vs[2])
        if d[0] == "p" and s_[0] == "p" and d[1] == "arr" and s_[1] == "arr" and d[2] == s_[2]:
            if not (isinstance(d[3], int) and isinstance(s_[3], int)):
                raise LeafError("memcpy between cells at symbolic indices")
            esz = self.inst.get("elem_size", {}).get(d[2])
            if esz is None or nbytes[2] is None or nbytes[2] % esz != 0:
                raise LeafError("memcpy of %s bytes between cells of %s" % (nbytes[1], d[2]))
            cells = st.arr[d[2]]["cells"]
            for j in range(nbytes[2] // esz):
                self.cell(st, d[2], d[3] + j)
                self.cell(st, d[2], s_[3] + j)
                cells[d[3] + j] = copy.deepcopy(cells[s_[3] + j])
            return k(d, st)
        if d[0] == "p" and s_[0] == "p" and d[1] == "ls" and s_[1] == "ls":
            st.ls[d[2]] = copy.deepcopy(st.ls.get(s_[2], {}))
            return k(d, st)
        raise LeafError("unsupported memcpy")

    # fd sets (harness/c13_slice_shim.h)
    def fdset_of(self, p, st):
        if p[0] == "p" and p[1] == "ls":
            o = st.ls.setdefault(p[2], {})
            if "__members" not in o:
                o["__members"] = []
                o["__oracle"] = None
            return o
        raise LeafError("fd_set operand is not a known set")

    def x_c13_fd_zero(self, vs, st, k):
        o = self.fdset_of(vs[0], st)
        o["__members"], o["__oracle"] = [], None
        if vs[0][2] == "@allset":
            self.tok(st, "FDZERO", "0")
        return k(Zc(0), st)

    def x_c13_fd_set(self, vs, st, k):
        o = self.fdset_of(vs[1], st)
        fd = self.toz(vs[0])[1]
        if fd not in o["__members"]:
            o["__members"].append(fd)
        if vs[1][2] == "@allset":
            self.tok(st, "FDSET", fd)
        return k(Zc(0), st)

    def x_c13_fd_clr(self, vs, st, k):
        o = self.fdset_of(vs[1], st)
        fd = self.toz(vs[0])[1]
        if fd in o["__members"]:
            o["__members"].remove(fd)
        if vs[1][2] == "@allset":
            self.tok(st, "FDCLR", fd)
        return k(Zc(0), st)

    def x_c13_fd_isset(self, vs, st, k):
        o = self.fdset_of(vs[1], st)
        fd = self.toz(vs[0])[1]
        if fd not in o["__members"]:
            return k(Bc(False), st)
        if o.get("__oracle"):
            return k(Bs("(%s %s)" % (o["__oracle"], fd)), st)
        return k(Bc(True), st)

    # kernel calls
    def second_kernel_call(self, st):
        return self.terminal(st, "cont", None)

    def x_poll(self, vs, st, k):
        if vs[0] != ("p", "arr", "fds", 0):
            raise LeafError("poll is not called on the loop's pollfd table")
        self.tok(st, "KPOLL", self.toz(vs[1]))
        self.tok(st, "KTMO", self.toz(vs[2]))
        if st.kcalls:
            return self.second_kernel_call(st)
        st.kcalls += 1
        for j, c in enumerate(st.arr["fds"]["cells"]):
            c["revents"] = Zs("r%d" % j)
        return k(Zs("n"), st)

    def x_select(self, vs, st, k):
        self.tok(st, "KSEL", self.toz(vs[0]))
        o = self.fdset_of(vs[1], st)
        for fd in self.inst["universe"]:
            self.tok(st, "KWATCH", "(%d)" % (1 if fd in o["__members"] else 0))
        if vs[2] != NULL or vs[3] != NULL:
            raise LeafError("select with a write / except set")
        tv = vs[4]
        if tv == NULL:
            self.tok(st, "KTMO", "(-1)")
        elif tv[0] == "p" and tv[1] == "ls":
            o2 = st.ls.get(tv[2], {})
            if "tv_sec" not in o2 or "tv_usec" not in o2:
                raise LeafError("select with a timeout whose fields are not set")
            # microseconds handed to the kernel
            self.tok(st, "KTMO", "(%s * 1000000 + %s)" % (self.ztext(self.toz(o2["tv_sec"])), self.ztext(self.toz(o2["tv_usec"]))))
        else:
            raise LeafError("select with an unknown timeout object")
        if st.kcalls:
            return self.second_kernel_call(st)
        st.kcalls += 1
        o["__oracle"] = "RS"
        if tv != NULL:
            # Linux leaves the time not slept in the timeval
            st.ls[tv[2]]["tv_sec"], st.ls[tv[2]]["tv_usec"] = Zs("ktv_sec"), Zs("ktv_usec")
        return k(Zs("n"), st)

    def x_epoll_wait(self, vs, st, k):
        if vs[1] != ("p", "arr", "events", 0):
            raise LeafError("epoll_wait is not called on the loop's event array")
        self.tok(st, "KEPOLL", self.toz(vs[2]))
        self.tok(st, "KTMO", self.toz(vs[3]))
        if st.kcalls:
            return self.second_kernel_call(st)
        st.kcalls += 1
        batch = self.inst["batch"]
        if batch is None:
            return k(Zc(-1), st)
        for j, kindj in enumerate(batch):
            ptr = ("p", "ls", "signal_node", "") if kindj == "S" else ("p", "node", "p%d" % (j + 1))
            st.arr["events"]["cells"][j] = {"events": Zs("e%d" % (j + 1)), "data.ptr": ptr}
        return k(Zc(len(batch)), st)

    def x_epoll_ctl(self, vs, st, k):
        op = self.toz(vs[1])
        fd = self.toz(vs[2])
        if op[2] == self.consts.get("EPOLL_CTL_DEL"):
            self.tok(st, "EPDEL", fd)
            return k(Zc(0), st)
        if op[2] == self.consts.get("EPOLL_CTL_ADD"):
            ev = vs[3]
            if ev[0] != "p" or ev[1] != "ls":
                raise LeafError("EPOLL_CTL_ADD with an event that is not a local")
            o = st.ls.get(ev[2], {})
            if "events" not in o or "data.ptr" not in o:
                raise LeafError("EPOLL_CTL_ADD with an event whose events / data.ptr are not set")
            self.tok(st, "EPADD", fd)
            self.tok(st, "EPMASK", self.toz(o["events"]))
            dp = o["data.ptr"]
            if not (dp[0] == "p" and dp[1] in ("node", "ls", "nodearg")):
                raise LeafError("EPOLL_CTL_ADD: data.ptr is not the list node")
            st.fld["@last_add_ptr"] = dp
            return k(self.inst.get("ctl_add_ret", Zc(0)), st)
        raise LeafError("epoll_ctl with an unknown operation")

    # ------------------------------------------------------------------ statements
    def ex(self, ss, st, K):
        if not ss:
            return K.fall(st)
        s, R = ss[0], list(ss[1:])
        if not s:
            return self.ex(R, st, K)
        kind = s.get("kind")

        def nxt(s2):
            return self.ex(R, s2, K)
        if kind == "CompoundStmt":
            return self.ex(list(s.get("inner", [])) + R, st, K)
        if kind == "NullStmt":
            return nxt(st)
        if kind == "DeclStmt":
            return self.decls(list(s.get("inner", [])), st, nxt)
        if kind == "ReturnStmt":
            inner = s.get("inner", [])
            if inner:
                return self.evk(inner[0], st, lambda v, s2: K.ret(v, s2))
            return K.ret(None, st)
        if kind == "IfStmt":
            inner = s["inner"]
            th = inner[1]
            el = inner[2] if len(inner) > 2 else None
            return self.condk(inner[0], st, lambda s2: self.ex([th] + R, s2, K),
                              lambda s2: self.ex(([el] if el else []) + R, s2, K))
        if kind == "WhileStmt":
            return self.loop(None, s["inner"][-2], None, s["inner"][-1], R, st, K, False)
        if kind == "DoStmt":
            return self.loop(None, s["inner"][1], None, s["inner"][0], R, st, K, True)
        if kind == "ForStmt":
            init, _cv, cond, inc, body = [(c if c else None) for c in s["inner"]]
            return self.loop(init, cond, inc, body, R, st, K, False)
        if kind == "BreakStmt":
            if K.brk is None:
                raise LeafError("break outside a loop")
            return K.brk(st)
        if kind == "ContinueStmt":
            if K.cont is None:
                raise LeafError("continue outside a loop")
            return K.cont(st)
        if kind == "LabelStmt":
            return self.ex(list(s.get("inner", [])) + R, st, K)
        if kind == "GotoStmt":
            raise LeafError("goto reached on a path of the success scenario")
        return self.evk(s, st, lambda _v, s2: nxt(s2))

    def decls(self, ds, st, k):
        if not ds:
            return k(st)
        d, rest = ds[0], ds[1:]
        if d.get("kind") != "VarDecl":
            raise LeafError("unsupported declaration " + str(d.get("kind")))
        t = dq(d)
        init = d.get("inner", [])
        nm = d["name"]
        if L.ctype(d) is not None or is_ptr_type(t) or is_ptr_type(qt(d)):
            if init:
                def fin(v, s):
                    s.loc()[nm] = v
                    return self.decls(rest, s, k)
                return self.evk(init[-1], st, fin)
            st.loc()[nm] = None
            return self.decls(rest, st, k)
        # struct-typed local: an object of its own
        st.uid += 1
        obj = "%s" % nm
        st.loc()["@" + nm] = obj
        st.ls[obj] = {}
        if init:
            raise LeafError("struct local %s with an initialiser" % nm)
        return self.decls(rest, st, k)

    def loop(self, init, cond, inc, body, R, st, K, do_first):
        def after(s):
            return self.ex(R, s, K)

        def step(s, fuel):
            if inc is None:
                return iterate(s, fuel - 1, True)
            return self.evk(inc, s, lambda _v, s2: iterate(s2, fuel - 1, True))

        def iterate(s, fuel, check):
            if fuel == 0:
                raise LeafError("a loop does not provably exit within %d iterations" % FUEL)

            def run_body(s2):
                return self.ex([body], s2, Ctx(lambda s3: step(s3, fuel), K.ret, after, lambda s3: step(s3, fuel)))
            if not check or cond is None:
                return run_body(s)
            return self.condk(cond, s, run_body, after)

        def start(s):
            sm = self.summary_loop(cond, inc, body, s)
            if sm is not None:
                return after(sm)
            return iterate(s, FUEL, not do_first)
        if init is not None:
            return self.ex([init], st, Ctx(start, K.ret))
        return start(st)

    def summary_loop(self, cond, inc, body, st):
        """for (i = 0; i < N; i++) with a symbolic N whose body only initialises cells of malloc'ed arrays:
        summarised as 'every cell gets the default' (returns the state after the loop, or None)."""
        if cond is None or inc is None:
            return None
        c = strip_parens(cond)
        if c.get("kind") != "BinaryOperator" or c.get("opcode") not in ("<", "!="):
            return None
        lhs = strip_casts(c["inner"][0])
        if lhs.get("kind") != "DeclRefExpr":
            return None
        iv = lhs["referencedDecl"]["name"]
        cur = st.loc().get(iv)
        if cur is None or cur[0] != "z" or cur[2] != 0:
            return None
        probe = st.copy()
        bound = []
        try:
            self.evk(c["inner"][1], probe, lambda v, s: bound.append(v) or "")
        except LeafError:
            return None
        if not bound or bound[0][0] != "z" or bound[0][2] is not None:
            return None
        s2 = st.copy()
        s2.loc()[iv] = Zs("?%s" % iv)
        ntr = len(s2.tr)
        done = []
        self.ex([body], s2, Ctx(lambda s3: done.append(s3) or "", lambda v, s3: "", None, None))
        if len(done) != 1 or len(done[0].tr) != ntr:
            raise LeafError("loop with a symbolic bound whose body is not a plain initialisation")
        s3 = done[0]
        for a in s3.arr.values():
            if a["symw"]:
                if not a.get("heap"):
                    raise LeafError("loop with a symbolic bound writes a table of the loop")
                vals = set(v for (_i, _m, v) in a["symw"])
                if len(vals) != 1:
                    raise LeafError("loop with a symbolic bound stores different values")
                v = vals.pop()
                a["default"] = Zc(0) if v == NULL else v
                a["symw"] = []
        s3.loc()[iv] = bound[0]
        return s3

    # ------------------------------------------------------------------ entry
    def terminal(self, st, how, retv):
        self.nleaves += 1
        if self.nleaves > 6000:
            raise LeafError("more than 6000 paths")
        obs = self.inst["observe"](self, st, how, retv)
        return "(%s, %s)" % (zlist(st.tr), obs)

    def run(self, name, st, argvals):
        f = self.fn(name)
        if f is None:
            raise LeafError("function %s with a body not found in %s" % (name, self.src))
        parms = [p for p in f.get("inner", []) if p.get("kind") == "ParmVarDecl"]
        if len(parms) != len(argvals):
            raise LeafError("parameter list of %s changed" % name)
        st.frames = [{p["name"]: v for p, v in zip(parms, argvals)}]
        return self.ex([self.body_of(f)], st, Ctx(lambda s: self.terminal(s, "ret", None),
                                                  lambda v, s: self.terminal(s, "ret", v)))


# ---------------------------------------------------------------------------------------------------
# instances

def zlist(xs):
    return ("[%s]" % "; ".join(xs)) if xs else "(@nil Z)"


ALLCB = ("cb_read", "cb_close", "cb_wake", "cb_clear", "cb_exit")


def base_state(consts, cbs=ALLCB, timer=False):
    """cbs: the callbacks that are installed (the others are NULL); timer: evloop->timeout is the symbolic tmo and
    cb_timer is installed (otherwise timeout = -1 and cb_timer = NULL, as muggle_evloop_new leaves them)"""
    st = St()
    st.fld.update({"timeout": Zs("tmo") if timer else Zc(-1), "ctx_list": ("p", "list"),
                   "ev_signal": ("p", "sig"), "tid": Zc(7)})
    for cb in ALLCB + ("cb_timer",):
        on = (cb in cbs) or (cb == "cb_timer" and timer)
        st.fld[cb] = ("p", "fn", cb) if on else NULL
    return st


def retz(sx, v):
    if v is None:
        return "0"
    return sx.ztext(sx.toz(v))


def node_id(v):
    if v == NULL:
        return "0"
    if isinstance(v, tuple) and v[0] == "p" and v[1] == "node":
        return v[2]
    raise LeafError("poll node table holds something that is not a node")


def poll_run(nfd, adds=1, cbs=ALLCB, timer=False):
    """muggle_evloop_run_poll on a table of nfd slots (slot 0 = signal fd); a read callback may register one more
    context (what muggle_evloop_add_ctx_poll does to the table: gen_add_ctx_poll)"""
    cap = nfd + adds

    def do_add(sx, st):
        n = st.fld["nfd"]
        if n[2] is None or n[2] >= cap:
            raise LeafError("registration from a callback: nfd is not a constant below the capacity")
        new = "(NW %d)" % st.k
        st.arr["fds"]["cells"][n[2]] = {"fd": Zs("(fdof %s)" % new), "events": Zc(sx.consts.get("POLLIN", 1)),
                                        "revents": Zs("(NS %d)" % st.k)}
        st.arr["nodes"]["cells"][n[2]] = ("p", "node", new)
        st.fld["nfd"] = Zc(n[2] + 1)
        st.clist.append(new)

    def observe(sx, st, how, retv):
        n = st.fld["nfd"]
        if n[2] is None or n[2] < 0 or n[2] > cap:
            raise LeafError("nfd is not a constant inside the table at the end of a path (%s)" % n[1])
        cells, nodes = st.arr["fds"]["cells"], st.arr["nodes"]["cells"]
        return "(%s, %s, %s, %s, %s)" % (
            "1" if how == "ret" else "0", n[1],
            zlist([node_id(nodes[j]) for j in range(n[2])]),
            zlist([sx.ztext(cells[j]["fd"]) for j in range(n[2])]),
            zlist([sx.ztext(cells[j]["revents"]) for j in range(n[2])]))

    def mk(consts):
        st = base_state(consts, cbs, timer)
        st.fld.update({"nfd": Zc(nfd), "capcity": Zc(cap), "fds": ("p", "arr", "fds", 0), "nodes": ("p", "arr", "nodes", 0)})
        st.arr["fds"] = {"cells": [{"fd": Zs("evfd") if j == 0 else Zs("d%d" % j), "events": Zc(consts.get("POLLIN", 1)),
                                    "revents": Zs("stale%d" % j)} for j in range(cap)], "default": None, "symw": []}
        st.arr["nodes"] = {"cells": [("p", "node", "a%d" % j) if 1 <= j < nfd else NULL for j in range(cap)],
                           "default": None, "symw": []}
        st.clist = ["a%d" % j for j in range(1, nfd)]
        return st, [("p", "loop")]
    params = ["(FL : Z -> Z -> Z)", "(TE : Z -> Z)", "(AD : Z -> bool)", "(NW : Z -> Z)", "(NS : Z -> Z)", "(fdof : Z -> Z)"] + \
             ["(%s : Z)" % x for x in ["evfd"] + ["a%d" % j for j in range(1, nfd)] + ["d%d" % j for j in range(1, nfd)] +
              ["r%d" % j for j in range(cap)] + ["n", "err"] + (["tmo", "elapsed"] if timer else [])]
    return {"fn": "muggle_evloop_run_poll", "mk": mk, "observe": observe, "params": params, "adds": adds, "do_add": do_add,
            "elem_size": {"fds": "struct pollfd", "nodes": "void *"}}


def epoll_run(tag, batch, cbs=ALLCB, timer=False):
    """muggle_evloop_run_epoll with one epoll_wait batch (C = a context's node, S = the signal node; None = -1)"""
    def observe(sx, st, how, retv):
        return "1" if how == "ret" else "0"

    def mk(consts):
        st = base_state(consts, cbs, timer)
        st.fld.update({"epfd": Zs("epfd"), "capacity": Zs("cap"), "events": ("p", "arr", "events", 0)})
        st.arr["events"] = {"cells": [{} for _ in range(3)], "default": None, "symw": []}
        st.clist = ["p%d" % (j + 1) for j, kd in enumerate(batch or []) if kd == "C"]
        return st, [("p", "loop")]
    params = ["(FL : Z -> Z -> Z)", "(TE : Z -> Z)", "(fdof : Z -> Z)"] + \
             ["(%s : Z)" % x for x in ["evfd", "epfd", "cap", "p1", "p2", "e1", "e2", "err"] + (["tmo", "elapsed"] if timer else [])]
    return {"fn": "muggle_evloop_run_epoll", "mk": mk, "observe": observe, "params": params, "batch": batch,
            "elem_size": {"events": "struct epoll_event"}, "tag": tag}


def select_run(m, cbs=ALLCB, timer=False):
    """muggle_evloop_run_select on a ctx_list of m contexts"""
    ids = ["c%d" % j for j in range(1, m + 1)]
    universe = ["evfd"] + ["(fdof %s)" % c for c in ids]

    def observe(sx, st, how, retv):
        o = st.ls.get("@allset", {})
        mem = o.get("__members", [])
        for x in mem:
            if x not in universe:
                raise LeafError("allset holds a descriptor that is not of this instance: " + x)
        return "(%s, %s, %s, %s)" % ("1" if how == "ret" else "0", sx.ztext(st.fld["nfds"]),
                                     zlist(["(%d)" % (1 if u in mem else 0) for u in universe]), zlist(st.clist))

    def mk(consts):
        st = base_state(consts, cbs, timer)
        st.fld.update({"nfds": Zs("nf0")})
        st.ls["@allset"] = {"__members": list(universe), "__oracle": None}
        st.clist = list(ids)
        return st, [("p", "loop")]
    params = ["(FL : Z -> Z -> Z)", "(TE : Z -> Z)", "(RS : Z -> bool)", "(fdof : Z -> Z)"] + \
             ["(%s : Z)" % x for x in ["evfd", "nf0"] + ids + ["n", "err"] +
              (["tmo", "elapsed", "ktv_sec", "ktv_usec"] if timer else [])]
    return {"fn": "muggle_evloop_run_select", "mk": mk, "observe": observe, "params": params, "universe": universe}


def add_ctx_poll():
    def observe(sx, st, how, retv):
        w = sorted((m, i, sx.ztext(sx.toz(v)) if v[0] != "p" else node_id(v)) for (i, m, v) in st.arr["fds"]["symw"]) + \
            sorted(("node" + m, i, node_id(v)) for (i, m, v) in st.arr["nodes"]["symw"])
        want = ["events", "fd", "node"]
        if [x[0] for x in w] != want and w:
            raise LeafError("add_ctx_poll stores %s" % [x[0] for x in w])
        idxs = set(x[1] for x in w)
        if len(idxs) > 1:
            raise LeafError("add_ctx_poll stores at different indices")
        if not w:
            return "(%s, %s, [])" % (retz(sx, retv), sx.ztext(st.fld["nfd"]))
        return "(%s, %s, %s)" % (retz(sx, retv), sx.ztext(st.fld["nfd"]), zlist([idxs.pop()] + [x[2] for x in w]))

    def mk(consts):
        st = base_state(consts)
        st.fld.update({"nfd": Zs("nfd"), "capcity": Zs("cap"), "fds": ("p", "arr", "fds", 0), "nodes": ("p", "arr", "nodes", 0)})
        st.arr["fds"] = {"cells": [], "default": None, "symw": []}
        st.arr["nodes"] = {"cells": [], "default": None, "symw": []}
        return st, [("p", "loop"), ("p", "ctx", "c"), ("p", "node", "c")]
    return {"fn": "muggle_evloop_add_ctx_poll", "mk": mk, "observe": observe,
            "params": ["(fdof : Z -> Z)", "(nfd : Z)", "(cap : Z)", "(c : Z)"]}


def add_ctx_select():
    universe = ["evfd", "(fdof c)"]

    def observe(sx, st, how, retv):
        mem = st.ls.get("@allset", {}).get("__members", [])
        return "(%s, %s, %s)" % (retz(sx, retv), sx.ztext(st.fld["nfds"]), zlist(["(%d)" % (1 if u in mem else 0) for u in universe]))

    def mk(consts):
        st = base_state(consts)
        st.fld.update({"nfds": Zs("nf0")})
        st.ls["@allset"] = {"__members": ["evfd"], "__oracle": None}
        return st, [("p", "loop"), ("p", "ctx", "c"), ("p", "node", "c")]
    return {"fn": "muggle_evloop_add_ctx_select", "mk": mk, "observe": observe,
            "params": ["(fdof : Z -> Z)", "(evfd : Z)", "(nf0 : Z)", "(c : Z)"], "universe": universe}


def add_ctx_epoll():
    def observe(sx, st, how, retv):
        dp = st.fld.get("@last_add_ptr")
        return "(%s, %s)" % (retz(sx, retv), "1" if dp == ("p", "node", "c") else "0")

    def mk(consts):
        st = base_state(consts)
        st.fld.update({"epfd": Zs("epfd")})
        return st, [("p", "loop"), ("p", "ctx", "c"), ("p", "node", "c")]
    return {"fn": "muggle_evloop_add_ctx_epoll", "mk": mk, "observe": observe, "ctl_add_ret": Zs("ctlret"),
            "params": ["(fdof : Z -> Z)", "(epfd : Z)", "(c : Z)", "(ctlret : Z)"]}


def init_poll():
    def observe(sx, st, how, retv):
        f = st.fld.get("fds")
        if not (f and f[0] == "p" and f[1] == "arr" and f[3] == 0):
            raise LeafError("init_poll leaves no pollfd table")
        c0 = st.arr[f[2]]["cells"][0]
        nd = st.fld.get("nodes")
        if not (nd and nd[0] == "p" and nd[1] == "arr" and nd[3] == 0 and nd[2] != f[2]):
            raise LeafError("init_poll leaves no node table")
        for key in ("fd", "events"):
            if key not in c0:
                raise LeafError("init_poll does not set fds[0].%s" % key)
        return "(%s, %s, %s, %s, %s)" % (retz(sx, retv), sx.ztext(st.fld["capcity"]), sx.ztext(st.fld["nfd"]),
                                         sx.ztext(c0["fd"]), sx.ztext(c0["events"]))

    def mk(consts):
        st = base_state(consts)
        st.args = {"hints_max_fd": Zs("hints"), "evloop_type": Zs("ty"), "use_mem_pool": Zs("pool")}
        st.fld.update({"fds": NULL, "nodes": NULL})
        return st, [("p", "loop"), ("p", "args")]
    return {"fn": "muggle_evloop_init_poll", "mk": mk, "observe": observe, "params": ["(evfd : Z)", "(hints : Z)"]}


def init_epoll():
    def observe(sx, st, how, retv):
        ev = st.fld.get("events")
        if not (ev and ev[0] == "p" and ev[1] == "arr"):
            raise LeafError("init_epoll leaves no event array")
        return "(%s, %s, %s)" % (retz(sx, retv), sx.ztext(st.fld["capacity"]), sx.ztext(st.fld["epfd"]))

    def mk(consts):
        st = base_state(consts)
        st.args = {"hints_max_fd": Zs("hints"), "evloop_type": Zs("ty"), "use_mem_pool": Zs("pool")}
        st.fld.update({"events": NULL, "epfd": Zc(0)})
        return st, [("p", "loop"), ("p", "args")]
    return {"fn": "muggle_evloop_init_epoll", "mk": mk, "observe": observe, "params": ["(hints : Z)"]}


def init_select():
    universe = ["evfd"]

    def observe(sx, st, how, retv):
        mem = st.ls.get("@allset", {}).get("__members", [])
        for x in mem:
            if x not in universe:
                raise LeafError("init_select puts %s into allset" % x)
        return "(%s, %s, %s)" % (retz(sx, retv), sx.ztext(st.fld["nfds"]), zlist(["(%d)" % (1 if u in mem else 0) for u in universe]))

    def mk(consts):
        st = base_state(consts)
        st.args = {"hints_max_fd": Zs("hints"), "evloop_type": Zs("ty"), "use_mem_pool": Zs("pool")}
        st.fld.update({"nfds": Zs("garbage")})
        st.ls["@allset"] = {"__members": ["garbagefd"], "__oracle": None}
        return st, [("p", "loop"), ("p", "args")]
    return {"fn": "muggle_evloop_init_select", "mk": mk, "observe": observe, "params": ["(evfd : Z)", "(hints : Z)", "(garbage : Z)"],
            "universe": universe}


def loop_add_ctx():
    """muggle_evloop_add_ctx of event_loop.c (the back-end's answer is the argument bret; the calling thread and the
    result of muggle_ev_fd_set_nonblock are arguments too)"""
    def observe(sx, st, how, retv):
        return "(%s, %s)" % (retz(sx, retv), zlist(st.clist))

    def mk(consts):
        st = base_state(consts)
        st.fld.update({"evloop_type": Zs("ty"), "tid": Zs("tid")})
        st.clist = ["c0"]
        return st, [("p", "loop"), ("p", "ctx", "c")]
    return {"fn": "muggle_evloop_add_ctx", "mk": mk, "observe": observe, "curtid": Zs("cur"), "nbret": Zs("nbret"),
            "params": ["(fdof : Z -> Z)", "(ty : Z)", "(tid : Z)", "(cur : Z)", "(nbret : Z)", "(c0 : Z)", "(c : Z)", "(bret : Z)"]}


def loop_init():
    """muggle_evloop_init of event_loop.c, success path: the default of hints_max_fd, the node pool capacity, no timer"""
    def observe(sx, st, how, retv):
        return "(%s, %s, %s)" % (retz(sx, retv), sx.ztext(sx.toz(st.args["hints_max_fd"])), sx.ztext(sx.toz(st.fld["timeout"])))

    def mk(consts):
        st = base_state(consts)
        st.args = {"hints_max_fd": Zs("hints"), "evloop_type": Zs("ty"), "use_mem_pool": Zs("pool")}
        st.fld.update({"ctx_list": NULL, "ev_signal": NULL, "timeout": Zs("garbage")})
        return st, [("p", "loop"), ("p", "args")]
    return {"fn": "muggle_evloop_init", "mk": mk, "observe": observe,
            "params": ["(hints : Z)", "(pool : Z)", "(garbage : Z)"]}


def ctx_read():
    """muggle_ev_ctx_read of event_context.c: result n of the read(2) behind muggle_ev_fd_read, errno err"""
    def observe(sx, st, how, retv):
        return "(%s, %s)" % ("1" if how == "cont" else "0", "0" if how == "cont" else retz(sx, retv))

    def mk(consts):
        st = base_state(consts)
        return st, [("p", "ctx", "c"), ("p", "opaque"), Zs("len")]
    return {"fn": "muggle_ev_ctx_read", "mk": mk, "observe": observe,
            "params": ["(FL : Z -> Z -> Z)", "(fdof : Z -> Z)", "(c : Z)", "(len : Z)", "(n : Z)", "(err : Z)"]}


def loop_run(m, cbs=ALLCB):
    """muggle_evloop_run of event_loop.c with m contexts left on ctx_list when the back-end returns"""
    ids = ["c%d" % j for j in range(1, m + 1)]

    def observe(sx, st, how, retv):
        return "(%s)" % zlist(st.clist)

    def mk(consts):
        st = base_state(consts, cbs)
        st.fld.update({"evloop_type": Zs("ty")})
        st.clist = list(ids)
        return st, [("p", "loop")]
    return {"fn": "muggle_evloop_run", "mk": mk, "observe": observe,
            "params": ["(FL : Z -> Z -> Z)", "(TE : Z -> Z)", "(ty : Z)"] + ["(%s : Z)" % c for c in ids]}


def translate(src, cflags, consts, sizeofs, inst, gname):
    """-> Gallina definition text of one instance"""
    inst = dict(inst)
    if "elem_size" in inst:
        inst["elem_size"] = {k: sizeofs.get(v) for k, v in inst["elem_size"].items()}
    sx = Sx(src, cflags, consts, sizeofs, inst)
    st, argv = inst["mk"](consts)
    box = {}

    def work():
        try:
            box["code"] = sx.run(inst["fn"], st, argv)
        except BaseException as e:      # re-raised in the caller's thread
            box["exc"] = e
    import sys
    import threading
    old = sys.getrecursionlimit()
    sys.setrecursionlimit(200000)
    threading.stack_size(512 * 1024 * 1024)
    try:
        t = threading.Thread(target=work)
        t.start()
        t.join()
    finally:
        sys.setrecursionlimit(old)
        threading.stack_size(0)
    if "exc" in box:
        raise box["exc"]
    return "Definition %s %s :=\n %s.\n" % (gname, " ".join(inst["params"]), box["code"]), sx.nleaves
