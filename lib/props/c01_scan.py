"""C01 — source scan (an ADDITIONAL obligation, not a proof about the C code): channel.c,
array_blocking_queue.c and double_buffer.c must treat a message as an OPAQUE void*.

AST based (clang -Xclang -ast-dump=json of the whole translation unit as compiled for the drivers), so
that every way of LOOKING AT a payload value is seen, not only == != < >:

  payload value  = a member named `data` (muggle_channel_block_t), an element of a member named `datas`
                   (array blocking queue, single buffer), a `void *` parameter of one of the scanned
                   functions, a local variable initialised / assigned from a payload value, the same
                   behind parentheses and pointer casts;
  reported uses  = operand of any binary operator other than `=` and `,` (comparisons, arithmetic, bit
                   operations, && ||), of a compound assignment, of a unary operator (! * - ~ ++ -- &),
                   conversion to a truth value or to an integer (`if (d)`, `while (d)`, `d ? a : b`,
                   `(uintptr_t)d`), condition of if / while / do / for / ?: / switch, base of -> or [],
                   argument of a call of anything that is not one of the scanned functions or a function
                   pointer member of the structure (memcmp, free, helpers of other files);
  allowed        = storing it into a slot / a local, returning it, handing it to fn_write or to another
                   scanned function (whose parameter is then scanned there).

Returns (hits, error): hits is a list of "file:line: what"; error is a string when the AST could not
be obtained (the obligation then FAILS: never a silent skip)."""
import json
import os
import subprocess
import vcommon as V

FILES = ["muggle/c/sync/channel.c", "muggle/c/sync/array_blocking_queue.c", "muggle/c/sync/double_buffer.c"]
PREFIXES = ("muggle_channel_", "muggle_array_blocking_queue_", "muggle_double_buffer_", "muggle_single_buffer_")
TRANSPARENT_CASTS = ("NoOp", "LValueToRValue", "BitCast", "NullToPointer")


def _ast(path):
    cmd = ["clang", "-fsyntax-only", "-w", "-std=gnu11", "-DNDEBUG", "-I" + V.REPO, "-I" + V.GEN_INC,
           "-Xclang", "-ast-dump=json", path]
    r = subprocess.run(cmd, capture_output=True, text=True, timeout=120)
    if r.returncode != 0 or not r.stdout:
        raise RuntimeError("clang: %s" % (r.stderr or "no output")[:300])
    return json.loads(r.stdout)


def _strip(n):
    while n.get("kind") in ("ParenExpr", "ImplicitCastExpr", "CStyleCastExpr") and n.get("inner") and \
            (n["kind"] == "ParenExpr" or n.get("castKind") in TRANSPARENT_CASTS):
        n = n["inner"][-1]
    return n


def _qt(n):
    return n.get("type", {}).get("qualType", "")


class _Fn:
    def __init__(self, fname, node, scanned_names):
        self.fname, self.node, self.scanned = fname, node, scanned_names
        self.tainted = set()
        self.hits = []
        self.line = 0
        for p in node.get("inner", []):
            if p.get("kind") == "ParmVarDecl" and _qt(p).replace(" ", "") in ("void*", "constvoid*"):
                self.tainted.add(p.get("id"))

    # ---- payload-valued expressions
    def is_payload(self, n):
        n = _strip(n)
        k = n.get("kind")
        if k == "MemberExpr" and n.get("name") == "data":
            return True
        if k == "ArraySubscriptExpr":
            base = _strip(n["inner"][0])
            if base.get("kind") == "MemberExpr" and base.get("name") == "datas":
                return True
        if k == "DeclRefExpr" and n.get("referencedDecl", {}).get("id") in self.tainted:
            return True
        return False

    def collect_taint(self, n):
        changed = False
        k = n.get("kind")
        if k == "VarDecl" and n.get("inner"):
            init = n["inner"][-1]
            if init.get("kind", "").endswith("Expr") or init.get("kind") in ("BinaryOperator", "ConditionalOperator"):
                if self.is_payload(init) and n.get("id") not in self.tainted:
                    self.tainted.add(n.get("id"))
                    changed = True
        if k == "BinaryOperator" and n.get("opcode") == "=":
            lhs, rhs = _strip(n["inner"][0]), n["inner"][1]
            if self.is_payload(rhs) and lhs.get("kind") == "DeclRefExpr":
                i = lhs.get("referencedDecl", {}).get("id")
                if i not in self.tainted:
                    self.tainted.add(i)
                    changed = True
        for c in n.get("inner", []):
            if isinstance(c, dict) and self.collect_taint(c):
                changed = True
        return changed

    def hit(self, what):
        self.hits.append("%s:%d: %s in %s" % (os.path.basename(self.fname), self.line, what, self.node.get("name")))

    def upd_line(self, n):
        for key in ("loc",):
            loc = n.get(key, {})
            for l in (loc, loc.get("expansionLoc", {}), loc.get("spellingLoc", {})):
                if "line" in l:
                    self.line = l["line"]
        b = n.get("range", {}).get("begin", {})
        for l in (b, b.get("expansionLoc", {})):
            if "line" in l:
                self.line = l["line"]

    @staticmethod
    def callee(call):
        f = call["inner"][0]
        while f.get("kind") in ("ParenExpr", "ImplicitCastExpr") and f.get("inner"):
            f = f["inner"][-1]
        return f

    def callee_ok(self, call):
        f = self.callee(call)
        if f.get("kind") == "MemberExpr":
            return True                       # function pointer member of the structure (fn_write ...)
        if f.get("kind") == "DeclRefExpr":
            return f.get("referencedDecl", {}).get("name") in self.scanned
        return False

    def walk(self, n):
        if not isinstance(n, dict):
            return
        self.upd_line(n)
        k = n.get("kind")
        inner = [c for c in n.get("inner", []) if isinstance(c, dict)]
        if k == "BinaryOperator" and n.get("opcode") not in ("=", ","):
            if any(self.is_payload(c) for c in inner):
                self.hit("payload value is an operand of '%s'" % n.get("opcode"))
        elif k == "CompoundAssignOperator":
            if any(self.is_payload(c) for c in inner):
                self.hit("payload value is an operand of '%s'" % n.get("opcode"))
        elif k == "UnaryOperator":
            if inner and self.is_payload(inner[0]):
                self.hit("payload value is the operand of unary '%s'" % n.get("opcode"))
        elif k in ("ImplicitCastExpr", "CStyleCastExpr") and n.get("castKind") in (
                "PointerToBoolean", "PointerToIntegral", "IntegralToBoolean"):
            if inner and self.is_payload(inner[-1]):
                self.hit("payload value converted (%s)" % n.get("castKind"))
        elif k in ("IfStmt", "WhileStmt", "SwitchStmt", "ConditionalOperator"):
            if inner and self.is_payload(inner[0]):
                self.hit("payload value is the condition of %s" % k)
        elif k == "DoStmt":
            if inner and self.is_payload(inner[-1]):
                self.hit("payload value is the condition of DoStmt")
        elif k == "ForStmt":
            if len(inner) >= 3 and any(self.is_payload(c) for c in inner[1:3]):
                self.hit("payload value is the condition of ForStmt")
        elif k == "MemberExpr":
            if inner and self.is_payload(inner[0]) and n.get("name") not in ("data", "datas"):
                self.hit("payload value dereferenced (->%s)" % n.get("name"))
        elif k == "ArraySubscriptExpr":
            if inner and _strip(inner[0]).get("kind") == "DeclRefExpr" and self.is_payload(inner[0]):
                self.hit("payload value indexed")
        elif k == "CallExpr":
            args = inner[1:]
            if any(self.is_payload(a) for a in args) and not self.callee_ok(n):
                f = self.callee(n)
                self.hit("payload value passed to %s" % f.get("referencedDecl", {}).get("name", "a function"))
        for c in inner:
            self.walk(c)

    def run(self):
        while self.collect_taint(self.node):
            pass
        body = [c for c in self.node.get("inner", []) if c.get("kind") == "CompoundStmt"]
        for b in body:
            self.walk(b)
        return self.hits


def scan(repo=None):
    repo = repo or V.REPO
    hits, nfun = [], 0
    try:
        for rel in FILES:
            tu = _ast(os.path.join(repo, rel))
            fns = [d for d in tu.get("inner", []) if d.get("kind") == "FunctionDecl" and d.get("name", "").startswith(PREFIXES)
                   and any(c.get("kind") == "CompoundStmt" for c in d.get("inner", []))]
            names = {d["name"] for d in fns}
            nfun += len(fns)
            for d in fns:
                hits += _Fn(rel, d, names).run()
    except Exception as e:
        return hits, "AST of the scanned files could not be obtained: %s" % str(e)[:300]
    if nfun < 20:
        return hits, "only %d function bodies found in the scanned files" % nfun
    return hits, None


if __name__ == "__main__":
    import sys
    h, err = scan(sys.argv[1] if len(sys.argv) > 1 else None)
    print(err or "ok")
    for x in h:
        print(x)
