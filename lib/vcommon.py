"""Common machinery for /verif/bin/check (Python 3 stdlib only).

Paths, deterministic PRNG, cached C build from /repo's working tree, OCaml
build of extracted models, Coq proof step, batch case runner, differ,
shrinker, evidence writer and verdict protocol.
"""
import fcntl
import hashlib
import json
import os
import re
import shutil
import subprocess
import sys
import time

VERIF = os.path.dirname(os.path.dirname(os.path.abspath(__file__)))
REPO = os.environ.get("VERIF_REPO", "/repo")
BUILD = os.path.join(VERIF, "build")
COQ = os.path.join(VERIF, "coq")
GEN_INC = os.path.join(BUILD, "gen")            # generated config header root
OBJCACHE = os.path.join(BUILD, "objcache")
GUARD = "MUGGLEC_VERIF"

CC = "gcc"
BASE_CFLAGS = ["-std=gnu11", "-O1", "-g", "-DNDEBUG", "-D" + GUARD,
               "-DMUGGLE_C_EXPORTS", "-fno-omit-frame-pointer", "-w"]
SAN_FLAGS = ["-fsanitize=address,undefined", "-fno-sanitize-recover=all",
             "-fno-sanitize=alignment"]

ALLOWED_AXIOMS = set()   # per-property plugins may extend (named in evidence)


def log(*a):
    print(*a, file=sys.stderr, flush=True)


def sh(cmd, timeout=None, cwd=None, inp=None, env=None, check=False):
    """Run a command, capture text output; returns (rc, stdout, stderr)."""
    try:
        p = subprocess.run(cmd, cwd=cwd, input=inp, env=env, timeout=timeout,
                           stdout=subprocess.PIPE, stderr=subprocess.PIPE,
                           text=True, errors="replace")
        rc, out, err = p.returncode, p.stdout, p.stderr
    except subprocess.TimeoutExpired as e:
        out = e.stdout if isinstance(e.stdout, str) else (e.stdout or b"").decode("utf-8", "replace")
        err = e.stderr if isinstance(e.stderr, str) else (e.stderr or b"").decode("utf-8", "replace")
        rc = 124
    if check and rc != 0:
        raise RuntimeError("command failed (%d): %s\n%s\n%s" % (rc, cmd, out[-2000:], err[-4000:]))
    return rc, out, err


# --------------------------------------------------------------------------
# deterministic PRNG (SplitMix64) : every random choice derives from VERIF_SEED

class Rng:
    def __init__(self, seed):
        self.s = seed & 0xFFFFFFFFFFFFFFFF

    def next(self):
        self.s = (self.s + 0x9E3779B97F4A7C15) & 0xFFFFFFFFFFFFFFFF
        z = self.s
        z = ((z ^ (z >> 30)) * 0xBF58476D1CE4E5B9) & 0xFFFFFFFFFFFFFFFF
        z = ((z ^ (z >> 27)) * 0x94D049BB133111EB) & 0xFFFFFFFFFFFFFFFF
        return z ^ (z >> 31)

    def below(self, n):
        return self.next() % n if n > 0 else 0

    def range(self, lo, hi):          # inclusive
        return lo + self.below(hi - lo + 1)

    def choice(self, xs):
        return xs[self.below(len(xs))]

    def chance(self, num, den):
        return self.below(den) < num

    def shuffle(self, xs):
        xs = list(xs)
        for i in range(len(xs) - 1, 0, -1):
            j = self.below(i + 1)
            xs[i], xs[j] = xs[j], xs[i]
        return xs

    def fork(self, tag):
        h = hashlib.sha256(("%d/%s" % (self.s, tag)).encode()).digest()
        return Rng(int.from_bytes(h[:8], "little"))


def seed_from_env():
    try:
        return int(os.environ.get("VERIF_SEED", "1"))
    except ValueError:
        return 1


# --------------------------------------------------------------------------
# generated config header (same answers as the CMake-generated one)

CONFIG_ANSWERS = {
    "MUGGLE_C_USE_DLL": None, "MUGGLE_C_HAVE_LINUX_FUTEX": 1, "MUGGLE_C_HAVE_SYS_FUTEX": 0,
    "MUGGLE_C_HAVE_ALIGNAS": 1, "MUGGLE_C_HAVE_ALIGNED_ALLOC": 1, "MUGGLE_C_HAVE_BACKTRACE": 1,
    "MUGGLE_C_BACKTRACE_HEADER": "<execinfo.h>", "MUGGLE_CRYPT_OPTIMIZATION": 1,
    "MUGGLE_BUILD_TRACE": False, "MUGGLE_C_IS_BIG_ENDIAN": 0,
}


def gen_config_header():
    src = os.path.join(REPO, "muggle/c/mugglec_config.h.in")
    ver = "0.0.0"
    vt = os.path.join(REPO, "version.txt")
    if os.path.exists(vt):
        ver = open(vt).read().strip() or ver
    out = []
    for line in open(src):
        line = line.rstrip("\n").replace("@MUGGLE_C_VERSION@", ver)
        m = re.match(r"#cmakedefine01\s+(\w+)", line)
        if m:
            out.append("#define %s %d" % (m.group(1), int(bool(CONFIG_ANSWERS.get(m.group(1), 0)))))
            continue
        m = re.match(r"#cmakedefine\s+(\w+)\s*(.*)", line)
        if m:
            name, rest = m.group(1), m.group(2)
            if name == "MUGGLE_C_VERSION":
                out.append('#define MUGGLE_C_VERSION "%s"' % ver)
            elif name == "MUGGLE_C_BACKTRACE_HEADER":
                out.append("#define MUGGLE_C_BACKTRACE_HEADER <execinfo.h>")
            elif CONFIG_ANSWERS.get(name, False) is False:
                out.append("/* #undef %s */" % name)
            else:
                out.append(("#define %s %s" % (name, rest)).rstrip())
            continue
        out.append(line)
    d = os.path.join(GEN_INC, "muggle/c")
    os.makedirs(d, exist_ok=True)
    text = "\n".join(out) + "\n"
    path = os.path.join(d, "mugglec_config.h")
    if not os.path.exists(path) or open(path).read() != text:
        with open(path + ".tmp%d" % os.getpid(), "w") as f:
            f.write(text)
        os.replace(path + ".tmp%d" % os.getpid(), path)
    return path


# --------------------------------------------------------------------------
# cached compilation of repository sources (always from the working tree)

def _sha(*parts):
    h = hashlib.sha256()
    for p in parts:
        h.update(p if isinstance(p, bytes) else p.encode())
        h.update(b"\0")
    return h.hexdigest()


_hdr_hash_cache = {}


def headers_hash(extra_dirs=()):
    key = (REPO,) + tuple(extra_dirs)
    if key in _hdr_hash_cache:
        return _hdr_hash_cache[key]
    h = hashlib.sha256()
    roots = [os.path.join(REPO, "muggle")] + list(extra_dirs) + [GEN_INC]
    for root in roots:
        for dp, dn, fn in sorted(os.walk(root)):
            dn.sort()
            for f in sorted(fn):
                if f.endswith((".h", ".inc", ".in")):
                    p = os.path.join(dp, f)
                    h.update(p.encode())
                    h.update(open(p, "rb").read())
    _hdr_hash_cache[key] = h.hexdigest()
    return _hdr_hash_cache[key]


def all_repo_sources():
    res = []
    for dp, dn, fn in sorted(os.walk(os.path.join(REPO, "muggle/c"))):
        dn.sort()
        for f in sorted(fn):
            if f.endswith(".c"):
                res.append(os.path.relpath(os.path.join(dp, f), REPO))
    return res


def compile_obj(src_abs, flags, hh):
    """Compile one C file to a cached object; returns path or raises."""
    os.makedirs(OBJCACHE, exist_ok=True)
    key = _sha(open(src_abs, "rb").read(), " ".join(flags), hh, src_abs)
    obj = os.path.join(OBJCACHE, key + ".o")
    if os.path.exists(obj):
        return obj
    tmp = obj + ".tmp%d" % os.getpid()
    cmd = [CC] + flags + ["-c", src_abs, "-o", tmp]
    rc, out, err = sh(cmd, timeout=300)
    if rc != 0:
        raise RuntimeError("compile failed: %s\n%s" % (" ".join(cmd), err[-4000:]))
    os.replace(tmp, obj)
    return obj


def build_driver(prop, driver_c, repo_sources, out_name, extra_flags=(), san=True,
                 extra_c=(), link_flags=(), include_dirs=()):
    """Build harness driver + the listed repo .c files (from the working tree)."""
    from concurrent.futures import ThreadPoolExecutor
    gen_config_header()
    hdirs = [os.path.join(VERIF, "harness")]
    hh = headers_hash(hdirs)
    flags = BASE_CFLAGS + (SAN_FLAGS if san else []) + list(extra_flags) + \
        ["-I" + REPO, "-I" + GEN_INC, "-I" + os.path.join(VERIF, "harness")] + \
        ["-I" + d for d in include_dirs]
    srcs = [os.path.join(REPO, s) for s in repo_sources] + \
           [os.path.join(VERIF, s) for s in ([driver_c] + list(extra_c))]
    with ThreadPoolExecutor(max_workers=16) as ex:
        objs = list(ex.map(lambda s: compile_obj(s, flags, hh), srcs))
    outdir = os.path.join(BUILD, prop)
    os.makedirs(outdir, exist_ok=True)
    exe = os.path.join(outdir, out_name)
    cmd = [CC] + (SAN_FLAGS if san else []) + objs + ["-o", exe + ".tmp", "-lpthread", "-lm", "-ldl"] + list(link_flags)
    rc, out, err = sh(cmd, timeout=300)
    if rc != 0:
        raise RuntimeError("link failed: %s\n%s" % (" ".join(cmd[:6]), err[-4000:]))
    os.replace(exe + ".tmp", exe)
    return exe


VS_WRAPS = ["pthread_mutex_lock", "pthread_mutex_unlock", "pthread_mutex_trylock", "pthread_cond_wait",
            "pthread_cond_timedwait", "pthread_cond_signal", "pthread_cond_broadcast", "sched_yield", "nanosleep"]


def build_vsched_driver(prop, driver_c, repo_sources, out_name="impl_driver", extra_flags=(), san=True,
                        extra_c=(), extra_wraps=(), link_flags=()):
    """Driver for the concurrent properties: repository sources are compiled with the forced
    include harness/vsched/vs_hooks.h (atomics hooked), sync_obj_futex.c is replaced by the
    scheduler's futex, pthread mutex/condvar/yield are interposed with -Wl,--wrap."""
    from concurrent.futures import ThreadPoolExecutor
    gen_config_header()
    hdirs = [os.path.join(VERIF, "harness")]
    hh = headers_hash(hdirs)
    inc = ["-I" + REPO, "-I" + GEN_INC, "-I" + os.path.join(VERIF, "harness")]
    base = BASE_CFLAGS + (SAN_FLAGS if san else []) + list(extra_flags) + inc
    hooked = base + ["-include", os.path.join(VERIF, "harness/vsched/vs_hooks.h")]
    jobs = []
    for s_ in repo_sources:
        if s_.endswith("sync_obj_futex.c"):
            continue
        jobs.append((os.path.join(REPO, s_), hooked))
    jobs.append((os.path.join(VERIF, driver_c), hooked))
    jobs.append((os.path.join(VERIF, "harness/vsched/vsched.c"), base))
    for s_ in extra_c:
        jobs.append((os.path.join(VERIF, s_), base))
    with ThreadPoolExecutor(max_workers=16) as ex:
        objs = list(ex.map(lambda j: compile_obj(j[0], j[1], hh), jobs))
    outdir = os.path.join(BUILD, prop)
    os.makedirs(outdir, exist_ok=True)
    exe = os.path.join(outdir, out_name)
    wraps = ["-Wl,--wrap=" + w for w in list(VS_WRAPS) + list(extra_wraps)]
    cmd = [CC] + (SAN_FLAGS if san else []) + objs + ["-o", exe + ".tmp", "-lpthread", "-lm", "-ldl"] + wraps + list(link_flags)
    rc, out, err = sh(cmd, timeout=300)
    if rc != 0:
        raise RuntimeError("link failed: %s\n%s" % (" ".join(cmd[:6]), err[-4000:]))
    os.replace(exe + ".tmp", exe)
    return exe


# --------------------------------------------------------------------------
# Coq

class CoqLock:
    """flock per coq sub-directory (Lib, C01, ..., gen, top) so that concurrent checks of
    different properties do not serialise on each other's proof builds."""

    def __init__(self, name="all"):
        self.name = name

    def __enter__(self):
        os.makedirs(BUILD, exist_ok=True)
        self.f = open(os.path.join(BUILD, ".coq.%s.lock" % self.name), "w")
        fcntl.flock(self.f, fcntl.LOCK_EX)
        return self

    def __exit__(self, *a):
        fcntl.flock(self.f, fcntl.LOCK_UN)
        self.f.close()


def _coq_deps(vfile, cache):
    """direct MV dependencies (as .v paths relative to coq/) of one file, via coqdep."""
    if vfile in cache:
        return cache[vfile]
    rc, out, err = sh(["coqdep", "-Q", ".", "MV", vfile], cwd=COQ, timeout=120)
    deps = []
    for ln in out.split("\n"):
        if ":" in ln and ln.split(":")[0].strip().split()[0].endswith(".vo"):
            for d in ln.split(":", 1)[1].split():
                if d.endswith(".vo"):
                    dv = os.path.normpath(d[:-1])
                    if dv != os.path.normpath(vfile) and os.path.exists(os.path.join(COQ, dv)):
                        deps.append(dv)
            break
    cache[vfile] = deps
    return deps


def _sha_file(path):
    import hashlib
    with open(path, "rb") as fh:
        return hashlib.sha256(fh.read()).hexdigest()


def coq_build(roots, timeout=3000, jobs=8):
    """Full .vo build (coqc, never -vos) of the given .v files (relative to coq/) and their
    dependency closure inside the project.  Returns (rc, log)."""
    from concurrent.futures import ThreadPoolExecutor
    cache, order, seen = {}, [], set()

    def visit(f):
        if f in seen:
            return
        seen.add(f)
        for d in _coq_deps(f, cache):
            visit(d)
        order.append(f)
    for r in roots:
        r = os.path.normpath(r)
        if r.endswith(".vo"):
            r = r[:-1]
        if not os.path.exists(os.path.join(COQ, r)):
            return 2, "missing coq file %s" % r
        visit(r)

    def group(f):
        return f.split(os.sep)[0] if os.sep in f else "top"
    log, failed = [], set()
    deadline = time.time() + timeout
    # groups in topological order of the group dependency graph (acyclic by construction:
    # top -> Cxx -> gen/Lib); on a cycle fall back to one global group
    gdeps = {}
    for f in order:
        gdeps.setdefault(group(f), set())
        for d in cache[f]:
            if group(d) != group(f):
                gdeps[group(f)].add(group(d))
    groups, tmp = [], set()

    def gvisit(g, stack):
        if g in groups:
            return True
        if g in stack:
            return False
        for d in sorted(gdeps.get(g, ())):
            if not gvisit(d, stack | {g}):
                return False
        groups.append(g)
        return True
    acyclic = all(gvisit(g, set()) for g in sorted(gdeps))
    if not acyclic:
        groups = ["all"]
        group = lambda f: "all"  # noqa: E731
    # groups are visited in dependency order of first appearance; each under its own lock
    done = set()

    def stale(f):
        vo = os.path.join(COQ, f + "o")
        v = os.path.join(COQ, f)
        if not os.path.exists(vo):
            return True
        t = os.path.getmtime(vo)
        if os.path.getmtime(v) > t:
            return True
        # content check as well: a source put in place with an old time stamp (cp -p, restore from an
        # archive) must not be taken for the one the .vo was compiled from
        try:
            if open(vo + ".src").read() != _sha_file(v):
                return True
        except OSError:
            return True
        for d in cache[f]:
            dvo = os.path.join(COQ, d + "o")
            if not os.path.exists(dvo) or os.path.getmtime(dvo) > t:
                return True
        return False

    def compile_one(f):
        if any(d in failed for d in cache[f]):
            failed.add(f)
            return
        if not stale(f):
            return
        left = max(5, deadline - time.time())
        t0 = time.time()
        rc, out, err = sh(["coqc", "-Q", ".", "MV", "-w", "-all", f], cwd=COQ, timeout=left)
        log.append("COQC %s (%.1fs)%s" % (f, time.time() - t0, "" if rc == 0 else " FAILED rc=%d" % rc))
        if rc != 0:
            failed.add(f)
            log.append((out + err)[-3000:])
            try:
                os.remove(os.path.join(COQ, f + "o"))
            except OSError:
                pass
        else:
            with open(os.path.join(COQ, f + "o.src"), "w") as fh:
                fh.write(_sha_file(os.path.join(COQ, f)))

    for g in groups:
        files = [f for f in order if group(f) == g]
        with CoqLock(g):
            # level-parallel inside the group
            remaining = list(files)
            while remaining:
                ready = [f for f in remaining if all((d in done) or group(d) != g for d in cache[f])]
                if not ready:
                    ready = remaining[:1]
                with ThreadPoolExecutor(max_workers=jobs) as ex:
                    list(ex.map(compile_one, ready))
                for f in ready:
                    done.add(f)
                    remaining.remove(f)
    return (1 if failed else 0), "\n".join(log)


def gen_coqproject():
    """_CoqProject for editors / coqchk only; the checks build with coq_build."""
    files = []
    for dp, dn, fn in sorted(os.walk(COQ)):
        dn.sort()
        for f in sorted(fn):
            if f.endswith(".v") and not f.startswith("."):
                files.append(os.path.relpath(os.path.join(dp, f), COQ))
    text = "-Q . MV\n-arg -w -arg -all\n" + "\n".join(files) + "\n"
    p = os.path.join(COQ, "_CoqProject")
    if not os.path.exists(p) or open(p).read() != text:
        open(p, "w").write(text)
    return files


def coq_make(targets, timeout=3000, jobs=8):
    """Build the given targets (X.vo or X.v, relative to coq/) with their dependencies."""
    return coq_build([t[:-1] if t.endswith(".vo") else t for t in targets], timeout=timeout, jobs=jobs)


FORBIDDEN = re.compile(
    r"\b(Admitted|admit|Axiom|Axioms|Parameter|Parameters|Conjecture|Conjectures|Admit Obligations|"
    r"Unset Guard Checking|Unset Positivity Checking|Unset Universe Checking|bypass_check|"
    r"native_compute)\b|type-in-type|impredicative-set")


def strip_coq_comments(text):
    out, depth, i = [], 0, 0
    while i < len(text):
        if text.startswith("(*", i):
            depth += 1
            i += 2
        elif text.startswith("*)", i) and depth > 0:
            depth -= 1
            i += 2
        else:
            if depth == 0:
                out.append(text[i])
            i += 1
    return "".join(out)


def coq_static_scan(subdirs):
    """Reject forbidden vernacular anywhere in the listed coq subdirs/files."""
    bad = []
    for sd in subdirs:
        p = os.path.join(COQ, sd)
        paths = []
        if os.path.isdir(p):
            for dp, dn, fn in os.walk(p):
                paths += [os.path.join(dp, f) for f in fn if f.endswith(".v")]
        elif os.path.exists(p):
            paths.append(p)
        for f in paths:
            txt = strip_coq_comments(open(f).read())
            for n, line in enumerate(txt.split("\n"), 1):
                m = FORBIDDEN.search(line)
                if m:
                    bad.append("%s:%d: %s" % (os.path.relpath(f, VERIF), n, m.group(0)))
            # Variable / Hypothesis outside a section
            depth = 0
            for n, line in enumerate(txt.split("\n"), 1):
                if re.match(r"\s*Section\s+\w+", line):
                    depth += 1
                elif re.match(r"\s*End\s+\w+\s*\.", line) and depth > 0:
                    depth -= 1
                elif depth == 0 and re.match(r"\s*(Variable|Variables|Hypothesis|Hypotheses|Context)\b", line):
                    bad.append("%s:%d: %s outside section" % (os.path.relpath(f, VERIF), n, line.strip()))
    return bad


def coq_chk(prop, timeout=1800):
    """Independent re-check of the compiled property module and everything it depends on
    (thorough tier).  Returns (ok, summary text)."""
    rc, out, err = sh(["coqchk", "-o", "-silent", "-Q", ".", "MV", "MV.Properties_%s" % prop], cwd=COQ, timeout=timeout)
    txt = out + err
    m = re.search(r"CONTEXT SUMMARY.*", txt, re.S)
    summ = m.group(0) if m else txt[-1500:]
    ok = rc == 0 and "type-in-type: <none>" in summ and "unsafe (co)fixpoints: <none>" in summ and \
        "positivity is assumed: <none>" in summ
    return ok, " ".join(summ.split())[:1500]


def coq_check_properties(prop, deps_subdirs, timeout=1500, allowed_axioms=()):
    """Build Properties_<prop>.vo (full .vo), re-run coqc on the property file to
    capture Print Assumptions.  Returns dict(obligations=[names], discharged=[names],
    failures=[text], axioms={thm:[..]}, log=str)."""
    res = {"obligations": [], "discharged": [], "failures": [], "axioms": {}, "log": ""}
    pf = os.path.join(COQ, "Properties_%s.v" % prop)
    src = open(pf).read()
    names = re.findall(r"^\s*(?:Theorem|Lemma|Corollary)\s+(\w+)", strip_coq_comments(src), re.M)
    res["obligations"] = names
    bad = coq_static_scan(list(deps_subdirs) + ["Lib", "gen/Params_%s.v" % prop, "Properties_%s.v" % prop])
    if bad:
        res["failures"].append("forbidden vernacular: " + "; ".join(bad[:10]))
    rc, out = coq_make(["Properties_%s.vo" % prop], timeout=timeout)
    res["log"] = out[-6000:]
    if rc != 0:
        res["failures"].append("make Properties_%s.vo failed (rc=%d)" % (prop, rc))
        # find which file failed
        m = re.findall(r'File "([^"]+)", line (\d+)', out)
        if m:
            res["failures"].append("first error at %s:%s" % m[0])
        return res
    # recompile the property file alone to capture Print Assumptions output
    tmpd = os.path.join(BUILD, "tmpvo.%d" % os.getpid())
    os.makedirs(tmpd, exist_ok=True)
    rc, out, err = sh(["coqc", "-Q", ".", "MV", "-w", "-all", "-o",
                       os.path.join(tmpd, "Properties_%s.vo" % prop),
                       "Properties_%s.v" % prop], cwd=COQ, timeout=timeout)
    shutil.rmtree(tmpd, ignore_errors=True)
    res["log"] += out[-4000:] + err[-2000:]
    if rc != 0:
        res["failures"].append("coqc Properties_%s.v failed" % prop)
        return res
    # parse Print Assumptions blocks: they follow the order of "Print Assumptions X."
    pa_names = re.findall(r"Print\s+Assumptions\s+(\w+)\s*\.", strip_coq_comments(src))
    blocks = re.split(r"(?m)^(?=Closed under the global context|Axioms:)", out)
    blocks = [b for b in blocks if b.startswith("Closed under") or b.startswith("Axioms:")]
    if len(blocks) != len(pa_names):
        res["failures"].append("Print Assumptions blocks (%d) != commands (%d)" % (len(blocks), len(pa_names)))
        return res
    allowed = set(allowed_axioms) | ALLOWED_AXIOMS
    for n, b in zip(pa_names, blocks):
        if b.startswith("Closed under"):
            res["axioms"][n] = []
        else:
            ax = re.findall(r"(?m)^([\w.']+)\s*:", b[len("Axioms:"):])
            res["axioms"][n] = ax
            extra = [a for a in ax if a.split(".")[-1] not in allowed and a not in allowed]
            if extra:
                res["failures"].append("theorem %s depends on undeclared axioms %s" % (n, extra))
    for n in names:
        if n not in pa_names:
            res["failures"].append("theorem %s has no Print Assumptions" % n)
    if not res["failures"]:
        res["discharged"] = list(names)
    else:
        res["discharged"] = [n for n in names if n in res["axioms"] and
                             not any(n in f for f in res["failures"])]
        if any("forbidden" in f for f in res["failures"]):
            res["discharged"] = []
    return res


# --------------------------------------------------------------------------
# OCaml: extracted model + driver

ZCONV = os.path.join(VERIF, "ocaml", "zconv.ml.inc")


def build_ocaml_driver(prop, model_base, driver_ml, out_name="model_driver", includes=()):
    """model_base: e.g. 'c19_model' -> coq/c19_model.ml(i) produced by Extract.v."""
    outdir = os.path.join(BUILD, prop, "ocaml")
    os.makedirs(outdir, exist_ok=True)
    for ext in (".ml", ".mli"):
        s = os.path.join(COQ, model_base + ext)
        if not os.path.exists(s):
            raise RuntimeError("extracted model %s missing (Extract.v not built?)" % s)
        shutil.copy(s, os.path.join(outdir, model_base + ext))
    body = open(os.path.join(VERIF, driver_ml)).read()
    mod = model_base[0].upper() + model_base[1:]
    text = "open %s\n" % mod + open(ZCONV).read() + "\n" + \
        "".join(open(os.path.join(VERIF, i)).read() + "\n" for i in includes) + body
    open(os.path.join(outdir, "driver.ml"), "w").write(text)
    exe = os.path.join(BUILD, prop, out_name)
    rc, out, err = sh(["ocamlfind", "ocamlopt", "-O2", "-w", "-a", "-package", "str", "-linkpkg",
                       model_base + ".mli", model_base + ".ml", "driver.ml", "-o", exe],
                      cwd=outdir, timeout=600)
    if rc != 0:
        rc, out, err = sh(["ocamlfind", "ocamlopt", "-w", "-a", "-package", "str", "-linkpkg",
                           model_base + ".mli", model_base + ".ml", "driver.ml", "-o", exe],
                          cwd=outdir, timeout=600)
    if rc != 0:
        raise RuntimeError("ocaml build failed:\n" + err[-4000:])
    return exe


# --------------------------------------------------------------------------
# cases and batch running

class Case:
    __slots__ = ("name", "lines", "meta")

    def __init__(self, name, lines, meta=None):
        self.name = name
        self.lines = list(lines)
        self.meta = meta or {}

    def text(self):
        return "CASE %s\n%s\nEND\n" % (self.name, "\n".join(self.lines))

    def save(self, path, header=None):
        os.makedirs(os.path.dirname(path), exist_ok=True)
        with open(path, "w") as f:
            if header:
                for h in header:
                    f.write("# %s\n" % h)
            f.write(self.text())
        return path

    @staticmethod
    def load(path):
        name, lines = os.path.basename(path), []
        for ln in open(path):
            ln = ln.rstrip("\n")
            if ln.startswith("#") or ln == "END":
                continue
            if ln.startswith("CASE "):
                name = ln[5:].strip()
                continue
            lines.append(ln)
        return Case(name, lines, {"file": path})


def parse_batch_output(out):
    """-> dict name -> (list of lines, complete?)"""
    res, cur, name = {}, None, None
    for ln in out.split("\n"):
        if ln.startswith("CASE "):
            name = ln[5:].strip()
            cur = []
            res[name] = (cur, False)
        elif ln == "END" and name is not None:
            res[name] = (cur, True)
            name, cur = None, None
        elif cur is not None:
            cur.append(ln)
    return res


def run_batch(exe, cases, per_case_timeout=10.0, env=None, chunk=400, args=(), max_bad=12):
    """Run cases through a driver. Returns dict name -> dict(lines, status, detail)
    status in ok|crash|timeout."""
    results = {}
    todo = list(cases)
    e = dict(os.environ)
    e["ASAN_OPTIONS"] = "detect_leaks=0:abort_on_error=0:allocator_may_return_null=1:handle_abort=1"
    e["UBSAN_OPTIONS"] = "print_stacktrace=1:halt_on_error=1"
    if env:
        e.update(env)
    nbad = 0
    while todo:
        if nbad >= max_bad:
            # enough crashing / hanging cases to decide; the rest is not run
            for c in todo:
                results[c.name] = {"lines": [], "status": "skipped", "detail": "not run: %d earlier cases crashed or hung" % nbad}
            break
        part, todo = todo[:chunk], todo[chunk:]
        inp = "".join(c.text() for c in part)
        to = 20 + per_case_timeout * len(part)
        rc, out, err = run_progress([exe] + list(args), inp, e, stall=per_case_timeout + 10.0, total=to)
        parsed = parse_batch_output(out)
        bad_idx = None
        for i, c in enumerate(part):
            if c.name in parsed and parsed[c.name][1]:
                results[c.name] = {"lines": parsed[c.name][0], "status": "ok", "detail": ""}
            else:
                bad_idx = i
                break
        if bad_idx is not None and rc == 77 and bad_idx > 0 and part[bad_idx].name not in parsed:
            todo = part[bad_idx:] + todo
            continue
        if bad_idx is not None:
            c = part[bad_idx]
            partial = parsed.get(c.name, ([], False))[0]
            st = "timeout" if rc == 124 else "crash"
            nbad += 1
            results[c.name] = {"lines": partial, "status": st,
                               "detail": "rc=%d %s" % (rc, summarize_stderr(err))}
            todo = part[bad_idx + 1:] + todo
            if st == "timeout" and len(part) > 1 and bad_idx == 0 and chunk > 1:
                pass
    return results


def run_progress(cmd, inp, env, stall, total):
    """Run a batch driver feeding `inp`; kill it when no further output has appeared for
    `stall` seconds (a hanging case) or after `total` seconds.  Returns (rc, stdout, stderr);
    rc 124 on either timeout."""
    import threading
    p = subprocess.Popen(cmd, stdin=subprocess.PIPE, stdout=subprocess.PIPE, stderr=subprocess.PIPE, env=env)
    out_chunks, err_chunks = [], []
    last = [time.time()]

    def rd_out():
        while True:
            b = p.stdout.read1(65536)
            if not b:
                break
            out_chunks.append(b)
            last[0] = time.time()

    def rd_err():
        while True:
            b = p.stderr.read1(65536)
            if not b:
                break
            err_chunks.append(b)

    def wr():
        try:
            p.stdin.write(inp.encode())
            p.stdin.close()
        except (BrokenPipeError, OSError):
            pass
    ts = [threading.Thread(target=f, daemon=True) for f in (rd_out, rd_err, wr)]
    for t in ts:
        t.start()
    t0 = time.time()
    timed_out = False
    while p.poll() is None:
        time.sleep(0.02)
        now = time.time()
        if now - last[0] > stall or now - t0 > total:
            timed_out = True
            p.kill()
            break
    p.wait()
    for t in ts[:2]:
        t.join(timeout=5)
    out = b"".join(out_chunks).decode("utf-8", "replace")
    err = b"".join(err_chunks).decode("utf-8", "replace")
    return (124 if timed_out else p.returncode), out, err


def summarize_stderr(err):
    m = re.search(r"(ERROR: AddressSanitizer[^\n]*|runtime error:[^\n]*|SUMMARY:[^\n]*|Assertion[^\n]*)", err)
    if m:
        s = m.group(1)
        m2 = re.findall(r"#\d+ 0x[0-9a-f]+ in (\w+)", err)
        if m2:
            s += " @ " + ">".join(m2[:4])
        return s[:400]
    return err.strip()[-300:].replace("\n", " | ")


def ddmin(lines, still_fails, keep_prefix=0, budget=200):
    """Delta-debugging over op lines (first keep_prefix lines are fixed)."""
    head, ops = lines[:keep_prefix], lines[keep_prefix:]
    n, calls = 2, 0
    while len(ops) >= 2 and calls < budget:
        size = max(1, len(ops) // n)
        reduced = False
        for i in range(0, len(ops), size):
            cand = ops[:i] + ops[i + size:]
            calls += 1
            if cand != ops and still_fails(head + cand):
                ops, n, reduced = cand, max(n - 1, 2), True
                break
            if calls >= budget:
                break
        if not reduced:
            if size == 1:
                break
            n = min(len(ops), n * 2)
    return head + ops


# --------------------------------------------------------------------------
# evidence / verdict

def write_evidence(prop, tier, seed, level, coverage, assumptions, wall_s, violations):
    d = os.path.join(VERIF, "evidence")
    os.makedirs(d, exist_ok=True)
    ev = {"property_id": prop, "tier": tier, "seed": seed, "level": level,
          "coverage": coverage, "assumptions": assumptions,
          "wall_s": round(wall_s, 2), "violations": violations}
    p = os.path.join(d, prop + ".json")
    with open(p + ".tmp", "w") as f:
        json.dump(ev, f, indent=1, sort_keys=True)
        f.write("\n")
    os.replace(p + ".tmp", p)
    return p


def load_known_findings(prop):
    """known_findings.txt lines:
       known: property=C08 class=<id> replay=findings/<file> :: text
       fixed: property=C07 <commit> <what failed>"""
    known = []
    p = os.path.join(VERIF, "known_findings.txt")
    if not os.path.exists(p):
        return known
    for ln in open(p):
        ln = ln.strip()
        m = re.match(r"known:\s+property=(\w+)\s+class=(\S+)\s+replay=(\S+)\s*::\s*(.*)", ln)
        if m and m.group(1) == prop:
            known.append({"class": m.group(2), "replay": m.group(3), "text": m.group(4)})
    return known
