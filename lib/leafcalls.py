"""Call-level extension of the leaf translator (lib/leaftrans.py is not modified).

Adds, for functions that are not leaves:
  * calls of other functions of the library, inlined statement by statement (multi-statement bodies, early
    returns, void functions that write through the struct pointer, bodies in another source file);
  * nested struct members (flow_ctl->tc.end_ts.tv_sec), pointers to sub-structs passed on or kept in locals;
  * external calls that are oracles of the harness: clock_gettime(id, &ts) and muggle_rdtscp() consume the next
    element of a list of clock readings (`reads`), so the NUMBER of clock reads is part of the result;
  * a FIXED signature chosen by the caller (list of struct fields = the modelled state): the generated
    definition takes exactly these fields (+ `reads` + the scalar parameters) and returns the return value, the
    final value of every one of them, and the remaining readings.  A field outside the list is a LeafError
    (a new field is a change of the state the model speaks about);
  * a second definition `<name>_chk`: the list of range checks (irange w e) of every signed arithmetic
    intermediate on the executed path, for the no-overflow obligations.
"""
import copy
import re

import leaftrans as L
from leaftrans import LeafError, ctype, strip, strip_ptr, INT_TYPES

CLOCK_ORACLES = ("clock_gettime", "muggle_rdtscp", "muggle_rdtsc")
_cache = {}


def find_function(sources, name, cflags):
    for src in sources:
        key = (src, name, tuple(cflags))
        if key not in _cache:
            try:
                _cache[key] = L.load_function(src, name, cflags)
            except LeafError:
                _cache[key] = None
        if _cache[key] is not None:
            return src, _cache[key]
    raise LeafError("function %s with a body not found in %s" % (name, ", ".join(sources)))


def pointee_is_int(qual):
    q = qual.replace("const ", "").replace("volatile ", "").strip()
    if not q.endswith("*"):
        return False
    q = q[:-1].replace("const", "").strip()
    return q in INT_TYPES


def ret_kind_of(fn):
    rt = fn["type"]["qualType"].split("(")[0].strip()
    if rt == "void":
        return None
    if rt in ("bool", "_Bool"):
        return "B"
    if rt in INT_TYPES:
        return "Z"
    if rt.endswith("*"):
        return "P"
    raise LeafError("unsupported return type " + rt)


class TrC(L.Tr):
    def __init__(self, fn, sources, cflags, sig, chkmode=False):
        super().__init__(fn, sources[0], cflags)
        self.sources = list(sources)
        self.sig = list(sig)                       # [(key, is_array)]
        self.sigkeys = {k for k, _ in sig}
        self.chkmode = chkmode
        self.pending = []
        self.uses_reads = False
        self.cur_env = {}
        self.root = sorted(self.ptrs)
        if len(self.root) > 1:
            raise LeafError("more than one struct pointer parameter")
        self.root_paths = {p: () for p in self.root}

    # ---------------- struct paths
    def sptr(self, n, env):
        """struct-pointer valued expression -> path (tuple of member names from the root struct)"""
        n = strip_ptr(n)
        k = n.get("kind")
        if k == "DeclRefExpr":
            nm = n["referencedDecl"]["name"]
            v = env.get(nm)
            if isinstance(v, tuple) and v and v[0] == "@sp":
                return v[1]
            if nm in self.root_paths and nm not in env:
                return self.root_paths[nm]
            raise LeafError("unsupported struct pointer variable " + nm)
        if k == "UnaryOperator" and n.get("opcode") == "&":
            return self.mpath(strip(n["inner"][0]), env)
        if k in ("CStyleCastExpr", "ImplicitCastExpr") and n.get("castKind") in ("BitCast", "NoOp"):
            return self.sptr(n["inner"][-1], env)
        raise LeafError("unsupported struct pointer expression " + str(k))

    def mpath(self, n, env):
        names = []
        while True:
            if n.get("kind") != "MemberExpr":
                raise LeafError("unsupported member base " + str(n.get("kind")))
            names.append(n["name"])
            base = n["inner"][0]
            if n.get("isArrow"):
                return self.sptr(base, env) + tuple(reversed(names))
            n = strip(base)

    def fkey(self, node):
        path = self.mpath(node, self.cur_env)
        key = "f_" + "_".join(path)
        if key not in self.sigkeys:
            raise LeafError("field %s is outside the modelled state" % ".".join(path))
        return key

    # ---------------- expressions (the environment is remembered for fkey)
    def ex(self, n, env):
        self.cur_env = env
        k = n.get("kind")
        if k in ("ImplicitCastExpr", "CStyleCastExpr") and n.get("castKind") == "IntegralCast":
            ty, src = ctype(n), ctype(n["inner"][-1])
            if ty and src and ty[0] and ty[1] > 1 and (not src[0]) and src[1] >= ty[1]:
                # unsigned -> signed of the same or smaller width: two's complement reinterpretation
                return ("(wraps %d %s)" % (ty[1], self.z(n["inner"][-1], env)), "Z")
            if ty and src and ty[0] and src[0] and src[1] > ty[1]:
                e = self.z(n["inner"][-1], env)
                self.pending.append((ty[1], e))
                return (e, "Z")
        if k in ("ImplicitCastExpr", "CStyleCastExpr") and n.get("castKind") == "FloatingToIntegral":
            inner = strip(n["inner"][-1])
            while inner.get("kind") in ("ImplicitCastExpr", "ParenExpr"):
                inner = inner["inner"][0]
            if inner.get("kind") == "DeclRefExpr" and (inner["referencedDecl"]["name"] + "@int") in env:
                return (env[inner["referencedDecl"]["name"] + "@int"], "Z")
            raise LeafError("floating point arithmetic")
        if k == "UnaryExprOrTypeTraitExpr" and n.get("name") == "sizeof":
            at = n.get("argType", {}).get("qualType", "")
            if at in INT_TYPES:
                return ("(%d)" % (INT_TYPES[at][1] // 8), "Z")
            raise LeafError("sizeof of a non-integer type")
        return super().ex(n, env)

    def ptr(self, n, env):
        self.cur_env = env
        return super().ptr(n, env)

    def wrap(self, n, e):
        ty = ctype(n)
        if ty is None:
            raise LeafError("non-integer arithmetic")
        if ty[0]:
            self.pending.append((ty[1], e))
        return super().wrap(n, e)

    def flush(self, env):
        """let-binding that adds the range checks collected since the last statement (chk mode only)"""
        p, self.pending = self.pending, []
        if not self.chkmode or not p:
            return ""
        new = self.fresh("chk")
        cur = env.get("@chk", "(@nil bool)")
        env["@chk"] = new
        return "let %s := %s in\n  " % (new, " :: ".join("(irange %d %s)" % (w, e) for w, e in p) + " :: " + cur)

    # simple helpers (one `return e;`, integer- or pointer-valued), body in any of the source files
    def inline(self, n, env, want_ptr=False):
        callee = strip_ptr(n["inner"][0])
        if callee.get("kind") != "DeclRefExpr":
            raise LeafError("unsupported call")
        name = callee["referencedDecl"]["name"]
        if name in CLOCK_ORACLES:
            raise LeafError("clock read in a position that is not evaluated unconditionally")
        _, fn = find_function(self.sources, name, self.cflags)
        if self.depth > 8:
            raise LeafError("call nesting too deep at " + name)
        parms = [c for c in fn.get("inner", []) if c.get("kind") == "ParmVarDecl"]
        body = [c for c in fn["inner"] if c.get("kind") == "CompoundStmt"][0]
        ss = [x for x in body.get("inner", []) if x.get("kind") != "NullStmt"]
        if len(ss) != 1 or ss[0].get("kind") != "ReturnStmt" or not ss[0].get("inner"):
            raise LeafError("helper %s is not a single return expression" % name)
        args = n["inner"][1:]
        if len(args) != len(parms):
            raise LeafError("argument count mismatch calling " + name)
        cenv = self.bind(parms, args, env, name, None)
        self.depth += 1
        try:
            if want_ptr:
                return self.ptr(ss[0]["inner"][0], cenv)
            return self.ex(ss[0]["inner"][0], cenv)
        finally:
            self.depth -= 1
            self.cur_env = env

    def bind(self, parms, args, env, name, lets):
        """callee environment; scalar arguments are substituted (lets is None) or let-bound (lets: list of text)"""
        cenv = {kk: vv for kk, vv in env.items() if kk.startswith("f_") or kk.startswith("@")}
        for p_, a in zip(parms, args):
            q = p_["type"]["qualType"]
            if ctype(p_) is not None:
                v = self.z(a, env)
                if lets is None:
                    cenv[p_["name"]] = v
                else:
                    nm = self.fresh(p_["name"])
                    lets.append("let %s := %s in\n  " % (nm, v))
                    cenv[p_["name"]] = nm
            elif q.endswith("*") and pointee_is_int(p_["type"].get("desugaredQualType", q)):
                cenv[p_["name"]] = self.ptr(a, env)
            elif q.endswith("*"):
                cenv[p_["name"]] = ("@sp", self.sptr(a, env))
            else:
                raise LeafError("unsupported parameter type in " + name)
        return cenv

    # ---------------- calls that need statements
    def is_complex(self, n):
        if n.get("kind") != "CallExpr":
            return False
        callee = strip_ptr(n["inner"][0])
        if callee.get("kind") != "DeclRefExpr":
            raise LeafError("unsupported call")
        name = callee["referencedDecl"]["name"]
        if name in CLOCK_ORACLES:
            return True
        _, fn = find_function(self.sources, name, self.cflags)
        body = [c for c in fn["inner"] if c.get("kind") == "CompoundStmt"][0]
        ss = [x for x in body.get("inner", []) if x.get("kind") != "NullStmt"]
        simple = len(ss) == 1 and ss[0].get("kind") == "ReturnStmt" and ss[0].get("inner") and \
            self.first_complex(ss[0]["inner"][0]) is None
        return not simple

    def first_complex(self, n, path=()):
        """path (child indices) of the first call, in evaluation order, that has to be inlined as statements"""
        k = n.get("kind")
        kids = n.get("inner", []) or []
        guarded = set()
        if k == "BinaryOperator" and n.get("opcode") in ("&&", "||"):
            guarded = {1}
        if k == "ConditionalOperator":
            guarded = {1, 2}
        for i, c in enumerate(kids):
            if not isinstance(c, dict):
                continue
            p = self.first_complex(c, path + (i,))
            if p is not None:
                if i in guarded:
                    raise LeafError("call with effects under a short-circuit operator")
                return p
        if self.is_complex(n):
            return path
        return None

    def hoist(self, node, env, then):
        """then(node', env') with every complex call of `node` evaluated before, in order, into a local"""
        p = self.first_complex(node)
        if p is None:
            return then(node, env)
        call = node
        for i in p:
            call = call["inner"][i]

        def after(val, rk, env2):
            if rk is None or val is None:
                raise LeafError("value of a void call used")
            tmp = self.fresh("r")
            env3 = dict(env2)
            cname = "@tmp%d" % self.cnt
            env3[cname] = tmp
            rep = {"kind": "DeclRefExpr", "referencedDecl": {"name": cname, "kind": "VarDecl"}, "type": call["type"]}
            if p:
                new = copy.deepcopy(node)
                par = new
                for i in p[:-1]:
                    par = par["inner"][i]
                par["inner"][p[-1]] = rep
            else:
                new = rep
            pre = self.flush(env3)
            v = val if rk == "Z" else "(b2z %s)" % val
            return pre + "let %s := %s in\n  " % (tmp, v) + self.hoist(new, env3, then)
        return self.call(call, env, after)

    def call(self, n, env, k):
        callee = strip_ptr(n["inner"][0])
        name = callee["referencedDecl"]["name"]
        args = n["inner"][1:]
        if name in CLOCK_ORACLES:
            return self.oracle(name, args, env, k)
        src, fn = find_function(self.sources, name, self.cflags)
        if self.depth > 8:
            raise LeafError("call nesting too deep at " + name)
        parms = [c for c in fn.get("inner", []) if c.get("kind") == "ParmVarDecl"]
        if len(parms) != len(args):
            raise LeafError("argument count mismatch calling " + name)
        body = [c for c in fn["inner"] if c.get("kind") == "CompoundStmt"][0]
        rk = ret_kind_of(fn)
        if rk == "P":
            raise LeafError("pointer-valued helper with statements: " + name)
        lets = []
        cenv = self.bind(parms, args, env, name, lets)
        pre = self.flush(cenv) + "".join(lets)

        def back(val, e2):
            merged = dict(env)
            for kk, vv in e2.items():
                if kk.startswith("f_") or kk in ("@chk", "@reads"):
                    merged[kk] = vv
            return k(val, rk, merged)
        self.depth += 1
        try:
            return pre + self.stmtsk([body], cenv, rk, back)
        finally:
            self.depth -= 1

    def oracle(self, name, args, env, k):
        env = dict(env)
        self.uses_reads = True
        cur = env.get("@reads", "reads")
        a, rest = self.fresh("rd"), self.fresh("reads")
        env["@reads"] = rest
        if name == "clock_gettime":
            if len(args) != 2:
                raise LeafError("clock_gettime argument count")
            cid = self.z(args[0], env)
            path = self.sptr(args[1], env)
            out = "let %s := clk_value %s (hd 0 %s) in\n  let %s := tl %s in\n  " % (a, cid, cur, rest, cur)
            for fld, fn in (("tv_sec", "ts_sec"), ("tv_nsec", "ts_nsec")):
                key = "f_" + "_".join(path + (fld,))
                if key not in self.sigkeys:
                    raise LeafError("field %s is outside the modelled state" % key)
                new = self.fresh(key)
                env[key] = new
                if key not in self.written:
                    self.written.append(key)
                out += "let %s := %s %s in\n  " % (new, fn, a)
            return out + k("(0)", "Z", env)
        if args:
            raise LeafError(name + " takes no argument")
        out = "let %s := wrapu 64 (hd 0 %s) in\n  let %s := tl %s in\n  " % (a, cur, rest, cur)
        return out + k(a, "Z", env)

    # ---------------- statements with an explicit continuation k(value text | None, env)
    def stmtsk(self, ss, env, rk, k):
        self.cur_env = env
        if not ss:
            return k(None, env)
        s, rest = ss[0], ss[1:]
        kind = s.get("kind")
        if kind == "CompoundStmt":
            return self.stmtsk(list(s.get("inner", [])) + rest, env, rk, k)
        if kind == "NullStmt":
            return self.stmtsk(rest, env, rk, k)
        if kind == "DeclStmt":
            decls = list(s.get("inner", []))
            if not decls:
                return self.stmtsk(rest, env, rk, k)
            d, more = decls[0], decls[1:]
            tail = ([{"kind": "DeclStmt", "inner": more}] if more else []) + rest
            if d.get("kind") != "VarDecl":
                raise LeafError("unsupported declaration")
            q = d["type"].get("desugaredQualType", d["type"]["qualType"])
            init = d.get("inner", [])
            if ctype(d) is None and d["type"]["qualType"].endswith("*"):
                if not init:
                    raise LeafError("pointer local without initialiser")
                env = dict(env)
                if pointee_is_int(q):
                    env[d["name"]] = self.ptr(init[-1], env)
                else:
                    env[d["name"]] = ("@sp", self.sptr(init[-1], env))
                return self.stmtsk(tail, env, rk, k)
            if ctype(d) is None:
                raise LeafError("unsupported declaration type " + d["type"]["qualType"])
            if not init:
                env = dict(env)
                nm = self.fresh(d["name"])
                env[d["name"]] = nm
                return "let %s := 0 in\n  " % nm + self.stmtsk(tail, env, rk, k)

            def then(node, e2):
                e2 = dict(e2)
                val = self.z(node, e2)
                pre = self.flush(e2)
                nm = self.fresh(d["name"])
                e2[d["name"]] = nm
                return pre + "let %s := %s in\n  " % (nm, val) + self.stmtsk(tail, e2, rk, k)
            return self.hoist(init[-1], env, then)
        if kind == "ReturnStmt":
            inner = s.get("inner", [])
            if not inner:
                return k(None, env)

            def then(node, e2):
                e2 = dict(e2)
                val = self.b(node, e2) if rk == "B" else self.z(node, e2)
                pre = self.flush(e2)
                return pre + k(val, e2)
            return self.hoist(inner[0], env, then)
        if kind == "IfStmt":
            inner = s["inner"]

            def then(node, e2):
                e2 = dict(e2)
                c = self.b(node, e2)
                pre = self.flush(e2)
                th = [inner[1]]
                el = [inner[2]] if len(inner) > 2 else []
                return pre + "(if %s\n  then %s\n  else %s)" % (c, self.stmtsk(th + rest, e2, rk, k),
                                                                 self.stmtsk(el + rest, e2, rk, k))
            return self.hoist(inner[0], env, then)
        if kind in ("BinaryOperator", "CompoundAssignOperator") and (s["opcode"] == "=" or
                                                                    (s["opcode"].endswith("=") and s["opcode"] not in ("==", "!=", "<=", ">="))):
            def then(node, e2):
                e2 = dict(e2)
                lhs, rhs = node["inner"]
                if node["opcode"] == "=":
                    val = self.z(rhs, e2)
                else:
                    fake = {"kind": "BinaryOperator", "opcode": node["opcode"][:-1], "inner": [lhs, rhs],
                            "type": node.get("computeResultType", node["type"])}
                    val = self.z(fake, e2)
                    ty = ctype(node)
                    if ty and not ty[0]:
                        val = "(wrapu %d %s)" % (ty[1], val)
                self.cur_env = e2
                txt = self.assign(strip(lhs), val, e2)
                pre = self.flush(e2)
                return pre + txt + self.stmtsk(rest, e2, rk, k)
            return self.hoist(s, env, then)
        if kind == "UnaryOperator" and s["opcode"] in ("++", "--"):
            e2 = dict(env)
            lhs = strip(s["inner"][0])
            one = {"kind": "IntegerLiteral", "value": "1", "type": s["type"]}
            fake = {"kind": "BinaryOperator", "opcode": "+" if s["opcode"] == "++" else "-", "inner": [lhs, one],
                    "type": s["type"]}
            val = self.z(fake, e2)
            txt = self.assign(lhs, val, e2)
            return self.flush(e2) + txt + self.stmtsk(rest, e2, rk, k)
        if kind == "CallExpr":
            if self.is_complex(s):
                return self.call(s, env, lambda val, rk2, e2: self.stmtsk(rest, e2, rk, k))
            return self.stmtsk(rest, env, rk, k)      # a pure helper whose value is dropped
        if kind in ("CStyleCastExpr", "ParenExpr", "ImplicitCastExpr"):
            return self.stmtsk([s["inner"][-1]] + rest, env, rk, k)
        if kind in ("DeclRefExpr", "IntegerLiteral", "MemberExpr"):
            return self.stmtsk(rest, env, rk, k)
        raise LeafError("unsupported statement kind " + str(kind))

    def assign(self, lhs, val, env):
        self.cur_env = env
        if lhs.get("kind") == "MemberExpr":
            key = self.fkey(lhs)
            new = self.fresh(key)
            env[key] = new
            if key not in self.written:
                self.written.append(key)
            return "let %s := %s in\n  " % (new, val)
        return super().assign(lhs, val, env)


def translate_call(sources, name, cflags, sig, gname=None, double_params=()):
    """-> (text of the two definitions, clock read?, scalar params, ret_kind).
    sig: [(field key, is_array)] = the modelled state, in the order of arguments and results.
    Result tuple: (return value if any, final value of every field of sig in order, remaining reads if the clock
    is read).  double_params: double parameters that may only be used as (int64_t)p; they become the Z
    parameter p_int.  The second definition <gname>_chk returns the list of range checks."""
    src, fn = find_function(sources, name, cflags)
    srcs = [src] + [s for s in sources if s != src]
    gname = gname or ("gen_" + name)
    fn2 = copy.deepcopy(fn)
    dbl = []
    for c in fn2.get("inner", []):
        if c.get("kind") == "ParmVarDecl" and c["type"]["qualType"] in ("double", "float") and c["name"] in double_params:
            dbl.append(c["name"])
            c["type"] = {"qualType": "long"}
    body = [c for c in fn2["inner"] if c.get("kind") == "CompoundStmt"][0]
    rk = ret_kind_of(fn2)
    if rk == "P":
        raise LeafError("unsupported return type")

    def run(chk, with_reads):
        t = TrC(fn2, srcs, cflags, sig, chkmode=chk)
        t.params = [p for p in t.params if p not in dbl]
        env = {p: p for p in t.params}
        for d in dbl:
            env[d + "@int"] = d + "_int"

        def final(val, e):
            if chk:
                return e.get("@chk", "(@nil bool)")
            parts = []
            if rk is not None:
                parts.append(val if val is not None else ("false" if rk == "B" else "0"))
            parts += [e.get(kk, kk) for kk, _ in sig]
            if with_reads:
                parts.append(e.get("@reads", "reads"))
            return "(" + ", ".join(parts) + ")" if len(parts) > 1 else (parts[0] if parts else "tt")
        code = t.stmtsk([body], env, rk, final)
        return t, code
    t, _ = run(False, True)
    uses = t.uses_reads
    outs = []
    for chk in (False, True):
        t, code = run(chk, uses)
        args = ["(%s : %s)" % (kk, "list Z" if a else "Z") for kk, a in sig]
        if uses:
            args.append("(reads : list Z)")
        args += ["(%s_int : Z)" % d for d in dbl] + ["(%s : Z)" % p for p in t.params]
        outs.append("Definition %s%s %s :=\n  %s.\n" % (gname, "_chk" if chk else "", " ".join(args), code))
    return "\n".join(outs), uses, dbl + list(t.params), rk
