(* C14 — exit_returns (repaired muggle_evloop_exit: c_fix_exit = true).
   Invariant (DESIGN.md 6/C14): once to_exit is EXIT or WAKE, either a thread is about to write
   the signal, or the loop thread is on its way to an exit test that will leave (it is handling
   the wake-up whose promotion turns WAKE into EXIT, or EXIT is already set and it is in the rest
   of the pass / in the timer callback), or the signal descriptor is readable / has been reported
   to the pass in progress - so the loop cannot sleep for ever; the exit test then leaves the
   loop, and the clear and exit callbacks run before muggle_evloop_run returns.
   Holds whatever the contexts' I/O, the callbacks' scripts (which may themselves wake, hand over
   and ask for the exit from the loop thread) and the timer.
   On the code as first found (c_fix_exit = false) the invariant is false: exit_returns_refuted. *)
From MV Require Import C14.Model C14.ProofsBase C14.ProofsWake.

Definition is_writer (p : pc) : bool :=
  match p with AWrite _ | Cb (QW _) => true | _ => false end.
Definition writer_in_flight (s : sys) : Prop := exists u, is_writer (thr s u) = true.

Definition ex_ok (C : config) (W : Prop) (s : sys) (p : pc) : Prop :=
  match p with
  | SStart | AYield _ | SOp _ | AWrite _ | STail _ | AHLock _ _ | SHEnq _ _ | AHUnlock _ | SHW _ => W \/ 0 < cnt s
  | APoll | SRepoll | SRel PhClose None => W \/ armed C (cnt s) (edge s)
  | SPollRet | SRel PhClose (Some _) | ARel PhClose _ => to_exit s = ST_EXIT \/ W \/ armed_p C s
  | Cb _ => if cbk s then to_exit s = ST_EXIT \/ W \/ armed C (cnt s) (edge s) else True
  | _ => True
  end.

Definition EInv (C : config) (s : sys) : Prop :=
  (to_exit s = 0 \/ to_exit s = ST_EXIT \/ to_exit s = ST_WAKE) /\
  (to_exit s <> 0 -> ex_ok C (writer_in_flight s) s (thr s (c_loop C))).

Lemma ex_ok_weaken C (W W' : Prop) s p : (W -> W') -> ex_ok C W s p -> ex_ok C W' s p.
Proof.
  intros H. destruct p; simpl; try tauto; repeat match goal with ph : phase |- _ => destruct ph | o : option nat |- _ => destruct o end;
    simpl; try tauto. destruct (cbk s); tauto.
Qed.
Lemma ex_ok_writer C (W : Prop) s p : W -> ex_ok C W s p.
Proof.
  intros H. destruct p; simpl; try tauto; repeat match goal with ph : phase |- _ => destruct ph | o : option nat |- _ => destruct o end;
    simpl; try tauto. destruct (cbk s); tauto.
Qed.
Lemma ex_ok_armed C (W : Prop) s p : armed C (cnt s) (edge s) -> ex_ok C W s p.
Proof.
  intros A. pose proof (armed_armed_p C s A) as A'. pose proof A as [A1 A2].
  destruct p; simpl; try tauto; repeat match goal with ph : phase |- _ => destruct ph | o : option nat |- _ => destruct o end;
    simpl; try tauto. destruct (cbk s); tauto.
Qed.
Lemma ex_ok_frame C (W : Prop) s s' p : cnt s' = cnt s -> edge s' = edge s -> psig s' = psig s -> todo s' = todo s ->
  to_exit s' = to_exit s -> cbk s' = cbk s -> ex_ok C W s p -> ex_ok C W s' p.
Proof.
  intros E1 E2 E3 E4 E5 E6. unfold ex_ok, armed_p, armed, sig_pending. rewrite E1, E2, E3, E4, E5, E6. auto.
Qed.

Lemma writer_keep s s' t : (forall u, u <> t -> thr s' u = thr s u) -> is_writer (thr s t) = false ->
  writer_in_flight s -> writer_in_flight s'.
Proof.
  intros Ho Hn [u Hu]. exists u. destruct (Nat.eq_dec u t) as [->|ne]; [congruence|]. rewrite (Ho u ne). exact Hu.
Qed.
Lemma writer_new s' t : is_writer (thr s' t) = true -> writer_in_flight s'.
Proof. intros H. exists t. exact H. Qed.

Lemma init_einv C : EInv C init.
Proof. split; simpl; [auto|congruence]. Qed.

Ltac dom := unfold ST_EXIT, ST_WAKE in *;
  repeat match goal with H : Nat.eqb _ _ = true |- _ => apply Nat.eqb_eq in H
                       | H : Nat.eqb _ _ = false |- _ => apply Nat.eqb_neq in H end; lia.

(* ---- the tail segments ---- *)
Definition ex_pre (C : config) (W : Prop) (s : sys) : Prop :=
  to_exit s <> 0 -> to_exit s = ST_EXIT \/ W \/ armed C (cnt s) (edge s).
Definition ex_pre_p (C : config) (W : Prop) (s : sys) : Prop :=
  to_exit s <> 0 -> to_exit s = ST_EXIT \/ W \/ armed_p C s.

Lemma exit_test_ex C W s t ns s' l : ex_pre C W s -> exit_test C s t ns = Some (s', l) ->
  to_exit s' = to_exit s /\ (to_exit s' <> 0 -> ex_ok C W s' (thr s' t)).
Proof.
  unfold exit_test. intros Hp H.
  destruct (to_exit s =? ST_EXIT) eqn:E; [destruct (c_bare C); [|destruct (reg s) as [|id r]]|];
    inversion H; subst; clear H; rewrite thr_set_pc_same; (split; [reflexivity|]); simpl; auto.
  nrmg. intros Hnz. destruct (Hp Hnz) as [K|[K|K]]; auto. exfalso. apply Nat.eqb_neq in E. contradiction.
Qed.

Lemma fin_pass_ex C W s t ns s' l : ex_pre C W s -> fin_pass C s t ns = Some (s', l) ->
  to_exit s' = to_exit s /\ (to_exit s' <> 0 -> ex_ok C W s' (thr s' t)).
Proof.
  unfold fin_pass. intros Hp H.
  destruct (c_tmo C && c_cb_timer C); [|eapply exit_test_ex; eauto].
  match type of H with (if is_nil (cbs ?x) then _ else _) = _ => set (s1 := x) in * end.
  assert (P1 : ex_pre C W s1) by (unfold ex_pre, s1; nrmg; exact Hp).
  assert (E1 : to_exit s1 = to_exit s) by reflexivity.
  destruct (is_nil (cbs s1)).
  - destruct (exit_test_ex C W s1 t _ s' l P1 H) as [A B]. split; [congruence|exact B].
  - inversion H; subst; clear H. rewrite thr_set_pc_same. split; [reflexivity|]. simpl. nrmg. exact Hp.
Qed.

Lemma seg_pass_ex C W s t ns s' l : ex_pre_p C W s -> seg_pass C s t ns = Some (s', l) ->
  to_exit s' = to_exit s /\ (to_exit s' <> 0 -> ex_ok C W s' (thr s' t)).
Proof.
  intros Hp H. unfold seg_pass in H.
  destruct (pass C (hup s) (peof s) (rdy s) (rdh s) (psig s) (pn s) (todo s) ns []) as [[[[n td] r] ns'] dr] eqn:E.
  destruct r as [|id|].
  - inversion H; subst; clear H. rewrite thr_set_pc_same. split; [reflexivity|intros _; exact I].
  - inversion H; subst; clear H. rewrite thr_set_pc_same. split; [reflexivity|]. simpl. unfold armed_p, sig_pending. nrmg.
    intros Hnz. destruct (Hp Hnz) as [K|[K|[A1 A2]]]; auto. right. right. split; [exact A1|]. intros Eb.
    destruct (A2 Eb) as [K|[K1 K2]]; [left; exact K|right]. split; [exact K1|].
    rewrite K1 in E. eapply pass_close_keeps_none; eauto.
  - match type of H with fin_pass _ ?x _ _ = _ => set (s1 := x) in * end.
    assert (P1 : ex_pre C W s1).
    { unfold ex_pre, s1. nrmg. intros Hnz. destruct (Hp Hnz) as [K|[K|[A1 A2]]]; auto. right. right. split; [exact A1|]. intros Eb.
      destruct (A2 Eb) as [K|[K1 K2]]; [exact K|]. rewrite K1 in E. apply pass_end_none_poll in E; [congruence|exact K2]. }
    destruct (fin_pass_ex C W s1 t _ s' l P1 H) as [A B]. split; [rewrite A; reflexivity|exact B].
Qed.

Lemma wake_end_ex C W s t ns s' l :
  (to_exit s = 0 \/ to_exit s = ST_EXIT \/ to_exit s = ST_WAKE) -> wake_end C s t ns = Some (s', l) ->
  to_exit s' = (if Nat.eqb (to_exit s) ST_WAKE then ST_EXIT else to_exit s) /\ (to_exit s' <> 0 -> ex_ok C W s' (thr s' t)).
Proof.
  intros Hd H. unfold wake_end in H.
  match type of H with seg_pass _ ?x _ _ = _ => set (s1 := x) in * end.
  assert (E1 : to_exit s1 = if Nat.eqb (to_exit s) ST_WAKE then ST_EXIT else to_exit s) by reflexivity.
  assert (P1 : ex_pre_p C W s1).
  { intros Hnz. left. rewrite E1 in *. destruct (Nat.eqb_spec (to_exit s) ST_WAKE); [reflexivity|]. destruct Hd as [K|[K|K]]; congruence. }
  destruct (seg_pass_ex C W s1 t _ s' l P1 H) as [A B]. split; [congruence|exact B].
Qed.

Lemma cb_end_ex C W s t ns s' l :
  (to_exit s = 0 \/ to_exit s = ST_EXIT \/ to_exit s = ST_WAKE) ->
  (cbk s = true -> ex_pre C W s) -> cb_end C s t ns = Some (s', l) ->
  (to_exit s' = to_exit s \/ (to_exit s = ST_WAKE /\ to_exit s' = ST_EXIT)) /\ (to_exit s' <> 0 -> ex_ok C W s' (thr s' t)).
Proof.
  intros Hd Hp H. unfold cb_end in H. destruct (cbk s).
  - destruct (exit_test_ex C W s t _ s' l (Hp eq_refl) H) as [A B]. split; [left; exact A|exact B].
  - destruct (wake_end_ex C W s t _ s' l Hd H) as [A B]. split; [|exact B].
    destruct (Nat.eqb_spec (to_exit s) ST_WAKE); auto.
Qed.

Lemma cb_next_ex C W s t k ns s' l :
  (to_exit s = 0 \/ to_exit s = ST_EXIT \/ to_exit s = ST_WAKE) ->
  (cbk s = true -> ex_pre C W s) -> cb_next C s t k ns = Some (s', l) ->
  (to_exit s' = to_exit s \/ (to_exit s = ST_WAKE /\ to_exit s' = ST_EXIT)) /\ (to_exit s' <> 0 -> ex_ok C W s' (thr s' t)).
Proof.
  intros Hd Hp H. unfold cb_next in H. destruct (S k <? length (cbs s)).
  - inversion H; subst; clear H. rewrite thr_set_pc_same. split; [left; reflexivity|]. nrmg. intros Hnz. simpl. nrmg.
    destruct (cbk s) eqn:K; [apply Hp; [reflexivity|exact Hnz]|exact I].
  - eapply cb_end_ex; eauto.
Qed.

Lemma dom_promote x : (x = 0 \/ x = ST_EXIT \/ x = ST_WAKE) ->
  ((if Nat.eqb x ST_WAKE then ST_EXIT else x) = 0 \/ (if Nat.eqb x ST_WAKE then ST_EXIT else x) = ST_EXIT \/
   (if Nat.eqb x ST_WAKE then ST_EXIT else x) = ST_WAKE).
Proof. intros [H | [H | H]]; rewrite H; simpl; auto. Qed.

(* ---- steps of the other threads ---- *)
Lemma step_other_exit C s t ch s' l : c_fix_exit C = true -> BInv C s -> t <> c_loop C -> step C s t ch = Some (s', l) ->
  cbk s' = cbk s /\
  ((to_exit s' = to_exit s /\ (is_writer (thr s t) = false \/ 0 < cnt s' /\ edge s' = true)) \/
   ((to_exit s' = ST_EXIT \/ to_exit s' = ST_WAKE) /\ is_writer (thr s' t) = true)).
Proof.
  intros Hfix B Hne Hs. pose proof (b_loop _ _ B t) as Hl.
  step_inv Hs.
  all: simpl in Hl; try (exfalso; apply Hne; apply Hl; reflexivity).
  all: try (exfalso; apply Hne; apply Nat.eqb_eq; assumption).
  all: try (rewrite Hfix in *; discriminate).
  all: nrmg; rewrite ?upd_same.
  all: match goal with E : thr _ _ = _ |- _ => rewrite ?E end; simpl.
  all: split; [reflexivity|].
  all: first [ left; split; [reflexivity|left; reflexivity]
             | left; split; [reflexivity|right; split; [lia|reflexivity]]
             | right; split; [auto|reflexivity] ].
Qed.

Lemma step_einv C s t ch s' l : c_fix_exit C = true ->
  BInv C s -> EInv C s -> step C s t ch = Some (s', l) -> EInv C s'.
Proof.
  intros Hfix B [Hd He] Hs.
  destruct (Nat.eq_dec t (c_loop C)) as [e|ne].
  2: { (* another thread *)
    destruct (step_other_sig C s t ch s' l B ne Hs) as (Ep & E1 & E2 & E3 & Hsig).
    destruct (step_other_exit C s t ch s' l Hfix B ne Hs) as (Ek & Hx).
    pose proof (fun u => step_other_thr C s t ch s' l u Hs) as Ho.
    destruct Hx as [(Ex & Hw)|(Ex & Hw)].
    - split; [rewrite Ex; exact Hd|]. rewrite Ex, Ep. intros Hnz. specialize (He Hnz).
      destruct Hw as [Hw|[Hw1 Hw2]].
      + destruct Hsig as [(E4 & E5 & E6)|(E4 & E5 & E6)].
        * eapply ex_ok_frame; eauto. eapply ex_ok_weaken; [|exact He]. apply (writer_keep s s' t); auto.
        * apply ex_ok_armed. rewrite E4, E5. split; [lia|reflexivity].
      + apply ex_ok_armed. rewrite Hw2. split; [lia|reflexivity].
    - split; [destruct Ex as [K|K]; rewrite K; auto|]. intros _. rewrite Ep. apply ex_ok_writer. apply (writer_new s' t). exact Hw. }
  (* the loop thread *)
  subst t.
  pose proof (fun u => step_other_thr C s (c_loop C) ch s' l u Hs) as Ho.
  assert (Wk : is_writer (thr s (c_loop C)) = false -> writer_in_flight s -> writer_in_flight s').
  { intros K. apply (writer_keep s s' (c_loop C)); auto. }
  step_inv Hs.
  all: try (rewrite Hfix in *; discriminate).
  all: repeat match goal with ph : phase |- _ => destruct ph end.
  all: cbn [ex_ok] in He; simpl in Wk.
  all: try specialize (Wk eq_refl).
  (* tails *)
  all: try (match goal with
            | H : cb_next _ ?s1 _ _ _ = Some _ |- _ =>
              edestruct (fun a b => cb_next_ex C (writer_in_flight s) s1 _ _ _ _ _ a b H) as [A Bx]
            | H : cb_end _ ?s1 _ _ = Some _ |- _ =>
              edestruct (fun a b => cb_end_ex C (writer_in_flight s) s1 _ _ _ _ a b H) as [A Bx]
            end;
            [ nrmg; exact Hd
            | nrmg; intros Kc; unfold ex_pre; nrmg; intros Hnz; rewrite Kc in He; apply He; exact Hnz
            | nrmh A; split;
              [ destruct A as [A|[A1 A2]]; [rewrite A; exact Hd|rewrite A2; auto]
              | intros Hnz; eapply ex_ok_weaken; [exact Wk|apply Bx; exact Hnz] ] ]; fail).
  all: try (match goal with H : wake_end _ ?s1 _ _ = Some _ |- _ =>
              edestruct (fun a => wake_end_ex C (writer_in_flight s) s1 _ _ _ _ a H) as [A Bx] end;
            [ nrmg; exact Hd
            | nrmh A; split; [rewrite A; apply dom_promote; exact Hd
                             | intros Hnz; eapply ex_ok_weaken; [exact Wk|apply Bx; exact Hnz] ] ]; fail).
  all: try (match goal with H : seg_pass _ ?s1 _ _ = Some _ |- _ =>
              edestruct (fun a => seg_pass_ex C (writer_in_flight s) s1 _ _ _ _ a H) as [A Bx] end;
            [ unfold ex_pre_p, armed_p, sig_pending in *; nrmg; exact He
            | nrmh A; split; [rewrite A; exact Hd
                             | intros Hnz; eapply ex_ok_weaken; [exact Wk|apply Bx; exact Hnz] ] ]; fail).
  all: try (match goal with H : fin_pass _ ?s1 _ _ = Some _ |- _ =>
              edestruct (fun a => fin_pass_ex C (writer_in_flight s) s1 _ _ _ _ a H) as [A Bx] end;
            [ unfold ex_pre; nrmg; intros Hnz;
              first [ right; apply He; exact Hnz
                    | (* bare loop: the promotion *)
                      left; destruct (Nat.eqb_spec (to_exit s) ST_WAKE); [reflexivity|]; destruct Hd as [K|[K|K]]; congruence
                    | (* after a close, poll back-end *)
                      destruct (He Hnz) as [K|[K|[K1 K2]]]; [left; exact K|right; left; exact K|right; right];
                      split; [exact K1|]; intros Eb; exfalso; unfold poll_done in *; rewrite Eb in *; discriminate ]
            | nrmh A; split; [rewrite A; first [exact Hd | apply dom_promote; exact Hd]
                             | intros Hnz; eapply ex_ok_weaken; [exact Wk|apply Bx; exact Hnz] ] ]; fail).
  (* explicit steps *)
  all: unfold EInv; nrmg; rewrite ?upd_same; cbn [ex_ok]; nrmg.
  all: (split; [first [exact Hd | auto]|]).
  all: intros Hnz.
  (* nothing to show at this point of the loop *)
  all: try exact I.
  all: try (match goal with |- if cbk ?x then _ else True => destruct (cbk x) eqn:Kc; [|exact I] end).
  (* the stepping thread is now about to write the signal *)
  all: try (left; apply (writer_new _ (c_loop C)); rewrite thr_set_pc_same; reflexivity).
  all: try (right; left; apply (writer_new _ (c_loop C)); rewrite thr_set_pc_same; reflexivity).
  (* a write of the signal *)
  all: try (right; lia).
  all: try (right; right; split; [lia|reflexivity]).
  (* nothing relevant changed *)
  all: try (specialize (He Hnz); destruct He as [K|K]; [left; apply Wk; exact K|right; exact K]).
  all: try (specialize (He Hnz); destruct He as [K|[K|K]]; [left; exact K|right; left; apply Wk; exact K|right; right; exact K]).
  - (* run() starts: the epoll registration finds the signal readable *)
    specialize (He Hnz). destruct He as [K|K]; [left; apply Wk; exact K|right]. split; [exact K|]. intros _. apply Nat.ltb_lt. exact K.
  - (* a poll call that reports something *)
    specialize (He Hnz). destruct He as [K|[A1 A2]]; [right; left; apply Wk; exact K|right; right].
    assert (R : ready C s = true) by (apply armed_ready; split; assumption).
    unfold armed_p, sig_pending. nrmg. rewrite R. split; [exact A1|]. intros Eb. right. split; [reflexivity|].
    unfold pass_plan. rewrite Eb. unfold ins_sig. apply in_or_app. right. left. reflexivity.
Qed.

Theorem einv_all C sched : c_fix_exit C = true -> EInv C (exec sys (step C) init sched).
Proof.
  intros Hfix.
  assert (H : BInv C (exec sys (step C) init sched) /\ EInv C (exec sys (step C) init sched)).
  { apply (inv_exec sys (step C) (fun s => BInv C s /\ EInv C s)).
    - intros s t c s' l [B W] Hs. split; [eapply step_binv | eapply step_einv]; eauto.
    - split; [apply init_binv | apply init_einv]. }
  exact (proj2 H).
Qed.


(* the loop thread is on its way to an exit test that will leave, without blocking on I/O: it is
   handling the wake-up (the promotion WAKE -> EXIT is ahead: clear-up, on_wake, the user's wake
   callback), or EXIT is set and it is in the rest of the pass / in the timer callback, or (epoll)
   the signal has been reported to the pass in progress and handle_wakeup is still to come *)
Definition past_poll (C : config) (s : sys) (p : pc) : Prop :=
  match p with
  | ARead | SWake | AWLock | SRel PhDrain _ | ARel PhDrain _ | AWUnlock | SWakeEnd => True
  | Cb _ => cbk s = false \/ to_exit s = ST_EXIT
  | SPollRet | SRel PhClose (Some _) | ARel PhClose _ => to_exit s = ST_EXIT \/ (c_be C = BEpoll /\ sig_pending s)
  | _ => False
  end.
(* the loop has left the while(1): clear callbacks, exit callback, return *)
Definition leaving (p : pc) : bool :=
  match p with
  | SRel PhClear _ | ARel PhClear _ | AXLock | SRel PhExit _ | ARel PhExit _ | AXUnlock | SRet | AFin | Done => true
  | _ => false
  end.

Lemma armed_p_cases C s : armed_p C s -> (c_be C = BEpoll /\ sig_pending s) \/ ready C s = true.
Proof.
  intros [A1 A2]. destruct (c_be C) eqn:Eb.
  - right. unfold ready. rewrite Eb. apply Nat.ltb_lt. exact A1.
  - right. unfold ready. rewrite Eb. apply Nat.ltb_lt. exact A1.
  - destruct (A2 eq_refl) as [K|K]; [right|left; auto].
    unfold ready. rewrite Eb, K. simpl. apply Nat.ltb_lt. exact A1.
Qed.

(* the invariant of DESIGN.md: EXIT (or WAKE) pending => a writer is in flight, or the loop
   thread is past a poll return on its way to an exit test that leaves, or the signal descriptor
   is readable *)
Theorem exit_pending_invariant C sched : c_fix_exit C = true ->
  let s := exec sys (step C) init sched in
  (to_exit s = 0 \/ to_exit s = ST_EXIT \/ to_exit s = ST_WAKE) /\
  (to_exit s <> 0 ->
   (prerun (thr s (c_loop C)) = true -> writer_in_flight s \/ 0 < cnt s) /\
   (in_body (thr s (c_loop C)) = true ->
    writer_in_flight s \/ past_poll C s (thr s (c_loop C)) \/ ready C s = true)).
Proof.
  intros Hfix s. destruct (einv_all C sched Hfix) as [Hd He]. fold s in Hd, He. split; [exact Hd|].
  intros Hne. specialize (He Hne). split.
  - intros Hp. destruct (thr s (c_loop C)); simpl in *; try discriminate; exact He.
  - intros Hb. destruct (thr s (c_loop C)); simpl in *; try discriminate;
      repeat match goal with ph : phase |- _ => destruct ph | o : option nat |- _ => destruct o end;
      simpl in *; try discriminate; try (right; left; exact I);
      try (destruct He as [He|He]; [left; exact He|right; right; apply armed_ready; exact He]);
      try (destruct He as [He|[He|He]]; [right; left; left; exact He|left; exact He|];
           destruct (armed_p_cases C s He) as [K|K]; [right; left; right; exact K|right; right; exact K]).
    destruct (cbk s); [|right; left; left; reflexivity].
    destruct He as [He|[He|He]]; [right; left; right; exact He|left; exact He|right; right; apply armed_ready; exact He].
Qed.

(* ... hence a poll attempt made after an exit request has completed never finds nothing: it
   reports the signal to the pass *)
Corollary exit_poll_never_sleeps C sched : c_fix_exit C = true ->
  let s := exec sys (step C) init sched in
  to_exit s <> 0 -> ~ writer_in_flight s -> thr s (c_loop C) = APoll ->
  forall ch, exists s' n, step C s (c_loop C) ch = Some (s', ev_poll true n) /\ 0 < n /\
                          thr s' (c_loop C) = SPollRet /\ sig_pending s'.
Proof.
  intros Hfix s Hne Hnw Hp ch. pose proof (binv_all C sched) as B. fold s in B.
  destruct (einv_all C sched Hfix) as [_ He]. fold s in He. specialize (He Hne). rewrite Hp in He. simpl in He.
  destruct He as [He|He]; [contradiction|].
  destruct (b_valid _ _ B (c_loop C)) as [Hn Hc]; [rewrite Hp; discriminate|].
  unfold step. rewrite Hn, Hc, Hp. rewrite Bool.orb_true_r. simpl.
  rewrite (armed_ready C s He). simpl. eexists. eexists. split; [reflexivity|]. split; [lia|].
  split; [apply thr_set_pc_same|]. unfold sig_pending. nrmg. split; [reflexivity|].
  unfold pass_plan. destruct (c_be C); simpl; auto.
  - apply in_or_app. right. left. reflexivity.
  - unfold ins_sig. apply in_or_app. right. left. reflexivity.
Qed.

(* ... and the exit test leaves the loop as soon as to_exit is EXIT, wherever it is reached (at
   the end of a pass, after the timer callback, with or without a wake-up in that pass) *)
Lemma exit_test_leaves_loop C s t ns s' l : to_exit s = ST_EXIT -> exit_test C s t ns = Some (s', l) ->
  leaving (thr s' t) = true /\ to_exit s' = ST_EXIT.
Proof.
  unfold exit_test. intros E H. rewrite E in H. simpl in H.
  destruct (c_bare C); [|destruct (reg s)]; inversion H; subst; clear H; rewrite thr_set_pc_same; split; auto.
Qed.

(* the handling of a wake-up turns a pending request into EXIT: at the end of handle_wakeup (after
   the user's wake callback, when there is one) *)
Lemma wake_end_promotes C s t ns s' l :
  (to_exit s = 0 \/ to_exit s = ST_EXIT \/ to_exit s = ST_WAKE) -> to_exit s <> 0 ->
  wake_end C s t ns = Some (s', l) -> to_exit s' = ST_EXIT.
Proof.
  intros Hd Hnz H. apply wake_end_frame in H. destruct H as (_ & A & _). rewrite A.
  destruct (Nat.eqb_spec (to_exit s) ST_WAKE); [reflexivity|]. destruct Hd as [K|[K|K]]; congruence.
Qed.

(* the step of the loop thread at the end of on_wake, with an exit pending: either the user's
   wake callback has a script to run first (the promotion follows it), or to_exit is EXIT when the
   step is over *)
Corollary exit_test_leaves C sched : c_fix_exit C = true ->
  let s := exec sys (step C) init sched in
  to_exit s <> 0 -> thr s (c_loop C) = SWakeEnd ->
  exists s' l, step C s (c_loop C) 0 = Some (s', l) /\
    ((thr s' (c_loop C) = Cb (QY 0) /\ cbk s' = false /\ to_exit s' = to_exit s) \/ to_exit s' = ST_EXIT).
Proof.
  intros Hfix s Hne Hp. pose proof (binv_all C sched) as B. fold s in B.
  destruct (einv_all C sched Hfix) as [Hd _]. fold s in Hd.
  destruct (b_valid _ _ B (c_loop C)) as [Hn Hc]; [rewrite Hp; discriminate|].
  unfold step. rewrite Hn, Hc, Hp. rewrite Bool.orb_true_r. cbv beta iota zeta delta [negb].
  destruct (c_cb_wake C).
  - match goal with |- context [if is_nil (cbs ?x) then _ else _] => set (s1 := x) end.
    destruct (is_nil (cbs s1)).
    + destruct (wake_end C s1 (c_loop C) (wake_notes C)) as [[s' l]|] eqn:E; [|exfalso; eapply wake_end_total; eauto].
      exists s', l. split; [reflexivity|]. right. eapply wake_end_promotes; [| |exact E]; unfold s1; nrmg; assumption.
    + eexists. eexists. split; [reflexivity|]. left. rewrite thr_set_pc_same. unfold s1. nrmg. auto.
  - destruct (wake_end C s (c_loop C) []) as [[s' l]|] eqn:E; [|exfalso; eapply wake_end_total; eauto].
    exists s', l. split; [reflexivity|]. right. eapply wake_end_promotes; eauto.
Qed.

(* the same for a bare loop (no handle): the promotion and the exit test follow the clear-up in
   the same plain segment, whether or not a wake callback is installed, and the loop thread goes
   through the clear and exit callbacks to the return at once *)
Corollary exit_test_leaves_bare C sched : c_fix_exit C = true -> c_bare C = true ->
  let s := exec sys (step C) init sched in
  to_exit s <> 0 -> thr s (c_loop C) = SWake ->
  exists s' ns, step C s (c_loop C) 0 = Some (s', LPlain (wake_notes C ++ ns ++ bare_exit_notes C)) /\
             thr s' (c_loop C) = AFin /\ returned s' = true /\ to_exit s' = ST_EXIT.
Proof.
  intros Hfix Hb s Hne Hp. pose proof (binv_all C sched) as B. fold s in B.
  destruct (einv_all C sched Hfix) as [Hd _]. fold s in Hd.
  destruct (b_valid _ _ B (c_loop C)) as [Hn Hc]; [rewrite Hp; discriminate|].
  unfold step. rewrite Hn, Hc, Hp, Hb. rewrite Bool.orb_true_r. cbv beta iota zeta delta [negb].
  assert (Hte : (if to_exit s =? ST_WAKE then ST_EXIT else to_exit s) = ST_EXIT).
  { unfold ST_EXIT, ST_WAKE in *. destruct (Nat.eqb_spec (to_exit s) 2); lia. }
  rewrite Hte. unfold fin_pass. rewrite Hb.
  destruct (c_tmo C && c_cb_timer C); cbv beta iota zeta delta [is_nil]; nrmg; cbv beta iota zeta delta [is_nil];
    unfold exit_test; nrmg; rewrite Hb; cbv beta iota delta [Nat.eqb ST_EXIT].
  - eexists. exists [(n_timer, 0%Z)].
    split; [rewrite <- app_assoc; reflexivity|]. rewrite thr_set_pc_same. nrmg. auto.
  - eexists. exists []. split; [reflexivity|]. rewrite thr_set_pc_same. nrmg. auto.
Qed.

(* progress: whenever the loop thread has started and not finished, it can take a step, or it
   waits for the handle's mutex and the holder (a hand-over in progress) can take a step;
   the only unbounded wait is the poll, covered by the two corollaries above *)
Lemma loop_stuck_mutex C s t : BInv C s -> thr s t <> SStart -> thr s t <> Done -> step C s t 0 = None ->
  exists u, mtx s = Some u /\ holds (thr s t) = false.
Proof.
  intros B Hst Hdn Hnone.
  destruct (b_valid _ _ B t Hst) as [Hn Hc].
  unfold step, seg_drain, seg_clear, seg_exit in Hnone. rewrite Hn, Hc, Bool.orb_true_r in Hnone. simpl in Hnone.
  destruct (thr s t) eqn:Ep; try congruence; simpl;
    repeat match type of Hnone with
    | (if ?a then _ else _) = None => destruct a
    | (match ?a with _ => _ end) = None => destruct a eqn:?
    end; try discriminate; eauto;
    exfalso; first [ eapply cb_next_total; eassumption | eapply cb_end_total; eassumption | eapply wake_end_total; eassumption
                   | eapply seg_pass_total; eassumption | eapply fin_pass_total; eassumption | eapply exit_test_total; eassumption ].
Qed.

Lemma holder_can_step C s u : BInv C s -> mtx s = Some u -> step C s u 0 <> None.
Proof.
  intros B Hu. pose proof (b_free _ _ B u Hu) as Hhu.
  destruct (b_valid _ _ B u) as [Hnu Hcu]; [intros E; rewrite E in Hhu; discriminate|].
  unfold step, seg_drain, seg_exit. rewrite Hnu, Hcu, Bool.orb_true_r. simpl.
  destruct (thr s u) eqn:Ep; simpl in Hhu; try discriminate;
    repeat match goal with ph : phase |- _ => destruct ph | o : option nat |- _ => destruct o | q : spc |- _ => destruct q end;
    simpl in Hhu; try discriminate;
    repeat match goal with |- context [match ?x with _ => _ end] => destruct x end; discriminate.
Qed.

Theorem loop_never_stuck C sched :
  let s := exec sys (step C) init sched in
  thr s (c_loop C) <> SStart -> thr s (c_loop C) <> Done ->
  step C s (c_loop C) 0 = None ->
  exists u, u <> c_loop C /\ mtx s = Some u /\ step C s u 0 <> None.
Proof.
  intros s Hst Hdn Hnone. pose proof (binv_all C sched) as B. fold s in B.
  destruct (loop_stuck_mutex C s (c_loop C) B Hst Hdn Hnone) as (u & Hu & Hh). exists u.
  pose proof (b_free _ _ B u Hu) as Hhu.
  split; [intros ->; congruence|]. split; [exact Hu|]. apply holder_can_step; assumption.
Qed.

(* the code as first found: the three-step schedule "creator calls exit; loop thread records its
   id; loop thread polls" leaves EXIT pending with no writer in flight, the loop at its poll and
   the signal not readable - and nothing can ever change that (all other threads are done). *)
Definition cfg_exit_before_run (fx : bool) : config :=
  mk_cfg BEpoll 2 1 8 (fun t => match t with 0 => [OpX] | _ => [] end) fx true.
Definition sched_exit_before_run : list (nat * nat) :=
  [(0,0);(0,0);(0,0);  (* T0: create; plain op; muggle_evloop_exit -> same-thread branch, EXIT, no wake-up *)
   (1,0);(1,0);(1,0);  (* T1: plain op; run() records its id; poll finds nothing *)
   (0,0);(0,0);(0,0);(1,0);(1,0);(1,0);(1,0)].
Example exit_returns_refuted :
  let C := cfg_exit_before_run false in
  let s := exec sys (step C) init sched_exit_before_run in
  to_exit s = ST_EXIT /\ thr s 0 = Done /\ thr s 1 = APoll /\ ready C s = false /\ returned s = false /\
  (forall u k, u < 2 -> thr s u <> AWrite k).
Proof.
  vm_compute. repeat split; try reflexivity.
  intros u k Hu. destruct u as [|[|u]]; try discriminate; lia.
Qed.
(* the same schedule on the repaired code returns through the clear and exit callbacks *)
Example exit_returns_witness_repaired :
  let C := cfg_exit_before_run true in
  let s := exec sys (step C) init
    (sched_exit_before_run ++ [(0,0);(0,0);(1,0);(1,0);(1,0);(1,0);(1,0);(1,0);(1,0);(1,0);(1,0);(1,0);(1,0);(1,0);(1,0);(1,0)]) in
  returned s = true /\ thr s 1 = Done.
Proof. vm_compute. split; reflexivity. Qed.

(* a bare loop on the poll back-end WITHOUT a wake callback, exit requested by another thread
   while the loop sleeps in poll: the promotion WAKE -> EXIT does not depend on the callback and
   run() returns through the clear callback of its registered context and the exit callback *)
Example exit_bare_without_wake_callback :
  let C := mk_bare BPoll 2 1 8 (fun t => match t with 0 => [OpX] | _ => [] end) 1 false true true in
  let sched := [(0,0)] ++ repeat (1,0) 4 ++ repeat (0,0) 8 ++ repeat (1,0) 4 in
  let s := exec sys (step C) init sched in
  to_exit s = ST_WAKE /\ thr s 1 = SWake /\
  step C s 1 0 = Some (exec sys (step C) init (sched ++ [(1,0)]),
                       LPlain [(n_clear, 0%Z); (n_exitcb, 0%Z); (n_returned, 0%Z)]) /\
  returned (exec sys (step C) init (sched ++ [(1,0)])) = true.
Proof. vm_compute. repeat split; reflexivity. Qed.
