(* C14 — exit_returns (repaired muggle_evloop_exit: c_fix_exit = true).
   Invariant (DESIGN.md 6/C14): once to_exit is EXIT or WAKE, either a thread is about to write
   the signal, or the loop thread is past a poll return in this iteration (it reaches the exit
   test without blocking), or the signal descriptor is readable - so the loop cannot sleep for
   ever; the exit test after any wake-up then leaves the loop, and the clear and exit
   callbacks run before muggle_evloop_run returns.
   On the code as first found (c_fix_exit = false) the invariant is false: exit_returns_refuted. *)
From MV Require Import C14.Model C14.ProofsBase C14.ProofsWake.

Definition writer_in_flight (s : sys) : Prop := exists u k, thr s u = AWrite k.

Definition ex_ok (C : config) (W : Prop) (c : nat) (e : bool) (p : pc) : Prop :=
  match p with
  | SStart | AYield _ | SOp _ | AWrite _ | STail _ | AHLock _ _ | SHEnq _ _ | AHUnlock _ | SHW _ => W \/ 0 < c
  | APoll | SRepoll => W \/ armed C c e
  | _ => True
  end.

Definition EInv (C : config) (s : sys) : Prop :=
  (to_exit s = 0 \/ to_exit s = ST_EXIT \/ to_exit s = ST_WAKE) /\
  (to_exit s <> 0 -> ex_ok C (writer_in_flight s) (cnt s) (edge s) (thr s (c_loop C))).

Lemma ex_ok_weaken C (W W' : Prop) c e p : (W -> W') -> ex_ok C W c e p -> ex_ok C W' c e p.
Proof. intros H. destruct p; simpl; tauto. Qed.
Lemma ex_ok_writer C (W : Prop) c e p : W -> ex_ok C W c e p.
Proof. intros H. destruct p; simpl; tauto. Qed.
Lemma ex_ok_written C (W : Prop) c p : ex_ok C W (S c) true p.
Proof. destruct p; simpl; try exact I; right; first [lia | split; [lia|reflexivity]]. Qed.

Lemma writer_persist (f : nat -> pc) t p :
  (forall k, f t <> AWrite k) -> (exists u k, f u = AWrite k) -> exists u k, upd f t p u = AWrite k.
Proof.
  intros Hn (u & k & Hu). exists u, k. unfold upd. destruct (Nat.eqb_spec u t); [subst; exfalso; eapply Hn; eauto|exact Hu].
Qed.
Lemma writer_new (f : nat -> pc) t k : exists u k', upd f t (AWrite k) u = AWrite k'.
Proof. exists t, k. apply upd_same. Qed.

Lemma init_einv C : EInv C init.
Proof. split; simpl; [auto|congruence]. Qed.

Ltac dom := simpl; unfold ST_EXIT, ST_WAKE in *;
  repeat match goal with H : Nat.eqb _ _ = true |- _ => apply Nat.eqb_eq in H
                       | H : Nat.eqb _ _ = false |- _ => apply Nat.eqb_neq in H end; lia.

Lemma step_einv C s t ch s' l : c_fix_exit C = true ->
  BInv C s -> EInv C s -> step C s t ch = Some (s', l) -> EInv C s'.
Proof.
  intros Hfix B [Hd He] Hs. pose proof (b_loop _ _ B t) as Hl.
  step_inv Hs.
  all: simpl in Hl.
  all: try (rewrite Hfix in *; discriminate).
  all: unfold EInv, writer_in_flight, set_pc; simpl; unfold upd at 2.
  all: destruct (Nat.eqb_spec (c_loop C) t) as [e|ne];
    [ rewrite e in *; match goal with E : thr _ ?t0 = _ |- _ => rewrite E in He; simpl in He end
    | try (exfalso; apply ne; symmetry; apply Hl; reflexivity) ].
  all: repeat match goal with ph : phase |- _ => destruct ph end; simpl in *.
  all: split; [ try assumption; try dom | intros Hne ].
  all: try exact I.
  (* a write of the signal *)
  all: try apply ex_ok_written.
  (* an exit request: the requesting thread is about to write *)
  all: try (apply ex_ok_writer; apply writer_new).
  all: try (left; apply writer_new).
  (* nothing relevant changed: a writer in flight stays in flight *)
  all: try (specialize (He Hne); revert He; apply ex_ok_weaken; apply writer_persist;
            intros k' Hk; congruence).
  all: try (specialize (He Hne); destruct He as [He|He]; [left; apply writer_persist; [intros k' Hk; congruence|exact He]|right; exact He]).
  (* WAKE -> EXIT promotion keeps the flag in its domain; with an exit pending the exit test
     cannot send the loop back to the poll *)
  all: try (destruct (to_exit s =? ST_WAKE); [right; left; reflexivity|assumption]).
  all: try (exfalso; unfold ST_EXIT, ST_WAKE in *;
            destruct (Nat.eqb_spec (to_exit s) 2); [discriminate|];
            match goal with Hb : (_ =? 1) = false |- _ => apply Nat.eqb_neq in Hb end; lia).
  - specialize (He Hne). destruct He as [He|He].
    + left. apply writer_persist; [intros k' Hk; congruence|exact He].
    + right. split; [lia|intros _; apply Nat.ltb_lt; lia].
  - exfalso; apply ne. symmetry. apply Nat.eqb_eq. assumption.
  - right. lia.
Qed.

Theorem einv_all C sched : c_fix_exit C = true -> EInv C (exec sys (step C) init sched).
Proof.
  intros Hfix.
  assert (H : BInv C (exec sys (step C) init sched) /\ EInv C (exec sys (step C) init sched)).
  { apply (inv_exec sys (step C) (fun s => BInv C s /\ EInv C s)).
    - intros s t c s' l [B W] Hs. split; [eapply step_binv | eapply step_einv]; eauto.
    - split; [apply init_binv | apply init_einv]. }
  exact (proj2 H).
Qed.


(* past a poll return in the current iteration: the exit test is reached without blocking on I/O *)
Definition past_poll (p : pc) : bool :=
  match p with
  | SPollRet | ARead | SWake | AWLock | SRel PhDrain _ | ARel PhDrain _ | AWUnlock | SWakeEnd => true
  | _ => false
  end.
(* the loop has left the while(1): clear callbacks, exit callback, return *)
Definition leaving (p : pc) : bool :=
  match p with
  | SRel PhClear _ | ARel PhClear _ | AXLock | SRel PhExit _ | ARel PhExit _ | AXUnlock | SRet | AFin | Done => true
  | _ => false
  end.

(* the invariant of DESIGN.md: EXIT (or WAKE) pending => a writer is in flight, or the loop
   thread is past a poll return in this iteration, or the signal descriptor is readable *)
Theorem exit_pending_invariant C sched : c_fix_exit C = true ->
  let s := exec sys (step C) init sched in
  (to_exit s = 0 \/ to_exit s = ST_EXIT \/ to_exit s = ST_WAKE) /\
  (to_exit s <> 0 ->
   (prerun (thr s (c_loop C)) = true -> writer_in_flight s \/ 0 < cnt s) /\
   (in_body (thr s (c_loop C)) = true ->
    writer_in_flight s \/ past_poll (thr s (c_loop C)) = true \/ ready C s = true)).
Proof.
  intros Hfix s. destruct (einv_all C sched Hfix) as [Hd He]. fold s in Hd, He. split; [exact Hd|].
  intros Hne. specialize (He Hne). split.
  - intros Hp. destruct (thr s (c_loop C)); simpl in *; try discriminate; exact He.
  - intros Hb. destruct (thr s (c_loop C)) as [| | | | | | | | | | | | | | |ph ?|ph ?| | | | | | |];
      simpl in *; try discriminate; try (right; left; reflexivity);
      try (destruct He as [He|He]; [left; exact He|right; right; apply armed_ready; exact He]);
      destruct ph; simpl in *; try discriminate; right; left; reflexivity.
Qed.

(* ... hence a poll attempt made after an exit request has completed never finds nothing *)
Corollary exit_poll_never_sleeps C sched : c_fix_exit C = true ->
  let s := exec sys (step C) init sched in
  to_exit s <> 0 -> ~ writer_in_flight s -> thr s (c_loop C) = APoll ->
  exists s', step C s (c_loop C) 0 = Some (s', ev_poll true) /\ thr s' (c_loop C) = SPollRet.
Proof.
  intros Hfix s Hne Hnw Hp. pose proof (binv_all C sched) as B. fold s in B.
  destruct (einv_all C sched Hfix) as [_ He]. fold s in He. specialize (He Hne). rewrite Hp in He. simpl in He.
  destruct He as [He|He]; [contradiction|].
  destruct (b_valid _ _ B (c_loop C)) as [Hn Hc]; [rewrite Hp; discriminate|].
  unfold step. rewrite Hn, Hc, Hp. rewrite Bool.orb_true_r. simpl.
  rewrite (armed_ready C s He). eexists; split; [reflexivity|]. apply thr_set_pc_same.
Qed.

(* ... and the exit test that follows any wake-up handling leaves the loop *)
Corollary exit_test_leaves C sched : c_fix_exit C = true ->
  let s := exec sys (step C) init sched in
  to_exit s <> 0 -> thr s (c_loop C) = SWakeEnd ->
  exists s', step C s (c_loop C) 0 = Some (s', LPlain (wake_notes C)) /\
             leaving (thr s' (c_loop C)) = true /\ to_exit s' = ST_EXIT.
Proof.
  intros Hfix s Hne Hp. pose proof (binv_all C sched) as B. fold s in B.
  destruct (einv_all C sched Hfix) as [Hd _]. fold s in Hd.
  destruct (b_valid _ _ B (c_loop C)) as [Hn Hc]; [rewrite Hp; discriminate|].
  unfold step. rewrite Hn, Hc, Hp. rewrite Bool.orb_true_r. simpl.
  assert (Hte : (if to_exit s =? ST_WAKE then ST_EXIT else to_exit s) = ST_EXIT).
  { unfold ST_EXIT, ST_WAKE in *. destruct (Nat.eqb_spec (to_exit s) 2); lia. }
  rewrite Hte. simpl. destruct (reg s); eexists; (split; [reflexivity|]); rewrite thr_set_pc_same; split; reflexivity.
Qed.

(* the same for a bare loop (no handle): the promotion and the exit test follow the clear-up in
   the same plain segment, whether or not a wake callback is installed, and the loop thread goes
   through the clear and exit callbacks to the return at once *)
Corollary exit_test_leaves_bare C sched : c_fix_exit C = true -> c_bare C = true ->
  let s := exec sys (step C) init sched in
  to_exit s <> 0 -> thr s (c_loop C) = SWake ->
  exists s', step C s (c_loop C) 0 = Some (s', LPlain (wake_notes C ++ bare_exit_notes C)) /\
             thr s' (c_loop C) = AFin /\ returned s' = true /\ to_exit s' = ST_EXIT.
Proof.
  intros Hfix Hb s Hne Hp. pose proof (binv_all C sched) as B. fold s in B.
  destruct (einv_all C sched Hfix) as [Hd _]. fold s in Hd.
  destruct (b_valid _ _ B (c_loop C)) as [Hn Hc]; [rewrite Hp; discriminate|].
  unfold step. rewrite Hn, Hc, Hp, Hb. rewrite Bool.orb_true_r. simpl.
  assert (Hte : (if to_exit s =? ST_WAKE then ST_EXIT else to_exit s) = ST_EXIT).
  { unfold ST_EXIT, ST_WAKE in *. destruct (Nat.eqb_spec (to_exit s) 2); lia. }
  rewrite Hte. simpl. eexists; split; [reflexivity|]. rewrite thr_set_pc_same. repeat split.
Qed.

(* progress: whenever the loop thread has started and not finished, it can take a step, or it
   waits for the handle's mutex and the holder (a hand-over in progress) can take a step;
   the only unbounded wait is the poll, covered by the two corollaries above *)
Theorem loop_never_stuck C sched :
  let s := exec sys (step C) init sched in
  thr s (c_loop C) <> SStart -> thr s (c_loop C) <> Done ->
  step C s (c_loop C) 0 = None ->
  exists u, u <> c_loop C /\ mtx s = Some u /\ step C s u 0 <> None.
Proof.
  intros s Hst Hdn Hnone. pose proof (binv_all C sched) as B. fold s in B.
  destruct (b_valid _ _ B (c_loop C) Hst) as [Hn Hc].
  assert (Hm : exists u, mtx s = Some u /\ holds (thr s (c_loop C)) = false).
  { unfold step, seg_drain, seg_clear, seg_exit in Hnone. rewrite Hn, Hc, Bool.orb_true_r in Hnone. simpl in Hnone.
    destruct (thr s (c_loop C)) eqn:Ep; try congruence; simpl;
      repeat match type of Hnone with
      | (if ?a then _ else _) = None => destruct a
      | (match ?a with _ => _ end) = None => destruct a eqn:?
      end; try discriminate; eauto. }
  destruct Hm as (u & Hu & Hh). exists u.
  pose proof (b_free _ _ B u Hu) as Hhu.
  assert (Hne : u <> c_loop C) by (intros ->; congruence).
  split; [exact Hne|]. split; [exact Hu|].
  assert (Hnl : is_loop_pc (thr s u) = false).
  { destruct (is_loop_pc (thr s u)) eqn:E; [|reflexivity]. exfalso. apply Hne. eapply b_loop; eauto. }
  destruct (b_valid _ _ B u) as [Hnu Hcu]; [intros E; rewrite E in Hhu; discriminate|].
  unfold step. rewrite Hnu, Hcu, Bool.orb_true_r. simpl.
  destruct (thr s u); simpl in Hhu, Hnl; try discriminate; simpl; discriminate.
Qed.

(* the code as first found: the three-step schedule "creator calls exit; loop thread records its
   id; loop thread polls" leaves EXIT pending with no writer in flight, the loop at its poll and
   the signal not readable - and nothing can ever change that (all other threads are done). *)
Definition cfg_exit_before_run (fx : bool) : config :=
  mk_cfg BEpoll 2 1 8 (fun t => match t with 0 => [OpX] | _ => [] end) fx true.
Definition sched_exit_before_run : list (nat * nat) :=
  [(0,0);(0,0);(0,0);  (* T0: create; plain op; muggle_evloop_exit -> same-thread branch, EXIT, no wake-up *)
   (1,0);(1,0);(1,0);  (* T1: plain op; run() records its id; poll finds nothing *)
   (0,0);(0,0);(0,0);(1,0);(1,0);(1,0);(1,0)].
Example exit_returns_refuted :
  let C := cfg_exit_before_run false in
  let s := exec sys (step C) init sched_exit_before_run in
  to_exit s = ST_EXIT /\ thr s 0 = Done /\ thr s 1 = APoll /\ ready C s = false /\ returned s = false /\
  (forall u k, u < 2 -> thr s u <> AWrite k).
Proof.
  vm_compute. repeat split; try reflexivity.
  intros u k Hu. destruct u as [|[|u]]; try discriminate; lia.
Qed.
(* the same schedule on the repaired code returns through the clear and exit callbacks *)
Example exit_returns_witness_repaired :
  let C := cfg_exit_before_run true in
  let s := exec sys (step C) init
    (sched_exit_before_run ++ [(0,0);(0,0);(1,0);(1,0);(1,0);(1,0);(1,0);(1,0);(1,0);(1,0);(1,0);(1,0);(1,0);(1,0);(1,0);(1,0)]) in
  returned s = true /\ thr s 1 = Done.
Proof. vm_compute. split; reflexivity. Qed.

(* a bare loop on the poll back-end WITHOUT a wake callback, exit requested by another thread
   while the loop sleeps in poll: the promotion WAKE -> EXIT does not depend on the callback and
   run() returns through the clear callback of its registered context and the exit callback *)
Example exit_bare_without_wake_callback :
  let C := mk_bare BPoll 2 1 8 (fun t => match t with 0 => [OpX] | _ => [] end) 1 false true true in
  let sched := [(0,0)] ++ repeat (1,0) 4 ++ repeat (0,0) 8 ++ repeat (1,0) 4 in
  let s := exec sys (step C) init sched in
  to_exit s = ST_WAKE /\ thr s 1 = SWake /\
  step C s 1 0 = Some (exec sys (step C) init (sched ++ [(1,0)]),
                       LPlain [(n_clear, 0%Z); (n_exitcb, 0%Z); (n_returned, 0%Z)]) /\
  returned (exec sys (step C) init (sched ++ [(1,0)])) = true.
Proof. vm_compute. repeat split; reflexivity. Qed.
