(* C14 — wake_not_lost: a completed wake-up request that has not yet been followed by the start
   of a wake callback keeps the signal readable (eventfd counter > 0 and, for the edge-triggered
   epoll registration, the descriptor on the ready list), unless the loop thread is already
   between the poll return that reported the signal and the start of the callback.  Hence a
   poll attempt with an unserved request never finds nothing.  Requests may coalesce.
   Holds for the code as first found and for the repaired code (any [c_fix_*]). *)
From MV Require Import C14.Model C14.ProofsBase.

(* the loop is inside the while(1) of the back-end's run function *)
Definition in_body (p : pc) : bool :=
  match p with
  | APoll | SRepoll | SPollRet | ARead | SWake | AWLock | SRel PhDrain _ | ARel PhDrain _
  | AWUnlock | SWakeEnd => true
  | _ => false
  end.
(* between a poll return that reported the signal and the start of cb_wake: no blocking
   operation in between *)
Definition served_soon (p : pc) : bool :=
  match p with SPollRet | ARead | SWake => true | _ => false end.

(* the thread has not yet called muggle_evloop_run *)
Definition prerun (p : pc) : bool :=
  match p with
  | SStart | AYield _ | SOp _ | AWrite _ | STail _ | AHLock _ _ | SHEnq _ _ | AHUnlock _ | SHW _ => true
  | _ => false
  end.

Definition armed (C : config) (c : nat) (e : bool) : Prop := 0 < c /\ (c_be C = BEpoll -> e = true).

(* what an unserved request guarantees, by program point of the loop thread *)
Definition wk_ok (C : config) (c : nat) (e : bool) (p : pc) : Prop :=
  match p with
  | SStart | AYield _ | SOp _ | AWrite _ | STail _ | AHLock _ _ | SHEnq _ _ | AHUnlock _ | SHW _ => 0 < c
  | APoll | SRepoll | AWLock | SRel PhDrain _ | ARel PhDrain _ | AWUnlock | SWakeEnd => armed C c e
  | _ => True
  end.

Definition WInv (C : config) (s : sys) : Prop :=
  w_seen s <= w_req s /\
  (w_seen s < w_req s -> wk_ok C (cnt s) (edge s) (thr s (c_loop C))).

Lemma wk_ok_written C c p : wk_ok C (S c) true p.
Proof.
  destruct p; simpl; try exact I; try lia; try (split; [lia|reflexivity]);
    destruct ph; simpl; try exact I; split; (lia || reflexivity).
Qed.

Lemma init_winv C : WInv C init.
Proof. split; simpl; lia. Qed.

Lemma step_winv C s t ch s' l : BInv C s -> WInv C s -> step C s t ch = Some (s', l) -> WInv C s'.
Proof.
  intros B [Hle Hw] Hs. pose proof (b_loop _ _ B t) as Hl.
  step_inv Hs.
  all: simpl in Hl.
  all: unfold WInv, set_pc; simpl; unfold upd.
  all: destruct (Nat.eqb_spec (c_loop C) t) as [e|ne];
    [ rewrite e in *; match goal with E : thr _ ?t0 = _ |- _ => rewrite E in Hw; simpl in Hw end
    | try (exfalso; apply ne; symmetry; apply Hl; reflexivity) ].
  (* another thread's step that does not touch the signal *)
  all: try exact (conj Hle Hw).
  (* a write: the signal is readable and on the ready list *)
  all: try (split; [lia | intros _; apply wk_ok_written]).
  all: repeat match goal with ph : phase |- _ => destruct ph end; simpl in *.
  all: try (split; [lia | intros Hlt; first [ exact I | lia | apply Hw; lia | split; [lia | reflexivity ] ] ]).
  - split; [lia | intros Hlt; specialize (Hw Hlt); split; [lia | intros _; apply Nat.ltb_lt; lia] ].
  - exfalso; apply ne. symmetry. apply Nat.eqb_eq. assumption.
Qed.

Theorem winv_all C sched : WInv C (exec sys (step C) init sched).
Proof.
  assert (H : BInv C (exec sys (step C) init sched) /\ WInv C (exec sys (step C) init sched)).
  { apply (inv_exec sys (step C) (fun s => BInv C s /\ WInv C s)).
    - intros s t c s' l [B W] Hs. split; [eapply step_binv | eapply step_winv]; eauto.
    - split; [apply init_binv | apply init_winv]. }
  exact (proj2 H).
Qed.

Lemma armed_ready C s : armed C (cnt s) (edge s) -> ready C s = true.
Proof.
  intros [Hc He]. unfold ready. assert (Nat.ltb 0 (cnt s) = true) by (apply Nat.ltb_lt; lia).
  destruct (c_be C); auto. rewrite He by reflexivity. simpl. assumption.
Qed.

(* requests are counted: [w_req] completed wake-up requests (writes of the signal by wakeup,
   hand-over or exit), [w_seen] = value of [w_req] when the most recent wake callback started.
   An unserved request exists iff w_seen < w_req. *)
Theorem wake_not_lost_all C sched :
  let s := exec sys (step C) init sched in
  w_seen s <= w_req s /\
  (w_seen s < w_req s ->
   (* before run(): the counter stays positive until the loop registers and polls *)
   (prerun (thr s (c_loop C)) = true -> 0 < cnt s) /\
   (* inside the loop: a wake callback is about to start, or the next poll reports the signal *)
   (in_body (thr s (c_loop C)) = true ->
    served_soon (thr s (c_loop C)) = true \/ ready C s = true)).
Proof.
  intros s. destruct (winv_all C sched) as [Hle Hw]. fold s in Hle, Hw. split; [exact Hle|].
  intros Hlt. specialize (Hw Hlt). split.
  - intros Hb. destruct (thr s (c_loop C)); simpl in *; try discriminate; try exact Hw.
  - intros Hb. destruct (thr s (c_loop C)) as [| | | | | | | | | | | | | | |ph ?|ph ?| | | | | | |];
      simpl in *; try discriminate; try (left; reflexivity); try (right; apply armed_ready; exact Hw);
      destruct ph; simpl in *; try discriminate; right; apply armed_ready; exact Hw.
Qed.

(* consequence: with an unserved request the loop never goes to sleep — a poll attempt returns
   the signal *)
Corollary wake_poll_never_sleeps C sched :
  let s := exec sys (step C) init sched in
  w_seen s < w_req s -> thr s (c_loop C) = APoll ->
  exists s', step C s (c_loop C) 0 = Some (s', ev_poll true).
Proof.
  intros s Hlt Hp. pose proof (binv_all C sched) as B. fold s in B.
  destruct (winv_all C sched) as [_ Hw]. fold s in Hw. specialize (Hw Hlt). rewrite Hp in Hw. simpl in Hw.
  destruct (b_valid _ _ B (c_loop C)) as [Hn Hc]; [rewrite Hp; discriminate|].
  unfold step. rewrite Hn, Hc, Hp. rewrite Bool.orb_true_r. simpl.
  rewrite (armed_ready C s Hw). eexists; reflexivity.
Qed.

(* non-vacuity: a wake-up issued between the loop's clear-up and its next poll (epoll back-end) *)
Example wake_window_example :
  let C := mk_cfg BEpoll 2 1 8 (fun t => match t with 0 => [OpW; OpW] | _ => [] end) true true in
  let s := exec sys (step C) init
    [(0,0);(0,0);(0,0);(0,0);(0,0);
     (1,0);(1,0);(1,0);(1,0);(1,0);(1,0);(1,0);(1,0);(1,0);(1,0);
     (0,0);(0,0);(0,0);(1,0)] in
  thr s 1 = APoll /\ w_seen s < w_req s /\ ready C s = true.
Proof. vm_compute. repeat split; lia. Qed.

