(* C14 — wake_not_lost: a completed wake-up request that has not yet been followed by the start
   of a wake callback keeps the signal readable (eventfd counter > 0 and, for the edge-triggered
   epoll registration, the descriptor on the ready list - or reported by the epoll_wait call whose
   batch is being processed, with handle_wakeup still to come), unless the loop thread is already
   between the clear-up of the signal and the start of the callback.  Hence a poll attempt with an
   unserved request never finds nothing.  Requests may coalesce.
   Holds for the code as first found and for the repaired code (any [c_fix_*]), whatever the
   contexts' I/O, the callbacks' scripts and the timer. *)
From MV Require Import C14.Model C14.ProofsBase.

(* the loop is inside the while(1) of the back-end's run function *)
Definition in_body (p : pc) : bool :=
  match p with
  | APoll | SRepoll | SPollRet | ARead | SWake | AWLock | SRel PhDrain _ | ARel PhDrain _
  | AWUnlock | SWakeEnd | Cb _ | SRel PhClose _ | ARel PhClose _ => true
  | _ => false
  end.
(* between the clear-up of the signal and the start of cb_wake: no blocking operation in between *)
Definition served_soon (p : pc) : bool :=
  match p with ARead | SWake => true | _ => false end.
(* in the pass over the result of a poll call *)
Definition in_pass (p : pc) : bool :=
  match p with SPollRet | SRel PhClose (Some _) | ARel PhClose _ => true | _ => false end.

(* the thread has not yet called muggle_evloop_run *)
Definition prerun (p : pc) : bool :=
  match p with
  | SStart | AYield _ | SOp _ | AWrite _ | STail _ | AHLock _ _ | SHEnq _ _ | AHUnlock _ | SHW _ => true
  | _ => false
  end.

Definition armed (C : config) (c : nat) (e : bool) : Prop := 0 < c /\ (c_be C = BEpoll -> e = true).
(* the poll call whose result is being processed reported the signal and the pass has not reached
   handle_wakeup yet *)
Definition sig_pending (s : sys) : Prop := psig s = true /\ In None (todo s).
Definition armed_p (C : config) (s : sys) : Prop :=
  0 < cnt s /\ (c_be C = BEpoll -> edge s = true \/ sig_pending s).

(* what an unserved request guarantees, by program point of the loop thread *)
Definition wk_ok (C : config) (s : sys) (p : pc) : Prop :=
  match p with
  | SStart | AYield _ | SOp _ | AWrite _ | STail _ | AHLock _ _ | SHEnq _ _ | AHUnlock _ | SHW _ => 0 < cnt s
  | APoll | SRepoll | AWLock | SRel PhDrain _ | ARel PhDrain _ | AWUnlock | SWakeEnd | Cb _
  | SRel PhClose None => armed C (cnt s) (edge s)
  | SPollRet | SRel PhClose (Some _) | ARel PhClose _ => armed_p C s
  | _ => True
  end.

Definition WInv (C : config) (s : sys) : Prop :=
  w_seen s <= w_req s /\
  (w_seen s < w_req s -> wk_ok C s (thr s (c_loop C))).

Lemma armed_armed_p C s : armed C (cnt s) (edge s) -> armed_p C s.
Proof. intros [H1 H2]. split; [exact H1|]. intros E. left. auto. Qed.

Lemma wk_ok_of_armed C s p : armed C (cnt s) (edge s) -> wk_ok C s p.
Proof.
  intros A. pose proof (armed_armed_p C s A) as A'. destruct A as [A1 A2].
  destruct p as [| | | | | | | | | | | | | | |ph [i|]|ph i| | | | | | | |]; simpl; auto; try (split; assumption);
    destruct ph; simpl; auto; split; assumption.
Qed.

Lemma wk_ok_frame C s s' p : cnt s' = cnt s -> edge s' = edge s -> psig s' = psig s -> todo s' = todo s ->
  wk_ok C s p -> wk_ok C s' p.
Proof.
  intros E1 E2 E3 E4. unfold wk_ok, armed_p, armed, sig_pending. rewrite E1, E2, E3, E4. auto.
Qed.

Lemma init_winv C : WInv C init.
Proof. split; simpl; lia. Qed.

(* ---- the tail segments ---- *)
Lemma exit_test_wk C s t ns s' l : armed C (cnt s) (edge s) -> exit_test C s t ns = Some (s', l) ->
  wk_ok C s' (thr s' t).
Proof.
  intros A H. apply exit_test_frame in H. destruct H as (F & _ & _ & _ & P).
  apply wk_ok_of_armed. rewrite (tf_cnt _ _ _ F), (tf_edge _ _ _ F). exact A.
Qed.

Lemma fin_pass_wk C s t ns s' l : armed C (cnt s) (edge s) -> fin_pass C s t ns = Some (s', l) ->
  wk_ok C s' (thr s' t).
Proof.
  intros A H. apply fin_pass_frame in H. destruct H as (F & _ & _ & _ & P).
  apply wk_ok_of_armed. rewrite (tf_cnt _ _ _ F), (tf_edge _ _ _ F). exact A.
Qed.

Lemma seg_pass_wk C s t ns s' l : armed_p C s -> seg_pass C s t ns = Some (s', l) -> wk_ok C s' (thr s' t).
Proof.
  intros [A1 A2] H. unfold seg_pass in H.
  destruct (pass C (hup s) (peof s) (rdy s) (rdh s) (psig s) (pn s) (todo s) ns []) as [[[[n td] r] ns'] dr] eqn:E.
  destruct r as [|id|].
  - inversion H; subst; clear H. rewrite thr_set_pc_same. exact I.
  - inversion H; subst; clear H. rewrite thr_set_pc_same. simpl. unfold armed_p, sig_pending. nrmg.
    split; [exact A1|]. intros Eb. destruct (A2 Eb) as [K|[K1 K2]]; [left; exact K|right].
    split; [exact K1|]. rewrite K1 in E. eapply pass_close_keeps_none; eauto.
  - eapply fin_pass_wk; [|exact H]. nrmg. split; [exact A1|]. intros Eb.
    destruct (A2 Eb) as [K|[K1 K2]]; [exact K|].
    rewrite K1 in E. apply pass_end_none_poll in E; [congruence|exact K2].
Qed.

Lemma wake_end_wk C s t ns s' l : armed C (cnt s) (edge s) -> wake_end C s t ns = Some (s', l) ->
  wk_ok C s' (thr s' t).
Proof.
  intros A H. unfold wake_end in H. eapply seg_pass_wk; [|exact H].
  apply armed_armed_p. nrmg. exact A.
Qed.

Lemma cb_end_wk C s t ns s' l : armed C (cnt s) (edge s) -> cb_end C s t ns = Some (s', l) ->
  wk_ok C s' (thr s' t).
Proof.
  intros A H. unfold cb_end in H. destruct (cbk s); [eapply exit_test_wk|eapply wake_end_wk]; eauto.
Qed.

Lemma cb_next_wk C s t k ns s' l : armed C (cnt s) (edge s) -> cb_next C s t k ns = Some (s', l) ->
  wk_ok C s' (thr s' t).
Proof.
  intros A H. unfold cb_next in H. destruct (S k <? length (cbs s)).
  - inversion H; subst; clear H. rewrite thr_set_pc_same. simpl. nrmg. exact A.
  - eapply cb_end_wk; eauto.
Qed.

(* ---- steps of the other threads: the signal is only ever written ---- *)
Lemma step_other_sig C s t ch s' l : BInv C s -> t <> c_loop C -> step C s t ch = Some (s', l) ->
  thr s' (c_loop C) = thr s (c_loop C) /\ psig s' = psig s /\ todo s' = todo s /\ w_seen s' = w_seen s /\
  ((cnt s' = cnt s /\ edge s' = edge s /\ w_req s' = w_req s) \/
   (cnt s' = S (cnt s) /\ edge s' = true /\ w_req s' = S (w_req s))).
Proof.
  intros B Hne Hs. pose proof (b_loop _ _ B t) as Hl.
  step_inv Hs.
  all: simpl in Hl; try (exfalso; apply Hne; apply Hl; reflexivity).
  all: try (exfalso; apply Hne; apply Nat.eqb_eq; assumption).
  all: nrmg; rewrite upd_other by (intros E; apply Hne; symmetry; exact E).
  all: repeat split; auto.
Qed.

Lemma step_winv C s t ch s' l : BInv C s -> WInv C s -> step C s t ch = Some (s', l) -> WInv C s'.
Proof.
  intros B [Hle Hw] Hs.
  destruct (Nat.eq_dec t (c_loop C)) as [e|ne].
  2: { (* another thread *)
    destruct (step_other_sig C s t ch s' l B ne Hs) as (Ep & E1 & E2 & E3 & [(E4 & E5 & E6)|(E4 & E5 & E6)]).
    - split; [lia|]. intros Hlt. rewrite Ep. eapply wk_ok_frame; eauto. apply Hw. lia.
    - split; [lia|]. intros _. rewrite Ep. apply wk_ok_of_armed. rewrite E4, E5. split; [lia|reflexivity]. }
  (* the loop thread *)
  subst t.
  step_inv Hs.
  all: repeat match goal with ph : phase |- _ => destruct ph end.
  all: simpl in Hw.
  (* tails *)
  all: try (match goal with H : cb_next _ ?s1 _ _ _ = Some _ |- _ =>
              pose proof (cb_next_frame _ _ _ _ _ _ _ H) as (F & _ & _);
              split; [rewrite (tf_w_seen _ _ _ F), (tf_w_req _ _ _ F); nrmg; lia|];
              intros Hlt; rewrite (tf_w_seen _ _ _ F), (tf_w_req _ _ _ F) in Hlt; nrmh Hlt;
              eapply cb_next_wk; [|exact H]; nrmg; first [apply Hw; lia | split; [lia|reflexivity] ] end; fail).
  all: try (match goal with H : cb_end _ ?s1 _ _ = Some _ |- _ =>
              pose proof (cb_end_frame _ _ _ _ _ _ H) as (F & _ & _);
              split; [rewrite (tf_w_seen _ _ _ F), (tf_w_req _ _ _ F); nrmg; lia|];
              intros Hlt; rewrite (tf_w_seen _ _ _ F), (tf_w_req _ _ _ F) in Hlt; nrmh Hlt;
              eapply cb_end_wk; [|exact H]; nrmg; apply Hw; lia end; fail).
  all: try (match goal with H : wake_end _ ?s1 _ _ = Some _ |- _ =>
              pose proof (wake_end_frame _ _ _ _ _ _ H) as (F & _ & _);
              split; [rewrite (tf_w_seen _ _ _ F), (tf_w_req _ _ _ F); nrmg; lia|];
              intros Hlt; rewrite (tf_w_seen _ _ _ F), (tf_w_req _ _ _ F) in Hlt; nrmh Hlt;
              eapply wake_end_wk; [|exact H]; nrmg; apply Hw; lia end; fail).
  all: try (match goal with H : fin_pass _ ?s1 _ _ = Some _ |- _ =>
              pose proof (fin_pass_frame _ _ _ _ _ _ H) as (F & _ & _);
              split; [rewrite (tf_w_seen _ _ _ F), (tf_w_req _ _ _ F); nrmg; lia|];
              intros Hlt; rewrite (tf_w_seen _ _ _ F), (tf_w_req _ _ _ F) in Hlt; nrmh Hlt;
              first [ lia
                    | eapply fin_pass_wk; [|exact H]; nrmg;
                      first [ apply Hw; lia
                            | (* after a close, poll back-end: n <= 0 *)
                              destruct (Hw ltac:(lia)) as [A1 A2]; split; [exact A1|];
                              intros Eb; exfalso; unfold poll_done in *; rewrite Eb in *; discriminate ] ] end; fail).
  all: try (match goal with H : seg_pass _ ?s1 _ _ = Some _ |- _ =>
              pose proof (seg_pass_frame _ _ _ _ _ _ H) as (F & _ & _);
              split; [rewrite (tf_w_seen _ _ _ F), (tf_w_req _ _ _ F); nrmg; lia|];
              intros Hlt; rewrite (tf_w_seen _ _ _ F), (tf_w_req _ _ _ F) in Hlt; nrmh Hlt;
              eapply seg_pass_wk; [|exact H]; unfold armed_p, sig_pending in *; nrmg; apply Hw; lia end; fail).
  (* explicit steps *)
  all: unfold WInv; nrmg; rewrite ?upd_same; cbn [wk_ok]; nrmg.
  all: try (split; [lia|]; intros Hlt; first [exact I | lia | apply Hw; lia ]; fail).
  (* a write by the loop thread itself *)
  all: try (split; [lia|]; intros _; first [lia | split; [lia|reflexivity] ]; fail).
  - (* run() starts: the epoll registration finds the signal readable *)
    split; [lia|]. intros Hlt. specialize (Hw Hlt). split; [lia|]. intros _. apply Nat.ltb_lt. lia.
  - (* a poll call that reports something *)
    split; [lia|]. intros Hlt. specialize (Hw Hlt). destruct Hw as [A1 A2].
    assert (R : ready C s = true).
    { unfold ready. assert (Nat.ltb 0 (cnt s) = true) by (apply Nat.ltb_lt; lia).
      destruct (c_be C) eqn:Eb; auto. rewrite A2 by reflexivity. simpl. assumption. }
    unfold armed_p, sig_pending. nrmg. rewrite R. split; [exact A1|]. intros Eb. right. split; [reflexivity|].
    unfold pass_plan. rewrite Eb. unfold ins_sig. apply in_or_app. right. left. reflexivity.
Qed.

Theorem winv_all C sched : WInv C (exec sys (step C) init sched).
Proof.
  assert (H : BInv C (exec sys (step C) init sched) /\ WInv C (exec sys (step C) init sched)).
  { apply (inv_exec sys (step C) (fun s => BInv C s /\ WInv C s)).
    - intros s t c s' l [B W] Hs. split; [eapply step_binv | eapply step_winv]; eauto.
    - split; [apply init_binv | apply init_winv]. }
  exact (proj2 H).
Qed.

Lemma armed_ready C s : armed C (cnt s) (edge s) -> ready C s = true.
Proof.
  intros [Hc He]. unfold ready. assert (Nat.ltb 0 (cnt s) = true) by (apply Nat.ltb_lt; lia).
  destruct (c_be C); auto. rewrite He by reflexivity. simpl. assumption.
Qed.

(* requests are counted: [w_req] completed wake-up requests (writes of the signal by wakeup,
   hand-over or exit, from any thread including the loop thread's callbacks), [w_seen] = value of
   [w_req] when the most recent wake callback started.  An unserved request exists iff
   w_seen < w_req. *)
Theorem wake_not_lost_all C sched :
  let s := exec sys (step C) init sched in
  w_seen s <= w_req s /\
  (w_seen s < w_req s ->
   (* before run(): the counter stays positive until the loop registers and polls *)
   (prerun (thr s (c_loop C)) = true -> 0 < cnt s) /\
   (* inside the loop: a wake callback is about to start, or the signal has been reported by the
      poll call whose result is being processed and handle_wakeup is still to come (epoll), or the
      next poll attempt reports the signal *)
   (in_body (thr s (c_loop C)) = true ->
    served_soon (thr s (c_loop C)) = true \/
    (in_pass (thr s (c_loop C)) = true /\ c_be C = BEpoll /\ sig_pending s) \/
    ready C s = true)).
Proof.
  intros s. destruct (winv_all C sched) as [Hle Hw]. fold s in Hle, Hw. split; [exact Hle|].
  intros Hlt. specialize (Hw Hlt). split.
  - intros Hb. destruct (thr s (c_loop C)); simpl in *; try discriminate; try exact Hw.
  - intros Hb.
    assert (Hp : armed_p C s -> (c_be C = BEpoll /\ sig_pending s) \/ ready C s = true).
    { intros [A1 A2]. destruct (c_be C) eqn:Eb.
      - right. unfold ready. rewrite Eb. apply Nat.ltb_lt. exact A1.
      - right. unfold ready. rewrite Eb. apply Nat.ltb_lt. exact A1.
      - destruct (A2 eq_refl) as [K|K]; [right|left; auto].
        unfold ready. rewrite Eb, K. simpl. apply Nat.ltb_lt. exact A1. }
    destruct (thr s (c_loop C)); simpl in *; try discriminate;
      repeat match goal with ph : phase |- _ => destruct ph | o : option nat |- _ => destruct o end;
      simpl in *; try discriminate;
      first [ left; reflexivity | right; right; apply armed_ready; exact Hw
            | destruct (Hp Hw) as [K|K]; [right; left; split; [reflexivity|exact K]|right; right; exact K] ].
Qed.

(* consequence: with an unserved request the loop never goes to sleep — a poll attempt reports
   the signal *)
Corollary wake_poll_never_sleeps C sched :
  let s := exec sys (step C) init sched in
  w_seen s < w_req s -> thr s (c_loop C) = APoll ->
  forall ch, exists s' n, step C s (c_loop C) ch = Some (s', ev_poll true n) /\ 0 < n /\ thr s' (c_loop C) = SPollRet /\
                          sig_pending s'.
Proof.
  intros s Hlt Hp ch. pose proof (binv_all C sched) as B. fold s in B.
  destruct (winv_all C sched) as [_ Hw]. fold s in Hw. specialize (Hw Hlt). rewrite Hp in Hw. simpl in Hw.
  destruct (b_valid _ _ B (c_loop C)) as [Hn Hc]; [rewrite Hp; discriminate|].
  unfold step. rewrite Hn, Hc, Hp. rewrite Bool.orb_true_r. simpl.
  rewrite (armed_ready C s Hw). simpl. eexists. eexists. split; [reflexivity|]. split; [lia|].
  split; [apply thr_set_pc_same|]. unfold sig_pending. nrmg. split; [reflexivity|].
  unfold pass_plan. destruct (c_be C); simpl; auto.
  - apply in_or_app. right. left. reflexivity.
  - unfold ins_sig. apply in_or_app. right. left. reflexivity.
Qed.

(* non-vacuity: a wake-up issued between the loop's clear-up and its next poll (epoll back-end) *)
Example wake_window_example :
  let C := mk_cfg BEpoll 2 1 8 (fun t => match t with 0 => [OpW; OpW] | _ => [] end) true true in
  let s := exec sys (step C) init
    [(0,0);(0,0);(0,0);(0,0);(0,0);
     (1,0);(1,0);(1,0);(1,0);(1,0);(1,0);(1,0);(1,0);(1,0);(1,0);
     (0,0);(0,0);(0,0);(1,0)] in
  thr s 1 = APoll /\ w_seen s < w_req s /\ ready C s = true.
Proof. vm_compute. repeat split; lia. Qed.
