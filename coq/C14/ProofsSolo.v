(* C14 — solo liveness for exit_returns: once an exit is pending and the loop thread is ranked,
   the loop thread's own steps alone (the other threads stay quiet, none of them holds the
   mutex) bring muggle_evloop_run to its return within [rank] steps. *)
From MV Require Import C14.Model C14.ProofsBase C14.ProofsWake C14.ProofsExit C14.ProofsHandover C14.ProofsVariant.
From Coq Require Import Lia List.
Import ListNotations.

Lemma step_exit_nz C s t ch s' l : step C s t ch = Some (s', l) -> to_exit s <> 0 -> to_exit s' <> 0.
Proof.
  intros Hs Hne. step_inv Hs; tail_frames; nrm;
    repeat match goal with
    | A : to_exit ?x = _ |- to_exit ?x <> 0 => rewrite A; clear A
    | A : to_exit ?x = _ \/ _ |- to_exit ?x <> 0 => destruct A as [A | [_ A]]; rewrite A; clear A
    end; nrmg; unfold ST_EXIT, ST_WAKE in *;
    repeat match goal with |- context [if ?b then _ else _] => destruct b end;
    try assumption; try discriminate; try lia.
Qed.

Lemma ranked_rank0_done C s p : ranked C s p = true -> rank C s p = 0 -> p = Done.
Proof.
  intros Hr H0. destruct p; try reflexivity; simpl in Hr; try discriminate Hr;
    repeat match goal with ph : phase |- _ => destruct ph | o : option nat |- _ => destruct o end;
    simpl in Hr, H0; try discriminate Hr; try (destruct (cbk s)); try (destruct (psig s)); lia.
Qed.

Lemma ranked_not_start C s p : ranked C s p = true -> p <> SStart.
Proof. intros Hr ->. simpl in Hr. discriminate. Qed.

(* the loop thread's own steps never leave the mutex with another thread *)
Lemma loop_step_mutex C s t ch s' l : BInv C s -> step C s t ch = Some (s', l) ->
  (forall u, mtx s = Some u -> u = t) -> (forall u, mtx s' = Some u -> u = t).
Proof.
  intros B Hs Hm u Hu. pose proof (step_binv C s t ch s' l B Hs) as B'.
  destruct (Nat.eq_dec u t) as [e|ne]; [exact e|].
  pose proof (b_free _ _ B' u Hu) as Hh. rewrite (step_other_thr C s t ch s' l u Hs ne) in Hh.
  apply Hm. apply (b_hold _ _ B). exact Hh.
Qed.

Lemma exit_returns_solo_aux C : c_fix_exit C = true -> c_fix_add C = true ->
  forall n pre,
  let s := exec sys (step C) init pre in
  to_exit s <> 0 -> ranked C s (thr s (c_loop C)) = true ->
  (forall u, mtx s = Some u -> u = c_loop C) ->
  rank C s (thr s (c_loop C)) <= n ->
  exists k, k <= n /\
    let s' := exec sys (step C) init (pre ++ repeat (c_loop C, 0) k) in
    thr s' (c_loop C) = Done /\ returned s' = true.
Proof.
  intros Hfx Hfa n. induction n as [|n IH]; intros pre s Hne Hr Hm Hle.
  - exists 0. split; [lia|]. simpl. rewrite app_nil_r. fold s.
    assert (Hd : thr s (c_loop C) = Done) by (eapply ranked_rank0_done; [exact Hr|lia]).
    split; [exact Hd|]. apply (rinv_all C pre). right. exact Hd.
  - destruct (Nat.eq_dec (rank C s (thr s (c_loop C))) 0) as [H0|H0].
    + exists 0. split; [lia|]. simpl. rewrite app_nil_r. fold s.
      assert (Hd : thr s (c_loop C) = Done) by (eapply ranked_rank0_done; [exact Hr|exact H0]).
      split; [exact Hd|]. apply (rinv_all C pre). right. exact Hd.
    + assert (Hnd : thr s (c_loop C) <> Done) by (intros E; rewrite E in H0; simpl in H0; congruence).
      pose proof (ranked_not_start _ _ _ Hr) as Hns.
      destruct (step C s (c_loop C) 0) as [[s1 l]|] eqn:Es.
      2: { exfalso. destruct (loop_never_stuck C pre Hns Hnd Es) as (u & Hu & Hmu & _).
           apply Hu. apply Hm. exact Hmu. }
      destruct (exit_variant_all C pre Hfx Hfa) as (V1 & _ & _).
      destruct (V1 0 s1 l Hne Hr Hnd Es) as (Hr1 & Hlt).
      assert (E1 : exec sys (step C) init (pre ++ [(c_loop C, 0)]) = s1).
      { rewrite exec_app. fold s. simpl. unfold exec1. simpl. rewrite Es. reflexivity. }
      destruct (IH (pre ++ [(c_loop C, 0)])) as (k & Hk & Hres).
      * rewrite E1. eapply step_exit_nz; eauto.
      * rewrite E1. exact Hr1.
      * rewrite E1. eapply loop_step_mutex; eauto. apply (binv_all C pre).
      * rewrite E1. fold s in Hlt. lia.
      * exists (S k). split; [lia|]. simpl repeat.
        replace (pre ++ (c_loop C, 0) :: repeat (c_loop C, 0) k) with ((pre ++ [(c_loop C, 0)]) ++ repeat (c_loop C, 0) k)
          by (rewrite <- app_assoc; reflexivity).
        exact Hres.
Qed.

(* solo liveness: exit pending, loop thread ranked, no other thread holds the mutex: the loop
   thread's own steps bring run() to its return (and the thread to its end) within rank steps *)
Theorem exit_returns_solo_all C pre : c_fix_exit C = true -> c_fix_add C = true ->
  let s := exec sys (step C) init pre in
  to_exit s <> 0 -> ranked C s (thr s (c_loop C)) = true ->
  (forall u, mtx s = Some u -> u = c_loop C) ->
  exists k, k <= rank C s (thr s (c_loop C)) /\
    let s' := exec sys (step C) init (pre ++ repeat (c_loop C, 0) k) in
    thr s' (c_loop C) = Done /\ returned s' = true.
Proof.
  intros Hfx Hfa s Hne Hr Hm. eapply exit_returns_solo_aux; eauto.
Qed.

(* non-vacuity: on the repaired code, after the schedule that defeated the code as first found,
   the hypotheses hold (EXIT pending, loop thread at the lock of handle_wakeup, mutex free,
   rank 79) and 14 solo steps of the loop thread reach the return *)
Example exit_returns_solo_example :
  let C := cfg_exit_before_run true in
  let s := exec sys (step C) init sched_exit_before_run in
  c_fix_exit C = true /\ c_fix_add C = true /\
  to_exit s <> 0 /\ ranked C s (thr s (c_loop C)) = true /\ (forall u, mtx s = Some u -> u = c_loop C) /\
  rank C s (thr s (c_loop C)) = 79 /\ returned s = false /\
  let s' := exec sys (step C) init (sched_exit_before_run ++ repeat (c_loop C, 0) 14) in
  thr s' (c_loop C) = Done /\ returned s' = true.
Proof. vm_compute. repeat split; try reflexivity; try discriminate. Qed.
