(* C14 — the temporal step: under every FAIR schedule (a sequence of rounds, each round
   scheduling every thread at least once, in any order, any number of times) with the scripts
   of the model (finite lists), an exit request makes muggle_evloop_run return after the clear
   and exit callbacks, and a completed wake-up request is followed by a wake callback (unless the
   loop is leaving because an exit was requested).  Both repairs applied.

   Method: a global measure [G] (remaining script work of every thread, pending loop iterations,
   queue / ctx_list lengths, position of the loop thread) that no step increases and that every
   enabled step strictly decreases, except the loop thread's re-poll while the signal is not
   ready ("spin").  A thread is productive when its step is enabled and is not a spin.  In a fair
   round G decreases strictly as soon as some thread is productive at the beginning of the round
   (productivity of another thread survives spins).  The safety theorems (exit invariant, wake
   invariant, loop_never_stuck) show that a productive thread exists as long as the goal is not
   reached; G is a natural number, so the goal is reached within G rounds. *)
From MV Require Import C14.Model C14.ProofsBase C14.ProofsWake C14.ProofsExit C14.ProofsHandover C14.ProofsVariant.

(* ------------------------------------------------------------------ *)
(* auxiliary invariants *)

Definition op_idx (p : pc) : option nat :=
  match p with
  | AWrite k | STail k | AHLock k _ | SHEnq k _ | AHUnlock k | SHW k => Some k
  | _ => None
  end.

Record XInv (C : config) (s : sys) : Prop := {
  x_cnt : thr s (c_loop C) = SPollRet \/ thr s (c_loop C) = ARead -> 0 < cnt s;
  x_idx : forall t k, op_idx (thr s t) = Some k -> k < length (c_scr C t);
  x_start : created s = false -> forall t, thr s t = SStart;
}.

Lemma init_xinv C : XInv C init.
Proof. constructor; simpl; intros; try discriminate; auto. destruct H; discriminate. Qed.

Lemma step_xinv C s t ch s' l : BInv C s -> XInv C s -> step C s t ch = Some (s', l) -> XInv C s'.
Proof.
  intros B [Hc Hi Hst] Hs. pose proof (b_loop _ _ B t) as Hl. pose proof (Hi t) as Hit.
  pose proof (b_valid _ _ B) as Hv.
  step_inv Hs.
  all: simpl in Hl, Hit.
  all: repeat match goal with ph : phase |- _ => destruct ph end.
  all: constructor; unfold set_pc; simpl.
  (* x_cnt *)
  all: try (unfold upd; destruct (Nat.eqb_spec (c_loop C) t) as [e|ne];
            [ intros [X|X]; try discriminate X;
              first [ lia | match goal with R : ready _ _ = true |- _ => unfold ready in R;
                              destruct (c_be C); try (apply andb_prop in R; destruct R as [_ R]); apply Nat.ltb_lt in R; exact R end
                    | rewrite e in Hc; apply Hc; match goal with E : thr _ _ = _ |- _ => rewrite E end; auto ]
            | first [ exact Hc | intros X; specialize (Hc X); lia
                    | exfalso; apply ne; symmetry; apply Hl; reflexivity ] ]; fail).
  (* x_idx *)
  all: try (intros u k' Hu; unfold upd in Hu; destruct (Nat.eqb_spec u t) as [e|ne];
            [ subst u; simpl in Hu; first [ discriminate Hu | injection Hu as <-;
                first [ apply Hit; reflexivity
                      | match goal with E : nth_error _ _ = Some _ |- _ => apply nth_error_Some; rewrite E; discriminate end ] ]
            | apply (Hi u); exact Hu ]; fail).
  (* x_start *)
  all: try (intros Hcr u; exfalso;
            first [ discriminate Hcr
                  | match goal with E : thr _ ?t0 = ?p |- _ =>
                      let K := fresh in assert (K : thr s t0 <> SStart) by (rewrite E; discriminate);
                      destruct (Hv t0 K) as [_ K2]; simpl in Hcr; congruence end ]; fail).
  intros Hcr u. exfalso.
  simpl in Heqb0. congruence.
Qed.

Theorem xinv_all C sched : XInv C (exec sys (step C) init sched).
Proof.
  assert (H : BInv C (exec sys (step C) init sched) /\ XInv C (exec sys (step C) init sched)).
  { apply (inv_exec sys (step C) (fun s => BInv C s /\ XInv C s)).
    - intros s t c s' l [B W] Hs. split; [eapply step_binv | eapply step_xinv]; eauto.
    - split; [apply init_binv | apply init_xinv]. }
  exact (proj2 H).
Qed.


(* ------------------------------------------------------------------ *)
(* the measure *)

Fixpoint sumto (n : nat) (g : nat -> nat) : nat :=
  match n with 0 => 0 | S m => sumto m g + g m end.

Lemma sumto_upd_ge (w : nat -> pc -> nat) f t x m :
  m <= t -> sumto m (fun u => w u (upd f t x u)) = sumto m (fun u => w u (f u)).
Proof.
  induction m as [|m IH]; intros H; simpl; [reflexivity|].
  rewrite IH by lia. rewrite upd_other by lia. reflexivity.
Qed.

Lemma sumto_upd (w : nat -> pc -> nat) f t x n :
  t < n -> sumto n (fun u => w u (upd f t x u)) + w t (f t) = sumto n (fun u => w u (f u)) + w t x.
Proof.
  induction n as [|n IH]; intros H; [lia|]. simpl.
  destruct (Nat.eq_dec t n) as [->|Hne].
  - rewrite sumto_upd_ge by lia. rewrite upd_same. lia.
  - rewrite upd_other by lia. specialize (IH ltac:(lia)). lia.
Qed.

(* remaining script work of a thread: 13 per signal write still to come (a write may start a
   loop iteration) + 3 per step still to take (a step may enqueue: +2 on the queue term) *)
Definition wt (C : config) (t : nat) (p : pc) : nat :=
  let L := length (c_scr C t) in
  match p with
  | SStart => 13 * L + 3 * (8 * L + 5)
  | AYield k => 13 * (L - k) + 3 * (8 * (L - k) + 4)
  | SOp k => 13 * (L - k) + 3 * (8 * (L - k) + 3)
  | AHLock k _ => 13 * (L - k) + 3 * (8 * (L - k - 1) + 10)
  | SHEnq k _ => 13 * (L - k) + 3 * (8 * (L - k - 1) + 9)
  | AHUnlock k => 13 * (L - k) + 3 * (8 * (L - k - 1) + 8)
  | SHW k => 13 * (L - k) + 3 * (8 * (L - k - 1) + 7)
  | AWrite k => 13 * (L - k) + 3 * (8 * (L - k - 1) + 6)
  | STail k => 13 * (L - k - 1) + 3 * (8 * (L - k - 1) + 5)
  | AFin => 3
  | _ => 0
  end.

Definition pend_it (s : sys) : nat := if Nat.ltb 0 (cnt s) then 1 else 0.

(* position of the loop thread *)
Definition loopoff (C : config) (s : sys) (p : pc) : nat :=
  let R := 2 * length (reg s) in
  let K := 2 * length (clr s) in
  match p with
  | APoll => R + 40
  | SRepoll => R + 40 + (if ready C s then 1 else 0)
  | SPollRet => R + 39
  | ARead => R + 38
  | SWake => R + 50
  | AWLock => R + 49
  | SRel PhDrain None => R + 48
  | ARel PhDrain _ => R + 47
  | SRel PhDrain (Some _) => R + 46
  | AWUnlock => R + 44
  | SWakeEnd => R + 43
  | ARel PhClear _ => K + 20
  | SRel PhClear _ => K + 19
  | AXLock => 18
  | SRel PhExit None => 17
  | ARel PhExit _ => 16
  | SRel PhExit (Some _) => 15
  | AXUnlock => 5
  | SRet => 4
  | AFin | Done => 0
  | _ => R + 45
  end.

Definition Gsum (C : config) (f : nat -> pc) : nat := sumto (c_n C) (fun u => wt C u (f u)).

Definition G (C : config) (s : sys) : nat :=
  Gsum C (thr s) + 13 * pend_it s + 2 * length (queue s) + loopoff C s (thr s (c_loop C)).

Lemma Gsum_upd C f t p : t < c_n C -> Gsum C (upd f t p) + wt C t (f t) = Gsum C f + wt C t p.
Proof. intros H. unfold Gsum. apply sumto_upd. exact H. Qed.

Lemma loopoff_eq C s' s p : reg s' = reg s -> clr s' = clr s -> ready C s' = ready C s ->
  loopoff C s' p = loopoff C s p.
Proof. intros H1 H2 H3. unfold loopoff. rewrite H1, H2, H3. reflexivity. Qed.
Lemma loopoff_bound C s' s p : reg s' = reg s -> clr s' = clr s -> loopoff C s' p <= loopoff C s p + 1.
Proof.
  intros H1 H2. unfold loopoff. rewrite H1, H2.
  destruct p as [| | | | | | | | | | | | | | |ph [i|]|ph i| | | | | | |]; try destruct ph; try lia.
  destruct (ready C s'), (ready C s); lia.
Qed.

(* the loop thread re-polls while the signal is not ready *)
Definition spinning (C : config) (s : sys) : Prop :=
  (thr s (c_loop C) = APoll \/ thr s (c_loop C) = SRepoll) /\ ready C s = false.

Local Arguments Nat.mul : simpl never.
Local Arguments Nat.sub : simpl never.
Local Arguments Nat.ltb : simpl never.

Lemma step_measure C s t ch s' l :
  c_fix_exit C = true -> c_fix_add C = true ->
  BInv C s -> HInv C s -> XInv C s ->
  step C s t ch = Some (s', l) ->
  G C s' < G C s \/
  (t = c_loop C /\ spinning C s /\ G C s' = G C s /\ exists p, s' = set_pc s (c_loop C) p).
Proof.
  intros Hfx Hfa B H X Hs. pose proof (b_loop _ _ B t) as Hl. pose proof (h_head _ _ H) as Hh.
  pose proof (x_idx _ _ X t) as Hit. pose proof (x_cnt _ _ X) as Hc.
  assert (Hlt : t < c_n C).
  { unfold step in Hs. destruct (Nat.ltb t (c_n C)) eqn:E; [apply Nat.ltb_lt; exact E|discriminate]. }
  pose proof (fun p => Gsum_upd C (thr s) t p Hlt) as HG.
  step_inv Hs.
  all: try (rewrite Hfx in *; discriminate).
  all: simpl in Hl, Hit.
  all: repeat match goal with ph : phase |- _ => destruct ph end.
  all: try (match goal with E : nth_error _ _ = Some _ |- _ =>
              assert (k < length (c_scr C t)) by (apply nth_error_Some; rewrite E; discriminate) end).
  all: try (pose proof (Hit _ eq_refl)).
  all: repeat match goal with
       | E : drain _ _ _ _ _ = _ |- _ => apply (drain_len C Hfa) in E; simpl in E
       end.
  all: unfold G, set_pc; simpl thr; simpl queue; unfold pend_it; simpl cnt.
  all: destruct (Nat.eq_dec (c_loop C) t) as [e|ne];
    [ rewrite e in *; rewrite ?upd_same; match goal with E : thr _ _ = _ |- _ => rewrite E in *; clear Hl end
    | rewrite ?(upd_other _ _ _ _ ne); try (exfalso; apply ne; symmetry; apply Hl; reflexivity) ].
  (* steps of a thread other than the loop thread *)
  all: try (left;
            match goal with |- context [Gsum _ (upd _ _ ?p)] => pose proof (HG p) as HGp; simpl in HGp end;
            first [ rewrite (loopoff_eq C _ s) by reflexivity
                  | match goal with |- context [loopoff _ ?s1 ?q] =>
                      pose proof (loopoff_bound C s1 s q eq_refl eq_refl) end ];
            rewrite ?app_length; simpl length;
            repeat match goal with |- context [Nat.ltb ?a ?b] => destruct (Nat.ltb a b) end;
            lia).
  (* steps of the loop thread *)
  all: simpl in Hh, Hc.
  all: try (destruct Hh as [r0 Hq]; rewrite Hq in *; simpl tl in * ).
  all: try (assert (Hcp : 0 < cnt s) by (apply Hc; auto); apply Nat.ltb_lt in Hcp).
  all: try (left;
            match goal with |- context [Gsum _ (upd _ _ ?p)] => pose proof (HG p) as HGp; simpl in HGp end;
            unfold loopoff; simpl reg; simpl clr; simpl queue;
            repeat match goal with Eq : queue _ = _ |- _ => simpl in Eq; rewrite Eq in *
                                 | Eq : reg _ = _ |- _ => simpl in Eq; rewrite Eq in *
                                 | Eq : clr _ = _ |- _ => simpl in Eq; rewrite Eq in * end;
            rewrite ?app_length; simpl length; simpl length in *;
            try rewrite Hcp; change (0 <? 0) with false;
            repeat match goal with |- context [Nat.ltb ?a ?b] => destruct (Nat.ltb a b) end;
            lia).
  - (* poll attempt that finds nothing *)
    right. split; [reflexivity|]. split; [unfold spinning; rewrite e; split; [left; assumption|assumption]|].
    split; [|eexists; reflexivity].
    pose proof (HG SRepoll) as HGp; simpl in HGp. unfold loopoff. simpl reg.
    replace (ready C (set_thr s (upd (thr s) t SRepoll))) with (ready C s) by reflexivity.
    match goal with R : ready C s = false |- _ => rewrite R end. lia.
  - (* back to the poll call *)
    pose proof (HG APoll) as HGp; simpl in HGp. unfold loopoff. simpl reg.
    destruct (ready C s) eqn:R.
    + left. lia.
    + right. split; [reflexivity|]. split; [unfold spinning; rewrite e; split; [right; assumption|assumption]|].
      split; [lia|eexists; reflexivity].
  - (* clear-up of the signal: the pending iteration is consumed *)
    left. pose proof (HG SWake) as HGp; simpl in HGp. unfold loopoff. simpl reg.
    rewrite Hcp.
    change (0 <? 0) with false. cbv iota. lia.
Qed.


(* ------------------------------------------------------------------ *)
(* enabledness of another thread does not depend on where the loop thread is *)
Lemma enabled_indep C s p u c : u <> c_loop C ->
  step C s u c <> None -> step C (set_pc s (c_loop C) p) u c <> None.
Proof.
  intros Hne. unfold step, seg_drain, seg_clear, seg_exit.
  rewrite (thr_set_pc_other s (c_loop C) u p Hne).
  unfold set_pc at 1 2 3 4 5 6 7 8 9 10. simpl.
  destruct (Nat.ltb u (c_n C)); simpl; [|auto].
  destruct (Nat.eqb u 0 || created s); simpl; [|auto].
  destruct (thr s u) as [| | | | | | | | | | | | | | |ph [i|]|ph i| | | | | | |]; try destruct ph;
    repeat match goal with
    | |- context [match ?x with _ => _ end] => destruct x
    end; intros; try discriminate; auto.
Qed.

(* ------------------------------------------------------------------ *)
(* reachable-state invariants bundled, closed under steps *)
Definition Good (C : config) (s : sys) : Prop :=
  BInv C s /\ HInv C s /\ XInv C s /\ EInv C s /\ WInv C s.

Section Fair.
Variable C : config.
Hypothesis Hfx : c_fix_exit C = true.
Hypothesis Hfa : c_fix_add C = true.
Hypothesis Hwf : c_loop C < c_n C.

Lemma good_init_exec pre : Good C (exec sys (step C) init pre).
Proof.
  exact (conj (binv_all C pre) (conj (hinv_all C pre Hfa) (conj (xinv_all C pre)
          (conj (einv_all C pre Hfx) (winv_all C pre))))).
Qed.

Lemma good_step s t c s' l : Good C s -> step C s t c = Some (s', l) -> Good C s'.
Proof.
  intros (B & H & X & E & W) Hs.
  exact (conj (step_binv C s t c s' l B Hs) (conj (step_hinv C s t c s' l Hfa B H Hs)
          (conj (step_xinv C s t c s' l B X Hs) (conj (step_einv C s t c s' l Hfx B E Hs)
          (step_winv C s t c s' l B W Hs))))).
Qed.

Lemma good_exec r : forall s, Good C s -> Good C (exec sys (step C) s r).
Proof.
  induction r as [|[t c] r IH]; intros s Hg; simpl; [exact Hg|].
  apply IH. unfold exec1; simpl. destruct (step C s t c) as [[s1 l]|] eqn:E; [eapply good_step; eauto|exact Hg].
Qed.

Lemma G_exec_le r : forall s, Good C s -> G C (exec sys (step C) s r) <= G C s.
Proof.
  induction r as [|[t c] r IH]; intros s Hg; simpl; [lia|].
  unfold exec1; simpl. destruct (step C s t c) as [[s1 l]|] eqn:E; [|apply IH; exact Hg].
  pose proof (good_step _ _ _ _ _ Hg E) as Hg1. specialize (IH s1 Hg1).
  destruct Hg as (B & H & X & _).
  destruct (step_measure C s t c s1 l Hfx Hfa B H X E) as [Hlt|(_ & _ & Heq & _)]; lia.
Qed.

(* a thread whose step is enabled and is not the loop thread's re-poll on a signal that is not ready *)
Definition productive (s : sys) (u : nat) : Prop :=
  step C s u 0 <> None /\ ~ (u = c_loop C /\ spinning C s).

(* a round that schedules a productive thread decreases the measure *)
Lemma round_decreases u r : forall s, Good C s -> productive s u -> In u (map fst r) ->
  G C (exec sys (step C) s r) < G C s.
Proof.
  induction r as [|[t c] r IH]; intros s Hg [Hen Hns] Hin; simpl in *; [contradiction|].
  unfold exec1; simpl. destruct (step C s t c) as [[s1 l]|] eqn:E.
  - pose proof (good_step _ _ _ _ _ Hg E) as Hg1.
    pose proof Hg as (B & H & X & _).
    destruct (step_measure C s t c s1 l Hfx Hfa B H X E) as [Hlt|(Ht & Hsp & Heq & p & Hp)].
    + pose proof (G_exec_le r s1 Hg1). lia.
    + assert (Hu : u <> c_loop C) by (intros Hu; apply Hns; split; assumption).
      destruct Hin as [Hin|Hin]; [congruence|].
      assert (Hprod : productive s1 u).
      { split; [rewrite Hp; apply enabled_indep; assumption|]. intros [X1 _]. contradiction. }
      specialize (IH s1 Hg1 Hprod Hin). lia.
  - destruct Hin as [Hin|Hin]; [subst t; exfalso; apply Hen; exact E|].
    apply IH; [exact Hg|split; assumption|exact Hin].
Qed.

(* fairness: a round schedules every thread at least once (any order, any multiplicity) *)
Definition fair_round (r : list (nat * nat)) : Prop := forall t, t < c_n C -> In t (map fst r).

Lemma enabled_lt s u c : step C s u c <> None -> u < c_n C.
Proof.
  unfold step. destruct (Nat.ltb u (c_n C)) eqn:E; simpl; [intros _; apply Nat.ltb_lt; exact E|congruence].
Qed.

(* generic fair-termination argument *)
Section Goal.
Variable P : sys -> Prop.      (* a class of states closed under steps, inside Good *)
Variable Goal : sys -> Prop.
Hypothesis P_good : forall s, P s -> Good C s.
Hypothesis P_step : forall s t c s' l, P s -> step C s t c = Some (s', l) -> P s'.
Hypothesis Goal_dec : forall s, Goal s \/ ~ Goal s.
Hypothesis Goal_step : forall s t c s' l, P s -> Goal s -> step C s t c = Some (s', l) -> Goal s'.
Hypothesis Goal_prod : forall s, P s -> ~ Goal s -> exists u, productive s u.

Lemma P_exec r : forall s, P s -> P (exec sys (step C) s r).
Proof.
  induction r as [|[t c] r IH]; intros s Hp; simpl; [exact Hp|].
  apply IH. unfold exec1; simpl. destruct (step C s t c) as [[s1 l]|] eqn:E; [eapply P_step; eauto|exact Hp].
Qed.
Lemma Goal_exec r : forall s, P s -> Goal s -> Goal (exec sys (step C) s r).
Proof.
  induction r as [|[t c] r IH]; intros s Hp Hg; simpl; [exact Hg|].
  unfold exec1; simpl. destruct (step C s t c) as [[s1 l]|] eqn:E; [|apply IH; assumption].
  apply IH; [eapply P_step; eauto|eapply Goal_step; eauto].
Qed.

Lemma fair_goal rounds : forall s, P s -> Forall fair_round rounds -> G C s < length rounds ->
  Goal (exec sys (step C) s (concat rounds)).
Proof.
  induction rounds as [|r rs IH]; intros s Hp Hf Hlt; simpl in *; [lia|].
  inversion Hf as [|r0 rs0 Hr Hrs]; subst. rewrite exec_app.
  destruct (Goal_dec s) as [Hg|Hng].
  - apply Goal_exec; [apply P_exec; exact Hp|apply Goal_exec; assumption].
  - destruct (Goal_prod s Hp Hng) as (u & Hu).
    assert (Hin : In u (map fst r)) by (apply Hr; eapply enabled_lt; exact (proj1 Hu)).
    pose proof (round_decreases u r s (P_good s Hp) Hu Hin) as Hdec.
    apply IH; [apply P_exec; exact Hp|exact Hrs|lia].
Qed.
End Goal.
End Fair.

(* ------------------------------------------------------------------ *)
(* facts about single steps *)
Lemma step_other_thr C s t c s' l u : step C s t c = Some (s', l) -> u <> t -> thr s' u = thr s u.
Proof.
  intros Hs Hne. step_inv Hs; unfold set_pc; simpl; apply upd_other; exact Hne.
Qed.

Lemma step_monotone C s t c s' l : WInv C s -> step C s t c = Some (s', l) ->
  (to_exit s <> 0 -> to_exit s' <> 0) /\ w_req s <= w_req s' /\ w_seen s <= w_seen s'.
Proof.
  intros [Hle _] Hs. step_inv Hs; simpl; unfold ST_EXIT, ST_WAKE; repeat split; try lia; try discriminate; auto.
  all: intros Hne; destruct (Nat.eqb_spec (to_exit s) 2); lia.
Qed.

Lemma leaving_step C s c s' l : BInv C s -> leaving (thr s (c_loop C)) = true ->
  step C s (c_loop C) c = Some (s', l) -> leaving (thr s' (c_loop C)) = true.
Proof.
  intros B Hlv Hs. step_inv Hs; rewrite ?thr_set_pc_same;
    simpl in Hlv; try discriminate Hlv;
    repeat match goal with ph : phase |- _ => destruct ph end; simpl in *; try discriminate; reflexivity.
Qed.

(* loop_never_stuck for any state satisfying the basic invariant *)
Lemma never_stuck_B C s : BInv C s ->
  thr s (c_loop C) <> SStart -> thr s (c_loop C) <> Done -> step C s (c_loop C) 0 = None ->
  exists u, u <> c_loop C /\ step C s u 0 <> None.
Proof.
  intros B Hst Hdn Hnone.
  destruct (b_valid _ _ B (c_loop C) Hst) as [Hn Hc].
  assert (Hm : exists u, mtx s = Some u /\ holds (thr s (c_loop C)) = false).
  { unfold step, seg_drain, seg_clear, seg_exit in Hnone. rewrite Hn, Hc, Bool.orb_true_r in Hnone. simpl in Hnone.
    destruct (thr s (c_loop C)) eqn:Ep; try congruence; simpl;
      repeat match type of Hnone with
      | (if ?a then _ else _) = None => destruct a
      | (match ?a with _ => _ end) = None => destruct a eqn:?
      end; try discriminate; eauto. }
  destruct Hm as (u & Hu & Hh). exists u.
  pose proof (b_free _ _ B u Hu) as Hhu.
  assert (Hne : u <> c_loop C) by (intros ->; congruence).
  split; [exact Hne|].
  assert (Hnl : is_loop_pc (thr s u) = false).
  { destruct (is_loop_pc (thr s u)) eqn:E; [|reflexivity]. exfalso. apply Hne. eapply b_loop; eauto. }
  destruct (b_valid _ _ B u) as [Hnu Hcu]; [intros E; rewrite E in Hhu; discriminate|].
  unfold step. rewrite Hnu, Hcu, Bool.orb_true_r. simpl.
  destruct (thr s u); simpl in Hhu, Hnl; try discriminate; simpl; discriminate.
Qed.

Section FairThms.
Variable C : config.
Hypothesis Hfx : c_fix_exit C = true.
Hypothesis Hfa : c_fix_add C = true.
Hypothesis Hwf : c_loop C < c_n C.

(* as long as the loop thread has not finished, some thread is productive - provided that a
   re-polling loop thread has a writer of the signal in flight *)
Lemma exists_productive s : Good C s -> thr s (c_loop C) <> Done ->
  (spinning C s -> exists u k, thr s u = AWrite k) ->
  exists u, productive C s u.
Proof.
  intros (B & H & X & E & W) Hnd Hsp.
  assert (Hdec : spinning C s \/ ~ spinning C s).
  { unfold spinning. destruct (ready C s); [right; intros [_ K]; discriminate|].
    destruct (thr s (c_loop C)); try (left; split; auto; fail); right; intros [[K|K] _]; discriminate. }
  destruct (step C s (c_loop C) 0) as [[s1 l]|] eqn:Es.
  - destruct Hdec as [Hs|Hns].
    + destruct (Hsp Hs) as (u & k & Hu).
      assert (Hne : u <> c_loop C).
      { intros ->. destruct Hs as [[K|K] _]; congruence. }
      destruct (b_valid _ _ B u) as [Hnu Hcu]; [rewrite Hu; discriminate|].
      exists u. split; [|intros [K _]; contradiction].
      unfold step. rewrite Hnu, Hcu, Bool.orb_true_r, Hu. simpl. discriminate.
    + exists (c_loop C). split; [rewrite Es; discriminate|intros [_ K]; contradiction].
  - destruct (thr s (c_loop C)) eqn:Ep; try congruence.
    1: { (* the loop thread has not started: it waits for the creating thread *)
      destruct (created s) eqn:Ec.
      - exfalso. unfold step in Es. apply Nat.ltb_lt in Hwf. rewrite Hwf, Ec, Bool.orb_true_r, Ep in Es. simpl in Es.
        destruct (c_loop C =? 0); discriminate.
      - pose proof (x_start _ _ X Ec 0) as H0. exists 0. split.
        + unfold step. assert (Hn0 : Nat.ltb 0 (c_n C) = true) by (apply Nat.ltb_lt; lia).
          rewrite Hn0, H0. simpl. discriminate.
        + intros [K1 [[K2|K2] _]]; congruence. }
    all: destruct (never_stuck_B C s B) as (u & Hne & Hen);
      [ rewrite Ep; discriminate | rewrite Ep; discriminate | exact Es
      | exists u; split; [exact Hen | intros [K _]; contradiction] ].
Qed.

(* ---- exit_returns under fair schedules ---- *)
Definition PX (s : sys) : Prop := Good C s /\ to_exit s <> 0.
Definition GoalX (s : sys) : Prop := thr s (c_loop C) = Done.

Lemma pc_done_dec (p : pc) : p = Done \/ p <> Done.
Proof. destruct p; (left; reflexivity) || (right; discriminate). Qed.

Theorem exit_fair_core rounds s : PX s -> Forall (fair_round C) rounds -> G C s < length rounds ->
  GoalX (exec sys (step C) s (concat rounds)).
Proof.
  apply (fair_goal C Hfx Hfa Hwf PX GoalX).
  - intros s0 [Hg _]. exact Hg.
  - intros s0 t c s' l [Hg Hne] Hs. split; [eapply good_step; eauto|].
    destruct Hg as (_ & _ & _ & _ & W). apply (step_monotone C s0 t c s' l W Hs). exact Hne.
  - intros s0. apply pc_done_dec.
  - intros s0 t c s' l [Hg _] Hd Hs. unfold GoalX in *.
    destruct (Nat.eq_dec t (c_loop C)) as [->|Hne].
    + exfalso. unfold step in Hs. rewrite Hd in Hs.
      destruct (negb (c_loop C <? c_n C)); [discriminate|].
      destruct (negb ((c_loop C =? 0) || created s0)); discriminate.
    + rewrite (step_other_thr C s0 t c s' l (c_loop C) Hs); [exact Hd|auto].
  - intros s0 [Hg Hne] Hng. apply exists_productive; [exact Hg|exact Hng|].
    intros [Hpc Hrd]. destruct Hg as (_ & _ & _ & [_ E] & _). specialize (E Hne).
    destruct Hpc as [K|K]; rewrite K in E; simpl in E; (destruct E as [E|E]; [exact E|]);
      apply armed_ready in E; congruence.
Qed.

(* ---- wake_not_lost under fair schedules ---- *)
Variable w0 : nat.    (* the number of wake-up requests completed at the starting point *)
Definition PW (s : sys) : Prop := Good C s /\ w0 <= w_req s.
Definition GoalW (s : sys) : Prop := w0 <= w_seen s \/ leaving (thr s (c_loop C)) = true.

Theorem wake_fair_core rounds s : PW s -> Forall (fair_round C) rounds -> G C s < length rounds ->
  GoalW (exec sys (step C) s (concat rounds)).
Proof.
  apply (fair_goal C Hfx Hfa Hwf PW GoalW).
  - intros s0 [Hg _]. exact Hg.
  - intros s0 t c s' l [Hg Hle] Hs. split; [eapply good_step; eauto|].
    destruct Hg as (_ & _ & _ & _ & W). destruct (step_monotone C s0 t c s' l W Hs) as (_ & K & _). lia.
  - intros s0. unfold GoalW. destruct (le_lt_dec w0 (w_seen s0)); [left; left; assumption|].
    destruct (leaving (thr s0 (c_loop C))); [left; right; reflexivity|right; intros [K|K]; [lia|discriminate]].
  - intros s0 t c s' l [Hg _] Hgoal Hs. unfold GoalW in *.
    pose proof Hg as (B & _ & _ & _ & W). destruct (step_monotone C s0 t c s' l W Hs) as (_ & _ & K).
    destruct Hgoal as [Hgoal|Hgoal]; [left; lia|right].
    destruct (Nat.eq_dec t (c_loop C)) as [->|Hne].
    + eapply leaving_step; eauto.
    + rewrite (step_other_thr C s0 t c s' l (c_loop C) Hs); [exact Hgoal|auto].
  - intros s0 [Hg Hle] Hng. unfold GoalW in Hng.
    assert (Hlt : w_seen s0 < w_req s0) by (destruct (le_lt_dec w0 (w_seen s0)); [exfalso; apply Hng; left; assumption|lia]).
    assert (Hnl : leaving (thr s0 (c_loop C)) = false).
    { destruct (leaving (thr s0 (c_loop C))) eqn:K; [exfalso; apply Hng; right; reflexivity|reflexivity]. }
    apply exists_productive; [exact Hg|intros K; rewrite K in Hnl; discriminate|].
    intros [Hpc Hrd]. destruct Hg as (_ & _ & _ & _ & [_ W]). specialize (W Hlt).
    destruct Hpc as [K|K]; rewrite K in W; simpl in W; apply armed_ready in W; congruence.
Qed.
End FairThms.


(* ------------------------------------------------------------------ *)
(* the theorems, from the initial state *)

(* EXIT: at any point of any schedule at which an exit has been requested (to_exit <> 0: the
   request's store has happened, its wake-up write may still be in flight), every fair
   continuation of more than [G] rounds ends with the loop thread finished, muggle_evloop_run
   returned, every registered context released by a clear callback and the exit callback run
   (what is still queued was enqueued after it). *)
Theorem exit_returns_fair_all C pre rounds :
  c_fix_exit C = true -> c_fix_add C = true -> c_loop C < c_n C ->
  let s := exec sys (step C) init pre in
  to_exit s <> 0 -> Forall (fair_round C) rounds -> G C s < length rounds ->
  let s' := exec sys (step C) init (pre ++ concat rounds) in
  thr s' (c_loop C) = Done /\ returned s' = true /\
  (c_bare C = false -> g_relclear s' = reg s' /\ exitdr s' = true /\ queue s' = g_late s').
Proof.
  intros Hfx Hfa Hwf s Hne Hf Hlt s'.
  assert (Hd : thr s' (c_loop C) = Done).
  { unfold s'. rewrite exec_app. apply (exit_fair_core C Hfx Hfa Hwf); auto.
    split; [apply good_init_exec; assumption|exact Hne]. }
  split; [exact Hd|].
  pose proof (rinv_all C (pre ++ concat rounds)) as R. fold s' in R.
  destruct (kinv_all C (pre ++ concat rounds)) as [K _]. fold s' in K. rewrite Hd in K. simpl in K.
  split; [apply R; right; exact Hd|]. intros Hb. destruct (K Hb) as (K1 & K2 & K3). repeat split; auto.
Qed.

(* WAKE: every wake-up request completed at a point of a schedule has, after more than [G] fair
   rounds, been followed by the start of a wake callback - unless the loop has left its body
   because an exit was requested. *)
Theorem wake_served_fair_all C pre rounds :
  c_fix_exit C = true -> c_fix_add C = true -> c_loop C < c_n C ->
  let s := exec sys (step C) init pre in
  Forall (fair_round C) rounds -> G C s < length rounds ->
  let s' := exec sys (step C) init (pre ++ concat rounds) in
  w_req s <= w_seen s' \/ leaving (thr s' (c_loop C)) = true.
Proof.
  intros Hfx Hfa Hwf s Hf Hlt s'. unfold s'. rewrite exec_app.
  apply (wake_fair_core C Hfx Hfa Hwf (w_req s)); auto.
  split; [apply good_init_exec; assumption|apply le_n].
Qed.

(* non-vacuity: the exit-before-run scenario; round-robin rounds are fair and the bound is small *)
Example exit_fair_example :
  let C := cfg_exit_before_run true in
  let pre := [(0,0);(0,0);(0,0)] in
  let s := exec sys (step C) init pre in
  to_exit s <> 0 /\ fair_round C [(0,0);(1,0)] /\ G C s < 200 /\
  returned (exec sys (step C) init (pre ++ concat (repeat [(0,0);(1,0)] 200))) = true.
Proof.
  split; [vm_compute; discriminate|]. split.
  - intros t Ht. simpl in Ht. destruct t as [|[|t]]; simpl; auto; lia.
  - split; [vm_compute; lia|vm_compute; reflexivity].
Qed.
