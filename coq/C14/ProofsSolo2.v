(* C14 — bounded interference for exit_returns: the potential argument along ANY continuation
   schedule.  Every enabled step of the loop thread lowers [rank], every enabled step of another
   thread raises it by at most 2, disabled entries change nothing: the loop thread takes at most
   rank + 2 * (foreign steps) steps - run() cannot go on for ever against finitely many foreign
   steps.
   [ranked] is NOT preserved by every foreign step (muggle_evloop_exit called again from another
   thread turns EXIT back into WAKE: the exit test of the pass in progress no longer leaves), so
   the theorem asks that the foreign steps of the continuation keep [ranked] ([keeps_ranked]);
   foreign steps that do not write to_exit do (foreign_keeps_ranked). *)
From MV Require Import C14.Model C14.ProofsBase C14.ProofsWake C14.ProofsExit C14.ProofsHandover C14.ProofsVariant C14.ProofsSolo.
From Coq Require Import Lia List Bool.
Import ListNotations.

(* enabled steps of the loop thread / of the other threads along post from s *)
Fixpoint loop_steps (C : config) (s : sys) (post : list (nat * nat)) : nat :=
  match post with
  | [] => 0
  | (t, c) :: r =>
    match step C s t c with
    | Some (s', _) => (if Nat.eqb t (c_loop C) then 1 else 0) + loop_steps C s' r
    | None => loop_steps C s r
    end
  end.
Fixpoint foreign_steps (C : config) (s : sys) (post : list (nat * nat)) : nat :=
  match post with
  | [] => 0
  | (t, c) :: r =>
    match step C s t c with
    | Some (s', _) => (if Nat.eqb t (c_loop C) then 0 else 1) + foreign_steps C s' r
    | None => foreign_steps C s r
    end
  end.
(* every enabled foreign step of post leaves the loop thread ranked *)
Fixpoint keeps_ranked (C : config) (s : sys) (post : list (nat * nat)) : bool :=
  match post with
  | [] => true
  | (t, c) :: r =>
    match step C s t c with
    | Some (s', _) => (Nat.eqb t (c_loop C) || ranked C s' (thr s' (c_loop C))) && keeps_ranked C s' r
    | None => keeps_ranked C s r
    end
  end.

Lemma exec_cons C s t c r :
  exec sys (step C) s ((t, c) :: r) =
  exec sys (step C) (match step C s t c with Some (s', _) => s' | None => s end) r.
Proof. reflexivity. Qed.

Theorem bounded_interference_all C pre post : c_fix_exit C = true -> c_fix_add C = true ->
  let s := exec sys (step C) init pre in
  to_exit s <> 0 -> ranked C s (thr s (c_loop C)) = true ->
  keeps_ranked C s post = true ->
  let s' := exec sys (step C) s post in
  to_exit s' <> 0 /\ ranked C s' (thr s' (c_loop C)) = true /\
  rank C s' (thr s' (c_loop C)) + loop_steps C s post <= rank C s (thr s (c_loop C)) + 2 * foreign_steps C s post /\
  loop_steps C s post <= rank C s (thr s (c_loop C)) + 2 * foreign_steps C s post.
Proof.
  intros Hfx Hfa. cbv zeta. revert pre.
  assert (G : forall pre, to_exit (exec sys (step C) init pre) <> 0 ->
    ranked C (exec sys (step C) init pre) (thr (exec sys (step C) init pre) (c_loop C)) = true ->
    keeps_ranked C (exec sys (step C) init pre) post = true ->
    to_exit (exec sys (step C) (exec sys (step C) init pre) post) <> 0 /\
    ranked C (exec sys (step C) (exec sys (step C) init pre) post)
      (thr (exec sys (step C) (exec sys (step C) init pre) post) (c_loop C)) = true /\
    rank C (exec sys (step C) (exec sys (step C) init pre) post)
      (thr (exec sys (step C) (exec sys (step C) init pre) post) (c_loop C)) + loop_steps C (exec sys (step C) init pre) post
    <= rank C (exec sys (step C) init pre) (thr (exec sys (step C) init pre) (c_loop C))
       + 2 * foreign_steps C (exec sys (step C) init pre) post).
  { induction post as [|[t c] r IH]; intros pre Hne Hr Hk.
    - cbn [loop_steps foreign_steps]. change (exec sys (step C) (exec sys (step C) init pre) []) with (exec sys (step C) init pre).
      repeat split; auto; lia.
    - rewrite exec_cons. cbn [loop_steps foreign_steps keeps_ranked] in *.
      remember (exec sys (step C) init pre) as s eqn:Hs.
      destruct (step C s t c) as [[s1 l]|] eqn:Es.
      2: { subst s. apply IH; assumption. }
      assert (E1 : exec sys (step C) init (pre ++ [(t, c)]) = s1).
      { rewrite exec_app. rewrite <- Hs. rewrite exec_cons. rewrite Es. reflexivity. }
      apply andb_true_iff in Hk. destruct Hk as [Hk1 Hk2].
      assert (Hne1 : to_exit s1 <> 0) by (eapply step_exit_nz; eauto).
      specialize (IH (pre ++ [(t, c)])). rewrite E1 in IH.
      pose proof (exit_variant_all C pre Hfx Hfa) as V. cbv zeta in V. rewrite <- Hs in V.
      destruct V as (V1 & V2 & _).
      destruct (Nat.eqb_spec t (c_loop C)) as [e|ne].
      + subst t.
        assert (Hnd : thr s (c_loop C) <> Done).
        { intros E. unfold step in Es. rewrite E in Es.
          destruct (negb (c_loop C <? c_n C)); [discriminate|].
          destruct (negb ((c_loop C =? 0) || created s)); discriminate. }
        destruct (V1 c s1 l Hne Hr Hnd Es) as (Hr1 & Hlt).
        destruct (IH Hne1 Hr1 Hk2) as (I1 & I2 & I3). repeat split; auto. lia.
      + simpl in Hk1.
        destruct (V2 t c s1 l ne Es) as (Ht & Hrk).
        destruct (IH Hne1 Hk1 Hk2) as (I1 & I2 & I3). repeat split; auto.
        rewrite Ht in I3. lia. }
  intros pre Hne Hr Hk. destruct (G pre Hne Hr Hk) as (G1 & G2 & G3). repeat split; auto. lia.
Qed.

(* a sufficient condition for [keeps_ranked]: a foreign step that does not write to_exit keeps
   the loop thread ranked *)
Lemma foreign_keeps_ranked C s t ch s' l : BInv C s -> t <> c_loop C -> step C s t ch = Some (s', l) ->
  to_exit s' = to_exit s -> ranked C s (thr s (c_loop C)) = true -> ranked C s' (thr s' (c_loop C)) = true.
Proof.
  intros B Hne Hs He Hr. rewrite (step_other_thr C s t ch s' l (c_loop C) Hs) by auto.
  assert (E : psig s' = psig s /\ cbk s' = cbk s /\ todo s' = todo s).
  { pose proof (b_loop _ _ B t) as Hl.
    step_inv Hs; simpl in Hl; try (exfalso; apply Hne; apply Hl; reflexivity);
      try (exfalso; apply Hne; apply Nat.eqb_eq; assumption); nrmg; repeat split; eauto. }
  destruct E as (E1 & E2 & E3). unfold ranked in *. rewrite He, E1, E2, E3. exact Hr.
Qed.

(* non-vacuity: repaired code, the loop thread has just been reported the signal (SPollRet, EXIT
   pending, rank 122) while the creator thread still has two steps to take; a continuation that
   interleaves them (and four entries that are disabled) with the loop thread's: 2 foreign steps,
   12 loop steps, the loop thread ends with run() returned *)
Example bounded_interference_example :
  let C := cfg_exit_before_run true in
  let pre := firstn 10 sched_exit_before_run in
  let post := [(1,0);(0,0);(1,0);(0,0);(0,0);(0,0)] ++ repeat (1,0) 20 in
  let s := exec sys (step C) init pre in
  let s' := exec sys (step C) s post in
  c_fix_exit C = true /\ c_fix_add C = true /\ to_exit s <> 0 /\ ranked C s (thr s (c_loop C)) = true /\
  keeps_ranked C s post = true /\ rank C s (thr s (c_loop C)) = 122 /\
  foreign_steps C s post = 2 /\ loop_steps C s post = 12 /\
  thr s' (c_loop C) = Done /\ returned s' = true.
Proof. vm_compute. repeat split; try reflexivity; try discriminate. Qed.
