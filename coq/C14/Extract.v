From MV Require Import Lib.ExtractBase C14.Model.
From Coq Require Import ExtrOcamlBasic.
Extraction Language OCaml.
Extraction "c14_model" force_types init step freed_count
  cnt to_exit queue next_id reg g_enq g_relfail g_relexit g_relclear g_relclose g_leaked g_late w_req w_seen returned thr.
