(* C14 - generated projection facts about the state record (tools: the setters stay folded in
   the proofs; [autorewrite with sysdb] computes the fields of an updated state). *)
From MV Require Import C14.Model.

Lemma p_cnt_set_cnt : forall s v, cnt (set_cnt s v) = v.
Proof. reflexivity. Qed.
Lemma p_edge_set_cnt : forall s v, edge (set_cnt s v) = edge s.
Proof. reflexivity. Qed.
Lemma p_to_exit_set_cnt : forall s v, to_exit (set_cnt s v) = to_exit s.
Proof. reflexivity. Qed.
Lemma p_tidf_set_cnt : forall s v, tidf (set_cnt s v) = tidf s.
Proof. reflexivity. Qed.
Lemma p_created_set_cnt : forall s v, created (set_cnt s v) = created s.
Proof. reflexivity. Qed.
Lemma p_mtx_set_cnt : forall s v, mtx (set_cnt s v) = mtx s.
Proof. reflexivity. Qed.
Lemma p_queue_set_cnt : forall s v, queue (set_cnt s v) = queue s.
Proof. reflexivity. Qed.
Lemma p_next_id_set_cnt : forall s v, next_id (set_cnt s v) = next_id s.
Proof. reflexivity. Qed.
Lemma p_reg_set_cnt : forall s v, reg (set_cnt s v) = reg s.
Proof. reflexivity. Qed.
Lemma p_clr_set_cnt : forall s v, clr (set_cnt s v) = clr s.
Proof. reflexivity. Qed.
Lemma p_exitdr_set_cnt : forall s v, exitdr (set_cnt s v) = exitdr s.
Proof. reflexivity. Qed.
Lemma p_g_enq_set_cnt : forall s v, g_enq (set_cnt s v) = g_enq s.
Proof. reflexivity. Qed.
Lemma p_g_relfail_set_cnt : forall s v, g_relfail (set_cnt s v) = g_relfail s.
Proof. reflexivity. Qed.
Lemma p_g_relexit_set_cnt : forall s v, g_relexit (set_cnt s v) = g_relexit s.
Proof. reflexivity. Qed.
Lemma p_g_relclear_set_cnt : forall s v, g_relclear (set_cnt s v) = g_relclear s.
Proof. reflexivity. Qed.
Lemma p_g_leaked_set_cnt : forall s v, g_leaked (set_cnt s v) = g_leaked s.
Proof. reflexivity. Qed.
Lemma p_g_late_set_cnt : forall s v, g_late (set_cnt s v) = g_late s.
Proof. reflexivity. Qed.
Lemma p_w_req_set_cnt : forall s v, w_req (set_cnt s v) = w_req s.
Proof. reflexivity. Qed.
Lemma p_w_seen_set_cnt : forall s v, w_seen (set_cnt s v) = w_seen s.
Proof. reflexivity. Qed.
Lemma p_returned_set_cnt : forall s v, returned (set_cnt s v) = returned s.
Proof. reflexivity. Qed.
Lemma p_hup_set_cnt : forall s v, hup (set_cnt s v) = hup s.
Proof. reflexivity. Qed.
Lemma p_erl_set_cnt : forall s v, erl (set_cnt s v) = erl s.
Proof. reflexivity. Qed.
Lemma p_slots_set_cnt : forall s v, slots (set_cnt s v) = slots s.
Proof. reflexivity. Qed.
Lemma p_rdy_set_cnt : forall s v, rdy (set_cnt s v) = rdy s.
Proof. reflexivity. Qed.
Lemma p_todo_set_cnt : forall s v, todo (set_cnt s v) = todo s.
Proof. reflexivity. Qed.
Lemma p_psig_set_cnt : forall s v, psig (set_cnt s v) = psig s.
Proof. reflexivity. Qed.
Lemma p_pn_set_cnt : forall s v, pn (set_cnt s v) = pn s.
Proof. reflexivity. Qed.
Lemma p_wkn_set_cnt : forall s v, wkn (set_cnt s v) = wkn s.
Proof. reflexivity. Qed.
Lemma p_g_relclose_set_cnt : forall s v, g_relclose (set_cnt s v) = g_relclose s.
Proof. reflexivity. Qed.
Lemma p_inp_set_cnt : forall s v, inp (set_cnt s v) = inp s.
Proof. reflexivity. Qed.
Lemma p_peof_set_cnt : forall s v, peof (set_cnt s v) = peof s.
Proof. reflexivity. Qed.
Lemma p_rdh_set_cnt : forall s v, rdh (set_cnt s v) = rdh s.
Proof. reflexivity. Qed.
Lemma p_tmn_set_cnt : forall s v, tmn (set_cnt s v) = tmn s.
Proof. reflexivity. Qed.
Lemma p_cbk_set_cnt : forall s v, cbk (set_cnt s v) = cbk s.
Proof. reflexivity. Qed.
Lemma p_cbs_set_cnt : forall s v, cbs (set_cnt s v) = cbs s.
Proof. reflexivity. Qed.
Lemma p_lfreed_set_cnt : forall s v, lfreed (set_cnt s v) = lfreed s.
Proof. reflexivity. Qed.
Lemma p_g_uaf_set_cnt : forall s v, g_uaf (set_cnt s v) = g_uaf s.
Proof. reflexivity. Qed.
Lemma p_thr_set_cnt : forall s v, thr (set_cnt s v) = thr s.
Proof. reflexivity. Qed.
Lemma p_cnt_set_edge : forall s v, cnt (set_edge s v) = cnt s.
Proof. reflexivity. Qed.
Lemma p_edge_set_edge : forall s v, edge (set_edge s v) = v.
Proof. reflexivity. Qed.
Lemma p_to_exit_set_edge : forall s v, to_exit (set_edge s v) = to_exit s.
Proof. reflexivity. Qed.
Lemma p_tidf_set_edge : forall s v, tidf (set_edge s v) = tidf s.
Proof. reflexivity. Qed.
Lemma p_created_set_edge : forall s v, created (set_edge s v) = created s.
Proof. reflexivity. Qed.
Lemma p_mtx_set_edge : forall s v, mtx (set_edge s v) = mtx s.
Proof. reflexivity. Qed.
Lemma p_queue_set_edge : forall s v, queue (set_edge s v) = queue s.
Proof. reflexivity. Qed.
Lemma p_next_id_set_edge : forall s v, next_id (set_edge s v) = next_id s.
Proof. reflexivity. Qed.
Lemma p_reg_set_edge : forall s v, reg (set_edge s v) = reg s.
Proof. reflexivity. Qed.
Lemma p_clr_set_edge : forall s v, clr (set_edge s v) = clr s.
Proof. reflexivity. Qed.
Lemma p_exitdr_set_edge : forall s v, exitdr (set_edge s v) = exitdr s.
Proof. reflexivity. Qed.
Lemma p_g_enq_set_edge : forall s v, g_enq (set_edge s v) = g_enq s.
Proof. reflexivity. Qed.
Lemma p_g_relfail_set_edge : forall s v, g_relfail (set_edge s v) = g_relfail s.
Proof. reflexivity. Qed.
Lemma p_g_relexit_set_edge : forall s v, g_relexit (set_edge s v) = g_relexit s.
Proof. reflexivity. Qed.
Lemma p_g_relclear_set_edge : forall s v, g_relclear (set_edge s v) = g_relclear s.
Proof. reflexivity. Qed.
Lemma p_g_leaked_set_edge : forall s v, g_leaked (set_edge s v) = g_leaked s.
Proof. reflexivity. Qed.
Lemma p_g_late_set_edge : forall s v, g_late (set_edge s v) = g_late s.
Proof. reflexivity. Qed.
Lemma p_w_req_set_edge : forall s v, w_req (set_edge s v) = w_req s.
Proof. reflexivity. Qed.
Lemma p_w_seen_set_edge : forall s v, w_seen (set_edge s v) = w_seen s.
Proof. reflexivity. Qed.
Lemma p_returned_set_edge : forall s v, returned (set_edge s v) = returned s.
Proof. reflexivity. Qed.
Lemma p_hup_set_edge : forall s v, hup (set_edge s v) = hup s.
Proof. reflexivity. Qed.
Lemma p_erl_set_edge : forall s v, erl (set_edge s v) = erl s.
Proof. reflexivity. Qed.
Lemma p_slots_set_edge : forall s v, slots (set_edge s v) = slots s.
Proof. reflexivity. Qed.
Lemma p_rdy_set_edge : forall s v, rdy (set_edge s v) = rdy s.
Proof. reflexivity. Qed.
Lemma p_todo_set_edge : forall s v, todo (set_edge s v) = todo s.
Proof. reflexivity. Qed.
Lemma p_psig_set_edge : forall s v, psig (set_edge s v) = psig s.
Proof. reflexivity. Qed.
Lemma p_pn_set_edge : forall s v, pn (set_edge s v) = pn s.
Proof. reflexivity. Qed.
Lemma p_wkn_set_edge : forall s v, wkn (set_edge s v) = wkn s.
Proof. reflexivity. Qed.
Lemma p_g_relclose_set_edge : forall s v, g_relclose (set_edge s v) = g_relclose s.
Proof. reflexivity. Qed.
Lemma p_inp_set_edge : forall s v, inp (set_edge s v) = inp s.
Proof. reflexivity. Qed.
Lemma p_peof_set_edge : forall s v, peof (set_edge s v) = peof s.
Proof. reflexivity. Qed.
Lemma p_rdh_set_edge : forall s v, rdh (set_edge s v) = rdh s.
Proof. reflexivity. Qed.
Lemma p_tmn_set_edge : forall s v, tmn (set_edge s v) = tmn s.
Proof. reflexivity. Qed.
Lemma p_cbk_set_edge : forall s v, cbk (set_edge s v) = cbk s.
Proof. reflexivity. Qed.
Lemma p_cbs_set_edge : forall s v, cbs (set_edge s v) = cbs s.
Proof. reflexivity. Qed.
Lemma p_lfreed_set_edge : forall s v, lfreed (set_edge s v) = lfreed s.
Proof. reflexivity. Qed.
Lemma p_g_uaf_set_edge : forall s v, g_uaf (set_edge s v) = g_uaf s.
Proof. reflexivity. Qed.
Lemma p_thr_set_edge : forall s v, thr (set_edge s v) = thr s.
Proof. reflexivity. Qed.
Lemma p_cnt_set_to_exit : forall s v, cnt (set_to_exit s v) = cnt s.
Proof. reflexivity. Qed.
Lemma p_edge_set_to_exit : forall s v, edge (set_to_exit s v) = edge s.
Proof. reflexivity. Qed.
Lemma p_to_exit_set_to_exit : forall s v, to_exit (set_to_exit s v) = v.
Proof. reflexivity. Qed.
Lemma p_tidf_set_to_exit : forall s v, tidf (set_to_exit s v) = tidf s.
Proof. reflexivity. Qed.
Lemma p_created_set_to_exit : forall s v, created (set_to_exit s v) = created s.
Proof. reflexivity. Qed.
Lemma p_mtx_set_to_exit : forall s v, mtx (set_to_exit s v) = mtx s.
Proof. reflexivity. Qed.
Lemma p_queue_set_to_exit : forall s v, queue (set_to_exit s v) = queue s.
Proof. reflexivity. Qed.
Lemma p_next_id_set_to_exit : forall s v, next_id (set_to_exit s v) = next_id s.
Proof. reflexivity. Qed.
Lemma p_reg_set_to_exit : forall s v, reg (set_to_exit s v) = reg s.
Proof. reflexivity. Qed.
Lemma p_clr_set_to_exit : forall s v, clr (set_to_exit s v) = clr s.
Proof. reflexivity. Qed.
Lemma p_exitdr_set_to_exit : forall s v, exitdr (set_to_exit s v) = exitdr s.
Proof. reflexivity. Qed.
Lemma p_g_enq_set_to_exit : forall s v, g_enq (set_to_exit s v) = g_enq s.
Proof. reflexivity. Qed.
Lemma p_g_relfail_set_to_exit : forall s v, g_relfail (set_to_exit s v) = g_relfail s.
Proof. reflexivity. Qed.
Lemma p_g_relexit_set_to_exit : forall s v, g_relexit (set_to_exit s v) = g_relexit s.
Proof. reflexivity. Qed.
Lemma p_g_relclear_set_to_exit : forall s v, g_relclear (set_to_exit s v) = g_relclear s.
Proof. reflexivity. Qed.
Lemma p_g_leaked_set_to_exit : forall s v, g_leaked (set_to_exit s v) = g_leaked s.
Proof. reflexivity. Qed.
Lemma p_g_late_set_to_exit : forall s v, g_late (set_to_exit s v) = g_late s.
Proof. reflexivity. Qed.
Lemma p_w_req_set_to_exit : forall s v, w_req (set_to_exit s v) = w_req s.
Proof. reflexivity. Qed.
Lemma p_w_seen_set_to_exit : forall s v, w_seen (set_to_exit s v) = w_seen s.
Proof. reflexivity. Qed.
Lemma p_returned_set_to_exit : forall s v, returned (set_to_exit s v) = returned s.
Proof. reflexivity. Qed.
Lemma p_hup_set_to_exit : forall s v, hup (set_to_exit s v) = hup s.
Proof. reflexivity. Qed.
Lemma p_erl_set_to_exit : forall s v, erl (set_to_exit s v) = erl s.
Proof. reflexivity. Qed.
Lemma p_slots_set_to_exit : forall s v, slots (set_to_exit s v) = slots s.
Proof. reflexivity. Qed.
Lemma p_rdy_set_to_exit : forall s v, rdy (set_to_exit s v) = rdy s.
Proof. reflexivity. Qed.
Lemma p_todo_set_to_exit : forall s v, todo (set_to_exit s v) = todo s.
Proof. reflexivity. Qed.
Lemma p_psig_set_to_exit : forall s v, psig (set_to_exit s v) = psig s.
Proof. reflexivity. Qed.
Lemma p_pn_set_to_exit : forall s v, pn (set_to_exit s v) = pn s.
Proof. reflexivity. Qed.
Lemma p_wkn_set_to_exit : forall s v, wkn (set_to_exit s v) = wkn s.
Proof. reflexivity. Qed.
Lemma p_g_relclose_set_to_exit : forall s v, g_relclose (set_to_exit s v) = g_relclose s.
Proof. reflexivity. Qed.
Lemma p_inp_set_to_exit : forall s v, inp (set_to_exit s v) = inp s.
Proof. reflexivity. Qed.
Lemma p_peof_set_to_exit : forall s v, peof (set_to_exit s v) = peof s.
Proof. reflexivity. Qed.
Lemma p_rdh_set_to_exit : forall s v, rdh (set_to_exit s v) = rdh s.
Proof. reflexivity. Qed.
Lemma p_tmn_set_to_exit : forall s v, tmn (set_to_exit s v) = tmn s.
Proof. reflexivity. Qed.
Lemma p_cbk_set_to_exit : forall s v, cbk (set_to_exit s v) = cbk s.
Proof. reflexivity. Qed.
Lemma p_cbs_set_to_exit : forall s v, cbs (set_to_exit s v) = cbs s.
Proof. reflexivity. Qed.
Lemma p_lfreed_set_to_exit : forall s v, lfreed (set_to_exit s v) = lfreed s.
Proof. reflexivity. Qed.
Lemma p_g_uaf_set_to_exit : forall s v, g_uaf (set_to_exit s v) = g_uaf s.
Proof. reflexivity. Qed.
Lemma p_thr_set_to_exit : forall s v, thr (set_to_exit s v) = thr s.
Proof. reflexivity. Qed.
Lemma p_cnt_set_tidf : forall s v, cnt (set_tidf s v) = cnt s.
Proof. reflexivity. Qed.
Lemma p_edge_set_tidf : forall s v, edge (set_tidf s v) = edge s.
Proof. reflexivity. Qed.
Lemma p_to_exit_set_tidf : forall s v, to_exit (set_tidf s v) = to_exit s.
Proof. reflexivity. Qed.
Lemma p_tidf_set_tidf : forall s v, tidf (set_tidf s v) = v.
Proof. reflexivity. Qed.
Lemma p_created_set_tidf : forall s v, created (set_tidf s v) = created s.
Proof. reflexivity. Qed.
Lemma p_mtx_set_tidf : forall s v, mtx (set_tidf s v) = mtx s.
Proof. reflexivity. Qed.
Lemma p_queue_set_tidf : forall s v, queue (set_tidf s v) = queue s.
Proof. reflexivity. Qed.
Lemma p_next_id_set_tidf : forall s v, next_id (set_tidf s v) = next_id s.
Proof. reflexivity. Qed.
Lemma p_reg_set_tidf : forall s v, reg (set_tidf s v) = reg s.
Proof. reflexivity. Qed.
Lemma p_clr_set_tidf : forall s v, clr (set_tidf s v) = clr s.
Proof. reflexivity. Qed.
Lemma p_exitdr_set_tidf : forall s v, exitdr (set_tidf s v) = exitdr s.
Proof. reflexivity. Qed.
Lemma p_g_enq_set_tidf : forall s v, g_enq (set_tidf s v) = g_enq s.
Proof. reflexivity. Qed.
Lemma p_g_relfail_set_tidf : forall s v, g_relfail (set_tidf s v) = g_relfail s.
Proof. reflexivity. Qed.
Lemma p_g_relexit_set_tidf : forall s v, g_relexit (set_tidf s v) = g_relexit s.
Proof. reflexivity. Qed.
Lemma p_g_relclear_set_tidf : forall s v, g_relclear (set_tidf s v) = g_relclear s.
Proof. reflexivity. Qed.
Lemma p_g_leaked_set_tidf : forall s v, g_leaked (set_tidf s v) = g_leaked s.
Proof. reflexivity. Qed.
Lemma p_g_late_set_tidf : forall s v, g_late (set_tidf s v) = g_late s.
Proof. reflexivity. Qed.
Lemma p_w_req_set_tidf : forall s v, w_req (set_tidf s v) = w_req s.
Proof. reflexivity. Qed.
Lemma p_w_seen_set_tidf : forall s v, w_seen (set_tidf s v) = w_seen s.
Proof. reflexivity. Qed.
Lemma p_returned_set_tidf : forall s v, returned (set_tidf s v) = returned s.
Proof. reflexivity. Qed.
Lemma p_hup_set_tidf : forall s v, hup (set_tidf s v) = hup s.
Proof. reflexivity. Qed.
Lemma p_erl_set_tidf : forall s v, erl (set_tidf s v) = erl s.
Proof. reflexivity. Qed.
Lemma p_slots_set_tidf : forall s v, slots (set_tidf s v) = slots s.
Proof. reflexivity. Qed.
Lemma p_rdy_set_tidf : forall s v, rdy (set_tidf s v) = rdy s.
Proof. reflexivity. Qed.
Lemma p_todo_set_tidf : forall s v, todo (set_tidf s v) = todo s.
Proof. reflexivity. Qed.
Lemma p_psig_set_tidf : forall s v, psig (set_tidf s v) = psig s.
Proof. reflexivity. Qed.
Lemma p_pn_set_tidf : forall s v, pn (set_tidf s v) = pn s.
Proof. reflexivity. Qed.
Lemma p_wkn_set_tidf : forall s v, wkn (set_tidf s v) = wkn s.
Proof. reflexivity. Qed.
Lemma p_g_relclose_set_tidf : forall s v, g_relclose (set_tidf s v) = g_relclose s.
Proof. reflexivity. Qed.
Lemma p_inp_set_tidf : forall s v, inp (set_tidf s v) = inp s.
Proof. reflexivity. Qed.
Lemma p_peof_set_tidf : forall s v, peof (set_tidf s v) = peof s.
Proof. reflexivity. Qed.
Lemma p_rdh_set_tidf : forall s v, rdh (set_tidf s v) = rdh s.
Proof. reflexivity. Qed.
Lemma p_tmn_set_tidf : forall s v, tmn (set_tidf s v) = tmn s.
Proof. reflexivity. Qed.
Lemma p_cbk_set_tidf : forall s v, cbk (set_tidf s v) = cbk s.
Proof. reflexivity. Qed.
Lemma p_cbs_set_tidf : forall s v, cbs (set_tidf s v) = cbs s.
Proof. reflexivity. Qed.
Lemma p_lfreed_set_tidf : forall s v, lfreed (set_tidf s v) = lfreed s.
Proof. reflexivity. Qed.
Lemma p_g_uaf_set_tidf : forall s v, g_uaf (set_tidf s v) = g_uaf s.
Proof. reflexivity. Qed.
Lemma p_thr_set_tidf : forall s v, thr (set_tidf s v) = thr s.
Proof. reflexivity. Qed.
Lemma p_cnt_set_created : forall s v, cnt (set_created s v) = cnt s.
Proof. reflexivity. Qed.
Lemma p_edge_set_created : forall s v, edge (set_created s v) = edge s.
Proof. reflexivity. Qed.
Lemma p_to_exit_set_created : forall s v, to_exit (set_created s v) = to_exit s.
Proof. reflexivity. Qed.
Lemma p_tidf_set_created : forall s v, tidf (set_created s v) = tidf s.
Proof. reflexivity. Qed.
Lemma p_created_set_created : forall s v, created (set_created s v) = v.
Proof. reflexivity. Qed.
Lemma p_mtx_set_created : forall s v, mtx (set_created s v) = mtx s.
Proof. reflexivity. Qed.
Lemma p_queue_set_created : forall s v, queue (set_created s v) = queue s.
Proof. reflexivity. Qed.
Lemma p_next_id_set_created : forall s v, next_id (set_created s v) = next_id s.
Proof. reflexivity. Qed.
Lemma p_reg_set_created : forall s v, reg (set_created s v) = reg s.
Proof. reflexivity. Qed.
Lemma p_clr_set_created : forall s v, clr (set_created s v) = clr s.
Proof. reflexivity. Qed.
Lemma p_exitdr_set_created : forall s v, exitdr (set_created s v) = exitdr s.
Proof. reflexivity. Qed.
Lemma p_g_enq_set_created : forall s v, g_enq (set_created s v) = g_enq s.
Proof. reflexivity. Qed.
Lemma p_g_relfail_set_created : forall s v, g_relfail (set_created s v) = g_relfail s.
Proof. reflexivity. Qed.
Lemma p_g_relexit_set_created : forall s v, g_relexit (set_created s v) = g_relexit s.
Proof. reflexivity. Qed.
Lemma p_g_relclear_set_created : forall s v, g_relclear (set_created s v) = g_relclear s.
Proof. reflexivity. Qed.
Lemma p_g_leaked_set_created : forall s v, g_leaked (set_created s v) = g_leaked s.
Proof. reflexivity. Qed.
Lemma p_g_late_set_created : forall s v, g_late (set_created s v) = g_late s.
Proof. reflexivity. Qed.
Lemma p_w_req_set_created : forall s v, w_req (set_created s v) = w_req s.
Proof. reflexivity. Qed.
Lemma p_w_seen_set_created : forall s v, w_seen (set_created s v) = w_seen s.
Proof. reflexivity. Qed.
Lemma p_returned_set_created : forall s v, returned (set_created s v) = returned s.
Proof. reflexivity. Qed.
Lemma p_hup_set_created : forall s v, hup (set_created s v) = hup s.
Proof. reflexivity. Qed.
Lemma p_erl_set_created : forall s v, erl (set_created s v) = erl s.
Proof. reflexivity. Qed.
Lemma p_slots_set_created : forall s v, slots (set_created s v) = slots s.
Proof. reflexivity. Qed.
Lemma p_rdy_set_created : forall s v, rdy (set_created s v) = rdy s.
Proof. reflexivity. Qed.
Lemma p_todo_set_created : forall s v, todo (set_created s v) = todo s.
Proof. reflexivity. Qed.
Lemma p_psig_set_created : forall s v, psig (set_created s v) = psig s.
Proof. reflexivity. Qed.
Lemma p_pn_set_created : forall s v, pn (set_created s v) = pn s.
Proof. reflexivity. Qed.
Lemma p_wkn_set_created : forall s v, wkn (set_created s v) = wkn s.
Proof. reflexivity. Qed.
Lemma p_g_relclose_set_created : forall s v, g_relclose (set_created s v) = g_relclose s.
Proof. reflexivity. Qed.
Lemma p_inp_set_created : forall s v, inp (set_created s v) = inp s.
Proof. reflexivity. Qed.
Lemma p_peof_set_created : forall s v, peof (set_created s v) = peof s.
Proof. reflexivity. Qed.
Lemma p_rdh_set_created : forall s v, rdh (set_created s v) = rdh s.
Proof. reflexivity. Qed.
Lemma p_tmn_set_created : forall s v, tmn (set_created s v) = tmn s.
Proof. reflexivity. Qed.
Lemma p_cbk_set_created : forall s v, cbk (set_created s v) = cbk s.
Proof. reflexivity. Qed.
Lemma p_cbs_set_created : forall s v, cbs (set_created s v) = cbs s.
Proof. reflexivity. Qed.
Lemma p_lfreed_set_created : forall s v, lfreed (set_created s v) = lfreed s.
Proof. reflexivity. Qed.
Lemma p_g_uaf_set_created : forall s v, g_uaf (set_created s v) = g_uaf s.
Proof. reflexivity. Qed.
Lemma p_thr_set_created : forall s v, thr (set_created s v) = thr s.
Proof. reflexivity. Qed.
Lemma p_cnt_set_mtx : forall s v, cnt (set_mtx s v) = cnt s.
Proof. reflexivity. Qed.
Lemma p_edge_set_mtx : forall s v, edge (set_mtx s v) = edge s.
Proof. reflexivity. Qed.
Lemma p_to_exit_set_mtx : forall s v, to_exit (set_mtx s v) = to_exit s.
Proof. reflexivity. Qed.
Lemma p_tidf_set_mtx : forall s v, tidf (set_mtx s v) = tidf s.
Proof. reflexivity. Qed.
Lemma p_created_set_mtx : forall s v, created (set_mtx s v) = created s.
Proof. reflexivity. Qed.
Lemma p_mtx_set_mtx : forall s v, mtx (set_mtx s v) = v.
Proof. reflexivity. Qed.
Lemma p_queue_set_mtx : forall s v, queue (set_mtx s v) = queue s.
Proof. reflexivity. Qed.
Lemma p_next_id_set_mtx : forall s v, next_id (set_mtx s v) = next_id s.
Proof. reflexivity. Qed.
Lemma p_reg_set_mtx : forall s v, reg (set_mtx s v) = reg s.
Proof. reflexivity. Qed.
Lemma p_clr_set_mtx : forall s v, clr (set_mtx s v) = clr s.
Proof. reflexivity. Qed.
Lemma p_exitdr_set_mtx : forall s v, exitdr (set_mtx s v) = exitdr s.
Proof. reflexivity. Qed.
Lemma p_g_enq_set_mtx : forall s v, g_enq (set_mtx s v) = g_enq s.
Proof. reflexivity. Qed.
Lemma p_g_relfail_set_mtx : forall s v, g_relfail (set_mtx s v) = g_relfail s.
Proof. reflexivity. Qed.
Lemma p_g_relexit_set_mtx : forall s v, g_relexit (set_mtx s v) = g_relexit s.
Proof. reflexivity. Qed.
Lemma p_g_relclear_set_mtx : forall s v, g_relclear (set_mtx s v) = g_relclear s.
Proof. reflexivity. Qed.
Lemma p_g_leaked_set_mtx : forall s v, g_leaked (set_mtx s v) = g_leaked s.
Proof. reflexivity. Qed.
Lemma p_g_late_set_mtx : forall s v, g_late (set_mtx s v) = g_late s.
Proof. reflexivity. Qed.
Lemma p_w_req_set_mtx : forall s v, w_req (set_mtx s v) = w_req s.
Proof. reflexivity. Qed.
Lemma p_w_seen_set_mtx : forall s v, w_seen (set_mtx s v) = w_seen s.
Proof. reflexivity. Qed.
Lemma p_returned_set_mtx : forall s v, returned (set_mtx s v) = returned s.
Proof. reflexivity. Qed.
Lemma p_hup_set_mtx : forall s v, hup (set_mtx s v) = hup s.
Proof. reflexivity. Qed.
Lemma p_erl_set_mtx : forall s v, erl (set_mtx s v) = erl s.
Proof. reflexivity. Qed.
Lemma p_slots_set_mtx : forall s v, slots (set_mtx s v) = slots s.
Proof. reflexivity. Qed.
Lemma p_rdy_set_mtx : forall s v, rdy (set_mtx s v) = rdy s.
Proof. reflexivity. Qed.
Lemma p_todo_set_mtx : forall s v, todo (set_mtx s v) = todo s.
Proof. reflexivity. Qed.
Lemma p_psig_set_mtx : forall s v, psig (set_mtx s v) = psig s.
Proof. reflexivity. Qed.
Lemma p_pn_set_mtx : forall s v, pn (set_mtx s v) = pn s.
Proof. reflexivity. Qed.
Lemma p_wkn_set_mtx : forall s v, wkn (set_mtx s v) = wkn s.
Proof. reflexivity. Qed.
Lemma p_g_relclose_set_mtx : forall s v, g_relclose (set_mtx s v) = g_relclose s.
Proof. reflexivity. Qed.
Lemma p_inp_set_mtx : forall s v, inp (set_mtx s v) = inp s.
Proof. reflexivity. Qed.
Lemma p_peof_set_mtx : forall s v, peof (set_mtx s v) = peof s.
Proof. reflexivity. Qed.
Lemma p_rdh_set_mtx : forall s v, rdh (set_mtx s v) = rdh s.
Proof. reflexivity. Qed.
Lemma p_tmn_set_mtx : forall s v, tmn (set_mtx s v) = tmn s.
Proof. reflexivity. Qed.
Lemma p_cbk_set_mtx : forall s v, cbk (set_mtx s v) = cbk s.
Proof. reflexivity. Qed.
Lemma p_cbs_set_mtx : forall s v, cbs (set_mtx s v) = cbs s.
Proof. reflexivity. Qed.
Lemma p_lfreed_set_mtx : forall s v, lfreed (set_mtx s v) = lfreed s.
Proof. reflexivity. Qed.
Lemma p_g_uaf_set_mtx : forall s v, g_uaf (set_mtx s v) = g_uaf s.
Proof. reflexivity. Qed.
Lemma p_thr_set_mtx : forall s v, thr (set_mtx s v) = thr s.
Proof. reflexivity. Qed.
Lemma p_cnt_set_queue : forall s v, cnt (set_queue s v) = cnt s.
Proof. reflexivity. Qed.
Lemma p_edge_set_queue : forall s v, edge (set_queue s v) = edge s.
Proof. reflexivity. Qed.
Lemma p_to_exit_set_queue : forall s v, to_exit (set_queue s v) = to_exit s.
Proof. reflexivity. Qed.
Lemma p_tidf_set_queue : forall s v, tidf (set_queue s v) = tidf s.
Proof. reflexivity. Qed.
Lemma p_created_set_queue : forall s v, created (set_queue s v) = created s.
Proof. reflexivity. Qed.
Lemma p_mtx_set_queue : forall s v, mtx (set_queue s v) = mtx s.
Proof. reflexivity. Qed.
Lemma p_queue_set_queue : forall s v, queue (set_queue s v) = v.
Proof. reflexivity. Qed.
Lemma p_next_id_set_queue : forall s v, next_id (set_queue s v) = next_id s.
Proof. reflexivity. Qed.
Lemma p_reg_set_queue : forall s v, reg (set_queue s v) = reg s.
Proof. reflexivity. Qed.
Lemma p_clr_set_queue : forall s v, clr (set_queue s v) = clr s.
Proof. reflexivity. Qed.
Lemma p_exitdr_set_queue : forall s v, exitdr (set_queue s v) = exitdr s.
Proof. reflexivity. Qed.
Lemma p_g_enq_set_queue : forall s v, g_enq (set_queue s v) = g_enq s.
Proof. reflexivity. Qed.
Lemma p_g_relfail_set_queue : forall s v, g_relfail (set_queue s v) = g_relfail s.
Proof. reflexivity. Qed.
Lemma p_g_relexit_set_queue : forall s v, g_relexit (set_queue s v) = g_relexit s.
Proof. reflexivity. Qed.
Lemma p_g_relclear_set_queue : forall s v, g_relclear (set_queue s v) = g_relclear s.
Proof. reflexivity. Qed.
Lemma p_g_leaked_set_queue : forall s v, g_leaked (set_queue s v) = g_leaked s.
Proof. reflexivity. Qed.
Lemma p_g_late_set_queue : forall s v, g_late (set_queue s v) = g_late s.
Proof. reflexivity. Qed.
Lemma p_w_req_set_queue : forall s v, w_req (set_queue s v) = w_req s.
Proof. reflexivity. Qed.
Lemma p_w_seen_set_queue : forall s v, w_seen (set_queue s v) = w_seen s.
Proof. reflexivity. Qed.
Lemma p_returned_set_queue : forall s v, returned (set_queue s v) = returned s.
Proof. reflexivity. Qed.
Lemma p_hup_set_queue : forall s v, hup (set_queue s v) = hup s.
Proof. reflexivity. Qed.
Lemma p_erl_set_queue : forall s v, erl (set_queue s v) = erl s.
Proof. reflexivity. Qed.
Lemma p_slots_set_queue : forall s v, slots (set_queue s v) = slots s.
Proof. reflexivity. Qed.
Lemma p_rdy_set_queue : forall s v, rdy (set_queue s v) = rdy s.
Proof. reflexivity. Qed.
Lemma p_todo_set_queue : forall s v, todo (set_queue s v) = todo s.
Proof. reflexivity. Qed.
Lemma p_psig_set_queue : forall s v, psig (set_queue s v) = psig s.
Proof. reflexivity. Qed.
Lemma p_pn_set_queue : forall s v, pn (set_queue s v) = pn s.
Proof. reflexivity. Qed.
Lemma p_wkn_set_queue : forall s v, wkn (set_queue s v) = wkn s.
Proof. reflexivity. Qed.
Lemma p_g_relclose_set_queue : forall s v, g_relclose (set_queue s v) = g_relclose s.
Proof. reflexivity. Qed.
Lemma p_inp_set_queue : forall s v, inp (set_queue s v) = inp s.
Proof. reflexivity. Qed.
Lemma p_peof_set_queue : forall s v, peof (set_queue s v) = peof s.
Proof. reflexivity. Qed.
Lemma p_rdh_set_queue : forall s v, rdh (set_queue s v) = rdh s.
Proof. reflexivity. Qed.
Lemma p_tmn_set_queue : forall s v, tmn (set_queue s v) = tmn s.
Proof. reflexivity. Qed.
Lemma p_cbk_set_queue : forall s v, cbk (set_queue s v) = cbk s.
Proof. reflexivity. Qed.
Lemma p_cbs_set_queue : forall s v, cbs (set_queue s v) = cbs s.
Proof. reflexivity. Qed.
Lemma p_lfreed_set_queue : forall s v, lfreed (set_queue s v) = lfreed s.
Proof. reflexivity. Qed.
Lemma p_g_uaf_set_queue : forall s v, g_uaf (set_queue s v) = g_uaf s.
Proof. reflexivity. Qed.
Lemma p_thr_set_queue : forall s v, thr (set_queue s v) = thr s.
Proof. reflexivity. Qed.
Lemma p_cnt_set_next_id : forall s v, cnt (set_next_id s v) = cnt s.
Proof. reflexivity. Qed.
Lemma p_edge_set_next_id : forall s v, edge (set_next_id s v) = edge s.
Proof. reflexivity. Qed.
Lemma p_to_exit_set_next_id : forall s v, to_exit (set_next_id s v) = to_exit s.
Proof. reflexivity. Qed.
Lemma p_tidf_set_next_id : forall s v, tidf (set_next_id s v) = tidf s.
Proof. reflexivity. Qed.
Lemma p_created_set_next_id : forall s v, created (set_next_id s v) = created s.
Proof. reflexivity. Qed.
Lemma p_mtx_set_next_id : forall s v, mtx (set_next_id s v) = mtx s.
Proof. reflexivity. Qed.
Lemma p_queue_set_next_id : forall s v, queue (set_next_id s v) = queue s.
Proof. reflexivity. Qed.
Lemma p_next_id_set_next_id : forall s v, next_id (set_next_id s v) = v.
Proof. reflexivity. Qed.
Lemma p_reg_set_next_id : forall s v, reg (set_next_id s v) = reg s.
Proof. reflexivity. Qed.
Lemma p_clr_set_next_id : forall s v, clr (set_next_id s v) = clr s.
Proof. reflexivity. Qed.
Lemma p_exitdr_set_next_id : forall s v, exitdr (set_next_id s v) = exitdr s.
Proof. reflexivity. Qed.
Lemma p_g_enq_set_next_id : forall s v, g_enq (set_next_id s v) = g_enq s.
Proof. reflexivity. Qed.
Lemma p_g_relfail_set_next_id : forall s v, g_relfail (set_next_id s v) = g_relfail s.
Proof. reflexivity. Qed.
Lemma p_g_relexit_set_next_id : forall s v, g_relexit (set_next_id s v) = g_relexit s.
Proof. reflexivity. Qed.
Lemma p_g_relclear_set_next_id : forall s v, g_relclear (set_next_id s v) = g_relclear s.
Proof. reflexivity. Qed.
Lemma p_g_leaked_set_next_id : forall s v, g_leaked (set_next_id s v) = g_leaked s.
Proof. reflexivity. Qed.
Lemma p_g_late_set_next_id : forall s v, g_late (set_next_id s v) = g_late s.
Proof. reflexivity. Qed.
Lemma p_w_req_set_next_id : forall s v, w_req (set_next_id s v) = w_req s.
Proof. reflexivity. Qed.
Lemma p_w_seen_set_next_id : forall s v, w_seen (set_next_id s v) = w_seen s.
Proof. reflexivity. Qed.
Lemma p_returned_set_next_id : forall s v, returned (set_next_id s v) = returned s.
Proof. reflexivity. Qed.
Lemma p_hup_set_next_id : forall s v, hup (set_next_id s v) = hup s.
Proof. reflexivity. Qed.
Lemma p_erl_set_next_id : forall s v, erl (set_next_id s v) = erl s.
Proof. reflexivity. Qed.
Lemma p_slots_set_next_id : forall s v, slots (set_next_id s v) = slots s.
Proof. reflexivity. Qed.
Lemma p_rdy_set_next_id : forall s v, rdy (set_next_id s v) = rdy s.
Proof. reflexivity. Qed.
Lemma p_todo_set_next_id : forall s v, todo (set_next_id s v) = todo s.
Proof. reflexivity. Qed.
Lemma p_psig_set_next_id : forall s v, psig (set_next_id s v) = psig s.
Proof. reflexivity. Qed.
Lemma p_pn_set_next_id : forall s v, pn (set_next_id s v) = pn s.
Proof. reflexivity. Qed.
Lemma p_wkn_set_next_id : forall s v, wkn (set_next_id s v) = wkn s.
Proof. reflexivity. Qed.
Lemma p_g_relclose_set_next_id : forall s v, g_relclose (set_next_id s v) = g_relclose s.
Proof. reflexivity. Qed.
Lemma p_inp_set_next_id : forall s v, inp (set_next_id s v) = inp s.
Proof. reflexivity. Qed.
Lemma p_peof_set_next_id : forall s v, peof (set_next_id s v) = peof s.
Proof. reflexivity. Qed.
Lemma p_rdh_set_next_id : forall s v, rdh (set_next_id s v) = rdh s.
Proof. reflexivity. Qed.
Lemma p_tmn_set_next_id : forall s v, tmn (set_next_id s v) = tmn s.
Proof. reflexivity. Qed.
Lemma p_cbk_set_next_id : forall s v, cbk (set_next_id s v) = cbk s.
Proof. reflexivity. Qed.
Lemma p_cbs_set_next_id : forall s v, cbs (set_next_id s v) = cbs s.
Proof. reflexivity. Qed.
Lemma p_lfreed_set_next_id : forall s v, lfreed (set_next_id s v) = lfreed s.
Proof. reflexivity. Qed.
Lemma p_g_uaf_set_next_id : forall s v, g_uaf (set_next_id s v) = g_uaf s.
Proof. reflexivity. Qed.
Lemma p_thr_set_next_id : forall s v, thr (set_next_id s v) = thr s.
Proof. reflexivity. Qed.
Lemma p_cnt_set_reg : forall s v, cnt (set_reg s v) = cnt s.
Proof. reflexivity. Qed.
Lemma p_edge_set_reg : forall s v, edge (set_reg s v) = edge s.
Proof. reflexivity. Qed.
Lemma p_to_exit_set_reg : forall s v, to_exit (set_reg s v) = to_exit s.
Proof. reflexivity. Qed.
Lemma p_tidf_set_reg : forall s v, tidf (set_reg s v) = tidf s.
Proof. reflexivity. Qed.
Lemma p_created_set_reg : forall s v, created (set_reg s v) = created s.
Proof. reflexivity. Qed.
Lemma p_mtx_set_reg : forall s v, mtx (set_reg s v) = mtx s.
Proof. reflexivity. Qed.
Lemma p_queue_set_reg : forall s v, queue (set_reg s v) = queue s.
Proof. reflexivity. Qed.
Lemma p_next_id_set_reg : forall s v, next_id (set_reg s v) = next_id s.
Proof. reflexivity. Qed.
Lemma p_reg_set_reg : forall s v, reg (set_reg s v) = v.
Proof. reflexivity. Qed.
Lemma p_clr_set_reg : forall s v, clr (set_reg s v) = clr s.
Proof. reflexivity. Qed.
Lemma p_exitdr_set_reg : forall s v, exitdr (set_reg s v) = exitdr s.
Proof. reflexivity. Qed.
Lemma p_g_enq_set_reg : forall s v, g_enq (set_reg s v) = g_enq s.
Proof. reflexivity. Qed.
Lemma p_g_relfail_set_reg : forall s v, g_relfail (set_reg s v) = g_relfail s.
Proof. reflexivity. Qed.
Lemma p_g_relexit_set_reg : forall s v, g_relexit (set_reg s v) = g_relexit s.
Proof. reflexivity. Qed.
Lemma p_g_relclear_set_reg : forall s v, g_relclear (set_reg s v) = g_relclear s.
Proof. reflexivity. Qed.
Lemma p_g_leaked_set_reg : forall s v, g_leaked (set_reg s v) = g_leaked s.
Proof. reflexivity. Qed.
Lemma p_g_late_set_reg : forall s v, g_late (set_reg s v) = g_late s.
Proof. reflexivity. Qed.
Lemma p_w_req_set_reg : forall s v, w_req (set_reg s v) = w_req s.
Proof. reflexivity. Qed.
Lemma p_w_seen_set_reg : forall s v, w_seen (set_reg s v) = w_seen s.
Proof. reflexivity. Qed.
Lemma p_returned_set_reg : forall s v, returned (set_reg s v) = returned s.
Proof. reflexivity. Qed.
Lemma p_hup_set_reg : forall s v, hup (set_reg s v) = hup s.
Proof. reflexivity. Qed.
Lemma p_erl_set_reg : forall s v, erl (set_reg s v) = erl s.
Proof. reflexivity. Qed.
Lemma p_slots_set_reg : forall s v, slots (set_reg s v) = slots s.
Proof. reflexivity. Qed.
Lemma p_rdy_set_reg : forall s v, rdy (set_reg s v) = rdy s.
Proof. reflexivity. Qed.
Lemma p_todo_set_reg : forall s v, todo (set_reg s v) = todo s.
Proof. reflexivity. Qed.
Lemma p_psig_set_reg : forall s v, psig (set_reg s v) = psig s.
Proof. reflexivity. Qed.
Lemma p_pn_set_reg : forall s v, pn (set_reg s v) = pn s.
Proof. reflexivity. Qed.
Lemma p_wkn_set_reg : forall s v, wkn (set_reg s v) = wkn s.
Proof. reflexivity. Qed.
Lemma p_g_relclose_set_reg : forall s v, g_relclose (set_reg s v) = g_relclose s.
Proof. reflexivity. Qed.
Lemma p_inp_set_reg : forall s v, inp (set_reg s v) = inp s.
Proof. reflexivity. Qed.
Lemma p_peof_set_reg : forall s v, peof (set_reg s v) = peof s.
Proof. reflexivity. Qed.
Lemma p_rdh_set_reg : forall s v, rdh (set_reg s v) = rdh s.
Proof. reflexivity. Qed.
Lemma p_tmn_set_reg : forall s v, tmn (set_reg s v) = tmn s.
Proof. reflexivity. Qed.
Lemma p_cbk_set_reg : forall s v, cbk (set_reg s v) = cbk s.
Proof. reflexivity. Qed.
Lemma p_cbs_set_reg : forall s v, cbs (set_reg s v) = cbs s.
Proof. reflexivity. Qed.
Lemma p_lfreed_set_reg : forall s v, lfreed (set_reg s v) = lfreed s.
Proof. reflexivity. Qed.
Lemma p_g_uaf_set_reg : forall s v, g_uaf (set_reg s v) = g_uaf s.
Proof. reflexivity. Qed.
Lemma p_thr_set_reg : forall s v, thr (set_reg s v) = thr s.
Proof. reflexivity. Qed.
Lemma p_cnt_set_clr : forall s v, cnt (set_clr s v) = cnt s.
Proof. reflexivity. Qed.
Lemma p_edge_set_clr : forall s v, edge (set_clr s v) = edge s.
Proof. reflexivity. Qed.
Lemma p_to_exit_set_clr : forall s v, to_exit (set_clr s v) = to_exit s.
Proof. reflexivity. Qed.
Lemma p_tidf_set_clr : forall s v, tidf (set_clr s v) = tidf s.
Proof. reflexivity. Qed.
Lemma p_created_set_clr : forall s v, created (set_clr s v) = created s.
Proof. reflexivity. Qed.
Lemma p_mtx_set_clr : forall s v, mtx (set_clr s v) = mtx s.
Proof. reflexivity. Qed.
Lemma p_queue_set_clr : forall s v, queue (set_clr s v) = queue s.
Proof. reflexivity. Qed.
Lemma p_next_id_set_clr : forall s v, next_id (set_clr s v) = next_id s.
Proof. reflexivity. Qed.
Lemma p_reg_set_clr : forall s v, reg (set_clr s v) = reg s.
Proof. reflexivity. Qed.
Lemma p_clr_set_clr : forall s v, clr (set_clr s v) = v.
Proof. reflexivity. Qed.
Lemma p_exitdr_set_clr : forall s v, exitdr (set_clr s v) = exitdr s.
Proof. reflexivity. Qed.
Lemma p_g_enq_set_clr : forall s v, g_enq (set_clr s v) = g_enq s.
Proof. reflexivity. Qed.
Lemma p_g_relfail_set_clr : forall s v, g_relfail (set_clr s v) = g_relfail s.
Proof. reflexivity. Qed.
Lemma p_g_relexit_set_clr : forall s v, g_relexit (set_clr s v) = g_relexit s.
Proof. reflexivity. Qed.
Lemma p_g_relclear_set_clr : forall s v, g_relclear (set_clr s v) = g_relclear s.
Proof. reflexivity. Qed.
Lemma p_g_leaked_set_clr : forall s v, g_leaked (set_clr s v) = g_leaked s.
Proof. reflexivity. Qed.
Lemma p_g_late_set_clr : forall s v, g_late (set_clr s v) = g_late s.
Proof. reflexivity. Qed.
Lemma p_w_req_set_clr : forall s v, w_req (set_clr s v) = w_req s.
Proof. reflexivity. Qed.
Lemma p_w_seen_set_clr : forall s v, w_seen (set_clr s v) = w_seen s.
Proof. reflexivity. Qed.
Lemma p_returned_set_clr : forall s v, returned (set_clr s v) = returned s.
Proof. reflexivity. Qed.
Lemma p_hup_set_clr : forall s v, hup (set_clr s v) = hup s.
Proof. reflexivity. Qed.
Lemma p_erl_set_clr : forall s v, erl (set_clr s v) = erl s.
Proof. reflexivity. Qed.
Lemma p_slots_set_clr : forall s v, slots (set_clr s v) = slots s.
Proof. reflexivity. Qed.
Lemma p_rdy_set_clr : forall s v, rdy (set_clr s v) = rdy s.
Proof. reflexivity. Qed.
Lemma p_todo_set_clr : forall s v, todo (set_clr s v) = todo s.
Proof. reflexivity. Qed.
Lemma p_psig_set_clr : forall s v, psig (set_clr s v) = psig s.
Proof. reflexivity. Qed.
Lemma p_pn_set_clr : forall s v, pn (set_clr s v) = pn s.
Proof. reflexivity. Qed.
Lemma p_wkn_set_clr : forall s v, wkn (set_clr s v) = wkn s.
Proof. reflexivity. Qed.
Lemma p_g_relclose_set_clr : forall s v, g_relclose (set_clr s v) = g_relclose s.
Proof. reflexivity. Qed.
Lemma p_inp_set_clr : forall s v, inp (set_clr s v) = inp s.
Proof. reflexivity. Qed.
Lemma p_peof_set_clr : forall s v, peof (set_clr s v) = peof s.
Proof. reflexivity. Qed.
Lemma p_rdh_set_clr : forall s v, rdh (set_clr s v) = rdh s.
Proof. reflexivity. Qed.
Lemma p_tmn_set_clr : forall s v, tmn (set_clr s v) = tmn s.
Proof. reflexivity. Qed.
Lemma p_cbk_set_clr : forall s v, cbk (set_clr s v) = cbk s.
Proof. reflexivity. Qed.
Lemma p_cbs_set_clr : forall s v, cbs (set_clr s v) = cbs s.
Proof. reflexivity. Qed.
Lemma p_lfreed_set_clr : forall s v, lfreed (set_clr s v) = lfreed s.
Proof. reflexivity. Qed.
Lemma p_g_uaf_set_clr : forall s v, g_uaf (set_clr s v) = g_uaf s.
Proof. reflexivity. Qed.
Lemma p_thr_set_clr : forall s v, thr (set_clr s v) = thr s.
Proof. reflexivity. Qed.
Lemma p_cnt_set_exitdr : forall s v, cnt (set_exitdr s v) = cnt s.
Proof. reflexivity. Qed.
Lemma p_edge_set_exitdr : forall s v, edge (set_exitdr s v) = edge s.
Proof. reflexivity. Qed.
Lemma p_to_exit_set_exitdr : forall s v, to_exit (set_exitdr s v) = to_exit s.
Proof. reflexivity. Qed.
Lemma p_tidf_set_exitdr : forall s v, tidf (set_exitdr s v) = tidf s.
Proof. reflexivity. Qed.
Lemma p_created_set_exitdr : forall s v, created (set_exitdr s v) = created s.
Proof. reflexivity. Qed.
Lemma p_mtx_set_exitdr : forall s v, mtx (set_exitdr s v) = mtx s.
Proof. reflexivity. Qed.
Lemma p_queue_set_exitdr : forall s v, queue (set_exitdr s v) = queue s.
Proof. reflexivity. Qed.
Lemma p_next_id_set_exitdr : forall s v, next_id (set_exitdr s v) = next_id s.
Proof. reflexivity. Qed.
Lemma p_reg_set_exitdr : forall s v, reg (set_exitdr s v) = reg s.
Proof. reflexivity. Qed.
Lemma p_clr_set_exitdr : forall s v, clr (set_exitdr s v) = clr s.
Proof. reflexivity. Qed.
Lemma p_exitdr_set_exitdr : forall s v, exitdr (set_exitdr s v) = v.
Proof. reflexivity. Qed.
Lemma p_g_enq_set_exitdr : forall s v, g_enq (set_exitdr s v) = g_enq s.
Proof. reflexivity. Qed.
Lemma p_g_relfail_set_exitdr : forall s v, g_relfail (set_exitdr s v) = g_relfail s.
Proof. reflexivity. Qed.
Lemma p_g_relexit_set_exitdr : forall s v, g_relexit (set_exitdr s v) = g_relexit s.
Proof. reflexivity. Qed.
Lemma p_g_relclear_set_exitdr : forall s v, g_relclear (set_exitdr s v) = g_relclear s.
Proof. reflexivity. Qed.
Lemma p_g_leaked_set_exitdr : forall s v, g_leaked (set_exitdr s v) = g_leaked s.
Proof. reflexivity. Qed.
Lemma p_g_late_set_exitdr : forall s v, g_late (set_exitdr s v) = g_late s.
Proof. reflexivity. Qed.
Lemma p_w_req_set_exitdr : forall s v, w_req (set_exitdr s v) = w_req s.
Proof. reflexivity. Qed.
Lemma p_w_seen_set_exitdr : forall s v, w_seen (set_exitdr s v) = w_seen s.
Proof. reflexivity. Qed.
Lemma p_returned_set_exitdr : forall s v, returned (set_exitdr s v) = returned s.
Proof. reflexivity. Qed.
Lemma p_hup_set_exitdr : forall s v, hup (set_exitdr s v) = hup s.
Proof. reflexivity. Qed.
Lemma p_erl_set_exitdr : forall s v, erl (set_exitdr s v) = erl s.
Proof. reflexivity. Qed.
Lemma p_slots_set_exitdr : forall s v, slots (set_exitdr s v) = slots s.
Proof. reflexivity. Qed.
Lemma p_rdy_set_exitdr : forall s v, rdy (set_exitdr s v) = rdy s.
Proof. reflexivity. Qed.
Lemma p_todo_set_exitdr : forall s v, todo (set_exitdr s v) = todo s.
Proof. reflexivity. Qed.
Lemma p_psig_set_exitdr : forall s v, psig (set_exitdr s v) = psig s.
Proof. reflexivity. Qed.
Lemma p_pn_set_exitdr : forall s v, pn (set_exitdr s v) = pn s.
Proof. reflexivity. Qed.
Lemma p_wkn_set_exitdr : forall s v, wkn (set_exitdr s v) = wkn s.
Proof. reflexivity. Qed.
Lemma p_g_relclose_set_exitdr : forall s v, g_relclose (set_exitdr s v) = g_relclose s.
Proof. reflexivity. Qed.
Lemma p_inp_set_exitdr : forall s v, inp (set_exitdr s v) = inp s.
Proof. reflexivity. Qed.
Lemma p_peof_set_exitdr : forall s v, peof (set_exitdr s v) = peof s.
Proof. reflexivity. Qed.
Lemma p_rdh_set_exitdr : forall s v, rdh (set_exitdr s v) = rdh s.
Proof. reflexivity. Qed.
Lemma p_tmn_set_exitdr : forall s v, tmn (set_exitdr s v) = tmn s.
Proof. reflexivity. Qed.
Lemma p_cbk_set_exitdr : forall s v, cbk (set_exitdr s v) = cbk s.
Proof. reflexivity. Qed.
Lemma p_cbs_set_exitdr : forall s v, cbs (set_exitdr s v) = cbs s.
Proof. reflexivity. Qed.
Lemma p_lfreed_set_exitdr : forall s v, lfreed (set_exitdr s v) = lfreed s.
Proof. reflexivity. Qed.
Lemma p_g_uaf_set_exitdr : forall s v, g_uaf (set_exitdr s v) = g_uaf s.
Proof. reflexivity. Qed.
Lemma p_thr_set_exitdr : forall s v, thr (set_exitdr s v) = thr s.
Proof. reflexivity. Qed.
Lemma p_cnt_set_g_enq : forall s v, cnt (set_g_enq s v) = cnt s.
Proof. reflexivity. Qed.
Lemma p_edge_set_g_enq : forall s v, edge (set_g_enq s v) = edge s.
Proof. reflexivity. Qed.
Lemma p_to_exit_set_g_enq : forall s v, to_exit (set_g_enq s v) = to_exit s.
Proof. reflexivity. Qed.
Lemma p_tidf_set_g_enq : forall s v, tidf (set_g_enq s v) = tidf s.
Proof. reflexivity. Qed.
Lemma p_created_set_g_enq : forall s v, created (set_g_enq s v) = created s.
Proof. reflexivity. Qed.
Lemma p_mtx_set_g_enq : forall s v, mtx (set_g_enq s v) = mtx s.
Proof. reflexivity. Qed.
Lemma p_queue_set_g_enq : forall s v, queue (set_g_enq s v) = queue s.
Proof. reflexivity. Qed.
Lemma p_next_id_set_g_enq : forall s v, next_id (set_g_enq s v) = next_id s.
Proof. reflexivity. Qed.
Lemma p_reg_set_g_enq : forall s v, reg (set_g_enq s v) = reg s.
Proof. reflexivity. Qed.
Lemma p_clr_set_g_enq : forall s v, clr (set_g_enq s v) = clr s.
Proof. reflexivity. Qed.
Lemma p_exitdr_set_g_enq : forall s v, exitdr (set_g_enq s v) = exitdr s.
Proof. reflexivity. Qed.
Lemma p_g_enq_set_g_enq : forall s v, g_enq (set_g_enq s v) = v.
Proof. reflexivity. Qed.
Lemma p_g_relfail_set_g_enq : forall s v, g_relfail (set_g_enq s v) = g_relfail s.
Proof. reflexivity. Qed.
Lemma p_g_relexit_set_g_enq : forall s v, g_relexit (set_g_enq s v) = g_relexit s.
Proof. reflexivity. Qed.
Lemma p_g_relclear_set_g_enq : forall s v, g_relclear (set_g_enq s v) = g_relclear s.
Proof. reflexivity. Qed.
Lemma p_g_leaked_set_g_enq : forall s v, g_leaked (set_g_enq s v) = g_leaked s.
Proof. reflexivity. Qed.
Lemma p_g_late_set_g_enq : forall s v, g_late (set_g_enq s v) = g_late s.
Proof. reflexivity. Qed.
Lemma p_w_req_set_g_enq : forall s v, w_req (set_g_enq s v) = w_req s.
Proof. reflexivity. Qed.
Lemma p_w_seen_set_g_enq : forall s v, w_seen (set_g_enq s v) = w_seen s.
Proof. reflexivity. Qed.
Lemma p_returned_set_g_enq : forall s v, returned (set_g_enq s v) = returned s.
Proof. reflexivity. Qed.
Lemma p_hup_set_g_enq : forall s v, hup (set_g_enq s v) = hup s.
Proof. reflexivity. Qed.
Lemma p_erl_set_g_enq : forall s v, erl (set_g_enq s v) = erl s.
Proof. reflexivity. Qed.
Lemma p_slots_set_g_enq : forall s v, slots (set_g_enq s v) = slots s.
Proof. reflexivity. Qed.
Lemma p_rdy_set_g_enq : forall s v, rdy (set_g_enq s v) = rdy s.
Proof. reflexivity. Qed.
Lemma p_todo_set_g_enq : forall s v, todo (set_g_enq s v) = todo s.
Proof. reflexivity. Qed.
Lemma p_psig_set_g_enq : forall s v, psig (set_g_enq s v) = psig s.
Proof. reflexivity. Qed.
Lemma p_pn_set_g_enq : forall s v, pn (set_g_enq s v) = pn s.
Proof. reflexivity. Qed.
Lemma p_wkn_set_g_enq : forall s v, wkn (set_g_enq s v) = wkn s.
Proof. reflexivity. Qed.
Lemma p_g_relclose_set_g_enq : forall s v, g_relclose (set_g_enq s v) = g_relclose s.
Proof. reflexivity. Qed.
Lemma p_inp_set_g_enq : forall s v, inp (set_g_enq s v) = inp s.
Proof. reflexivity. Qed.
Lemma p_peof_set_g_enq : forall s v, peof (set_g_enq s v) = peof s.
Proof. reflexivity. Qed.
Lemma p_rdh_set_g_enq : forall s v, rdh (set_g_enq s v) = rdh s.
Proof. reflexivity. Qed.
Lemma p_tmn_set_g_enq : forall s v, tmn (set_g_enq s v) = tmn s.
Proof. reflexivity. Qed.
Lemma p_cbk_set_g_enq : forall s v, cbk (set_g_enq s v) = cbk s.
Proof. reflexivity. Qed.
Lemma p_cbs_set_g_enq : forall s v, cbs (set_g_enq s v) = cbs s.
Proof. reflexivity. Qed.
Lemma p_lfreed_set_g_enq : forall s v, lfreed (set_g_enq s v) = lfreed s.
Proof. reflexivity. Qed.
Lemma p_g_uaf_set_g_enq : forall s v, g_uaf (set_g_enq s v) = g_uaf s.
Proof. reflexivity. Qed.
Lemma p_thr_set_g_enq : forall s v, thr (set_g_enq s v) = thr s.
Proof. reflexivity. Qed.
Lemma p_cnt_set_g_relfail : forall s v, cnt (set_g_relfail s v) = cnt s.
Proof. reflexivity. Qed.
Lemma p_edge_set_g_relfail : forall s v, edge (set_g_relfail s v) = edge s.
Proof. reflexivity. Qed.
Lemma p_to_exit_set_g_relfail : forall s v, to_exit (set_g_relfail s v) = to_exit s.
Proof. reflexivity. Qed.
Lemma p_tidf_set_g_relfail : forall s v, tidf (set_g_relfail s v) = tidf s.
Proof. reflexivity. Qed.
Lemma p_created_set_g_relfail : forall s v, created (set_g_relfail s v) = created s.
Proof. reflexivity. Qed.
Lemma p_mtx_set_g_relfail : forall s v, mtx (set_g_relfail s v) = mtx s.
Proof. reflexivity. Qed.
Lemma p_queue_set_g_relfail : forall s v, queue (set_g_relfail s v) = queue s.
Proof. reflexivity. Qed.
Lemma p_next_id_set_g_relfail : forall s v, next_id (set_g_relfail s v) = next_id s.
Proof. reflexivity. Qed.
Lemma p_reg_set_g_relfail : forall s v, reg (set_g_relfail s v) = reg s.
Proof. reflexivity. Qed.
Lemma p_clr_set_g_relfail : forall s v, clr (set_g_relfail s v) = clr s.
Proof. reflexivity. Qed.
Lemma p_exitdr_set_g_relfail : forall s v, exitdr (set_g_relfail s v) = exitdr s.
Proof. reflexivity. Qed.
Lemma p_g_enq_set_g_relfail : forall s v, g_enq (set_g_relfail s v) = g_enq s.
Proof. reflexivity. Qed.
Lemma p_g_relfail_set_g_relfail : forall s v, g_relfail (set_g_relfail s v) = v.
Proof. reflexivity. Qed.
Lemma p_g_relexit_set_g_relfail : forall s v, g_relexit (set_g_relfail s v) = g_relexit s.
Proof. reflexivity. Qed.
Lemma p_g_relclear_set_g_relfail : forall s v, g_relclear (set_g_relfail s v) = g_relclear s.
Proof. reflexivity. Qed.
Lemma p_g_leaked_set_g_relfail : forall s v, g_leaked (set_g_relfail s v) = g_leaked s.
Proof. reflexivity. Qed.
Lemma p_g_late_set_g_relfail : forall s v, g_late (set_g_relfail s v) = g_late s.
Proof. reflexivity. Qed.
Lemma p_w_req_set_g_relfail : forall s v, w_req (set_g_relfail s v) = w_req s.
Proof. reflexivity. Qed.
Lemma p_w_seen_set_g_relfail : forall s v, w_seen (set_g_relfail s v) = w_seen s.
Proof. reflexivity. Qed.
Lemma p_returned_set_g_relfail : forall s v, returned (set_g_relfail s v) = returned s.
Proof. reflexivity. Qed.
Lemma p_hup_set_g_relfail : forall s v, hup (set_g_relfail s v) = hup s.
Proof. reflexivity. Qed.
Lemma p_erl_set_g_relfail : forall s v, erl (set_g_relfail s v) = erl s.
Proof. reflexivity. Qed.
Lemma p_slots_set_g_relfail : forall s v, slots (set_g_relfail s v) = slots s.
Proof. reflexivity. Qed.
Lemma p_rdy_set_g_relfail : forall s v, rdy (set_g_relfail s v) = rdy s.
Proof. reflexivity. Qed.
Lemma p_todo_set_g_relfail : forall s v, todo (set_g_relfail s v) = todo s.
Proof. reflexivity. Qed.
Lemma p_psig_set_g_relfail : forall s v, psig (set_g_relfail s v) = psig s.
Proof. reflexivity. Qed.
Lemma p_pn_set_g_relfail : forall s v, pn (set_g_relfail s v) = pn s.
Proof. reflexivity. Qed.
Lemma p_wkn_set_g_relfail : forall s v, wkn (set_g_relfail s v) = wkn s.
Proof. reflexivity. Qed.
Lemma p_g_relclose_set_g_relfail : forall s v, g_relclose (set_g_relfail s v) = g_relclose s.
Proof. reflexivity. Qed.
Lemma p_inp_set_g_relfail : forall s v, inp (set_g_relfail s v) = inp s.
Proof. reflexivity. Qed.
Lemma p_peof_set_g_relfail : forall s v, peof (set_g_relfail s v) = peof s.
Proof. reflexivity. Qed.
Lemma p_rdh_set_g_relfail : forall s v, rdh (set_g_relfail s v) = rdh s.
Proof. reflexivity. Qed.
Lemma p_tmn_set_g_relfail : forall s v, tmn (set_g_relfail s v) = tmn s.
Proof. reflexivity. Qed.
Lemma p_cbk_set_g_relfail : forall s v, cbk (set_g_relfail s v) = cbk s.
Proof. reflexivity. Qed.
Lemma p_cbs_set_g_relfail : forall s v, cbs (set_g_relfail s v) = cbs s.
Proof. reflexivity. Qed.
Lemma p_lfreed_set_g_relfail : forall s v, lfreed (set_g_relfail s v) = lfreed s.
Proof. reflexivity. Qed.
Lemma p_g_uaf_set_g_relfail : forall s v, g_uaf (set_g_relfail s v) = g_uaf s.
Proof. reflexivity. Qed.
Lemma p_thr_set_g_relfail : forall s v, thr (set_g_relfail s v) = thr s.
Proof. reflexivity. Qed.
Lemma p_cnt_set_g_relexit : forall s v, cnt (set_g_relexit s v) = cnt s.
Proof. reflexivity. Qed.
Lemma p_edge_set_g_relexit : forall s v, edge (set_g_relexit s v) = edge s.
Proof. reflexivity. Qed.
Lemma p_to_exit_set_g_relexit : forall s v, to_exit (set_g_relexit s v) = to_exit s.
Proof. reflexivity. Qed.
Lemma p_tidf_set_g_relexit : forall s v, tidf (set_g_relexit s v) = tidf s.
Proof. reflexivity. Qed.
Lemma p_created_set_g_relexit : forall s v, created (set_g_relexit s v) = created s.
Proof. reflexivity. Qed.
Lemma p_mtx_set_g_relexit : forall s v, mtx (set_g_relexit s v) = mtx s.
Proof. reflexivity. Qed.
Lemma p_queue_set_g_relexit : forall s v, queue (set_g_relexit s v) = queue s.
Proof. reflexivity. Qed.
Lemma p_next_id_set_g_relexit : forall s v, next_id (set_g_relexit s v) = next_id s.
Proof. reflexivity. Qed.
Lemma p_reg_set_g_relexit : forall s v, reg (set_g_relexit s v) = reg s.
Proof. reflexivity. Qed.
Lemma p_clr_set_g_relexit : forall s v, clr (set_g_relexit s v) = clr s.
Proof. reflexivity. Qed.
Lemma p_exitdr_set_g_relexit : forall s v, exitdr (set_g_relexit s v) = exitdr s.
Proof. reflexivity. Qed.
Lemma p_g_enq_set_g_relexit : forall s v, g_enq (set_g_relexit s v) = g_enq s.
Proof. reflexivity. Qed.
Lemma p_g_relfail_set_g_relexit : forall s v, g_relfail (set_g_relexit s v) = g_relfail s.
Proof. reflexivity. Qed.
Lemma p_g_relexit_set_g_relexit : forall s v, g_relexit (set_g_relexit s v) = v.
Proof. reflexivity. Qed.
Lemma p_g_relclear_set_g_relexit : forall s v, g_relclear (set_g_relexit s v) = g_relclear s.
Proof. reflexivity. Qed.
Lemma p_g_leaked_set_g_relexit : forall s v, g_leaked (set_g_relexit s v) = g_leaked s.
Proof. reflexivity. Qed.
Lemma p_g_late_set_g_relexit : forall s v, g_late (set_g_relexit s v) = g_late s.
Proof. reflexivity. Qed.
Lemma p_w_req_set_g_relexit : forall s v, w_req (set_g_relexit s v) = w_req s.
Proof. reflexivity. Qed.
Lemma p_w_seen_set_g_relexit : forall s v, w_seen (set_g_relexit s v) = w_seen s.
Proof. reflexivity. Qed.
Lemma p_returned_set_g_relexit : forall s v, returned (set_g_relexit s v) = returned s.
Proof. reflexivity. Qed.
Lemma p_hup_set_g_relexit : forall s v, hup (set_g_relexit s v) = hup s.
Proof. reflexivity. Qed.
Lemma p_erl_set_g_relexit : forall s v, erl (set_g_relexit s v) = erl s.
Proof. reflexivity. Qed.
Lemma p_slots_set_g_relexit : forall s v, slots (set_g_relexit s v) = slots s.
Proof. reflexivity. Qed.
Lemma p_rdy_set_g_relexit : forall s v, rdy (set_g_relexit s v) = rdy s.
Proof. reflexivity. Qed.
Lemma p_todo_set_g_relexit : forall s v, todo (set_g_relexit s v) = todo s.
Proof. reflexivity. Qed.
Lemma p_psig_set_g_relexit : forall s v, psig (set_g_relexit s v) = psig s.
Proof. reflexivity. Qed.
Lemma p_pn_set_g_relexit : forall s v, pn (set_g_relexit s v) = pn s.
Proof. reflexivity. Qed.
Lemma p_wkn_set_g_relexit : forall s v, wkn (set_g_relexit s v) = wkn s.
Proof. reflexivity. Qed.
Lemma p_g_relclose_set_g_relexit : forall s v, g_relclose (set_g_relexit s v) = g_relclose s.
Proof. reflexivity. Qed.
Lemma p_inp_set_g_relexit : forall s v, inp (set_g_relexit s v) = inp s.
Proof. reflexivity. Qed.
Lemma p_peof_set_g_relexit : forall s v, peof (set_g_relexit s v) = peof s.
Proof. reflexivity. Qed.
Lemma p_rdh_set_g_relexit : forall s v, rdh (set_g_relexit s v) = rdh s.
Proof. reflexivity. Qed.
Lemma p_tmn_set_g_relexit : forall s v, tmn (set_g_relexit s v) = tmn s.
Proof. reflexivity. Qed.
Lemma p_cbk_set_g_relexit : forall s v, cbk (set_g_relexit s v) = cbk s.
Proof. reflexivity. Qed.
Lemma p_cbs_set_g_relexit : forall s v, cbs (set_g_relexit s v) = cbs s.
Proof. reflexivity. Qed.
Lemma p_lfreed_set_g_relexit : forall s v, lfreed (set_g_relexit s v) = lfreed s.
Proof. reflexivity. Qed.
Lemma p_g_uaf_set_g_relexit : forall s v, g_uaf (set_g_relexit s v) = g_uaf s.
Proof. reflexivity. Qed.
Lemma p_thr_set_g_relexit : forall s v, thr (set_g_relexit s v) = thr s.
Proof. reflexivity. Qed.
Lemma p_cnt_set_g_relclear : forall s v, cnt (set_g_relclear s v) = cnt s.
Proof. reflexivity. Qed.
Lemma p_edge_set_g_relclear : forall s v, edge (set_g_relclear s v) = edge s.
Proof. reflexivity. Qed.
Lemma p_to_exit_set_g_relclear : forall s v, to_exit (set_g_relclear s v) = to_exit s.
Proof. reflexivity. Qed.
Lemma p_tidf_set_g_relclear : forall s v, tidf (set_g_relclear s v) = tidf s.
Proof. reflexivity. Qed.
Lemma p_created_set_g_relclear : forall s v, created (set_g_relclear s v) = created s.
Proof. reflexivity. Qed.
Lemma p_mtx_set_g_relclear : forall s v, mtx (set_g_relclear s v) = mtx s.
Proof. reflexivity. Qed.
Lemma p_queue_set_g_relclear : forall s v, queue (set_g_relclear s v) = queue s.
Proof. reflexivity. Qed.
Lemma p_next_id_set_g_relclear : forall s v, next_id (set_g_relclear s v) = next_id s.
Proof. reflexivity. Qed.
Lemma p_reg_set_g_relclear : forall s v, reg (set_g_relclear s v) = reg s.
Proof. reflexivity. Qed.
Lemma p_clr_set_g_relclear : forall s v, clr (set_g_relclear s v) = clr s.
Proof. reflexivity. Qed.
Lemma p_exitdr_set_g_relclear : forall s v, exitdr (set_g_relclear s v) = exitdr s.
Proof. reflexivity. Qed.
Lemma p_g_enq_set_g_relclear : forall s v, g_enq (set_g_relclear s v) = g_enq s.
Proof. reflexivity. Qed.
Lemma p_g_relfail_set_g_relclear : forall s v, g_relfail (set_g_relclear s v) = g_relfail s.
Proof. reflexivity. Qed.
Lemma p_g_relexit_set_g_relclear : forall s v, g_relexit (set_g_relclear s v) = g_relexit s.
Proof. reflexivity. Qed.
Lemma p_g_relclear_set_g_relclear : forall s v, g_relclear (set_g_relclear s v) = v.
Proof. reflexivity. Qed.
Lemma p_g_leaked_set_g_relclear : forall s v, g_leaked (set_g_relclear s v) = g_leaked s.
Proof. reflexivity. Qed.
Lemma p_g_late_set_g_relclear : forall s v, g_late (set_g_relclear s v) = g_late s.
Proof. reflexivity. Qed.
Lemma p_w_req_set_g_relclear : forall s v, w_req (set_g_relclear s v) = w_req s.
Proof. reflexivity. Qed.
Lemma p_w_seen_set_g_relclear : forall s v, w_seen (set_g_relclear s v) = w_seen s.
Proof. reflexivity. Qed.
Lemma p_returned_set_g_relclear : forall s v, returned (set_g_relclear s v) = returned s.
Proof. reflexivity. Qed.
Lemma p_hup_set_g_relclear : forall s v, hup (set_g_relclear s v) = hup s.
Proof. reflexivity. Qed.
Lemma p_erl_set_g_relclear : forall s v, erl (set_g_relclear s v) = erl s.
Proof. reflexivity. Qed.
Lemma p_slots_set_g_relclear : forall s v, slots (set_g_relclear s v) = slots s.
Proof. reflexivity. Qed.
Lemma p_rdy_set_g_relclear : forall s v, rdy (set_g_relclear s v) = rdy s.
Proof. reflexivity. Qed.
Lemma p_todo_set_g_relclear : forall s v, todo (set_g_relclear s v) = todo s.
Proof. reflexivity. Qed.
Lemma p_psig_set_g_relclear : forall s v, psig (set_g_relclear s v) = psig s.
Proof. reflexivity. Qed.
Lemma p_pn_set_g_relclear : forall s v, pn (set_g_relclear s v) = pn s.
Proof. reflexivity. Qed.
Lemma p_wkn_set_g_relclear : forall s v, wkn (set_g_relclear s v) = wkn s.
Proof. reflexivity. Qed.
Lemma p_g_relclose_set_g_relclear : forall s v, g_relclose (set_g_relclear s v) = g_relclose s.
Proof. reflexivity. Qed.
Lemma p_inp_set_g_relclear : forall s v, inp (set_g_relclear s v) = inp s.
Proof. reflexivity. Qed.
Lemma p_peof_set_g_relclear : forall s v, peof (set_g_relclear s v) = peof s.
Proof. reflexivity. Qed.
Lemma p_rdh_set_g_relclear : forall s v, rdh (set_g_relclear s v) = rdh s.
Proof. reflexivity. Qed.
Lemma p_tmn_set_g_relclear : forall s v, tmn (set_g_relclear s v) = tmn s.
Proof. reflexivity. Qed.
Lemma p_cbk_set_g_relclear : forall s v, cbk (set_g_relclear s v) = cbk s.
Proof. reflexivity. Qed.
Lemma p_cbs_set_g_relclear : forall s v, cbs (set_g_relclear s v) = cbs s.
Proof. reflexivity. Qed.
Lemma p_lfreed_set_g_relclear : forall s v, lfreed (set_g_relclear s v) = lfreed s.
Proof. reflexivity. Qed.
Lemma p_g_uaf_set_g_relclear : forall s v, g_uaf (set_g_relclear s v) = g_uaf s.
Proof. reflexivity. Qed.
Lemma p_thr_set_g_relclear : forall s v, thr (set_g_relclear s v) = thr s.
Proof. reflexivity. Qed.
Lemma p_cnt_set_g_leaked : forall s v, cnt (set_g_leaked s v) = cnt s.
Proof. reflexivity. Qed.
Lemma p_edge_set_g_leaked : forall s v, edge (set_g_leaked s v) = edge s.
Proof. reflexivity. Qed.
Lemma p_to_exit_set_g_leaked : forall s v, to_exit (set_g_leaked s v) = to_exit s.
Proof. reflexivity. Qed.
Lemma p_tidf_set_g_leaked : forall s v, tidf (set_g_leaked s v) = tidf s.
Proof. reflexivity. Qed.
Lemma p_created_set_g_leaked : forall s v, created (set_g_leaked s v) = created s.
Proof. reflexivity. Qed.
Lemma p_mtx_set_g_leaked : forall s v, mtx (set_g_leaked s v) = mtx s.
Proof. reflexivity. Qed.
Lemma p_queue_set_g_leaked : forall s v, queue (set_g_leaked s v) = queue s.
Proof. reflexivity. Qed.
Lemma p_next_id_set_g_leaked : forall s v, next_id (set_g_leaked s v) = next_id s.
Proof. reflexivity. Qed.
Lemma p_reg_set_g_leaked : forall s v, reg (set_g_leaked s v) = reg s.
Proof. reflexivity. Qed.
Lemma p_clr_set_g_leaked : forall s v, clr (set_g_leaked s v) = clr s.
Proof. reflexivity. Qed.
Lemma p_exitdr_set_g_leaked : forall s v, exitdr (set_g_leaked s v) = exitdr s.
Proof. reflexivity. Qed.
Lemma p_g_enq_set_g_leaked : forall s v, g_enq (set_g_leaked s v) = g_enq s.
Proof. reflexivity. Qed.
Lemma p_g_relfail_set_g_leaked : forall s v, g_relfail (set_g_leaked s v) = g_relfail s.
Proof. reflexivity. Qed.
Lemma p_g_relexit_set_g_leaked : forall s v, g_relexit (set_g_leaked s v) = g_relexit s.
Proof. reflexivity. Qed.
Lemma p_g_relclear_set_g_leaked : forall s v, g_relclear (set_g_leaked s v) = g_relclear s.
Proof. reflexivity. Qed.
Lemma p_g_leaked_set_g_leaked : forall s v, g_leaked (set_g_leaked s v) = v.
Proof. reflexivity. Qed.
Lemma p_g_late_set_g_leaked : forall s v, g_late (set_g_leaked s v) = g_late s.
Proof. reflexivity. Qed.
Lemma p_w_req_set_g_leaked : forall s v, w_req (set_g_leaked s v) = w_req s.
Proof. reflexivity. Qed.
Lemma p_w_seen_set_g_leaked : forall s v, w_seen (set_g_leaked s v) = w_seen s.
Proof. reflexivity. Qed.
Lemma p_returned_set_g_leaked : forall s v, returned (set_g_leaked s v) = returned s.
Proof. reflexivity. Qed.
Lemma p_hup_set_g_leaked : forall s v, hup (set_g_leaked s v) = hup s.
Proof. reflexivity. Qed.
Lemma p_erl_set_g_leaked : forall s v, erl (set_g_leaked s v) = erl s.
Proof. reflexivity. Qed.
Lemma p_slots_set_g_leaked : forall s v, slots (set_g_leaked s v) = slots s.
Proof. reflexivity. Qed.
Lemma p_rdy_set_g_leaked : forall s v, rdy (set_g_leaked s v) = rdy s.
Proof. reflexivity. Qed.
Lemma p_todo_set_g_leaked : forall s v, todo (set_g_leaked s v) = todo s.
Proof. reflexivity. Qed.
Lemma p_psig_set_g_leaked : forall s v, psig (set_g_leaked s v) = psig s.
Proof. reflexivity. Qed.
Lemma p_pn_set_g_leaked : forall s v, pn (set_g_leaked s v) = pn s.
Proof. reflexivity. Qed.
Lemma p_wkn_set_g_leaked : forall s v, wkn (set_g_leaked s v) = wkn s.
Proof. reflexivity. Qed.
Lemma p_g_relclose_set_g_leaked : forall s v, g_relclose (set_g_leaked s v) = g_relclose s.
Proof. reflexivity. Qed.
Lemma p_inp_set_g_leaked : forall s v, inp (set_g_leaked s v) = inp s.
Proof. reflexivity. Qed.
Lemma p_peof_set_g_leaked : forall s v, peof (set_g_leaked s v) = peof s.
Proof. reflexivity. Qed.
Lemma p_rdh_set_g_leaked : forall s v, rdh (set_g_leaked s v) = rdh s.
Proof. reflexivity. Qed.
Lemma p_tmn_set_g_leaked : forall s v, tmn (set_g_leaked s v) = tmn s.
Proof. reflexivity. Qed.
Lemma p_cbk_set_g_leaked : forall s v, cbk (set_g_leaked s v) = cbk s.
Proof. reflexivity. Qed.
Lemma p_cbs_set_g_leaked : forall s v, cbs (set_g_leaked s v) = cbs s.
Proof. reflexivity. Qed.
Lemma p_lfreed_set_g_leaked : forall s v, lfreed (set_g_leaked s v) = lfreed s.
Proof. reflexivity. Qed.
Lemma p_g_uaf_set_g_leaked : forall s v, g_uaf (set_g_leaked s v) = g_uaf s.
Proof. reflexivity. Qed.
Lemma p_thr_set_g_leaked : forall s v, thr (set_g_leaked s v) = thr s.
Proof. reflexivity. Qed.
Lemma p_cnt_set_g_late : forall s v, cnt (set_g_late s v) = cnt s.
Proof. reflexivity. Qed.
Lemma p_edge_set_g_late : forall s v, edge (set_g_late s v) = edge s.
Proof. reflexivity. Qed.
Lemma p_to_exit_set_g_late : forall s v, to_exit (set_g_late s v) = to_exit s.
Proof. reflexivity. Qed.
Lemma p_tidf_set_g_late : forall s v, tidf (set_g_late s v) = tidf s.
Proof. reflexivity. Qed.
Lemma p_created_set_g_late : forall s v, created (set_g_late s v) = created s.
Proof. reflexivity. Qed.
Lemma p_mtx_set_g_late : forall s v, mtx (set_g_late s v) = mtx s.
Proof. reflexivity. Qed.
Lemma p_queue_set_g_late : forall s v, queue (set_g_late s v) = queue s.
Proof. reflexivity. Qed.
Lemma p_next_id_set_g_late : forall s v, next_id (set_g_late s v) = next_id s.
Proof. reflexivity. Qed.
Lemma p_reg_set_g_late : forall s v, reg (set_g_late s v) = reg s.
Proof. reflexivity. Qed.
Lemma p_clr_set_g_late : forall s v, clr (set_g_late s v) = clr s.
Proof. reflexivity. Qed.
Lemma p_exitdr_set_g_late : forall s v, exitdr (set_g_late s v) = exitdr s.
Proof. reflexivity. Qed.
Lemma p_g_enq_set_g_late : forall s v, g_enq (set_g_late s v) = g_enq s.
Proof. reflexivity. Qed.
Lemma p_g_relfail_set_g_late : forall s v, g_relfail (set_g_late s v) = g_relfail s.
Proof. reflexivity. Qed.
Lemma p_g_relexit_set_g_late : forall s v, g_relexit (set_g_late s v) = g_relexit s.
Proof. reflexivity. Qed.
Lemma p_g_relclear_set_g_late : forall s v, g_relclear (set_g_late s v) = g_relclear s.
Proof. reflexivity. Qed.
Lemma p_g_leaked_set_g_late : forall s v, g_leaked (set_g_late s v) = g_leaked s.
Proof. reflexivity. Qed.
Lemma p_g_late_set_g_late : forall s v, g_late (set_g_late s v) = v.
Proof. reflexivity. Qed.
Lemma p_w_req_set_g_late : forall s v, w_req (set_g_late s v) = w_req s.
Proof. reflexivity. Qed.
Lemma p_w_seen_set_g_late : forall s v, w_seen (set_g_late s v) = w_seen s.
Proof. reflexivity. Qed.
Lemma p_returned_set_g_late : forall s v, returned (set_g_late s v) = returned s.
Proof. reflexivity. Qed.
Lemma p_hup_set_g_late : forall s v, hup (set_g_late s v) = hup s.
Proof. reflexivity. Qed.
Lemma p_erl_set_g_late : forall s v, erl (set_g_late s v) = erl s.
Proof. reflexivity. Qed.
Lemma p_slots_set_g_late : forall s v, slots (set_g_late s v) = slots s.
Proof. reflexivity. Qed.
Lemma p_rdy_set_g_late : forall s v, rdy (set_g_late s v) = rdy s.
Proof. reflexivity. Qed.
Lemma p_todo_set_g_late : forall s v, todo (set_g_late s v) = todo s.
Proof. reflexivity. Qed.
Lemma p_psig_set_g_late : forall s v, psig (set_g_late s v) = psig s.
Proof. reflexivity. Qed.
Lemma p_pn_set_g_late : forall s v, pn (set_g_late s v) = pn s.
Proof. reflexivity. Qed.
Lemma p_wkn_set_g_late : forall s v, wkn (set_g_late s v) = wkn s.
Proof. reflexivity. Qed.
Lemma p_g_relclose_set_g_late : forall s v, g_relclose (set_g_late s v) = g_relclose s.
Proof. reflexivity. Qed.
Lemma p_inp_set_g_late : forall s v, inp (set_g_late s v) = inp s.
Proof. reflexivity. Qed.
Lemma p_peof_set_g_late : forall s v, peof (set_g_late s v) = peof s.
Proof. reflexivity. Qed.
Lemma p_rdh_set_g_late : forall s v, rdh (set_g_late s v) = rdh s.
Proof. reflexivity. Qed.
Lemma p_tmn_set_g_late : forall s v, tmn (set_g_late s v) = tmn s.
Proof. reflexivity. Qed.
Lemma p_cbk_set_g_late : forall s v, cbk (set_g_late s v) = cbk s.
Proof. reflexivity. Qed.
Lemma p_cbs_set_g_late : forall s v, cbs (set_g_late s v) = cbs s.
Proof. reflexivity. Qed.
Lemma p_lfreed_set_g_late : forall s v, lfreed (set_g_late s v) = lfreed s.
Proof. reflexivity. Qed.
Lemma p_g_uaf_set_g_late : forall s v, g_uaf (set_g_late s v) = g_uaf s.
Proof. reflexivity. Qed.
Lemma p_thr_set_g_late : forall s v, thr (set_g_late s v) = thr s.
Proof. reflexivity. Qed.
Lemma p_cnt_set_w_req : forall s v, cnt (set_w_req s v) = cnt s.
Proof. reflexivity. Qed.
Lemma p_edge_set_w_req : forall s v, edge (set_w_req s v) = edge s.
Proof. reflexivity. Qed.
Lemma p_to_exit_set_w_req : forall s v, to_exit (set_w_req s v) = to_exit s.
Proof. reflexivity. Qed.
Lemma p_tidf_set_w_req : forall s v, tidf (set_w_req s v) = tidf s.
Proof. reflexivity. Qed.
Lemma p_created_set_w_req : forall s v, created (set_w_req s v) = created s.
Proof. reflexivity. Qed.
Lemma p_mtx_set_w_req : forall s v, mtx (set_w_req s v) = mtx s.
Proof. reflexivity. Qed.
Lemma p_queue_set_w_req : forall s v, queue (set_w_req s v) = queue s.
Proof. reflexivity. Qed.
Lemma p_next_id_set_w_req : forall s v, next_id (set_w_req s v) = next_id s.
Proof. reflexivity. Qed.
Lemma p_reg_set_w_req : forall s v, reg (set_w_req s v) = reg s.
Proof. reflexivity. Qed.
Lemma p_clr_set_w_req : forall s v, clr (set_w_req s v) = clr s.
Proof. reflexivity. Qed.
Lemma p_exitdr_set_w_req : forall s v, exitdr (set_w_req s v) = exitdr s.
Proof. reflexivity. Qed.
Lemma p_g_enq_set_w_req : forall s v, g_enq (set_w_req s v) = g_enq s.
Proof. reflexivity. Qed.
Lemma p_g_relfail_set_w_req : forall s v, g_relfail (set_w_req s v) = g_relfail s.
Proof. reflexivity. Qed.
Lemma p_g_relexit_set_w_req : forall s v, g_relexit (set_w_req s v) = g_relexit s.
Proof. reflexivity. Qed.
Lemma p_g_relclear_set_w_req : forall s v, g_relclear (set_w_req s v) = g_relclear s.
Proof. reflexivity. Qed.
Lemma p_g_leaked_set_w_req : forall s v, g_leaked (set_w_req s v) = g_leaked s.
Proof. reflexivity. Qed.
Lemma p_g_late_set_w_req : forall s v, g_late (set_w_req s v) = g_late s.
Proof. reflexivity. Qed.
Lemma p_w_req_set_w_req : forall s v, w_req (set_w_req s v) = v.
Proof. reflexivity. Qed.
Lemma p_w_seen_set_w_req : forall s v, w_seen (set_w_req s v) = w_seen s.
Proof. reflexivity. Qed.
Lemma p_returned_set_w_req : forall s v, returned (set_w_req s v) = returned s.
Proof. reflexivity. Qed.
Lemma p_hup_set_w_req : forall s v, hup (set_w_req s v) = hup s.
Proof. reflexivity. Qed.
Lemma p_erl_set_w_req : forall s v, erl (set_w_req s v) = erl s.
Proof. reflexivity. Qed.
Lemma p_slots_set_w_req : forall s v, slots (set_w_req s v) = slots s.
Proof. reflexivity. Qed.
Lemma p_rdy_set_w_req : forall s v, rdy (set_w_req s v) = rdy s.
Proof. reflexivity. Qed.
Lemma p_todo_set_w_req : forall s v, todo (set_w_req s v) = todo s.
Proof. reflexivity. Qed.
Lemma p_psig_set_w_req : forall s v, psig (set_w_req s v) = psig s.
Proof. reflexivity. Qed.
Lemma p_pn_set_w_req : forall s v, pn (set_w_req s v) = pn s.
Proof. reflexivity. Qed.
Lemma p_wkn_set_w_req : forall s v, wkn (set_w_req s v) = wkn s.
Proof. reflexivity. Qed.
Lemma p_g_relclose_set_w_req : forall s v, g_relclose (set_w_req s v) = g_relclose s.
Proof. reflexivity. Qed.
Lemma p_inp_set_w_req : forall s v, inp (set_w_req s v) = inp s.
Proof. reflexivity. Qed.
Lemma p_peof_set_w_req : forall s v, peof (set_w_req s v) = peof s.
Proof. reflexivity. Qed.
Lemma p_rdh_set_w_req : forall s v, rdh (set_w_req s v) = rdh s.
Proof. reflexivity. Qed.
Lemma p_tmn_set_w_req : forall s v, tmn (set_w_req s v) = tmn s.
Proof. reflexivity. Qed.
Lemma p_cbk_set_w_req : forall s v, cbk (set_w_req s v) = cbk s.
Proof. reflexivity. Qed.
Lemma p_cbs_set_w_req : forall s v, cbs (set_w_req s v) = cbs s.
Proof. reflexivity. Qed.
Lemma p_lfreed_set_w_req : forall s v, lfreed (set_w_req s v) = lfreed s.
Proof. reflexivity. Qed.
Lemma p_g_uaf_set_w_req : forall s v, g_uaf (set_w_req s v) = g_uaf s.
Proof. reflexivity. Qed.
Lemma p_thr_set_w_req : forall s v, thr (set_w_req s v) = thr s.
Proof. reflexivity. Qed.
Lemma p_cnt_set_w_seen : forall s v, cnt (set_w_seen s v) = cnt s.
Proof. reflexivity. Qed.
Lemma p_edge_set_w_seen : forall s v, edge (set_w_seen s v) = edge s.
Proof. reflexivity. Qed.
Lemma p_to_exit_set_w_seen : forall s v, to_exit (set_w_seen s v) = to_exit s.
Proof. reflexivity. Qed.
Lemma p_tidf_set_w_seen : forall s v, tidf (set_w_seen s v) = tidf s.
Proof. reflexivity. Qed.
Lemma p_created_set_w_seen : forall s v, created (set_w_seen s v) = created s.
Proof. reflexivity. Qed.
Lemma p_mtx_set_w_seen : forall s v, mtx (set_w_seen s v) = mtx s.
Proof. reflexivity. Qed.
Lemma p_queue_set_w_seen : forall s v, queue (set_w_seen s v) = queue s.
Proof. reflexivity. Qed.
Lemma p_next_id_set_w_seen : forall s v, next_id (set_w_seen s v) = next_id s.
Proof. reflexivity. Qed.
Lemma p_reg_set_w_seen : forall s v, reg (set_w_seen s v) = reg s.
Proof. reflexivity. Qed.
Lemma p_clr_set_w_seen : forall s v, clr (set_w_seen s v) = clr s.
Proof. reflexivity. Qed.
Lemma p_exitdr_set_w_seen : forall s v, exitdr (set_w_seen s v) = exitdr s.
Proof. reflexivity. Qed.
Lemma p_g_enq_set_w_seen : forall s v, g_enq (set_w_seen s v) = g_enq s.
Proof. reflexivity. Qed.
Lemma p_g_relfail_set_w_seen : forall s v, g_relfail (set_w_seen s v) = g_relfail s.
Proof. reflexivity. Qed.
Lemma p_g_relexit_set_w_seen : forall s v, g_relexit (set_w_seen s v) = g_relexit s.
Proof. reflexivity. Qed.
Lemma p_g_relclear_set_w_seen : forall s v, g_relclear (set_w_seen s v) = g_relclear s.
Proof. reflexivity. Qed.
Lemma p_g_leaked_set_w_seen : forall s v, g_leaked (set_w_seen s v) = g_leaked s.
Proof. reflexivity. Qed.
Lemma p_g_late_set_w_seen : forall s v, g_late (set_w_seen s v) = g_late s.
Proof. reflexivity. Qed.
Lemma p_w_req_set_w_seen : forall s v, w_req (set_w_seen s v) = w_req s.
Proof. reflexivity. Qed.
Lemma p_w_seen_set_w_seen : forall s v, w_seen (set_w_seen s v) = v.
Proof. reflexivity. Qed.
Lemma p_returned_set_w_seen : forall s v, returned (set_w_seen s v) = returned s.
Proof. reflexivity. Qed.
Lemma p_hup_set_w_seen : forall s v, hup (set_w_seen s v) = hup s.
Proof. reflexivity. Qed.
Lemma p_erl_set_w_seen : forall s v, erl (set_w_seen s v) = erl s.
Proof. reflexivity. Qed.
Lemma p_slots_set_w_seen : forall s v, slots (set_w_seen s v) = slots s.
Proof. reflexivity. Qed.
Lemma p_rdy_set_w_seen : forall s v, rdy (set_w_seen s v) = rdy s.
Proof. reflexivity. Qed.
Lemma p_todo_set_w_seen : forall s v, todo (set_w_seen s v) = todo s.
Proof. reflexivity. Qed.
Lemma p_psig_set_w_seen : forall s v, psig (set_w_seen s v) = psig s.
Proof. reflexivity. Qed.
Lemma p_pn_set_w_seen : forall s v, pn (set_w_seen s v) = pn s.
Proof. reflexivity. Qed.
Lemma p_wkn_set_w_seen : forall s v, wkn (set_w_seen s v) = wkn s.
Proof. reflexivity. Qed.
Lemma p_g_relclose_set_w_seen : forall s v, g_relclose (set_w_seen s v) = g_relclose s.
Proof. reflexivity. Qed.
Lemma p_inp_set_w_seen : forall s v, inp (set_w_seen s v) = inp s.
Proof. reflexivity. Qed.
Lemma p_peof_set_w_seen : forall s v, peof (set_w_seen s v) = peof s.
Proof. reflexivity. Qed.
Lemma p_rdh_set_w_seen : forall s v, rdh (set_w_seen s v) = rdh s.
Proof. reflexivity. Qed.
Lemma p_tmn_set_w_seen : forall s v, tmn (set_w_seen s v) = tmn s.
Proof. reflexivity. Qed.
Lemma p_cbk_set_w_seen : forall s v, cbk (set_w_seen s v) = cbk s.
Proof. reflexivity. Qed.
Lemma p_cbs_set_w_seen : forall s v, cbs (set_w_seen s v) = cbs s.
Proof. reflexivity. Qed.
Lemma p_lfreed_set_w_seen : forall s v, lfreed (set_w_seen s v) = lfreed s.
Proof. reflexivity. Qed.
Lemma p_g_uaf_set_w_seen : forall s v, g_uaf (set_w_seen s v) = g_uaf s.
Proof. reflexivity. Qed.
Lemma p_thr_set_w_seen : forall s v, thr (set_w_seen s v) = thr s.
Proof. reflexivity. Qed.
Lemma p_cnt_set_returned : forall s v, cnt (set_returned s v) = cnt s.
Proof. reflexivity. Qed.
Lemma p_edge_set_returned : forall s v, edge (set_returned s v) = edge s.
Proof. reflexivity. Qed.
Lemma p_to_exit_set_returned : forall s v, to_exit (set_returned s v) = to_exit s.
Proof. reflexivity. Qed.
Lemma p_tidf_set_returned : forall s v, tidf (set_returned s v) = tidf s.
Proof. reflexivity. Qed.
Lemma p_created_set_returned : forall s v, created (set_returned s v) = created s.
Proof. reflexivity. Qed.
Lemma p_mtx_set_returned : forall s v, mtx (set_returned s v) = mtx s.
Proof. reflexivity. Qed.
Lemma p_queue_set_returned : forall s v, queue (set_returned s v) = queue s.
Proof. reflexivity. Qed.
Lemma p_next_id_set_returned : forall s v, next_id (set_returned s v) = next_id s.
Proof. reflexivity. Qed.
Lemma p_reg_set_returned : forall s v, reg (set_returned s v) = reg s.
Proof. reflexivity. Qed.
Lemma p_clr_set_returned : forall s v, clr (set_returned s v) = clr s.
Proof. reflexivity. Qed.
Lemma p_exitdr_set_returned : forall s v, exitdr (set_returned s v) = exitdr s.
Proof. reflexivity. Qed.
Lemma p_g_enq_set_returned : forall s v, g_enq (set_returned s v) = g_enq s.
Proof. reflexivity. Qed.
Lemma p_g_relfail_set_returned : forall s v, g_relfail (set_returned s v) = g_relfail s.
Proof. reflexivity. Qed.
Lemma p_g_relexit_set_returned : forall s v, g_relexit (set_returned s v) = g_relexit s.
Proof. reflexivity. Qed.
Lemma p_g_relclear_set_returned : forall s v, g_relclear (set_returned s v) = g_relclear s.
Proof. reflexivity. Qed.
Lemma p_g_leaked_set_returned : forall s v, g_leaked (set_returned s v) = g_leaked s.
Proof. reflexivity. Qed.
Lemma p_g_late_set_returned : forall s v, g_late (set_returned s v) = g_late s.
Proof. reflexivity. Qed.
Lemma p_w_req_set_returned : forall s v, w_req (set_returned s v) = w_req s.
Proof. reflexivity. Qed.
Lemma p_w_seen_set_returned : forall s v, w_seen (set_returned s v) = w_seen s.
Proof. reflexivity. Qed.
Lemma p_returned_set_returned : forall s v, returned (set_returned s v) = v.
Proof. reflexivity. Qed.
Lemma p_hup_set_returned : forall s v, hup (set_returned s v) = hup s.
Proof. reflexivity. Qed.
Lemma p_erl_set_returned : forall s v, erl (set_returned s v) = erl s.
Proof. reflexivity. Qed.
Lemma p_slots_set_returned : forall s v, slots (set_returned s v) = slots s.
Proof. reflexivity. Qed.
Lemma p_rdy_set_returned : forall s v, rdy (set_returned s v) = rdy s.
Proof. reflexivity. Qed.
Lemma p_todo_set_returned : forall s v, todo (set_returned s v) = todo s.
Proof. reflexivity. Qed.
Lemma p_psig_set_returned : forall s v, psig (set_returned s v) = psig s.
Proof. reflexivity. Qed.
Lemma p_pn_set_returned : forall s v, pn (set_returned s v) = pn s.
Proof. reflexivity. Qed.
Lemma p_wkn_set_returned : forall s v, wkn (set_returned s v) = wkn s.
Proof. reflexivity. Qed.
Lemma p_g_relclose_set_returned : forall s v, g_relclose (set_returned s v) = g_relclose s.
Proof. reflexivity. Qed.
Lemma p_inp_set_returned : forall s v, inp (set_returned s v) = inp s.
Proof. reflexivity. Qed.
Lemma p_peof_set_returned : forall s v, peof (set_returned s v) = peof s.
Proof. reflexivity. Qed.
Lemma p_rdh_set_returned : forall s v, rdh (set_returned s v) = rdh s.
Proof. reflexivity. Qed.
Lemma p_tmn_set_returned : forall s v, tmn (set_returned s v) = tmn s.
Proof. reflexivity. Qed.
Lemma p_cbk_set_returned : forall s v, cbk (set_returned s v) = cbk s.
Proof. reflexivity. Qed.
Lemma p_cbs_set_returned : forall s v, cbs (set_returned s v) = cbs s.
Proof. reflexivity. Qed.
Lemma p_lfreed_set_returned : forall s v, lfreed (set_returned s v) = lfreed s.
Proof. reflexivity. Qed.
Lemma p_g_uaf_set_returned : forall s v, g_uaf (set_returned s v) = g_uaf s.
Proof. reflexivity. Qed.
Lemma p_thr_set_returned : forall s v, thr (set_returned s v) = thr s.
Proof. reflexivity. Qed.
Lemma p_cnt_set_hup : forall s v, cnt (set_hup s v) = cnt s.
Proof. reflexivity. Qed.
Lemma p_edge_set_hup : forall s v, edge (set_hup s v) = edge s.
Proof. reflexivity. Qed.
Lemma p_to_exit_set_hup : forall s v, to_exit (set_hup s v) = to_exit s.
Proof. reflexivity. Qed.
Lemma p_tidf_set_hup : forall s v, tidf (set_hup s v) = tidf s.
Proof. reflexivity. Qed.
Lemma p_created_set_hup : forall s v, created (set_hup s v) = created s.
Proof. reflexivity. Qed.
Lemma p_mtx_set_hup : forall s v, mtx (set_hup s v) = mtx s.
Proof. reflexivity. Qed.
Lemma p_queue_set_hup : forall s v, queue (set_hup s v) = queue s.
Proof. reflexivity. Qed.
Lemma p_next_id_set_hup : forall s v, next_id (set_hup s v) = next_id s.
Proof. reflexivity. Qed.
Lemma p_reg_set_hup : forall s v, reg (set_hup s v) = reg s.
Proof. reflexivity. Qed.
Lemma p_clr_set_hup : forall s v, clr (set_hup s v) = clr s.
Proof. reflexivity. Qed.
Lemma p_exitdr_set_hup : forall s v, exitdr (set_hup s v) = exitdr s.
Proof. reflexivity. Qed.
Lemma p_g_enq_set_hup : forall s v, g_enq (set_hup s v) = g_enq s.
Proof. reflexivity. Qed.
Lemma p_g_relfail_set_hup : forall s v, g_relfail (set_hup s v) = g_relfail s.
Proof. reflexivity. Qed.
Lemma p_g_relexit_set_hup : forall s v, g_relexit (set_hup s v) = g_relexit s.
Proof. reflexivity. Qed.
Lemma p_g_relclear_set_hup : forall s v, g_relclear (set_hup s v) = g_relclear s.
Proof. reflexivity. Qed.
Lemma p_g_leaked_set_hup : forall s v, g_leaked (set_hup s v) = g_leaked s.
Proof. reflexivity. Qed.
Lemma p_g_late_set_hup : forall s v, g_late (set_hup s v) = g_late s.
Proof. reflexivity. Qed.
Lemma p_w_req_set_hup : forall s v, w_req (set_hup s v) = w_req s.
Proof. reflexivity. Qed.
Lemma p_w_seen_set_hup : forall s v, w_seen (set_hup s v) = w_seen s.
Proof. reflexivity. Qed.
Lemma p_returned_set_hup : forall s v, returned (set_hup s v) = returned s.
Proof. reflexivity. Qed.
Lemma p_hup_set_hup : forall s v, hup (set_hup s v) = v.
Proof. reflexivity. Qed.
Lemma p_erl_set_hup : forall s v, erl (set_hup s v) = erl s.
Proof. reflexivity. Qed.
Lemma p_slots_set_hup : forall s v, slots (set_hup s v) = slots s.
Proof. reflexivity. Qed.
Lemma p_rdy_set_hup : forall s v, rdy (set_hup s v) = rdy s.
Proof. reflexivity. Qed.
Lemma p_todo_set_hup : forall s v, todo (set_hup s v) = todo s.
Proof. reflexivity. Qed.
Lemma p_psig_set_hup : forall s v, psig (set_hup s v) = psig s.
Proof. reflexivity. Qed.
Lemma p_pn_set_hup : forall s v, pn (set_hup s v) = pn s.
Proof. reflexivity. Qed.
Lemma p_wkn_set_hup : forall s v, wkn (set_hup s v) = wkn s.
Proof. reflexivity. Qed.
Lemma p_g_relclose_set_hup : forall s v, g_relclose (set_hup s v) = g_relclose s.
Proof. reflexivity. Qed.
Lemma p_inp_set_hup : forall s v, inp (set_hup s v) = inp s.
Proof. reflexivity. Qed.
Lemma p_peof_set_hup : forall s v, peof (set_hup s v) = peof s.
Proof. reflexivity. Qed.
Lemma p_rdh_set_hup : forall s v, rdh (set_hup s v) = rdh s.
Proof. reflexivity. Qed.
Lemma p_tmn_set_hup : forall s v, tmn (set_hup s v) = tmn s.
Proof. reflexivity. Qed.
Lemma p_cbk_set_hup : forall s v, cbk (set_hup s v) = cbk s.
Proof. reflexivity. Qed.
Lemma p_cbs_set_hup : forall s v, cbs (set_hup s v) = cbs s.
Proof. reflexivity. Qed.
Lemma p_lfreed_set_hup : forall s v, lfreed (set_hup s v) = lfreed s.
Proof. reflexivity. Qed.
Lemma p_g_uaf_set_hup : forall s v, g_uaf (set_hup s v) = g_uaf s.
Proof. reflexivity. Qed.
Lemma p_thr_set_hup : forall s v, thr (set_hup s v) = thr s.
Proof. reflexivity. Qed.
Lemma p_cnt_set_erl : forall s v, cnt (set_erl s v) = cnt s.
Proof. reflexivity. Qed.
Lemma p_edge_set_erl : forall s v, edge (set_erl s v) = edge s.
Proof. reflexivity. Qed.
Lemma p_to_exit_set_erl : forall s v, to_exit (set_erl s v) = to_exit s.
Proof. reflexivity. Qed.
Lemma p_tidf_set_erl : forall s v, tidf (set_erl s v) = tidf s.
Proof. reflexivity. Qed.
Lemma p_created_set_erl : forall s v, created (set_erl s v) = created s.
Proof. reflexivity. Qed.
Lemma p_mtx_set_erl : forall s v, mtx (set_erl s v) = mtx s.
Proof. reflexivity. Qed.
Lemma p_queue_set_erl : forall s v, queue (set_erl s v) = queue s.
Proof. reflexivity. Qed.
Lemma p_next_id_set_erl : forall s v, next_id (set_erl s v) = next_id s.
Proof. reflexivity. Qed.
Lemma p_reg_set_erl : forall s v, reg (set_erl s v) = reg s.
Proof. reflexivity. Qed.
Lemma p_clr_set_erl : forall s v, clr (set_erl s v) = clr s.
Proof. reflexivity. Qed.
Lemma p_exitdr_set_erl : forall s v, exitdr (set_erl s v) = exitdr s.
Proof. reflexivity. Qed.
Lemma p_g_enq_set_erl : forall s v, g_enq (set_erl s v) = g_enq s.
Proof. reflexivity. Qed.
Lemma p_g_relfail_set_erl : forall s v, g_relfail (set_erl s v) = g_relfail s.
Proof. reflexivity. Qed.
Lemma p_g_relexit_set_erl : forall s v, g_relexit (set_erl s v) = g_relexit s.
Proof. reflexivity. Qed.
Lemma p_g_relclear_set_erl : forall s v, g_relclear (set_erl s v) = g_relclear s.
Proof. reflexivity. Qed.
Lemma p_g_leaked_set_erl : forall s v, g_leaked (set_erl s v) = g_leaked s.
Proof. reflexivity. Qed.
Lemma p_g_late_set_erl : forall s v, g_late (set_erl s v) = g_late s.
Proof. reflexivity. Qed.
Lemma p_w_req_set_erl : forall s v, w_req (set_erl s v) = w_req s.
Proof. reflexivity. Qed.
Lemma p_w_seen_set_erl : forall s v, w_seen (set_erl s v) = w_seen s.
Proof. reflexivity. Qed.
Lemma p_returned_set_erl : forall s v, returned (set_erl s v) = returned s.
Proof. reflexivity. Qed.
Lemma p_hup_set_erl : forall s v, hup (set_erl s v) = hup s.
Proof. reflexivity. Qed.
Lemma p_erl_set_erl : forall s v, erl (set_erl s v) = v.
Proof. reflexivity. Qed.
Lemma p_slots_set_erl : forall s v, slots (set_erl s v) = slots s.
Proof. reflexivity. Qed.
Lemma p_rdy_set_erl : forall s v, rdy (set_erl s v) = rdy s.
Proof. reflexivity. Qed.
Lemma p_todo_set_erl : forall s v, todo (set_erl s v) = todo s.
Proof. reflexivity. Qed.
Lemma p_psig_set_erl : forall s v, psig (set_erl s v) = psig s.
Proof. reflexivity. Qed.
Lemma p_pn_set_erl : forall s v, pn (set_erl s v) = pn s.
Proof. reflexivity. Qed.
Lemma p_wkn_set_erl : forall s v, wkn (set_erl s v) = wkn s.
Proof. reflexivity. Qed.
Lemma p_g_relclose_set_erl : forall s v, g_relclose (set_erl s v) = g_relclose s.
Proof. reflexivity. Qed.
Lemma p_inp_set_erl : forall s v, inp (set_erl s v) = inp s.
Proof. reflexivity. Qed.
Lemma p_peof_set_erl : forall s v, peof (set_erl s v) = peof s.
Proof. reflexivity. Qed.
Lemma p_rdh_set_erl : forall s v, rdh (set_erl s v) = rdh s.
Proof. reflexivity. Qed.
Lemma p_tmn_set_erl : forall s v, tmn (set_erl s v) = tmn s.
Proof. reflexivity. Qed.
Lemma p_cbk_set_erl : forall s v, cbk (set_erl s v) = cbk s.
Proof. reflexivity. Qed.
Lemma p_cbs_set_erl : forall s v, cbs (set_erl s v) = cbs s.
Proof. reflexivity. Qed.
Lemma p_lfreed_set_erl : forall s v, lfreed (set_erl s v) = lfreed s.
Proof. reflexivity. Qed.
Lemma p_g_uaf_set_erl : forall s v, g_uaf (set_erl s v) = g_uaf s.
Proof. reflexivity. Qed.
Lemma p_thr_set_erl : forall s v, thr (set_erl s v) = thr s.
Proof. reflexivity. Qed.
Lemma p_cnt_set_slots : forall s v, cnt (set_slots s v) = cnt s.
Proof. reflexivity. Qed.
Lemma p_edge_set_slots : forall s v, edge (set_slots s v) = edge s.
Proof. reflexivity. Qed.
Lemma p_to_exit_set_slots : forall s v, to_exit (set_slots s v) = to_exit s.
Proof. reflexivity. Qed.
Lemma p_tidf_set_slots : forall s v, tidf (set_slots s v) = tidf s.
Proof. reflexivity. Qed.
Lemma p_created_set_slots : forall s v, created (set_slots s v) = created s.
Proof. reflexivity. Qed.
Lemma p_mtx_set_slots : forall s v, mtx (set_slots s v) = mtx s.
Proof. reflexivity. Qed.
Lemma p_queue_set_slots : forall s v, queue (set_slots s v) = queue s.
Proof. reflexivity. Qed.
Lemma p_next_id_set_slots : forall s v, next_id (set_slots s v) = next_id s.
Proof. reflexivity. Qed.
Lemma p_reg_set_slots : forall s v, reg (set_slots s v) = reg s.
Proof. reflexivity. Qed.
Lemma p_clr_set_slots : forall s v, clr (set_slots s v) = clr s.
Proof. reflexivity. Qed.
Lemma p_exitdr_set_slots : forall s v, exitdr (set_slots s v) = exitdr s.
Proof. reflexivity. Qed.
Lemma p_g_enq_set_slots : forall s v, g_enq (set_slots s v) = g_enq s.
Proof. reflexivity. Qed.
Lemma p_g_relfail_set_slots : forall s v, g_relfail (set_slots s v) = g_relfail s.
Proof. reflexivity. Qed.
Lemma p_g_relexit_set_slots : forall s v, g_relexit (set_slots s v) = g_relexit s.
Proof. reflexivity. Qed.
Lemma p_g_relclear_set_slots : forall s v, g_relclear (set_slots s v) = g_relclear s.
Proof. reflexivity. Qed.
Lemma p_g_leaked_set_slots : forall s v, g_leaked (set_slots s v) = g_leaked s.
Proof. reflexivity. Qed.
Lemma p_g_late_set_slots : forall s v, g_late (set_slots s v) = g_late s.
Proof. reflexivity. Qed.
Lemma p_w_req_set_slots : forall s v, w_req (set_slots s v) = w_req s.
Proof. reflexivity. Qed.
Lemma p_w_seen_set_slots : forall s v, w_seen (set_slots s v) = w_seen s.
Proof. reflexivity. Qed.
Lemma p_returned_set_slots : forall s v, returned (set_slots s v) = returned s.
Proof. reflexivity. Qed.
Lemma p_hup_set_slots : forall s v, hup (set_slots s v) = hup s.
Proof. reflexivity. Qed.
Lemma p_erl_set_slots : forall s v, erl (set_slots s v) = erl s.
Proof. reflexivity. Qed.
Lemma p_slots_set_slots : forall s v, slots (set_slots s v) = v.
Proof. reflexivity. Qed.
Lemma p_rdy_set_slots : forall s v, rdy (set_slots s v) = rdy s.
Proof. reflexivity. Qed.
Lemma p_todo_set_slots : forall s v, todo (set_slots s v) = todo s.
Proof. reflexivity. Qed.
Lemma p_psig_set_slots : forall s v, psig (set_slots s v) = psig s.
Proof. reflexivity. Qed.
Lemma p_pn_set_slots : forall s v, pn (set_slots s v) = pn s.
Proof. reflexivity. Qed.
Lemma p_wkn_set_slots : forall s v, wkn (set_slots s v) = wkn s.
Proof. reflexivity. Qed.
Lemma p_g_relclose_set_slots : forall s v, g_relclose (set_slots s v) = g_relclose s.
Proof. reflexivity. Qed.
Lemma p_inp_set_slots : forall s v, inp (set_slots s v) = inp s.
Proof. reflexivity. Qed.
Lemma p_peof_set_slots : forall s v, peof (set_slots s v) = peof s.
Proof. reflexivity. Qed.
Lemma p_rdh_set_slots : forall s v, rdh (set_slots s v) = rdh s.
Proof. reflexivity. Qed.
Lemma p_tmn_set_slots : forall s v, tmn (set_slots s v) = tmn s.
Proof. reflexivity. Qed.
Lemma p_cbk_set_slots : forall s v, cbk (set_slots s v) = cbk s.
Proof. reflexivity. Qed.
Lemma p_cbs_set_slots : forall s v, cbs (set_slots s v) = cbs s.
Proof. reflexivity. Qed.
Lemma p_lfreed_set_slots : forall s v, lfreed (set_slots s v) = lfreed s.
Proof. reflexivity. Qed.
Lemma p_g_uaf_set_slots : forall s v, g_uaf (set_slots s v) = g_uaf s.
Proof. reflexivity. Qed.
Lemma p_thr_set_slots : forall s v, thr (set_slots s v) = thr s.
Proof. reflexivity. Qed.
Lemma p_cnt_set_rdy : forall s v, cnt (set_rdy s v) = cnt s.
Proof. reflexivity. Qed.
Lemma p_edge_set_rdy : forall s v, edge (set_rdy s v) = edge s.
Proof. reflexivity. Qed.
Lemma p_to_exit_set_rdy : forall s v, to_exit (set_rdy s v) = to_exit s.
Proof. reflexivity. Qed.
Lemma p_tidf_set_rdy : forall s v, tidf (set_rdy s v) = tidf s.
Proof. reflexivity. Qed.
Lemma p_created_set_rdy : forall s v, created (set_rdy s v) = created s.
Proof. reflexivity. Qed.
Lemma p_mtx_set_rdy : forall s v, mtx (set_rdy s v) = mtx s.
Proof. reflexivity. Qed.
Lemma p_queue_set_rdy : forall s v, queue (set_rdy s v) = queue s.
Proof. reflexivity. Qed.
Lemma p_next_id_set_rdy : forall s v, next_id (set_rdy s v) = next_id s.
Proof. reflexivity. Qed.
Lemma p_reg_set_rdy : forall s v, reg (set_rdy s v) = reg s.
Proof. reflexivity. Qed.
Lemma p_clr_set_rdy : forall s v, clr (set_rdy s v) = clr s.
Proof. reflexivity. Qed.
Lemma p_exitdr_set_rdy : forall s v, exitdr (set_rdy s v) = exitdr s.
Proof. reflexivity. Qed.
Lemma p_g_enq_set_rdy : forall s v, g_enq (set_rdy s v) = g_enq s.
Proof. reflexivity. Qed.
Lemma p_g_relfail_set_rdy : forall s v, g_relfail (set_rdy s v) = g_relfail s.
Proof. reflexivity. Qed.
Lemma p_g_relexit_set_rdy : forall s v, g_relexit (set_rdy s v) = g_relexit s.
Proof. reflexivity. Qed.
Lemma p_g_relclear_set_rdy : forall s v, g_relclear (set_rdy s v) = g_relclear s.
Proof. reflexivity. Qed.
Lemma p_g_leaked_set_rdy : forall s v, g_leaked (set_rdy s v) = g_leaked s.
Proof. reflexivity. Qed.
Lemma p_g_late_set_rdy : forall s v, g_late (set_rdy s v) = g_late s.
Proof. reflexivity. Qed.
Lemma p_w_req_set_rdy : forall s v, w_req (set_rdy s v) = w_req s.
Proof. reflexivity. Qed.
Lemma p_w_seen_set_rdy : forall s v, w_seen (set_rdy s v) = w_seen s.
Proof. reflexivity. Qed.
Lemma p_returned_set_rdy : forall s v, returned (set_rdy s v) = returned s.
Proof. reflexivity. Qed.
Lemma p_hup_set_rdy : forall s v, hup (set_rdy s v) = hup s.
Proof. reflexivity. Qed.
Lemma p_erl_set_rdy : forall s v, erl (set_rdy s v) = erl s.
Proof. reflexivity. Qed.
Lemma p_slots_set_rdy : forall s v, slots (set_rdy s v) = slots s.
Proof. reflexivity. Qed.
Lemma p_rdy_set_rdy : forall s v, rdy (set_rdy s v) = v.
Proof. reflexivity. Qed.
Lemma p_todo_set_rdy : forall s v, todo (set_rdy s v) = todo s.
Proof. reflexivity. Qed.
Lemma p_psig_set_rdy : forall s v, psig (set_rdy s v) = psig s.
Proof. reflexivity. Qed.
Lemma p_pn_set_rdy : forall s v, pn (set_rdy s v) = pn s.
Proof. reflexivity. Qed.
Lemma p_wkn_set_rdy : forall s v, wkn (set_rdy s v) = wkn s.
Proof. reflexivity. Qed.
Lemma p_g_relclose_set_rdy : forall s v, g_relclose (set_rdy s v) = g_relclose s.
Proof. reflexivity. Qed.
Lemma p_inp_set_rdy : forall s v, inp (set_rdy s v) = inp s.
Proof. reflexivity. Qed.
Lemma p_peof_set_rdy : forall s v, peof (set_rdy s v) = peof s.
Proof. reflexivity. Qed.
Lemma p_rdh_set_rdy : forall s v, rdh (set_rdy s v) = rdh s.
Proof. reflexivity. Qed.
Lemma p_tmn_set_rdy : forall s v, tmn (set_rdy s v) = tmn s.
Proof. reflexivity. Qed.
Lemma p_cbk_set_rdy : forall s v, cbk (set_rdy s v) = cbk s.
Proof. reflexivity. Qed.
Lemma p_cbs_set_rdy : forall s v, cbs (set_rdy s v) = cbs s.
Proof. reflexivity. Qed.
Lemma p_lfreed_set_rdy : forall s v, lfreed (set_rdy s v) = lfreed s.
Proof. reflexivity. Qed.
Lemma p_g_uaf_set_rdy : forall s v, g_uaf (set_rdy s v) = g_uaf s.
Proof. reflexivity. Qed.
Lemma p_thr_set_rdy : forall s v, thr (set_rdy s v) = thr s.
Proof. reflexivity. Qed.
Lemma p_cnt_set_todo : forall s v, cnt (set_todo s v) = cnt s.
Proof. reflexivity. Qed.
Lemma p_edge_set_todo : forall s v, edge (set_todo s v) = edge s.
Proof. reflexivity. Qed.
Lemma p_to_exit_set_todo : forall s v, to_exit (set_todo s v) = to_exit s.
Proof. reflexivity. Qed.
Lemma p_tidf_set_todo : forall s v, tidf (set_todo s v) = tidf s.
Proof. reflexivity. Qed.
Lemma p_created_set_todo : forall s v, created (set_todo s v) = created s.
Proof. reflexivity. Qed.
Lemma p_mtx_set_todo : forall s v, mtx (set_todo s v) = mtx s.
Proof. reflexivity. Qed.
Lemma p_queue_set_todo : forall s v, queue (set_todo s v) = queue s.
Proof. reflexivity. Qed.
Lemma p_next_id_set_todo : forall s v, next_id (set_todo s v) = next_id s.
Proof. reflexivity. Qed.
Lemma p_reg_set_todo : forall s v, reg (set_todo s v) = reg s.
Proof. reflexivity. Qed.
Lemma p_clr_set_todo : forall s v, clr (set_todo s v) = clr s.
Proof. reflexivity. Qed.
Lemma p_exitdr_set_todo : forall s v, exitdr (set_todo s v) = exitdr s.
Proof. reflexivity. Qed.
Lemma p_g_enq_set_todo : forall s v, g_enq (set_todo s v) = g_enq s.
Proof. reflexivity. Qed.
Lemma p_g_relfail_set_todo : forall s v, g_relfail (set_todo s v) = g_relfail s.
Proof. reflexivity. Qed.
Lemma p_g_relexit_set_todo : forall s v, g_relexit (set_todo s v) = g_relexit s.
Proof. reflexivity. Qed.
Lemma p_g_relclear_set_todo : forall s v, g_relclear (set_todo s v) = g_relclear s.
Proof. reflexivity. Qed.
Lemma p_g_leaked_set_todo : forall s v, g_leaked (set_todo s v) = g_leaked s.
Proof. reflexivity. Qed.
Lemma p_g_late_set_todo : forall s v, g_late (set_todo s v) = g_late s.
Proof. reflexivity. Qed.
Lemma p_w_req_set_todo : forall s v, w_req (set_todo s v) = w_req s.
Proof. reflexivity. Qed.
Lemma p_w_seen_set_todo : forall s v, w_seen (set_todo s v) = w_seen s.
Proof. reflexivity. Qed.
Lemma p_returned_set_todo : forall s v, returned (set_todo s v) = returned s.
Proof. reflexivity. Qed.
Lemma p_hup_set_todo : forall s v, hup (set_todo s v) = hup s.
Proof. reflexivity. Qed.
Lemma p_erl_set_todo : forall s v, erl (set_todo s v) = erl s.
Proof. reflexivity. Qed.
Lemma p_slots_set_todo : forall s v, slots (set_todo s v) = slots s.
Proof. reflexivity. Qed.
Lemma p_rdy_set_todo : forall s v, rdy (set_todo s v) = rdy s.
Proof. reflexivity. Qed.
Lemma p_todo_set_todo : forall s v, todo (set_todo s v) = v.
Proof. reflexivity. Qed.
Lemma p_psig_set_todo : forall s v, psig (set_todo s v) = psig s.
Proof. reflexivity. Qed.
Lemma p_pn_set_todo : forall s v, pn (set_todo s v) = pn s.
Proof. reflexivity. Qed.
Lemma p_wkn_set_todo : forall s v, wkn (set_todo s v) = wkn s.
Proof. reflexivity. Qed.
Lemma p_g_relclose_set_todo : forall s v, g_relclose (set_todo s v) = g_relclose s.
Proof. reflexivity. Qed.
Lemma p_inp_set_todo : forall s v, inp (set_todo s v) = inp s.
Proof. reflexivity. Qed.
Lemma p_peof_set_todo : forall s v, peof (set_todo s v) = peof s.
Proof. reflexivity. Qed.
Lemma p_rdh_set_todo : forall s v, rdh (set_todo s v) = rdh s.
Proof. reflexivity. Qed.
Lemma p_tmn_set_todo : forall s v, tmn (set_todo s v) = tmn s.
Proof. reflexivity. Qed.
Lemma p_cbk_set_todo : forall s v, cbk (set_todo s v) = cbk s.
Proof. reflexivity. Qed.
Lemma p_cbs_set_todo : forall s v, cbs (set_todo s v) = cbs s.
Proof. reflexivity. Qed.
Lemma p_lfreed_set_todo : forall s v, lfreed (set_todo s v) = lfreed s.
Proof. reflexivity. Qed.
Lemma p_g_uaf_set_todo : forall s v, g_uaf (set_todo s v) = g_uaf s.
Proof. reflexivity. Qed.
Lemma p_thr_set_todo : forall s v, thr (set_todo s v) = thr s.
Proof. reflexivity. Qed.
Lemma p_cnt_set_psig : forall s v, cnt (set_psig s v) = cnt s.
Proof. reflexivity. Qed.
Lemma p_edge_set_psig : forall s v, edge (set_psig s v) = edge s.
Proof. reflexivity. Qed.
Lemma p_to_exit_set_psig : forall s v, to_exit (set_psig s v) = to_exit s.
Proof. reflexivity. Qed.
Lemma p_tidf_set_psig : forall s v, tidf (set_psig s v) = tidf s.
Proof. reflexivity. Qed.
Lemma p_created_set_psig : forall s v, created (set_psig s v) = created s.
Proof. reflexivity. Qed.
Lemma p_mtx_set_psig : forall s v, mtx (set_psig s v) = mtx s.
Proof. reflexivity. Qed.
Lemma p_queue_set_psig : forall s v, queue (set_psig s v) = queue s.
Proof. reflexivity. Qed.
Lemma p_next_id_set_psig : forall s v, next_id (set_psig s v) = next_id s.
Proof. reflexivity. Qed.
Lemma p_reg_set_psig : forall s v, reg (set_psig s v) = reg s.
Proof. reflexivity. Qed.
Lemma p_clr_set_psig : forall s v, clr (set_psig s v) = clr s.
Proof. reflexivity. Qed.
Lemma p_exitdr_set_psig : forall s v, exitdr (set_psig s v) = exitdr s.
Proof. reflexivity. Qed.
Lemma p_g_enq_set_psig : forall s v, g_enq (set_psig s v) = g_enq s.
Proof. reflexivity. Qed.
Lemma p_g_relfail_set_psig : forall s v, g_relfail (set_psig s v) = g_relfail s.
Proof. reflexivity. Qed.
Lemma p_g_relexit_set_psig : forall s v, g_relexit (set_psig s v) = g_relexit s.
Proof. reflexivity. Qed.
Lemma p_g_relclear_set_psig : forall s v, g_relclear (set_psig s v) = g_relclear s.
Proof. reflexivity. Qed.
Lemma p_g_leaked_set_psig : forall s v, g_leaked (set_psig s v) = g_leaked s.
Proof. reflexivity. Qed.
Lemma p_g_late_set_psig : forall s v, g_late (set_psig s v) = g_late s.
Proof. reflexivity. Qed.
Lemma p_w_req_set_psig : forall s v, w_req (set_psig s v) = w_req s.
Proof. reflexivity. Qed.
Lemma p_w_seen_set_psig : forall s v, w_seen (set_psig s v) = w_seen s.
Proof. reflexivity. Qed.
Lemma p_returned_set_psig : forall s v, returned (set_psig s v) = returned s.
Proof. reflexivity. Qed.
Lemma p_hup_set_psig : forall s v, hup (set_psig s v) = hup s.
Proof. reflexivity. Qed.
Lemma p_erl_set_psig : forall s v, erl (set_psig s v) = erl s.
Proof. reflexivity. Qed.
Lemma p_slots_set_psig : forall s v, slots (set_psig s v) = slots s.
Proof. reflexivity. Qed.
Lemma p_rdy_set_psig : forall s v, rdy (set_psig s v) = rdy s.
Proof. reflexivity. Qed.
Lemma p_todo_set_psig : forall s v, todo (set_psig s v) = todo s.
Proof. reflexivity. Qed.
Lemma p_psig_set_psig : forall s v, psig (set_psig s v) = v.
Proof. reflexivity. Qed.
Lemma p_pn_set_psig : forall s v, pn (set_psig s v) = pn s.
Proof. reflexivity. Qed.
Lemma p_wkn_set_psig : forall s v, wkn (set_psig s v) = wkn s.
Proof. reflexivity. Qed.
Lemma p_g_relclose_set_psig : forall s v, g_relclose (set_psig s v) = g_relclose s.
Proof. reflexivity. Qed.
Lemma p_inp_set_psig : forall s v, inp (set_psig s v) = inp s.
Proof. reflexivity. Qed.
Lemma p_peof_set_psig : forall s v, peof (set_psig s v) = peof s.
Proof. reflexivity. Qed.
Lemma p_rdh_set_psig : forall s v, rdh (set_psig s v) = rdh s.
Proof. reflexivity. Qed.
Lemma p_tmn_set_psig : forall s v, tmn (set_psig s v) = tmn s.
Proof. reflexivity. Qed.
Lemma p_cbk_set_psig : forall s v, cbk (set_psig s v) = cbk s.
Proof. reflexivity. Qed.
Lemma p_cbs_set_psig : forall s v, cbs (set_psig s v) = cbs s.
Proof. reflexivity. Qed.
Lemma p_lfreed_set_psig : forall s v, lfreed (set_psig s v) = lfreed s.
Proof. reflexivity. Qed.
Lemma p_g_uaf_set_psig : forall s v, g_uaf (set_psig s v) = g_uaf s.
Proof. reflexivity. Qed.
Lemma p_thr_set_psig : forall s v, thr (set_psig s v) = thr s.
Proof. reflexivity. Qed.
Lemma p_cnt_set_pn : forall s v, cnt (set_pn s v) = cnt s.
Proof. reflexivity. Qed.
Lemma p_edge_set_pn : forall s v, edge (set_pn s v) = edge s.
Proof. reflexivity. Qed.
Lemma p_to_exit_set_pn : forall s v, to_exit (set_pn s v) = to_exit s.
Proof. reflexivity. Qed.
Lemma p_tidf_set_pn : forall s v, tidf (set_pn s v) = tidf s.
Proof. reflexivity. Qed.
Lemma p_created_set_pn : forall s v, created (set_pn s v) = created s.
Proof. reflexivity. Qed.
Lemma p_mtx_set_pn : forall s v, mtx (set_pn s v) = mtx s.
Proof. reflexivity. Qed.
Lemma p_queue_set_pn : forall s v, queue (set_pn s v) = queue s.
Proof. reflexivity. Qed.
Lemma p_next_id_set_pn : forall s v, next_id (set_pn s v) = next_id s.
Proof. reflexivity. Qed.
Lemma p_reg_set_pn : forall s v, reg (set_pn s v) = reg s.
Proof. reflexivity. Qed.
Lemma p_clr_set_pn : forall s v, clr (set_pn s v) = clr s.
Proof. reflexivity. Qed.
Lemma p_exitdr_set_pn : forall s v, exitdr (set_pn s v) = exitdr s.
Proof. reflexivity. Qed.
Lemma p_g_enq_set_pn : forall s v, g_enq (set_pn s v) = g_enq s.
Proof. reflexivity. Qed.
Lemma p_g_relfail_set_pn : forall s v, g_relfail (set_pn s v) = g_relfail s.
Proof. reflexivity. Qed.
Lemma p_g_relexit_set_pn : forall s v, g_relexit (set_pn s v) = g_relexit s.
Proof. reflexivity. Qed.
Lemma p_g_relclear_set_pn : forall s v, g_relclear (set_pn s v) = g_relclear s.
Proof. reflexivity. Qed.
Lemma p_g_leaked_set_pn : forall s v, g_leaked (set_pn s v) = g_leaked s.
Proof. reflexivity. Qed.
Lemma p_g_late_set_pn : forall s v, g_late (set_pn s v) = g_late s.
Proof. reflexivity. Qed.
Lemma p_w_req_set_pn : forall s v, w_req (set_pn s v) = w_req s.
Proof. reflexivity. Qed.
Lemma p_w_seen_set_pn : forall s v, w_seen (set_pn s v) = w_seen s.
Proof. reflexivity. Qed.
Lemma p_returned_set_pn : forall s v, returned (set_pn s v) = returned s.
Proof. reflexivity. Qed.
Lemma p_hup_set_pn : forall s v, hup (set_pn s v) = hup s.
Proof. reflexivity. Qed.
Lemma p_erl_set_pn : forall s v, erl (set_pn s v) = erl s.
Proof. reflexivity. Qed.
Lemma p_slots_set_pn : forall s v, slots (set_pn s v) = slots s.
Proof. reflexivity. Qed.
Lemma p_rdy_set_pn : forall s v, rdy (set_pn s v) = rdy s.
Proof. reflexivity. Qed.
Lemma p_todo_set_pn : forall s v, todo (set_pn s v) = todo s.
Proof. reflexivity. Qed.
Lemma p_psig_set_pn : forall s v, psig (set_pn s v) = psig s.
Proof. reflexivity. Qed.
Lemma p_pn_set_pn : forall s v, pn (set_pn s v) = v.
Proof. reflexivity. Qed.
Lemma p_wkn_set_pn : forall s v, wkn (set_pn s v) = wkn s.
Proof. reflexivity. Qed.
Lemma p_g_relclose_set_pn : forall s v, g_relclose (set_pn s v) = g_relclose s.
Proof. reflexivity. Qed.
Lemma p_inp_set_pn : forall s v, inp (set_pn s v) = inp s.
Proof. reflexivity. Qed.
Lemma p_peof_set_pn : forall s v, peof (set_pn s v) = peof s.
Proof. reflexivity. Qed.
Lemma p_rdh_set_pn : forall s v, rdh (set_pn s v) = rdh s.
Proof. reflexivity. Qed.
Lemma p_tmn_set_pn : forall s v, tmn (set_pn s v) = tmn s.
Proof. reflexivity. Qed.
Lemma p_cbk_set_pn : forall s v, cbk (set_pn s v) = cbk s.
Proof. reflexivity. Qed.
Lemma p_cbs_set_pn : forall s v, cbs (set_pn s v) = cbs s.
Proof. reflexivity. Qed.
Lemma p_lfreed_set_pn : forall s v, lfreed (set_pn s v) = lfreed s.
Proof. reflexivity. Qed.
Lemma p_g_uaf_set_pn : forall s v, g_uaf (set_pn s v) = g_uaf s.
Proof. reflexivity. Qed.
Lemma p_thr_set_pn : forall s v, thr (set_pn s v) = thr s.
Proof. reflexivity. Qed.
Lemma p_cnt_set_wkn : forall s v, cnt (set_wkn s v) = cnt s.
Proof. reflexivity. Qed.
Lemma p_edge_set_wkn : forall s v, edge (set_wkn s v) = edge s.
Proof. reflexivity. Qed.
Lemma p_to_exit_set_wkn : forall s v, to_exit (set_wkn s v) = to_exit s.
Proof. reflexivity. Qed.
Lemma p_tidf_set_wkn : forall s v, tidf (set_wkn s v) = tidf s.
Proof. reflexivity. Qed.
Lemma p_created_set_wkn : forall s v, created (set_wkn s v) = created s.
Proof. reflexivity. Qed.
Lemma p_mtx_set_wkn : forall s v, mtx (set_wkn s v) = mtx s.
Proof. reflexivity. Qed.
Lemma p_queue_set_wkn : forall s v, queue (set_wkn s v) = queue s.
Proof. reflexivity. Qed.
Lemma p_next_id_set_wkn : forall s v, next_id (set_wkn s v) = next_id s.
Proof. reflexivity. Qed.
Lemma p_reg_set_wkn : forall s v, reg (set_wkn s v) = reg s.
Proof. reflexivity. Qed.
Lemma p_clr_set_wkn : forall s v, clr (set_wkn s v) = clr s.
Proof. reflexivity. Qed.
Lemma p_exitdr_set_wkn : forall s v, exitdr (set_wkn s v) = exitdr s.
Proof. reflexivity. Qed.
Lemma p_g_enq_set_wkn : forall s v, g_enq (set_wkn s v) = g_enq s.
Proof. reflexivity. Qed.
Lemma p_g_relfail_set_wkn : forall s v, g_relfail (set_wkn s v) = g_relfail s.
Proof. reflexivity. Qed.
Lemma p_g_relexit_set_wkn : forall s v, g_relexit (set_wkn s v) = g_relexit s.
Proof. reflexivity. Qed.
Lemma p_g_relclear_set_wkn : forall s v, g_relclear (set_wkn s v) = g_relclear s.
Proof. reflexivity. Qed.
Lemma p_g_leaked_set_wkn : forall s v, g_leaked (set_wkn s v) = g_leaked s.
Proof. reflexivity. Qed.
Lemma p_g_late_set_wkn : forall s v, g_late (set_wkn s v) = g_late s.
Proof. reflexivity. Qed.
Lemma p_w_req_set_wkn : forall s v, w_req (set_wkn s v) = w_req s.
Proof. reflexivity. Qed.
Lemma p_w_seen_set_wkn : forall s v, w_seen (set_wkn s v) = w_seen s.
Proof. reflexivity. Qed.
Lemma p_returned_set_wkn : forall s v, returned (set_wkn s v) = returned s.
Proof. reflexivity. Qed.
Lemma p_hup_set_wkn : forall s v, hup (set_wkn s v) = hup s.
Proof. reflexivity. Qed.
Lemma p_erl_set_wkn : forall s v, erl (set_wkn s v) = erl s.
Proof. reflexivity. Qed.
Lemma p_slots_set_wkn : forall s v, slots (set_wkn s v) = slots s.
Proof. reflexivity. Qed.
Lemma p_rdy_set_wkn : forall s v, rdy (set_wkn s v) = rdy s.
Proof. reflexivity. Qed.
Lemma p_todo_set_wkn : forall s v, todo (set_wkn s v) = todo s.
Proof. reflexivity. Qed.
Lemma p_psig_set_wkn : forall s v, psig (set_wkn s v) = psig s.
Proof. reflexivity. Qed.
Lemma p_pn_set_wkn : forall s v, pn (set_wkn s v) = pn s.
Proof. reflexivity. Qed.
Lemma p_wkn_set_wkn : forall s v, wkn (set_wkn s v) = v.
Proof. reflexivity. Qed.
Lemma p_g_relclose_set_wkn : forall s v, g_relclose (set_wkn s v) = g_relclose s.
Proof. reflexivity. Qed.
Lemma p_inp_set_wkn : forall s v, inp (set_wkn s v) = inp s.
Proof. reflexivity. Qed.
Lemma p_peof_set_wkn : forall s v, peof (set_wkn s v) = peof s.
Proof. reflexivity. Qed.
Lemma p_rdh_set_wkn : forall s v, rdh (set_wkn s v) = rdh s.
Proof. reflexivity. Qed.
Lemma p_tmn_set_wkn : forall s v, tmn (set_wkn s v) = tmn s.
Proof. reflexivity. Qed.
Lemma p_cbk_set_wkn : forall s v, cbk (set_wkn s v) = cbk s.
Proof. reflexivity. Qed.
Lemma p_cbs_set_wkn : forall s v, cbs (set_wkn s v) = cbs s.
Proof. reflexivity. Qed.
Lemma p_lfreed_set_wkn : forall s v, lfreed (set_wkn s v) = lfreed s.
Proof. reflexivity. Qed.
Lemma p_g_uaf_set_wkn : forall s v, g_uaf (set_wkn s v) = g_uaf s.
Proof. reflexivity. Qed.
Lemma p_thr_set_wkn : forall s v, thr (set_wkn s v) = thr s.
Proof. reflexivity. Qed.
Lemma p_cnt_set_g_relclose : forall s v, cnt (set_g_relclose s v) = cnt s.
Proof. reflexivity. Qed.
Lemma p_edge_set_g_relclose : forall s v, edge (set_g_relclose s v) = edge s.
Proof. reflexivity. Qed.
Lemma p_to_exit_set_g_relclose : forall s v, to_exit (set_g_relclose s v) = to_exit s.
Proof. reflexivity. Qed.
Lemma p_tidf_set_g_relclose : forall s v, tidf (set_g_relclose s v) = tidf s.
Proof. reflexivity. Qed.
Lemma p_created_set_g_relclose : forall s v, created (set_g_relclose s v) = created s.
Proof. reflexivity. Qed.
Lemma p_mtx_set_g_relclose : forall s v, mtx (set_g_relclose s v) = mtx s.
Proof. reflexivity. Qed.
Lemma p_queue_set_g_relclose : forall s v, queue (set_g_relclose s v) = queue s.
Proof. reflexivity. Qed.
Lemma p_next_id_set_g_relclose : forall s v, next_id (set_g_relclose s v) = next_id s.
Proof. reflexivity. Qed.
Lemma p_reg_set_g_relclose : forall s v, reg (set_g_relclose s v) = reg s.
Proof. reflexivity. Qed.
Lemma p_clr_set_g_relclose : forall s v, clr (set_g_relclose s v) = clr s.
Proof. reflexivity. Qed.
Lemma p_exitdr_set_g_relclose : forall s v, exitdr (set_g_relclose s v) = exitdr s.
Proof. reflexivity. Qed.
Lemma p_g_enq_set_g_relclose : forall s v, g_enq (set_g_relclose s v) = g_enq s.
Proof. reflexivity. Qed.
Lemma p_g_relfail_set_g_relclose : forall s v, g_relfail (set_g_relclose s v) = g_relfail s.
Proof. reflexivity. Qed.
Lemma p_g_relexit_set_g_relclose : forall s v, g_relexit (set_g_relclose s v) = g_relexit s.
Proof. reflexivity. Qed.
Lemma p_g_relclear_set_g_relclose : forall s v, g_relclear (set_g_relclose s v) = g_relclear s.
Proof. reflexivity. Qed.
Lemma p_g_leaked_set_g_relclose : forall s v, g_leaked (set_g_relclose s v) = g_leaked s.
Proof. reflexivity. Qed.
Lemma p_g_late_set_g_relclose : forall s v, g_late (set_g_relclose s v) = g_late s.
Proof. reflexivity. Qed.
Lemma p_w_req_set_g_relclose : forall s v, w_req (set_g_relclose s v) = w_req s.
Proof. reflexivity. Qed.
Lemma p_w_seen_set_g_relclose : forall s v, w_seen (set_g_relclose s v) = w_seen s.
Proof. reflexivity. Qed.
Lemma p_returned_set_g_relclose : forall s v, returned (set_g_relclose s v) = returned s.
Proof. reflexivity. Qed.
Lemma p_hup_set_g_relclose : forall s v, hup (set_g_relclose s v) = hup s.
Proof. reflexivity. Qed.
Lemma p_erl_set_g_relclose : forall s v, erl (set_g_relclose s v) = erl s.
Proof. reflexivity. Qed.
Lemma p_slots_set_g_relclose : forall s v, slots (set_g_relclose s v) = slots s.
Proof. reflexivity. Qed.
Lemma p_rdy_set_g_relclose : forall s v, rdy (set_g_relclose s v) = rdy s.
Proof. reflexivity. Qed.
Lemma p_todo_set_g_relclose : forall s v, todo (set_g_relclose s v) = todo s.
Proof. reflexivity. Qed.
Lemma p_psig_set_g_relclose : forall s v, psig (set_g_relclose s v) = psig s.
Proof. reflexivity. Qed.
Lemma p_pn_set_g_relclose : forall s v, pn (set_g_relclose s v) = pn s.
Proof. reflexivity. Qed.
Lemma p_wkn_set_g_relclose : forall s v, wkn (set_g_relclose s v) = wkn s.
Proof. reflexivity. Qed.
Lemma p_g_relclose_set_g_relclose : forall s v, g_relclose (set_g_relclose s v) = v.
Proof. reflexivity. Qed.
Lemma p_inp_set_g_relclose : forall s v, inp (set_g_relclose s v) = inp s.
Proof. reflexivity. Qed.
Lemma p_peof_set_g_relclose : forall s v, peof (set_g_relclose s v) = peof s.
Proof. reflexivity. Qed.
Lemma p_rdh_set_g_relclose : forall s v, rdh (set_g_relclose s v) = rdh s.
Proof. reflexivity. Qed.
Lemma p_tmn_set_g_relclose : forall s v, tmn (set_g_relclose s v) = tmn s.
Proof. reflexivity. Qed.
Lemma p_cbk_set_g_relclose : forall s v, cbk (set_g_relclose s v) = cbk s.
Proof. reflexivity. Qed.
Lemma p_cbs_set_g_relclose : forall s v, cbs (set_g_relclose s v) = cbs s.
Proof. reflexivity. Qed.
Lemma p_lfreed_set_g_relclose : forall s v, lfreed (set_g_relclose s v) = lfreed s.
Proof. reflexivity. Qed.
Lemma p_g_uaf_set_g_relclose : forall s v, g_uaf (set_g_relclose s v) = g_uaf s.
Proof. reflexivity. Qed.
Lemma p_thr_set_g_relclose : forall s v, thr (set_g_relclose s v) = thr s.
Proof. reflexivity. Qed.
Lemma p_cnt_set_inp : forall s v, cnt (set_inp s v) = cnt s.
Proof. reflexivity. Qed.
Lemma p_edge_set_inp : forall s v, edge (set_inp s v) = edge s.
Proof. reflexivity. Qed.
Lemma p_to_exit_set_inp : forall s v, to_exit (set_inp s v) = to_exit s.
Proof. reflexivity. Qed.
Lemma p_tidf_set_inp : forall s v, tidf (set_inp s v) = tidf s.
Proof. reflexivity. Qed.
Lemma p_created_set_inp : forall s v, created (set_inp s v) = created s.
Proof. reflexivity. Qed.
Lemma p_mtx_set_inp : forall s v, mtx (set_inp s v) = mtx s.
Proof. reflexivity. Qed.
Lemma p_queue_set_inp : forall s v, queue (set_inp s v) = queue s.
Proof. reflexivity. Qed.
Lemma p_next_id_set_inp : forall s v, next_id (set_inp s v) = next_id s.
Proof. reflexivity. Qed.
Lemma p_reg_set_inp : forall s v, reg (set_inp s v) = reg s.
Proof. reflexivity. Qed.
Lemma p_clr_set_inp : forall s v, clr (set_inp s v) = clr s.
Proof. reflexivity. Qed.
Lemma p_exitdr_set_inp : forall s v, exitdr (set_inp s v) = exitdr s.
Proof. reflexivity. Qed.
Lemma p_g_enq_set_inp : forall s v, g_enq (set_inp s v) = g_enq s.
Proof. reflexivity. Qed.
Lemma p_g_relfail_set_inp : forall s v, g_relfail (set_inp s v) = g_relfail s.
Proof. reflexivity. Qed.
Lemma p_g_relexit_set_inp : forall s v, g_relexit (set_inp s v) = g_relexit s.
Proof. reflexivity. Qed.
Lemma p_g_relclear_set_inp : forall s v, g_relclear (set_inp s v) = g_relclear s.
Proof. reflexivity. Qed.
Lemma p_g_leaked_set_inp : forall s v, g_leaked (set_inp s v) = g_leaked s.
Proof. reflexivity. Qed.
Lemma p_g_late_set_inp : forall s v, g_late (set_inp s v) = g_late s.
Proof. reflexivity. Qed.
Lemma p_w_req_set_inp : forall s v, w_req (set_inp s v) = w_req s.
Proof. reflexivity. Qed.
Lemma p_w_seen_set_inp : forall s v, w_seen (set_inp s v) = w_seen s.
Proof. reflexivity. Qed.
Lemma p_returned_set_inp : forall s v, returned (set_inp s v) = returned s.
Proof. reflexivity. Qed.
Lemma p_hup_set_inp : forall s v, hup (set_inp s v) = hup s.
Proof. reflexivity. Qed.
Lemma p_erl_set_inp : forall s v, erl (set_inp s v) = erl s.
Proof. reflexivity. Qed.
Lemma p_slots_set_inp : forall s v, slots (set_inp s v) = slots s.
Proof. reflexivity. Qed.
Lemma p_rdy_set_inp : forall s v, rdy (set_inp s v) = rdy s.
Proof. reflexivity. Qed.
Lemma p_todo_set_inp : forall s v, todo (set_inp s v) = todo s.
Proof. reflexivity. Qed.
Lemma p_psig_set_inp : forall s v, psig (set_inp s v) = psig s.
Proof. reflexivity. Qed.
Lemma p_pn_set_inp : forall s v, pn (set_inp s v) = pn s.
Proof. reflexivity. Qed.
Lemma p_wkn_set_inp : forall s v, wkn (set_inp s v) = wkn s.
Proof. reflexivity. Qed.
Lemma p_g_relclose_set_inp : forall s v, g_relclose (set_inp s v) = g_relclose s.
Proof. reflexivity. Qed.
Lemma p_inp_set_inp : forall s v, inp (set_inp s v) = v.
Proof. reflexivity. Qed.
Lemma p_peof_set_inp : forall s v, peof (set_inp s v) = peof s.
Proof. reflexivity. Qed.
Lemma p_rdh_set_inp : forall s v, rdh (set_inp s v) = rdh s.
Proof. reflexivity. Qed.
Lemma p_tmn_set_inp : forall s v, tmn (set_inp s v) = tmn s.
Proof. reflexivity. Qed.
Lemma p_cbk_set_inp : forall s v, cbk (set_inp s v) = cbk s.
Proof. reflexivity. Qed.
Lemma p_cbs_set_inp : forall s v, cbs (set_inp s v) = cbs s.
Proof. reflexivity. Qed.
Lemma p_lfreed_set_inp : forall s v, lfreed (set_inp s v) = lfreed s.
Proof. reflexivity. Qed.
Lemma p_g_uaf_set_inp : forall s v, g_uaf (set_inp s v) = g_uaf s.
Proof. reflexivity. Qed.
Lemma p_thr_set_inp : forall s v, thr (set_inp s v) = thr s.
Proof. reflexivity. Qed.
Lemma p_cnt_set_peof : forall s v, cnt (set_peof s v) = cnt s.
Proof. reflexivity. Qed.
Lemma p_edge_set_peof : forall s v, edge (set_peof s v) = edge s.
Proof. reflexivity. Qed.
Lemma p_to_exit_set_peof : forall s v, to_exit (set_peof s v) = to_exit s.
Proof. reflexivity. Qed.
Lemma p_tidf_set_peof : forall s v, tidf (set_peof s v) = tidf s.
Proof. reflexivity. Qed.
Lemma p_created_set_peof : forall s v, created (set_peof s v) = created s.
Proof. reflexivity. Qed.
Lemma p_mtx_set_peof : forall s v, mtx (set_peof s v) = mtx s.
Proof. reflexivity. Qed.
Lemma p_queue_set_peof : forall s v, queue (set_peof s v) = queue s.
Proof. reflexivity. Qed.
Lemma p_next_id_set_peof : forall s v, next_id (set_peof s v) = next_id s.
Proof. reflexivity. Qed.
Lemma p_reg_set_peof : forall s v, reg (set_peof s v) = reg s.
Proof. reflexivity. Qed.
Lemma p_clr_set_peof : forall s v, clr (set_peof s v) = clr s.
Proof. reflexivity. Qed.
Lemma p_exitdr_set_peof : forall s v, exitdr (set_peof s v) = exitdr s.
Proof. reflexivity. Qed.
Lemma p_g_enq_set_peof : forall s v, g_enq (set_peof s v) = g_enq s.
Proof. reflexivity. Qed.
Lemma p_g_relfail_set_peof : forall s v, g_relfail (set_peof s v) = g_relfail s.
Proof. reflexivity. Qed.
Lemma p_g_relexit_set_peof : forall s v, g_relexit (set_peof s v) = g_relexit s.
Proof. reflexivity. Qed.
Lemma p_g_relclear_set_peof : forall s v, g_relclear (set_peof s v) = g_relclear s.
Proof. reflexivity. Qed.
Lemma p_g_leaked_set_peof : forall s v, g_leaked (set_peof s v) = g_leaked s.
Proof. reflexivity. Qed.
Lemma p_g_late_set_peof : forall s v, g_late (set_peof s v) = g_late s.
Proof. reflexivity. Qed.
Lemma p_w_req_set_peof : forall s v, w_req (set_peof s v) = w_req s.
Proof. reflexivity. Qed.
Lemma p_w_seen_set_peof : forall s v, w_seen (set_peof s v) = w_seen s.
Proof. reflexivity. Qed.
Lemma p_returned_set_peof : forall s v, returned (set_peof s v) = returned s.
Proof. reflexivity. Qed.
Lemma p_hup_set_peof : forall s v, hup (set_peof s v) = hup s.
Proof. reflexivity. Qed.
Lemma p_erl_set_peof : forall s v, erl (set_peof s v) = erl s.
Proof. reflexivity. Qed.
Lemma p_slots_set_peof : forall s v, slots (set_peof s v) = slots s.
Proof. reflexivity. Qed.
Lemma p_rdy_set_peof : forall s v, rdy (set_peof s v) = rdy s.
Proof. reflexivity. Qed.
Lemma p_todo_set_peof : forall s v, todo (set_peof s v) = todo s.
Proof. reflexivity. Qed.
Lemma p_psig_set_peof : forall s v, psig (set_peof s v) = psig s.
Proof. reflexivity. Qed.
Lemma p_pn_set_peof : forall s v, pn (set_peof s v) = pn s.
Proof. reflexivity. Qed.
Lemma p_wkn_set_peof : forall s v, wkn (set_peof s v) = wkn s.
Proof. reflexivity. Qed.
Lemma p_g_relclose_set_peof : forall s v, g_relclose (set_peof s v) = g_relclose s.
Proof. reflexivity. Qed.
Lemma p_inp_set_peof : forall s v, inp (set_peof s v) = inp s.
Proof. reflexivity. Qed.
Lemma p_peof_set_peof : forall s v, peof (set_peof s v) = v.
Proof. reflexivity. Qed.
Lemma p_rdh_set_peof : forall s v, rdh (set_peof s v) = rdh s.
Proof. reflexivity. Qed.
Lemma p_tmn_set_peof : forall s v, tmn (set_peof s v) = tmn s.
Proof. reflexivity. Qed.
Lemma p_cbk_set_peof : forall s v, cbk (set_peof s v) = cbk s.
Proof. reflexivity. Qed.
Lemma p_cbs_set_peof : forall s v, cbs (set_peof s v) = cbs s.
Proof. reflexivity. Qed.
Lemma p_lfreed_set_peof : forall s v, lfreed (set_peof s v) = lfreed s.
Proof. reflexivity. Qed.
Lemma p_g_uaf_set_peof : forall s v, g_uaf (set_peof s v) = g_uaf s.
Proof. reflexivity. Qed.
Lemma p_thr_set_peof : forall s v, thr (set_peof s v) = thr s.
Proof. reflexivity. Qed.
Lemma p_cnt_set_rdh : forall s v, cnt (set_rdh s v) = cnt s.
Proof. reflexivity. Qed.
Lemma p_edge_set_rdh : forall s v, edge (set_rdh s v) = edge s.
Proof. reflexivity. Qed.
Lemma p_to_exit_set_rdh : forall s v, to_exit (set_rdh s v) = to_exit s.
Proof. reflexivity. Qed.
Lemma p_tidf_set_rdh : forall s v, tidf (set_rdh s v) = tidf s.
Proof. reflexivity. Qed.
Lemma p_created_set_rdh : forall s v, created (set_rdh s v) = created s.
Proof. reflexivity. Qed.
Lemma p_mtx_set_rdh : forall s v, mtx (set_rdh s v) = mtx s.
Proof. reflexivity. Qed.
Lemma p_queue_set_rdh : forall s v, queue (set_rdh s v) = queue s.
Proof. reflexivity. Qed.
Lemma p_next_id_set_rdh : forall s v, next_id (set_rdh s v) = next_id s.
Proof. reflexivity. Qed.
Lemma p_reg_set_rdh : forall s v, reg (set_rdh s v) = reg s.
Proof. reflexivity. Qed.
Lemma p_clr_set_rdh : forall s v, clr (set_rdh s v) = clr s.
Proof. reflexivity. Qed.
Lemma p_exitdr_set_rdh : forall s v, exitdr (set_rdh s v) = exitdr s.
Proof. reflexivity. Qed.
Lemma p_g_enq_set_rdh : forall s v, g_enq (set_rdh s v) = g_enq s.
Proof. reflexivity. Qed.
Lemma p_g_relfail_set_rdh : forall s v, g_relfail (set_rdh s v) = g_relfail s.
Proof. reflexivity. Qed.
Lemma p_g_relexit_set_rdh : forall s v, g_relexit (set_rdh s v) = g_relexit s.
Proof. reflexivity. Qed.
Lemma p_g_relclear_set_rdh : forall s v, g_relclear (set_rdh s v) = g_relclear s.
Proof. reflexivity. Qed.
Lemma p_g_leaked_set_rdh : forall s v, g_leaked (set_rdh s v) = g_leaked s.
Proof. reflexivity. Qed.
Lemma p_g_late_set_rdh : forall s v, g_late (set_rdh s v) = g_late s.
Proof. reflexivity. Qed.
Lemma p_w_req_set_rdh : forall s v, w_req (set_rdh s v) = w_req s.
Proof. reflexivity. Qed.
Lemma p_w_seen_set_rdh : forall s v, w_seen (set_rdh s v) = w_seen s.
Proof. reflexivity. Qed.
Lemma p_returned_set_rdh : forall s v, returned (set_rdh s v) = returned s.
Proof. reflexivity. Qed.
Lemma p_hup_set_rdh : forall s v, hup (set_rdh s v) = hup s.
Proof. reflexivity. Qed.
Lemma p_erl_set_rdh : forall s v, erl (set_rdh s v) = erl s.
Proof. reflexivity. Qed.
Lemma p_slots_set_rdh : forall s v, slots (set_rdh s v) = slots s.
Proof. reflexivity. Qed.
Lemma p_rdy_set_rdh : forall s v, rdy (set_rdh s v) = rdy s.
Proof. reflexivity. Qed.
Lemma p_todo_set_rdh : forall s v, todo (set_rdh s v) = todo s.
Proof. reflexivity. Qed.
Lemma p_psig_set_rdh : forall s v, psig (set_rdh s v) = psig s.
Proof. reflexivity. Qed.
Lemma p_pn_set_rdh : forall s v, pn (set_rdh s v) = pn s.
Proof. reflexivity. Qed.
Lemma p_wkn_set_rdh : forall s v, wkn (set_rdh s v) = wkn s.
Proof. reflexivity. Qed.
Lemma p_g_relclose_set_rdh : forall s v, g_relclose (set_rdh s v) = g_relclose s.
Proof. reflexivity. Qed.
Lemma p_inp_set_rdh : forall s v, inp (set_rdh s v) = inp s.
Proof. reflexivity. Qed.
Lemma p_peof_set_rdh : forall s v, peof (set_rdh s v) = peof s.
Proof. reflexivity. Qed.
Lemma p_rdh_set_rdh : forall s v, rdh (set_rdh s v) = v.
Proof. reflexivity. Qed.
Lemma p_tmn_set_rdh : forall s v, tmn (set_rdh s v) = tmn s.
Proof. reflexivity. Qed.
Lemma p_cbk_set_rdh : forall s v, cbk (set_rdh s v) = cbk s.
Proof. reflexivity. Qed.
Lemma p_cbs_set_rdh : forall s v, cbs (set_rdh s v) = cbs s.
Proof. reflexivity. Qed.
Lemma p_lfreed_set_rdh : forall s v, lfreed (set_rdh s v) = lfreed s.
Proof. reflexivity. Qed.
Lemma p_g_uaf_set_rdh : forall s v, g_uaf (set_rdh s v) = g_uaf s.
Proof. reflexivity. Qed.
Lemma p_thr_set_rdh : forall s v, thr (set_rdh s v) = thr s.
Proof. reflexivity. Qed.
Lemma p_cnt_set_tmn : forall s v, cnt (set_tmn s v) = cnt s.
Proof. reflexivity. Qed.
Lemma p_edge_set_tmn : forall s v, edge (set_tmn s v) = edge s.
Proof. reflexivity. Qed.
Lemma p_to_exit_set_tmn : forall s v, to_exit (set_tmn s v) = to_exit s.
Proof. reflexivity. Qed.
Lemma p_tidf_set_tmn : forall s v, tidf (set_tmn s v) = tidf s.
Proof. reflexivity. Qed.
Lemma p_created_set_tmn : forall s v, created (set_tmn s v) = created s.
Proof. reflexivity. Qed.
Lemma p_mtx_set_tmn : forall s v, mtx (set_tmn s v) = mtx s.
Proof. reflexivity. Qed.
Lemma p_queue_set_tmn : forall s v, queue (set_tmn s v) = queue s.
Proof. reflexivity. Qed.
Lemma p_next_id_set_tmn : forall s v, next_id (set_tmn s v) = next_id s.
Proof. reflexivity. Qed.
Lemma p_reg_set_tmn : forall s v, reg (set_tmn s v) = reg s.
Proof. reflexivity. Qed.
Lemma p_clr_set_tmn : forall s v, clr (set_tmn s v) = clr s.
Proof. reflexivity. Qed.
Lemma p_exitdr_set_tmn : forall s v, exitdr (set_tmn s v) = exitdr s.
Proof. reflexivity. Qed.
Lemma p_g_enq_set_tmn : forall s v, g_enq (set_tmn s v) = g_enq s.
Proof. reflexivity. Qed.
Lemma p_g_relfail_set_tmn : forall s v, g_relfail (set_tmn s v) = g_relfail s.
Proof. reflexivity. Qed.
Lemma p_g_relexit_set_tmn : forall s v, g_relexit (set_tmn s v) = g_relexit s.
Proof. reflexivity. Qed.
Lemma p_g_relclear_set_tmn : forall s v, g_relclear (set_tmn s v) = g_relclear s.
Proof. reflexivity. Qed.
Lemma p_g_leaked_set_tmn : forall s v, g_leaked (set_tmn s v) = g_leaked s.
Proof. reflexivity. Qed.
Lemma p_g_late_set_tmn : forall s v, g_late (set_tmn s v) = g_late s.
Proof. reflexivity. Qed.
Lemma p_w_req_set_tmn : forall s v, w_req (set_tmn s v) = w_req s.
Proof. reflexivity. Qed.
Lemma p_w_seen_set_tmn : forall s v, w_seen (set_tmn s v) = w_seen s.
Proof. reflexivity. Qed.
Lemma p_returned_set_tmn : forall s v, returned (set_tmn s v) = returned s.
Proof. reflexivity. Qed.
Lemma p_hup_set_tmn : forall s v, hup (set_tmn s v) = hup s.
Proof. reflexivity. Qed.
Lemma p_erl_set_tmn : forall s v, erl (set_tmn s v) = erl s.
Proof. reflexivity. Qed.
Lemma p_slots_set_tmn : forall s v, slots (set_tmn s v) = slots s.
Proof. reflexivity. Qed.
Lemma p_rdy_set_tmn : forall s v, rdy (set_tmn s v) = rdy s.
Proof. reflexivity. Qed.
Lemma p_todo_set_tmn : forall s v, todo (set_tmn s v) = todo s.
Proof. reflexivity. Qed.
Lemma p_psig_set_tmn : forall s v, psig (set_tmn s v) = psig s.
Proof. reflexivity. Qed.
Lemma p_pn_set_tmn : forall s v, pn (set_tmn s v) = pn s.
Proof. reflexivity. Qed.
Lemma p_wkn_set_tmn : forall s v, wkn (set_tmn s v) = wkn s.
Proof. reflexivity. Qed.
Lemma p_g_relclose_set_tmn : forall s v, g_relclose (set_tmn s v) = g_relclose s.
Proof. reflexivity. Qed.
Lemma p_inp_set_tmn : forall s v, inp (set_tmn s v) = inp s.
Proof. reflexivity. Qed.
Lemma p_peof_set_tmn : forall s v, peof (set_tmn s v) = peof s.
Proof. reflexivity. Qed.
Lemma p_rdh_set_tmn : forall s v, rdh (set_tmn s v) = rdh s.
Proof. reflexivity. Qed.
Lemma p_tmn_set_tmn : forall s v, tmn (set_tmn s v) = v.
Proof. reflexivity. Qed.
Lemma p_cbk_set_tmn : forall s v, cbk (set_tmn s v) = cbk s.
Proof. reflexivity. Qed.
Lemma p_cbs_set_tmn : forall s v, cbs (set_tmn s v) = cbs s.
Proof. reflexivity. Qed.
Lemma p_lfreed_set_tmn : forall s v, lfreed (set_tmn s v) = lfreed s.
Proof. reflexivity. Qed.
Lemma p_g_uaf_set_tmn : forall s v, g_uaf (set_tmn s v) = g_uaf s.
Proof. reflexivity. Qed.
Lemma p_thr_set_tmn : forall s v, thr (set_tmn s v) = thr s.
Proof. reflexivity. Qed.
Lemma p_cnt_set_cbk : forall s v, cnt (set_cbk s v) = cnt s.
Proof. reflexivity. Qed.
Lemma p_edge_set_cbk : forall s v, edge (set_cbk s v) = edge s.
Proof. reflexivity. Qed.
Lemma p_to_exit_set_cbk : forall s v, to_exit (set_cbk s v) = to_exit s.
Proof. reflexivity. Qed.
Lemma p_tidf_set_cbk : forall s v, tidf (set_cbk s v) = tidf s.
Proof. reflexivity. Qed.
Lemma p_created_set_cbk : forall s v, created (set_cbk s v) = created s.
Proof. reflexivity. Qed.
Lemma p_mtx_set_cbk : forall s v, mtx (set_cbk s v) = mtx s.
Proof. reflexivity. Qed.
Lemma p_queue_set_cbk : forall s v, queue (set_cbk s v) = queue s.
Proof. reflexivity. Qed.
Lemma p_next_id_set_cbk : forall s v, next_id (set_cbk s v) = next_id s.
Proof. reflexivity. Qed.
Lemma p_reg_set_cbk : forall s v, reg (set_cbk s v) = reg s.
Proof. reflexivity. Qed.
Lemma p_clr_set_cbk : forall s v, clr (set_cbk s v) = clr s.
Proof. reflexivity. Qed.
Lemma p_exitdr_set_cbk : forall s v, exitdr (set_cbk s v) = exitdr s.
Proof. reflexivity. Qed.
Lemma p_g_enq_set_cbk : forall s v, g_enq (set_cbk s v) = g_enq s.
Proof. reflexivity. Qed.
Lemma p_g_relfail_set_cbk : forall s v, g_relfail (set_cbk s v) = g_relfail s.
Proof. reflexivity. Qed.
Lemma p_g_relexit_set_cbk : forall s v, g_relexit (set_cbk s v) = g_relexit s.
Proof. reflexivity. Qed.
Lemma p_g_relclear_set_cbk : forall s v, g_relclear (set_cbk s v) = g_relclear s.
Proof. reflexivity. Qed.
Lemma p_g_leaked_set_cbk : forall s v, g_leaked (set_cbk s v) = g_leaked s.
Proof. reflexivity. Qed.
Lemma p_g_late_set_cbk : forall s v, g_late (set_cbk s v) = g_late s.
Proof. reflexivity. Qed.
Lemma p_w_req_set_cbk : forall s v, w_req (set_cbk s v) = w_req s.
Proof. reflexivity. Qed.
Lemma p_w_seen_set_cbk : forall s v, w_seen (set_cbk s v) = w_seen s.
Proof. reflexivity. Qed.
Lemma p_returned_set_cbk : forall s v, returned (set_cbk s v) = returned s.
Proof. reflexivity. Qed.
Lemma p_hup_set_cbk : forall s v, hup (set_cbk s v) = hup s.
Proof. reflexivity. Qed.
Lemma p_erl_set_cbk : forall s v, erl (set_cbk s v) = erl s.
Proof. reflexivity. Qed.
Lemma p_slots_set_cbk : forall s v, slots (set_cbk s v) = slots s.
Proof. reflexivity. Qed.
Lemma p_rdy_set_cbk : forall s v, rdy (set_cbk s v) = rdy s.
Proof. reflexivity. Qed.
Lemma p_todo_set_cbk : forall s v, todo (set_cbk s v) = todo s.
Proof. reflexivity. Qed.
Lemma p_psig_set_cbk : forall s v, psig (set_cbk s v) = psig s.
Proof. reflexivity. Qed.
Lemma p_pn_set_cbk : forall s v, pn (set_cbk s v) = pn s.
Proof. reflexivity. Qed.
Lemma p_wkn_set_cbk : forall s v, wkn (set_cbk s v) = wkn s.
Proof. reflexivity. Qed.
Lemma p_g_relclose_set_cbk : forall s v, g_relclose (set_cbk s v) = g_relclose s.
Proof. reflexivity. Qed.
Lemma p_inp_set_cbk : forall s v, inp (set_cbk s v) = inp s.
Proof. reflexivity. Qed.
Lemma p_peof_set_cbk : forall s v, peof (set_cbk s v) = peof s.
Proof. reflexivity. Qed.
Lemma p_rdh_set_cbk : forall s v, rdh (set_cbk s v) = rdh s.
Proof. reflexivity. Qed.
Lemma p_tmn_set_cbk : forall s v, tmn (set_cbk s v) = tmn s.
Proof. reflexivity. Qed.
Lemma p_cbk_set_cbk : forall s v, cbk (set_cbk s v) = v.
Proof. reflexivity. Qed.
Lemma p_cbs_set_cbk : forall s v, cbs (set_cbk s v) = cbs s.
Proof. reflexivity. Qed.
Lemma p_lfreed_set_cbk : forall s v, lfreed (set_cbk s v) = lfreed s.
Proof. reflexivity. Qed.
Lemma p_g_uaf_set_cbk : forall s v, g_uaf (set_cbk s v) = g_uaf s.
Proof. reflexivity. Qed.
Lemma p_thr_set_cbk : forall s v, thr (set_cbk s v) = thr s.
Proof. reflexivity. Qed.
Lemma p_cnt_set_cbs : forall s v, cnt (set_cbs s v) = cnt s.
Proof. reflexivity. Qed.
Lemma p_edge_set_cbs : forall s v, edge (set_cbs s v) = edge s.
Proof. reflexivity. Qed.
Lemma p_to_exit_set_cbs : forall s v, to_exit (set_cbs s v) = to_exit s.
Proof. reflexivity. Qed.
Lemma p_tidf_set_cbs : forall s v, tidf (set_cbs s v) = tidf s.
Proof. reflexivity. Qed.
Lemma p_created_set_cbs : forall s v, created (set_cbs s v) = created s.
Proof. reflexivity. Qed.
Lemma p_mtx_set_cbs : forall s v, mtx (set_cbs s v) = mtx s.
Proof. reflexivity. Qed.
Lemma p_queue_set_cbs : forall s v, queue (set_cbs s v) = queue s.
Proof. reflexivity. Qed.
Lemma p_next_id_set_cbs : forall s v, next_id (set_cbs s v) = next_id s.
Proof. reflexivity. Qed.
Lemma p_reg_set_cbs : forall s v, reg (set_cbs s v) = reg s.
Proof. reflexivity. Qed.
Lemma p_clr_set_cbs : forall s v, clr (set_cbs s v) = clr s.
Proof. reflexivity. Qed.
Lemma p_exitdr_set_cbs : forall s v, exitdr (set_cbs s v) = exitdr s.
Proof. reflexivity. Qed.
Lemma p_g_enq_set_cbs : forall s v, g_enq (set_cbs s v) = g_enq s.
Proof. reflexivity. Qed.
Lemma p_g_relfail_set_cbs : forall s v, g_relfail (set_cbs s v) = g_relfail s.
Proof. reflexivity. Qed.
Lemma p_g_relexit_set_cbs : forall s v, g_relexit (set_cbs s v) = g_relexit s.
Proof. reflexivity. Qed.
Lemma p_g_relclear_set_cbs : forall s v, g_relclear (set_cbs s v) = g_relclear s.
Proof. reflexivity. Qed.
Lemma p_g_leaked_set_cbs : forall s v, g_leaked (set_cbs s v) = g_leaked s.
Proof. reflexivity. Qed.
Lemma p_g_late_set_cbs : forall s v, g_late (set_cbs s v) = g_late s.
Proof. reflexivity. Qed.
Lemma p_w_req_set_cbs : forall s v, w_req (set_cbs s v) = w_req s.
Proof. reflexivity. Qed.
Lemma p_w_seen_set_cbs : forall s v, w_seen (set_cbs s v) = w_seen s.
Proof. reflexivity. Qed.
Lemma p_returned_set_cbs : forall s v, returned (set_cbs s v) = returned s.
Proof. reflexivity. Qed.
Lemma p_hup_set_cbs : forall s v, hup (set_cbs s v) = hup s.
Proof. reflexivity. Qed.
Lemma p_erl_set_cbs : forall s v, erl (set_cbs s v) = erl s.
Proof. reflexivity. Qed.
Lemma p_slots_set_cbs : forall s v, slots (set_cbs s v) = slots s.
Proof. reflexivity. Qed.
Lemma p_rdy_set_cbs : forall s v, rdy (set_cbs s v) = rdy s.
Proof. reflexivity. Qed.
Lemma p_todo_set_cbs : forall s v, todo (set_cbs s v) = todo s.
Proof. reflexivity. Qed.
Lemma p_psig_set_cbs : forall s v, psig (set_cbs s v) = psig s.
Proof. reflexivity. Qed.
Lemma p_pn_set_cbs : forall s v, pn (set_cbs s v) = pn s.
Proof. reflexivity. Qed.
Lemma p_wkn_set_cbs : forall s v, wkn (set_cbs s v) = wkn s.
Proof. reflexivity. Qed.
Lemma p_g_relclose_set_cbs : forall s v, g_relclose (set_cbs s v) = g_relclose s.
Proof. reflexivity. Qed.
Lemma p_inp_set_cbs : forall s v, inp (set_cbs s v) = inp s.
Proof. reflexivity. Qed.
Lemma p_peof_set_cbs : forall s v, peof (set_cbs s v) = peof s.
Proof. reflexivity. Qed.
Lemma p_rdh_set_cbs : forall s v, rdh (set_cbs s v) = rdh s.
Proof. reflexivity. Qed.
Lemma p_tmn_set_cbs : forall s v, tmn (set_cbs s v) = tmn s.
Proof. reflexivity. Qed.
Lemma p_cbk_set_cbs : forall s v, cbk (set_cbs s v) = cbk s.
Proof. reflexivity. Qed.
Lemma p_cbs_set_cbs : forall s v, cbs (set_cbs s v) = v.
Proof. reflexivity. Qed.
Lemma p_lfreed_set_cbs : forall s v, lfreed (set_cbs s v) = lfreed s.
Proof. reflexivity. Qed.
Lemma p_g_uaf_set_cbs : forall s v, g_uaf (set_cbs s v) = g_uaf s.
Proof. reflexivity. Qed.
Lemma p_thr_set_cbs : forall s v, thr (set_cbs s v) = thr s.
Proof. reflexivity. Qed.
Lemma p_cnt_set_lfreed : forall s v, cnt (set_lfreed s v) = cnt s.
Proof. reflexivity. Qed.
Lemma p_edge_set_lfreed : forall s v, edge (set_lfreed s v) = edge s.
Proof. reflexivity. Qed.
Lemma p_to_exit_set_lfreed : forall s v, to_exit (set_lfreed s v) = to_exit s.
Proof. reflexivity. Qed.
Lemma p_tidf_set_lfreed : forall s v, tidf (set_lfreed s v) = tidf s.
Proof. reflexivity. Qed.
Lemma p_created_set_lfreed : forall s v, created (set_lfreed s v) = created s.
Proof. reflexivity. Qed.
Lemma p_mtx_set_lfreed : forall s v, mtx (set_lfreed s v) = mtx s.
Proof. reflexivity. Qed.
Lemma p_queue_set_lfreed : forall s v, queue (set_lfreed s v) = queue s.
Proof. reflexivity. Qed.
Lemma p_next_id_set_lfreed : forall s v, next_id (set_lfreed s v) = next_id s.
Proof. reflexivity. Qed.
Lemma p_reg_set_lfreed : forall s v, reg (set_lfreed s v) = reg s.
Proof. reflexivity. Qed.
Lemma p_clr_set_lfreed : forall s v, clr (set_lfreed s v) = clr s.
Proof. reflexivity. Qed.
Lemma p_exitdr_set_lfreed : forall s v, exitdr (set_lfreed s v) = exitdr s.
Proof. reflexivity. Qed.
Lemma p_g_enq_set_lfreed : forall s v, g_enq (set_lfreed s v) = g_enq s.
Proof. reflexivity. Qed.
Lemma p_g_relfail_set_lfreed : forall s v, g_relfail (set_lfreed s v) = g_relfail s.
Proof. reflexivity. Qed.
Lemma p_g_relexit_set_lfreed : forall s v, g_relexit (set_lfreed s v) = g_relexit s.
Proof. reflexivity. Qed.
Lemma p_g_relclear_set_lfreed : forall s v, g_relclear (set_lfreed s v) = g_relclear s.
Proof. reflexivity. Qed.
Lemma p_g_leaked_set_lfreed : forall s v, g_leaked (set_lfreed s v) = g_leaked s.
Proof. reflexivity. Qed.
Lemma p_g_late_set_lfreed : forall s v, g_late (set_lfreed s v) = g_late s.
Proof. reflexivity. Qed.
Lemma p_w_req_set_lfreed : forall s v, w_req (set_lfreed s v) = w_req s.
Proof. reflexivity. Qed.
Lemma p_w_seen_set_lfreed : forall s v, w_seen (set_lfreed s v) = w_seen s.
Proof. reflexivity. Qed.
Lemma p_returned_set_lfreed : forall s v, returned (set_lfreed s v) = returned s.
Proof. reflexivity. Qed.
Lemma p_hup_set_lfreed : forall s v, hup (set_lfreed s v) = hup s.
Proof. reflexivity. Qed.
Lemma p_erl_set_lfreed : forall s v, erl (set_lfreed s v) = erl s.
Proof. reflexivity. Qed.
Lemma p_slots_set_lfreed : forall s v, slots (set_lfreed s v) = slots s.
Proof. reflexivity. Qed.
Lemma p_rdy_set_lfreed : forall s v, rdy (set_lfreed s v) = rdy s.
Proof. reflexivity. Qed.
Lemma p_todo_set_lfreed : forall s v, todo (set_lfreed s v) = todo s.
Proof. reflexivity. Qed.
Lemma p_psig_set_lfreed : forall s v, psig (set_lfreed s v) = psig s.
Proof. reflexivity. Qed.
Lemma p_pn_set_lfreed : forall s v, pn (set_lfreed s v) = pn s.
Proof. reflexivity. Qed.
Lemma p_wkn_set_lfreed : forall s v, wkn (set_lfreed s v) = wkn s.
Proof. reflexivity. Qed.
Lemma p_g_relclose_set_lfreed : forall s v, g_relclose (set_lfreed s v) = g_relclose s.
Proof. reflexivity. Qed.
Lemma p_inp_set_lfreed : forall s v, inp (set_lfreed s v) = inp s.
Proof. reflexivity. Qed.
Lemma p_peof_set_lfreed : forall s v, peof (set_lfreed s v) = peof s.
Proof. reflexivity. Qed.
Lemma p_rdh_set_lfreed : forall s v, rdh (set_lfreed s v) = rdh s.
Proof. reflexivity. Qed.
Lemma p_tmn_set_lfreed : forall s v, tmn (set_lfreed s v) = tmn s.
Proof. reflexivity. Qed.
Lemma p_cbk_set_lfreed : forall s v, cbk (set_lfreed s v) = cbk s.
Proof. reflexivity. Qed.
Lemma p_cbs_set_lfreed : forall s v, cbs (set_lfreed s v) = cbs s.
Proof. reflexivity. Qed.
Lemma p_lfreed_set_lfreed : forall s v, lfreed (set_lfreed s v) = v.
Proof. reflexivity. Qed.
Lemma p_g_uaf_set_lfreed : forall s v, g_uaf (set_lfreed s v) = g_uaf s.
Proof. reflexivity. Qed.
Lemma p_thr_set_lfreed : forall s v, thr (set_lfreed s v) = thr s.
Proof. reflexivity. Qed.
Lemma p_cnt_set_g_uaf : forall s v, cnt (set_g_uaf s v) = cnt s.
Proof. reflexivity. Qed.
Lemma p_edge_set_g_uaf : forall s v, edge (set_g_uaf s v) = edge s.
Proof. reflexivity. Qed.
Lemma p_to_exit_set_g_uaf : forall s v, to_exit (set_g_uaf s v) = to_exit s.
Proof. reflexivity. Qed.
Lemma p_tidf_set_g_uaf : forall s v, tidf (set_g_uaf s v) = tidf s.
Proof. reflexivity. Qed.
Lemma p_created_set_g_uaf : forall s v, created (set_g_uaf s v) = created s.
Proof. reflexivity. Qed.
Lemma p_mtx_set_g_uaf : forall s v, mtx (set_g_uaf s v) = mtx s.
Proof. reflexivity. Qed.
Lemma p_queue_set_g_uaf : forall s v, queue (set_g_uaf s v) = queue s.
Proof. reflexivity. Qed.
Lemma p_next_id_set_g_uaf : forall s v, next_id (set_g_uaf s v) = next_id s.
Proof. reflexivity. Qed.
Lemma p_reg_set_g_uaf : forall s v, reg (set_g_uaf s v) = reg s.
Proof. reflexivity. Qed.
Lemma p_clr_set_g_uaf : forall s v, clr (set_g_uaf s v) = clr s.
Proof. reflexivity. Qed.
Lemma p_exitdr_set_g_uaf : forall s v, exitdr (set_g_uaf s v) = exitdr s.
Proof. reflexivity. Qed.
Lemma p_g_enq_set_g_uaf : forall s v, g_enq (set_g_uaf s v) = g_enq s.
Proof. reflexivity. Qed.
Lemma p_g_relfail_set_g_uaf : forall s v, g_relfail (set_g_uaf s v) = g_relfail s.
Proof. reflexivity. Qed.
Lemma p_g_relexit_set_g_uaf : forall s v, g_relexit (set_g_uaf s v) = g_relexit s.
Proof. reflexivity. Qed.
Lemma p_g_relclear_set_g_uaf : forall s v, g_relclear (set_g_uaf s v) = g_relclear s.
Proof. reflexivity. Qed.
Lemma p_g_leaked_set_g_uaf : forall s v, g_leaked (set_g_uaf s v) = g_leaked s.
Proof. reflexivity. Qed.
Lemma p_g_late_set_g_uaf : forall s v, g_late (set_g_uaf s v) = g_late s.
Proof. reflexivity. Qed.
Lemma p_w_req_set_g_uaf : forall s v, w_req (set_g_uaf s v) = w_req s.
Proof. reflexivity. Qed.
Lemma p_w_seen_set_g_uaf : forall s v, w_seen (set_g_uaf s v) = w_seen s.
Proof. reflexivity. Qed.
Lemma p_returned_set_g_uaf : forall s v, returned (set_g_uaf s v) = returned s.
Proof. reflexivity. Qed.
Lemma p_hup_set_g_uaf : forall s v, hup (set_g_uaf s v) = hup s.
Proof. reflexivity. Qed.
Lemma p_erl_set_g_uaf : forall s v, erl (set_g_uaf s v) = erl s.
Proof. reflexivity. Qed.
Lemma p_slots_set_g_uaf : forall s v, slots (set_g_uaf s v) = slots s.
Proof. reflexivity. Qed.
Lemma p_rdy_set_g_uaf : forall s v, rdy (set_g_uaf s v) = rdy s.
Proof. reflexivity. Qed.
Lemma p_todo_set_g_uaf : forall s v, todo (set_g_uaf s v) = todo s.
Proof. reflexivity. Qed.
Lemma p_psig_set_g_uaf : forall s v, psig (set_g_uaf s v) = psig s.
Proof. reflexivity. Qed.
Lemma p_pn_set_g_uaf : forall s v, pn (set_g_uaf s v) = pn s.
Proof. reflexivity. Qed.
Lemma p_wkn_set_g_uaf : forall s v, wkn (set_g_uaf s v) = wkn s.
Proof. reflexivity. Qed.
Lemma p_g_relclose_set_g_uaf : forall s v, g_relclose (set_g_uaf s v) = g_relclose s.
Proof. reflexivity. Qed.
Lemma p_inp_set_g_uaf : forall s v, inp (set_g_uaf s v) = inp s.
Proof. reflexivity. Qed.
Lemma p_peof_set_g_uaf : forall s v, peof (set_g_uaf s v) = peof s.
Proof. reflexivity. Qed.
Lemma p_rdh_set_g_uaf : forall s v, rdh (set_g_uaf s v) = rdh s.
Proof. reflexivity. Qed.
Lemma p_tmn_set_g_uaf : forall s v, tmn (set_g_uaf s v) = tmn s.
Proof. reflexivity. Qed.
Lemma p_cbk_set_g_uaf : forall s v, cbk (set_g_uaf s v) = cbk s.
Proof. reflexivity. Qed.
Lemma p_cbs_set_g_uaf : forall s v, cbs (set_g_uaf s v) = cbs s.
Proof. reflexivity. Qed.
Lemma p_lfreed_set_g_uaf : forall s v, lfreed (set_g_uaf s v) = lfreed s.
Proof. reflexivity. Qed.
Lemma p_g_uaf_set_g_uaf : forall s v, g_uaf (set_g_uaf s v) = v.
Proof. reflexivity. Qed.
Lemma p_thr_set_g_uaf : forall s v, thr (set_g_uaf s v) = thr s.
Proof. reflexivity. Qed.
Lemma p_cnt_set_thr : forall s v, cnt (set_thr s v) = cnt s.
Proof. reflexivity. Qed.
Lemma p_edge_set_thr : forall s v, edge (set_thr s v) = edge s.
Proof. reflexivity. Qed.
Lemma p_to_exit_set_thr : forall s v, to_exit (set_thr s v) = to_exit s.
Proof. reflexivity. Qed.
Lemma p_tidf_set_thr : forall s v, tidf (set_thr s v) = tidf s.
Proof. reflexivity. Qed.
Lemma p_created_set_thr : forall s v, created (set_thr s v) = created s.
Proof. reflexivity. Qed.
Lemma p_mtx_set_thr : forall s v, mtx (set_thr s v) = mtx s.
Proof. reflexivity. Qed.
Lemma p_queue_set_thr : forall s v, queue (set_thr s v) = queue s.
Proof. reflexivity. Qed.
Lemma p_next_id_set_thr : forall s v, next_id (set_thr s v) = next_id s.
Proof. reflexivity. Qed.
Lemma p_reg_set_thr : forall s v, reg (set_thr s v) = reg s.
Proof. reflexivity. Qed.
Lemma p_clr_set_thr : forall s v, clr (set_thr s v) = clr s.
Proof. reflexivity. Qed.
Lemma p_exitdr_set_thr : forall s v, exitdr (set_thr s v) = exitdr s.
Proof. reflexivity. Qed.
Lemma p_g_enq_set_thr : forall s v, g_enq (set_thr s v) = g_enq s.
Proof. reflexivity. Qed.
Lemma p_g_relfail_set_thr : forall s v, g_relfail (set_thr s v) = g_relfail s.
Proof. reflexivity. Qed.
Lemma p_g_relexit_set_thr : forall s v, g_relexit (set_thr s v) = g_relexit s.
Proof. reflexivity. Qed.
Lemma p_g_relclear_set_thr : forall s v, g_relclear (set_thr s v) = g_relclear s.
Proof. reflexivity. Qed.
Lemma p_g_leaked_set_thr : forall s v, g_leaked (set_thr s v) = g_leaked s.
Proof. reflexivity. Qed.
Lemma p_g_late_set_thr : forall s v, g_late (set_thr s v) = g_late s.
Proof. reflexivity. Qed.
Lemma p_w_req_set_thr : forall s v, w_req (set_thr s v) = w_req s.
Proof. reflexivity. Qed.
Lemma p_w_seen_set_thr : forall s v, w_seen (set_thr s v) = w_seen s.
Proof. reflexivity. Qed.
Lemma p_returned_set_thr : forall s v, returned (set_thr s v) = returned s.
Proof. reflexivity. Qed.
Lemma p_hup_set_thr : forall s v, hup (set_thr s v) = hup s.
Proof. reflexivity. Qed.
Lemma p_erl_set_thr : forall s v, erl (set_thr s v) = erl s.
Proof. reflexivity. Qed.
Lemma p_slots_set_thr : forall s v, slots (set_thr s v) = slots s.
Proof. reflexivity. Qed.
Lemma p_rdy_set_thr : forall s v, rdy (set_thr s v) = rdy s.
Proof. reflexivity. Qed.
Lemma p_todo_set_thr : forall s v, todo (set_thr s v) = todo s.
Proof. reflexivity. Qed.
Lemma p_psig_set_thr : forall s v, psig (set_thr s v) = psig s.
Proof. reflexivity. Qed.
Lemma p_pn_set_thr : forall s v, pn (set_thr s v) = pn s.
Proof. reflexivity. Qed.
Lemma p_wkn_set_thr : forall s v, wkn (set_thr s v) = wkn s.
Proof. reflexivity. Qed.
Lemma p_g_relclose_set_thr : forall s v, g_relclose (set_thr s v) = g_relclose s.
Proof. reflexivity. Qed.
Lemma p_inp_set_thr : forall s v, inp (set_thr s v) = inp s.
Proof. reflexivity. Qed.
Lemma p_peof_set_thr : forall s v, peof (set_thr s v) = peof s.
Proof. reflexivity. Qed.
Lemma p_rdh_set_thr : forall s v, rdh (set_thr s v) = rdh s.
Proof. reflexivity. Qed.
Lemma p_tmn_set_thr : forall s v, tmn (set_thr s v) = tmn s.
Proof. reflexivity. Qed.
Lemma p_cbk_set_thr : forall s v, cbk (set_thr s v) = cbk s.
Proof. reflexivity. Qed.
Lemma p_cbs_set_thr : forall s v, cbs (set_thr s v) = cbs s.
Proof. reflexivity. Qed.
Lemma p_lfreed_set_thr : forall s v, lfreed (set_thr s v) = lfreed s.
Proof. reflexivity. Qed.
Lemma p_g_uaf_set_thr : forall s v, g_uaf (set_thr s v) = g_uaf s.
Proof. reflexivity. Qed.
Lemma p_thr_set_thr : forall s v, thr (set_thr s v) = v.
Proof. reflexivity. Qed.
Lemma p_cnt_set_pc : forall s t p, cnt (set_pc s t p) = cnt s.
Proof. reflexivity. Qed.
Lemma p_edge_set_pc : forall s t p, edge (set_pc s t p) = edge s.
Proof. reflexivity. Qed.
Lemma p_to_exit_set_pc : forall s t p, to_exit (set_pc s t p) = to_exit s.
Proof. reflexivity. Qed.
Lemma p_tidf_set_pc : forall s t p, tidf (set_pc s t p) = tidf s.
Proof. reflexivity. Qed.
Lemma p_created_set_pc : forall s t p, created (set_pc s t p) = created s.
Proof. reflexivity. Qed.
Lemma p_mtx_set_pc : forall s t p, mtx (set_pc s t p) = mtx s.
Proof. reflexivity. Qed.
Lemma p_queue_set_pc : forall s t p, queue (set_pc s t p) = queue s.
Proof. reflexivity. Qed.
Lemma p_next_id_set_pc : forall s t p, next_id (set_pc s t p) = next_id s.
Proof. reflexivity. Qed.
Lemma p_reg_set_pc : forall s t p, reg (set_pc s t p) = reg s.
Proof. reflexivity. Qed.
Lemma p_clr_set_pc : forall s t p, clr (set_pc s t p) = clr s.
Proof. reflexivity. Qed.
Lemma p_exitdr_set_pc : forall s t p, exitdr (set_pc s t p) = exitdr s.
Proof. reflexivity. Qed.
Lemma p_g_enq_set_pc : forall s t p, g_enq (set_pc s t p) = g_enq s.
Proof. reflexivity. Qed.
Lemma p_g_relfail_set_pc : forall s t p, g_relfail (set_pc s t p) = g_relfail s.
Proof. reflexivity. Qed.
Lemma p_g_relexit_set_pc : forall s t p, g_relexit (set_pc s t p) = g_relexit s.
Proof. reflexivity. Qed.
Lemma p_g_relclear_set_pc : forall s t p, g_relclear (set_pc s t p) = g_relclear s.
Proof. reflexivity. Qed.
Lemma p_g_leaked_set_pc : forall s t p, g_leaked (set_pc s t p) = g_leaked s.
Proof. reflexivity. Qed.
Lemma p_g_late_set_pc : forall s t p, g_late (set_pc s t p) = g_late s.
Proof. reflexivity. Qed.
Lemma p_w_req_set_pc : forall s t p, w_req (set_pc s t p) = w_req s.
Proof. reflexivity. Qed.
Lemma p_w_seen_set_pc : forall s t p, w_seen (set_pc s t p) = w_seen s.
Proof. reflexivity. Qed.
Lemma p_returned_set_pc : forall s t p, returned (set_pc s t p) = returned s.
Proof. reflexivity. Qed.
Lemma p_hup_set_pc : forall s t p, hup (set_pc s t p) = hup s.
Proof. reflexivity. Qed.
Lemma p_erl_set_pc : forall s t p, erl (set_pc s t p) = erl s.
Proof. reflexivity. Qed.
Lemma p_slots_set_pc : forall s t p, slots (set_pc s t p) = slots s.
Proof. reflexivity. Qed.
Lemma p_rdy_set_pc : forall s t p, rdy (set_pc s t p) = rdy s.
Proof. reflexivity. Qed.
Lemma p_todo_set_pc : forall s t p, todo (set_pc s t p) = todo s.
Proof. reflexivity. Qed.
Lemma p_psig_set_pc : forall s t p, psig (set_pc s t p) = psig s.
Proof. reflexivity. Qed.
Lemma p_pn_set_pc : forall s t p, pn (set_pc s t p) = pn s.
Proof. reflexivity. Qed.
Lemma p_wkn_set_pc : forall s t p, wkn (set_pc s t p) = wkn s.
Proof. reflexivity. Qed.
Lemma p_g_relclose_set_pc : forall s t p, g_relclose (set_pc s t p) = g_relclose s.
Proof. reflexivity. Qed.
Lemma p_inp_set_pc : forall s t p, inp (set_pc s t p) = inp s.
Proof. reflexivity. Qed.
Lemma p_peof_set_pc : forall s t p, peof (set_pc s t p) = peof s.
Proof. reflexivity. Qed.
Lemma p_rdh_set_pc : forall s t p, rdh (set_pc s t p) = rdh s.
Proof. reflexivity. Qed.
Lemma p_tmn_set_pc : forall s t p, tmn (set_pc s t p) = tmn s.
Proof. reflexivity. Qed.
Lemma p_cbk_set_pc : forall s t p, cbk (set_pc s t p) = cbk s.
Proof. reflexivity. Qed.
Lemma p_cbs_set_pc : forall s t p, cbs (set_pc s t p) = cbs s.
Proof. reflexivity. Qed.
Lemma p_lfreed_set_pc : forall s t p, lfreed (set_pc s t p) = lfreed s.
Proof. reflexivity. Qed.
Lemma p_g_uaf_set_pc : forall s t p, g_uaf (set_pc s t p) = g_uaf s.
Proof. reflexivity. Qed.
Lemma p_thr_set_pc : forall s t p, thr (set_pc s t p) = upd (thr s) t p.
Proof. reflexivity. Qed.
Lemma p_cnt_touch : forall s, cnt (touch s) = cnt s.
Proof. reflexivity. Qed.
Lemma p_edge_touch : forall s, edge (touch s) = edge s.
Proof. reflexivity. Qed.
Lemma p_to_exit_touch : forall s, to_exit (touch s) = to_exit s.
Proof. reflexivity. Qed.
Lemma p_tidf_touch : forall s, tidf (touch s) = tidf s.
Proof. reflexivity. Qed.
Lemma p_created_touch : forall s, created (touch s) = created s.
Proof. reflexivity. Qed.
Lemma p_mtx_touch : forall s, mtx (touch s) = mtx s.
Proof. reflexivity. Qed.
Lemma p_queue_touch : forall s, queue (touch s) = queue s.
Proof. reflexivity. Qed.
Lemma p_next_id_touch : forall s, next_id (touch s) = next_id s.
Proof. reflexivity. Qed.
Lemma p_reg_touch : forall s, reg (touch s) = reg s.
Proof. reflexivity. Qed.
Lemma p_clr_touch : forall s, clr (touch s) = clr s.
Proof. reflexivity. Qed.
Lemma p_exitdr_touch : forall s, exitdr (touch s) = exitdr s.
Proof. reflexivity. Qed.
Lemma p_g_enq_touch : forall s, g_enq (touch s) = g_enq s.
Proof. reflexivity. Qed.
Lemma p_g_relfail_touch : forall s, g_relfail (touch s) = g_relfail s.
Proof. reflexivity. Qed.
Lemma p_g_relexit_touch : forall s, g_relexit (touch s) = g_relexit s.
Proof. reflexivity. Qed.
Lemma p_g_relclear_touch : forall s, g_relclear (touch s) = g_relclear s.
Proof. reflexivity. Qed.
Lemma p_g_leaked_touch : forall s, g_leaked (touch s) = g_leaked s.
Proof. reflexivity. Qed.
Lemma p_g_late_touch : forall s, g_late (touch s) = g_late s.
Proof. reflexivity. Qed.
Lemma p_w_req_touch : forall s, w_req (touch s) = w_req s.
Proof. reflexivity. Qed.
Lemma p_w_seen_touch : forall s, w_seen (touch s) = w_seen s.
Proof. reflexivity. Qed.
Lemma p_returned_touch : forall s, returned (touch s) = returned s.
Proof. reflexivity. Qed.
Lemma p_hup_touch : forall s, hup (touch s) = hup s.
Proof. reflexivity. Qed.
Lemma p_erl_touch : forall s, erl (touch s) = erl s.
Proof. reflexivity. Qed.
Lemma p_slots_touch : forall s, slots (touch s) = slots s.
Proof. reflexivity. Qed.
Lemma p_rdy_touch : forall s, rdy (touch s) = rdy s.
Proof. reflexivity. Qed.
Lemma p_todo_touch : forall s, todo (touch s) = todo s.
Proof. reflexivity. Qed.
Lemma p_psig_touch : forall s, psig (touch s) = psig s.
Proof. reflexivity. Qed.
Lemma p_pn_touch : forall s, pn (touch s) = pn s.
Proof. reflexivity. Qed.
Lemma p_wkn_touch : forall s, wkn (touch s) = wkn s.
Proof. reflexivity. Qed.
Lemma p_g_relclose_touch : forall s, g_relclose (touch s) = g_relclose s.
Proof. reflexivity. Qed.
Lemma p_inp_touch : forall s, inp (touch s) = inp s.
Proof. reflexivity. Qed.
Lemma p_peof_touch : forall s, peof (touch s) = peof s.
Proof. reflexivity. Qed.
Lemma p_rdh_touch : forall s, rdh (touch s) = rdh s.
Proof. reflexivity. Qed.
Lemma p_tmn_touch : forall s, tmn (touch s) = tmn s.
Proof. reflexivity. Qed.
Lemma p_cbk_touch : forall s, cbk (touch s) = cbk s.
Proof. reflexivity. Qed.
Lemma p_cbs_touch : forall s, cbs (touch s) = cbs s.
Proof. reflexivity. Qed.
Lemma p_lfreed_touch : forall s, lfreed (touch s) = lfreed s.
Proof. reflexivity. Qed.
Lemma p_g_uaf_touch : forall s, g_uaf (touch s) = if lfreed s then S (g_uaf s) else g_uaf s.
Proof. reflexivity. Qed.
Lemma p_thr_touch : forall s, thr (touch s) = thr s.
Proof. reflexivity. Qed.
Lemma p_cnt_sig_write : forall s, cnt (sig_write s) = S (cnt s).
Proof. reflexivity. Qed.
Lemma p_edge_sig_write : forall s, edge (sig_write s) = true.
Proof. reflexivity. Qed.
Lemma p_to_exit_sig_write : forall s, to_exit (sig_write s) = to_exit s.
Proof. reflexivity. Qed.
Lemma p_tidf_sig_write : forall s, tidf (sig_write s) = tidf s.
Proof. reflexivity. Qed.
Lemma p_created_sig_write : forall s, created (sig_write s) = created s.
Proof. reflexivity. Qed.
Lemma p_mtx_sig_write : forall s, mtx (sig_write s) = mtx s.
Proof. reflexivity. Qed.
Lemma p_queue_sig_write : forall s, queue (sig_write s) = queue s.
Proof. reflexivity. Qed.
Lemma p_next_id_sig_write : forall s, next_id (sig_write s) = next_id s.
Proof. reflexivity. Qed.
Lemma p_reg_sig_write : forall s, reg (sig_write s) = reg s.
Proof. reflexivity. Qed.
Lemma p_clr_sig_write : forall s, clr (sig_write s) = clr s.
Proof. reflexivity. Qed.
Lemma p_exitdr_sig_write : forall s, exitdr (sig_write s) = exitdr s.
Proof. reflexivity. Qed.
Lemma p_g_enq_sig_write : forall s, g_enq (sig_write s) = g_enq s.
Proof. reflexivity. Qed.
Lemma p_g_relfail_sig_write : forall s, g_relfail (sig_write s) = g_relfail s.
Proof. reflexivity. Qed.
Lemma p_g_relexit_sig_write : forall s, g_relexit (sig_write s) = g_relexit s.
Proof. reflexivity. Qed.
Lemma p_g_relclear_sig_write : forall s, g_relclear (sig_write s) = g_relclear s.
Proof. reflexivity. Qed.
Lemma p_g_leaked_sig_write : forall s, g_leaked (sig_write s) = g_leaked s.
Proof. reflexivity. Qed.
Lemma p_g_late_sig_write : forall s, g_late (sig_write s) = g_late s.
Proof. reflexivity. Qed.
Lemma p_w_req_sig_write : forall s, w_req (sig_write s) = S (w_req s).
Proof. reflexivity. Qed.
Lemma p_w_seen_sig_write : forall s, w_seen (sig_write s) = w_seen s.
Proof. reflexivity. Qed.
Lemma p_returned_sig_write : forall s, returned (sig_write s) = returned s.
Proof. reflexivity. Qed.
Lemma p_hup_sig_write : forall s, hup (sig_write s) = hup s.
Proof. reflexivity. Qed.
Lemma p_erl_sig_write : forall s, erl (sig_write s) = erl s.
Proof. reflexivity. Qed.
Lemma p_slots_sig_write : forall s, slots (sig_write s) = slots s.
Proof. reflexivity. Qed.
Lemma p_rdy_sig_write : forall s, rdy (sig_write s) = rdy s.
Proof. reflexivity. Qed.
Lemma p_todo_sig_write : forall s, todo (sig_write s) = todo s.
Proof. reflexivity. Qed.
Lemma p_psig_sig_write : forall s, psig (sig_write s) = psig s.
Proof. reflexivity. Qed.
Lemma p_pn_sig_write : forall s, pn (sig_write s) = pn s.
Proof. reflexivity. Qed.
Lemma p_wkn_sig_write : forall s, wkn (sig_write s) = wkn s.
Proof. reflexivity. Qed.
Lemma p_g_relclose_sig_write : forall s, g_relclose (sig_write s) = g_relclose s.
Proof. reflexivity. Qed.
Lemma p_inp_sig_write : forall s, inp (sig_write s) = inp s.
Proof. reflexivity. Qed.
Lemma p_peof_sig_write : forall s, peof (sig_write s) = peof s.
Proof. reflexivity. Qed.
Lemma p_rdh_sig_write : forall s, rdh (sig_write s) = rdh s.
Proof. reflexivity. Qed.
Lemma p_tmn_sig_write : forall s, tmn (sig_write s) = tmn s.
Proof. reflexivity. Qed.
Lemma p_cbk_sig_write : forall s, cbk (sig_write s) = cbk s.
Proof. reflexivity. Qed.
Lemma p_cbs_sig_write : forall s, cbs (sig_write s) = cbs s.
Proof. reflexivity. Qed.
Lemma p_lfreed_sig_write : forall s, lfreed (sig_write s) = lfreed s.
Proof. reflexivity. Qed.
Lemma p_g_uaf_sig_write : forall s, g_uaf (sig_write s) = if lfreed s then S (g_uaf s) else g_uaf s.
Proof. reflexivity. Qed.
Lemma p_thr_sig_write : forall s, thr (sig_write s) = thr s.
Proof. reflexivity. Qed.
Lemma p_cnt_enqueue : forall s id, cnt (enqueue s id) = cnt s.
Proof. reflexivity. Qed.
Lemma p_edge_enqueue : forall s id, edge (enqueue s id) = edge s.
Proof. reflexivity. Qed.
Lemma p_to_exit_enqueue : forall s id, to_exit (enqueue s id) = to_exit s.
Proof. reflexivity. Qed.
Lemma p_tidf_enqueue : forall s id, tidf (enqueue s id) = tidf s.
Proof. reflexivity. Qed.
Lemma p_created_enqueue : forall s id, created (enqueue s id) = created s.
Proof. reflexivity. Qed.
Lemma p_mtx_enqueue : forall s id, mtx (enqueue s id) = mtx s.
Proof. reflexivity. Qed.
Lemma p_queue_enqueue : forall s id, queue (enqueue s id) = queue s ++ [id].
Proof. reflexivity. Qed.
Lemma p_next_id_enqueue : forall s id, next_id (enqueue s id) = next_id s.
Proof. reflexivity. Qed.
Lemma p_reg_enqueue : forall s id, reg (enqueue s id) = reg s.
Proof. reflexivity. Qed.
Lemma p_clr_enqueue : forall s id, clr (enqueue s id) = clr s.
Proof. reflexivity. Qed.
Lemma p_exitdr_enqueue : forall s id, exitdr (enqueue s id) = exitdr s.
Proof. reflexivity. Qed.
Lemma p_g_enq_enqueue : forall s id, g_enq (enqueue s id) = g_enq s ++ [id].
Proof. reflexivity. Qed.
Lemma p_g_relfail_enqueue : forall s id, g_relfail (enqueue s id) = g_relfail s.
Proof. reflexivity. Qed.
Lemma p_g_relexit_enqueue : forall s id, g_relexit (enqueue s id) = g_relexit s.
Proof. reflexivity. Qed.
Lemma p_g_relclear_enqueue : forall s id, g_relclear (enqueue s id) = g_relclear s.
Proof. reflexivity. Qed.
Lemma p_g_leaked_enqueue : forall s id, g_leaked (enqueue s id) = g_leaked s.
Proof. reflexivity. Qed.
Lemma p_g_late_enqueue : forall s id, g_late (enqueue s id) = if exitdr s then g_late s ++ [id] else g_late s.
Proof. reflexivity. Qed.
Lemma p_w_req_enqueue : forall s id, w_req (enqueue s id) = w_req s.
Proof. reflexivity. Qed.
Lemma p_w_seen_enqueue : forall s id, w_seen (enqueue s id) = w_seen s.
Proof. reflexivity. Qed.
Lemma p_returned_enqueue : forall s id, returned (enqueue s id) = returned s.
Proof. reflexivity. Qed.
Lemma p_hup_enqueue : forall s id, hup (enqueue s id) = hup s.
Proof. reflexivity. Qed.
Lemma p_erl_enqueue : forall s id, erl (enqueue s id) = erl s.
Proof. reflexivity. Qed.
Lemma p_slots_enqueue : forall s id, slots (enqueue s id) = slots s.
Proof. reflexivity. Qed.
Lemma p_rdy_enqueue : forall s id, rdy (enqueue s id) = rdy s.
Proof. reflexivity. Qed.
Lemma p_todo_enqueue : forall s id, todo (enqueue s id) = todo s.
Proof. reflexivity. Qed.
Lemma p_psig_enqueue : forall s id, psig (enqueue s id) = psig s.
Proof. reflexivity. Qed.
Lemma p_pn_enqueue : forall s id, pn (enqueue s id) = pn s.
Proof. reflexivity. Qed.
Lemma p_wkn_enqueue : forall s id, wkn (enqueue s id) = wkn s.
Proof. reflexivity. Qed.
Lemma p_g_relclose_enqueue : forall s id, g_relclose (enqueue s id) = g_relclose s.
Proof. reflexivity. Qed.
Lemma p_inp_enqueue : forall s id, inp (enqueue s id) = inp s.
Proof. reflexivity. Qed.
Lemma p_peof_enqueue : forall s id, peof (enqueue s id) = peof s.
Proof. reflexivity. Qed.
Lemma p_rdh_enqueue : forall s id, rdh (enqueue s id) = rdh s.
Proof. reflexivity. Qed.
Lemma p_tmn_enqueue : forall s id, tmn (enqueue s id) = tmn s.
Proof. reflexivity. Qed.
Lemma p_cbk_enqueue : forall s id, cbk (enqueue s id) = cbk s.
Proof. reflexivity. Qed.
Lemma p_cbs_enqueue : forall s id, cbs (enqueue s id) = cbs s.
Proof. reflexivity. Qed.
Lemma p_lfreed_enqueue : forall s id, lfreed (enqueue s id) = lfreed s.
Proof. reflexivity. Qed.
Lemma p_g_uaf_enqueue : forall s id, g_uaf (enqueue s id) = if lfreed s then S (g_uaf s) else g_uaf s.
Proof. reflexivity. Qed.
Lemma p_thr_enqueue : forall s id, thr (enqueue s id) = thr s.
Proof. reflexivity. Qed.
Lemma p_cnt_close_ctx : forall s id, cnt (close_ctx s id) = cnt s.
Proof. reflexivity. Qed.
Lemma p_edge_close_ctx : forall s id, edge (close_ctx s id) = edge s.
Proof. reflexivity. Qed.
Lemma p_to_exit_close_ctx : forall s id, to_exit (close_ctx s id) = to_exit s.
Proof. reflexivity. Qed.
Lemma p_tidf_close_ctx : forall s id, tidf (close_ctx s id) = tidf s.
Proof. reflexivity. Qed.
Lemma p_created_close_ctx : forall s id, created (close_ctx s id) = created s.
Proof. reflexivity. Qed.
Lemma p_mtx_close_ctx : forall s id, mtx (close_ctx s id) = mtx s.
Proof. reflexivity. Qed.
Lemma p_queue_close_ctx : forall s id, queue (close_ctx s id) = queue s.
Proof. reflexivity. Qed.
Lemma p_next_id_close_ctx : forall s id, next_id (close_ctx s id) = next_id s.
Proof. reflexivity. Qed.
Lemma p_reg_close_ctx : forall s id, reg (close_ctx s id) = drop id (reg s).
Proof. reflexivity. Qed.
Lemma p_clr_close_ctx : forall s id, clr (close_ctx s id) = clr s.
Proof. reflexivity. Qed.
Lemma p_exitdr_close_ctx : forall s id, exitdr (close_ctx s id) = exitdr s.
Proof. reflexivity. Qed.
Lemma p_g_enq_close_ctx : forall s id, g_enq (close_ctx s id) = g_enq s.
Proof. reflexivity. Qed.
Lemma p_g_relfail_close_ctx : forall s id, g_relfail (close_ctx s id) = g_relfail s.
Proof. reflexivity. Qed.
Lemma p_g_relexit_close_ctx : forall s id, g_relexit (close_ctx s id) = g_relexit s.
Proof. reflexivity. Qed.
Lemma p_g_relclear_close_ctx : forall s id, g_relclear (close_ctx s id) = g_relclear s.
Proof. reflexivity. Qed.
Lemma p_g_leaked_close_ctx : forall s id, g_leaked (close_ctx s id) = g_leaked s.
Proof. reflexivity. Qed.
Lemma p_g_late_close_ctx : forall s id, g_late (close_ctx s id) = g_late s.
Proof. reflexivity. Qed.
Lemma p_w_req_close_ctx : forall s id, w_req (close_ctx s id) = w_req s.
Proof. reflexivity. Qed.
Lemma p_w_seen_close_ctx : forall s id, w_seen (close_ctx s id) = w_seen s.
Proof. reflexivity. Qed.
Lemma p_returned_close_ctx : forall s id, returned (close_ctx s id) = returned s.
Proof. reflexivity. Qed.
Lemma p_hup_close_ctx : forall s id, hup (close_ctx s id) = drop id (hup s).
Proof. reflexivity. Qed.
Lemma p_erl_close_ctx : forall s id, erl (close_ctx s id) = drop id (erl s).
Proof. reflexivity. Qed.
Lemma p_slots_close_ctx : forall s id, slots (close_ctx s id) = swap_remove id (slots s).
Proof. reflexivity. Qed.
Lemma p_rdy_close_ctx : forall s id, rdy (close_ctx s id) = rdy s.
Proof. reflexivity. Qed.
Lemma p_todo_close_ctx : forall s id, todo (close_ctx s id) = todo s.
Proof. reflexivity. Qed.
Lemma p_psig_close_ctx : forall s id, psig (close_ctx s id) = psig s.
Proof. reflexivity. Qed.
Lemma p_pn_close_ctx : forall s id, pn (close_ctx s id) = pn s.
Proof. reflexivity. Qed.
Lemma p_wkn_close_ctx : forall s id, wkn (close_ctx s id) = wkn s.
Proof. reflexivity. Qed.
Lemma p_g_relclose_close_ctx : forall s id, g_relclose (close_ctx s id) = g_relclose s ++ [id].
Proof. reflexivity. Qed.
Lemma p_inp_close_ctx : forall s id, inp (close_ctx s id) = drop id (inp s).
Proof. reflexivity. Qed.
Lemma p_peof_close_ctx : forall s id, peof (close_ctx s id) = drop id (peof s).
Proof. reflexivity. Qed.
Lemma p_rdh_close_ctx : forall s id, rdh (close_ctx s id) = rdh s.
Proof. reflexivity. Qed.
Lemma p_tmn_close_ctx : forall s id, tmn (close_ctx s id) = tmn s.
Proof. reflexivity. Qed.
Lemma p_cbk_close_ctx : forall s id, cbk (close_ctx s id) = cbk s.
Proof. reflexivity. Qed.
Lemma p_cbs_close_ctx : forall s id, cbs (close_ctx s id) = cbs s.
Proof. reflexivity. Qed.
Lemma p_lfreed_close_ctx : forall s id, lfreed (close_ctx s id) = lfreed s.
Proof. reflexivity. Qed.
Lemma p_g_uaf_close_ctx : forall s id, g_uaf (close_ctx s id) = g_uaf s.
Proof. reflexivity. Qed.
Lemma p_thr_close_ctx : forall s id, thr (close_ctx s id) = thr s.
Proof. reflexivity. Qed.

Create HintDb sysdb discriminated.
#[export] Hint Rewrite p_cnt_set_cnt p_edge_set_cnt p_to_exit_set_cnt p_tidf_set_cnt p_created_set_cnt p_mtx_set_cnt p_queue_set_cnt p_next_id_set_cnt p_reg_set_cnt p_clr_set_cnt p_exitdr_set_cnt p_g_enq_set_cnt p_g_relfail_set_cnt p_g_relexit_set_cnt p_g_relclear_set_cnt p_g_leaked_set_cnt p_g_late_set_cnt p_w_req_set_cnt p_w_seen_set_cnt p_returned_set_cnt p_hup_set_cnt p_erl_set_cnt p_slots_set_cnt p_rdy_set_cnt p_todo_set_cnt p_psig_set_cnt p_pn_set_cnt p_wkn_set_cnt p_g_relclose_set_cnt p_inp_set_cnt p_peof_set_cnt p_rdh_set_cnt p_tmn_set_cnt p_cbk_set_cnt p_cbs_set_cnt p_lfreed_set_cnt p_g_uaf_set_cnt p_thr_set_cnt p_cnt_set_edge p_edge_set_edge : sysdb.
#[export] Hint Rewrite p_to_exit_set_edge p_tidf_set_edge p_created_set_edge p_mtx_set_edge p_queue_set_edge p_next_id_set_edge p_reg_set_edge p_clr_set_edge p_exitdr_set_edge p_g_enq_set_edge p_g_relfail_set_edge p_g_relexit_set_edge p_g_relclear_set_edge p_g_leaked_set_edge p_g_late_set_edge p_w_req_set_edge p_w_seen_set_edge p_returned_set_edge p_hup_set_edge p_erl_set_edge p_slots_set_edge p_rdy_set_edge p_todo_set_edge p_psig_set_edge p_pn_set_edge p_wkn_set_edge p_g_relclose_set_edge p_inp_set_edge p_peof_set_edge p_rdh_set_edge p_tmn_set_edge p_cbk_set_edge p_cbs_set_edge p_lfreed_set_edge p_g_uaf_set_edge p_thr_set_edge p_cnt_set_to_exit p_edge_set_to_exit p_to_exit_set_to_exit p_tidf_set_to_exit : sysdb.
#[export] Hint Rewrite p_created_set_to_exit p_mtx_set_to_exit p_queue_set_to_exit p_next_id_set_to_exit p_reg_set_to_exit p_clr_set_to_exit p_exitdr_set_to_exit p_g_enq_set_to_exit p_g_relfail_set_to_exit p_g_relexit_set_to_exit p_g_relclear_set_to_exit p_g_leaked_set_to_exit p_g_late_set_to_exit p_w_req_set_to_exit p_w_seen_set_to_exit p_returned_set_to_exit p_hup_set_to_exit p_erl_set_to_exit p_slots_set_to_exit p_rdy_set_to_exit p_todo_set_to_exit p_psig_set_to_exit p_pn_set_to_exit p_wkn_set_to_exit p_g_relclose_set_to_exit p_inp_set_to_exit p_peof_set_to_exit p_rdh_set_to_exit p_tmn_set_to_exit p_cbk_set_to_exit p_cbs_set_to_exit p_lfreed_set_to_exit p_g_uaf_set_to_exit p_thr_set_to_exit p_cnt_set_tidf p_edge_set_tidf p_to_exit_set_tidf p_tidf_set_tidf p_created_set_tidf p_mtx_set_tidf : sysdb.
#[export] Hint Rewrite p_queue_set_tidf p_next_id_set_tidf p_reg_set_tidf p_clr_set_tidf p_exitdr_set_tidf p_g_enq_set_tidf p_g_relfail_set_tidf p_g_relexit_set_tidf p_g_relclear_set_tidf p_g_leaked_set_tidf p_g_late_set_tidf p_w_req_set_tidf p_w_seen_set_tidf p_returned_set_tidf p_hup_set_tidf p_erl_set_tidf p_slots_set_tidf p_rdy_set_tidf p_todo_set_tidf p_psig_set_tidf p_pn_set_tidf p_wkn_set_tidf p_g_relclose_set_tidf p_inp_set_tidf p_peof_set_tidf p_rdh_set_tidf p_tmn_set_tidf p_cbk_set_tidf p_cbs_set_tidf p_lfreed_set_tidf p_g_uaf_set_tidf p_thr_set_tidf p_cnt_set_created p_edge_set_created p_to_exit_set_created p_tidf_set_created p_created_set_created p_mtx_set_created p_queue_set_created p_next_id_set_created : sysdb.
#[export] Hint Rewrite p_reg_set_created p_clr_set_created p_exitdr_set_created p_g_enq_set_created p_g_relfail_set_created p_g_relexit_set_created p_g_relclear_set_created p_g_leaked_set_created p_g_late_set_created p_w_req_set_created p_w_seen_set_created p_returned_set_created p_hup_set_created p_erl_set_created p_slots_set_created p_rdy_set_created p_todo_set_created p_psig_set_created p_pn_set_created p_wkn_set_created p_g_relclose_set_created p_inp_set_created p_peof_set_created p_rdh_set_created p_tmn_set_created p_cbk_set_created p_cbs_set_created p_lfreed_set_created p_g_uaf_set_created p_thr_set_created p_cnt_set_mtx p_edge_set_mtx p_to_exit_set_mtx p_tidf_set_mtx p_created_set_mtx p_mtx_set_mtx p_queue_set_mtx p_next_id_set_mtx p_reg_set_mtx p_clr_set_mtx : sysdb.
#[export] Hint Rewrite p_exitdr_set_mtx p_g_enq_set_mtx p_g_relfail_set_mtx p_g_relexit_set_mtx p_g_relclear_set_mtx p_g_leaked_set_mtx p_g_late_set_mtx p_w_req_set_mtx p_w_seen_set_mtx p_returned_set_mtx p_hup_set_mtx p_erl_set_mtx p_slots_set_mtx p_rdy_set_mtx p_todo_set_mtx p_psig_set_mtx p_pn_set_mtx p_wkn_set_mtx p_g_relclose_set_mtx p_inp_set_mtx p_peof_set_mtx p_rdh_set_mtx p_tmn_set_mtx p_cbk_set_mtx p_cbs_set_mtx p_lfreed_set_mtx p_g_uaf_set_mtx p_thr_set_mtx p_cnt_set_queue p_edge_set_queue p_to_exit_set_queue p_tidf_set_queue p_created_set_queue p_mtx_set_queue p_queue_set_queue p_next_id_set_queue p_reg_set_queue p_clr_set_queue p_exitdr_set_queue p_g_enq_set_queue : sysdb.
#[export] Hint Rewrite p_g_relfail_set_queue p_g_relexit_set_queue p_g_relclear_set_queue p_g_leaked_set_queue p_g_late_set_queue p_w_req_set_queue p_w_seen_set_queue p_returned_set_queue p_hup_set_queue p_erl_set_queue p_slots_set_queue p_rdy_set_queue p_todo_set_queue p_psig_set_queue p_pn_set_queue p_wkn_set_queue p_g_relclose_set_queue p_inp_set_queue p_peof_set_queue p_rdh_set_queue p_tmn_set_queue p_cbk_set_queue p_cbs_set_queue p_lfreed_set_queue p_g_uaf_set_queue p_thr_set_queue p_cnt_set_next_id p_edge_set_next_id p_to_exit_set_next_id p_tidf_set_next_id p_created_set_next_id p_mtx_set_next_id p_queue_set_next_id p_next_id_set_next_id p_reg_set_next_id p_clr_set_next_id p_exitdr_set_next_id p_g_enq_set_next_id p_g_relfail_set_next_id p_g_relexit_set_next_id : sysdb.
#[export] Hint Rewrite p_g_relclear_set_next_id p_g_leaked_set_next_id p_g_late_set_next_id p_w_req_set_next_id p_w_seen_set_next_id p_returned_set_next_id p_hup_set_next_id p_erl_set_next_id p_slots_set_next_id p_rdy_set_next_id p_todo_set_next_id p_psig_set_next_id p_pn_set_next_id p_wkn_set_next_id p_g_relclose_set_next_id p_inp_set_next_id p_peof_set_next_id p_rdh_set_next_id p_tmn_set_next_id p_cbk_set_next_id p_cbs_set_next_id p_lfreed_set_next_id p_g_uaf_set_next_id p_thr_set_next_id p_cnt_set_reg p_edge_set_reg p_to_exit_set_reg p_tidf_set_reg p_created_set_reg p_mtx_set_reg p_queue_set_reg p_next_id_set_reg p_reg_set_reg p_clr_set_reg p_exitdr_set_reg p_g_enq_set_reg p_g_relfail_set_reg p_g_relexit_set_reg p_g_relclear_set_reg p_g_leaked_set_reg : sysdb.
#[export] Hint Rewrite p_g_late_set_reg p_w_req_set_reg p_w_seen_set_reg p_returned_set_reg p_hup_set_reg p_erl_set_reg p_slots_set_reg p_rdy_set_reg p_todo_set_reg p_psig_set_reg p_pn_set_reg p_wkn_set_reg p_g_relclose_set_reg p_inp_set_reg p_peof_set_reg p_rdh_set_reg p_tmn_set_reg p_cbk_set_reg p_cbs_set_reg p_lfreed_set_reg p_g_uaf_set_reg p_thr_set_reg p_cnt_set_clr p_edge_set_clr p_to_exit_set_clr p_tidf_set_clr p_created_set_clr p_mtx_set_clr p_queue_set_clr p_next_id_set_clr p_reg_set_clr p_clr_set_clr p_exitdr_set_clr p_g_enq_set_clr p_g_relfail_set_clr p_g_relexit_set_clr p_g_relclear_set_clr p_g_leaked_set_clr p_g_late_set_clr p_w_req_set_clr : sysdb.
#[export] Hint Rewrite p_w_seen_set_clr p_returned_set_clr p_hup_set_clr p_erl_set_clr p_slots_set_clr p_rdy_set_clr p_todo_set_clr p_psig_set_clr p_pn_set_clr p_wkn_set_clr p_g_relclose_set_clr p_inp_set_clr p_peof_set_clr p_rdh_set_clr p_tmn_set_clr p_cbk_set_clr p_cbs_set_clr p_lfreed_set_clr p_g_uaf_set_clr p_thr_set_clr p_cnt_set_exitdr p_edge_set_exitdr p_to_exit_set_exitdr p_tidf_set_exitdr p_created_set_exitdr p_mtx_set_exitdr p_queue_set_exitdr p_next_id_set_exitdr p_reg_set_exitdr p_clr_set_exitdr p_exitdr_set_exitdr p_g_enq_set_exitdr p_g_relfail_set_exitdr p_g_relexit_set_exitdr p_g_relclear_set_exitdr p_g_leaked_set_exitdr p_g_late_set_exitdr p_w_req_set_exitdr p_w_seen_set_exitdr p_returned_set_exitdr : sysdb.
#[export] Hint Rewrite p_hup_set_exitdr p_erl_set_exitdr p_slots_set_exitdr p_rdy_set_exitdr p_todo_set_exitdr p_psig_set_exitdr p_pn_set_exitdr p_wkn_set_exitdr p_g_relclose_set_exitdr p_inp_set_exitdr p_peof_set_exitdr p_rdh_set_exitdr p_tmn_set_exitdr p_cbk_set_exitdr p_cbs_set_exitdr p_lfreed_set_exitdr p_g_uaf_set_exitdr p_thr_set_exitdr p_cnt_set_g_enq p_edge_set_g_enq p_to_exit_set_g_enq p_tidf_set_g_enq p_created_set_g_enq p_mtx_set_g_enq p_queue_set_g_enq p_next_id_set_g_enq p_reg_set_g_enq p_clr_set_g_enq p_exitdr_set_g_enq p_g_enq_set_g_enq p_g_relfail_set_g_enq p_g_relexit_set_g_enq p_g_relclear_set_g_enq p_g_leaked_set_g_enq p_g_late_set_g_enq p_w_req_set_g_enq p_w_seen_set_g_enq p_returned_set_g_enq p_hup_set_g_enq p_erl_set_g_enq : sysdb.
#[export] Hint Rewrite p_slots_set_g_enq p_rdy_set_g_enq p_todo_set_g_enq p_psig_set_g_enq p_pn_set_g_enq p_wkn_set_g_enq p_g_relclose_set_g_enq p_inp_set_g_enq p_peof_set_g_enq p_rdh_set_g_enq p_tmn_set_g_enq p_cbk_set_g_enq p_cbs_set_g_enq p_lfreed_set_g_enq p_g_uaf_set_g_enq p_thr_set_g_enq p_cnt_set_g_relfail p_edge_set_g_relfail p_to_exit_set_g_relfail p_tidf_set_g_relfail p_created_set_g_relfail p_mtx_set_g_relfail p_queue_set_g_relfail p_next_id_set_g_relfail p_reg_set_g_relfail p_clr_set_g_relfail p_exitdr_set_g_relfail p_g_enq_set_g_relfail p_g_relfail_set_g_relfail p_g_relexit_set_g_relfail p_g_relclear_set_g_relfail p_g_leaked_set_g_relfail p_g_late_set_g_relfail p_w_req_set_g_relfail p_w_seen_set_g_relfail p_returned_set_g_relfail p_hup_set_g_relfail p_erl_set_g_relfail p_slots_set_g_relfail p_rdy_set_g_relfail : sysdb.
#[export] Hint Rewrite p_todo_set_g_relfail p_psig_set_g_relfail p_pn_set_g_relfail p_wkn_set_g_relfail p_g_relclose_set_g_relfail p_inp_set_g_relfail p_peof_set_g_relfail p_rdh_set_g_relfail p_tmn_set_g_relfail p_cbk_set_g_relfail p_cbs_set_g_relfail p_lfreed_set_g_relfail p_g_uaf_set_g_relfail p_thr_set_g_relfail p_cnt_set_g_relexit p_edge_set_g_relexit p_to_exit_set_g_relexit p_tidf_set_g_relexit p_created_set_g_relexit p_mtx_set_g_relexit p_queue_set_g_relexit p_next_id_set_g_relexit p_reg_set_g_relexit p_clr_set_g_relexit p_exitdr_set_g_relexit p_g_enq_set_g_relexit p_g_relfail_set_g_relexit p_g_relexit_set_g_relexit p_g_relclear_set_g_relexit p_g_leaked_set_g_relexit p_g_late_set_g_relexit p_w_req_set_g_relexit p_w_seen_set_g_relexit p_returned_set_g_relexit p_hup_set_g_relexit p_erl_set_g_relexit p_slots_set_g_relexit p_rdy_set_g_relexit p_todo_set_g_relexit p_psig_set_g_relexit : sysdb.
#[export] Hint Rewrite p_pn_set_g_relexit p_wkn_set_g_relexit p_g_relclose_set_g_relexit p_inp_set_g_relexit p_peof_set_g_relexit p_rdh_set_g_relexit p_tmn_set_g_relexit p_cbk_set_g_relexit p_cbs_set_g_relexit p_lfreed_set_g_relexit p_g_uaf_set_g_relexit p_thr_set_g_relexit p_cnt_set_g_relclear p_edge_set_g_relclear p_to_exit_set_g_relclear p_tidf_set_g_relclear p_created_set_g_relclear p_mtx_set_g_relclear p_queue_set_g_relclear p_next_id_set_g_relclear p_reg_set_g_relclear p_clr_set_g_relclear p_exitdr_set_g_relclear p_g_enq_set_g_relclear p_g_relfail_set_g_relclear p_g_relexit_set_g_relclear p_g_relclear_set_g_relclear p_g_leaked_set_g_relclear p_g_late_set_g_relclear p_w_req_set_g_relclear p_w_seen_set_g_relclear p_returned_set_g_relclear p_hup_set_g_relclear p_erl_set_g_relclear p_slots_set_g_relclear p_rdy_set_g_relclear p_todo_set_g_relclear p_psig_set_g_relclear p_pn_set_g_relclear p_wkn_set_g_relclear : sysdb.
#[export] Hint Rewrite p_g_relclose_set_g_relclear p_inp_set_g_relclear p_peof_set_g_relclear p_rdh_set_g_relclear p_tmn_set_g_relclear p_cbk_set_g_relclear p_cbs_set_g_relclear p_lfreed_set_g_relclear p_g_uaf_set_g_relclear p_thr_set_g_relclear p_cnt_set_g_leaked p_edge_set_g_leaked p_to_exit_set_g_leaked p_tidf_set_g_leaked p_created_set_g_leaked p_mtx_set_g_leaked p_queue_set_g_leaked p_next_id_set_g_leaked p_reg_set_g_leaked p_clr_set_g_leaked p_exitdr_set_g_leaked p_g_enq_set_g_leaked p_g_relfail_set_g_leaked p_g_relexit_set_g_leaked p_g_relclear_set_g_leaked p_g_leaked_set_g_leaked p_g_late_set_g_leaked p_w_req_set_g_leaked p_w_seen_set_g_leaked p_returned_set_g_leaked p_hup_set_g_leaked p_erl_set_g_leaked p_slots_set_g_leaked p_rdy_set_g_leaked p_todo_set_g_leaked p_psig_set_g_leaked p_pn_set_g_leaked p_wkn_set_g_leaked p_g_relclose_set_g_leaked p_inp_set_g_leaked : sysdb.
#[export] Hint Rewrite p_peof_set_g_leaked p_rdh_set_g_leaked p_tmn_set_g_leaked p_cbk_set_g_leaked p_cbs_set_g_leaked p_lfreed_set_g_leaked p_g_uaf_set_g_leaked p_thr_set_g_leaked p_cnt_set_g_late p_edge_set_g_late p_to_exit_set_g_late p_tidf_set_g_late p_created_set_g_late p_mtx_set_g_late p_queue_set_g_late p_next_id_set_g_late p_reg_set_g_late p_clr_set_g_late p_exitdr_set_g_late p_g_enq_set_g_late p_g_relfail_set_g_late p_g_relexit_set_g_late p_g_relclear_set_g_late p_g_leaked_set_g_late p_g_late_set_g_late p_w_req_set_g_late p_w_seen_set_g_late p_returned_set_g_late p_hup_set_g_late p_erl_set_g_late p_slots_set_g_late p_rdy_set_g_late p_todo_set_g_late p_psig_set_g_late p_pn_set_g_late p_wkn_set_g_late p_g_relclose_set_g_late p_inp_set_g_late p_peof_set_g_late p_rdh_set_g_late : sysdb.
#[export] Hint Rewrite p_tmn_set_g_late p_cbk_set_g_late p_cbs_set_g_late p_lfreed_set_g_late p_g_uaf_set_g_late p_thr_set_g_late p_cnt_set_w_req p_edge_set_w_req p_to_exit_set_w_req p_tidf_set_w_req p_created_set_w_req p_mtx_set_w_req p_queue_set_w_req p_next_id_set_w_req p_reg_set_w_req p_clr_set_w_req p_exitdr_set_w_req p_g_enq_set_w_req p_g_relfail_set_w_req p_g_relexit_set_w_req p_g_relclear_set_w_req p_g_leaked_set_w_req p_g_late_set_w_req p_w_req_set_w_req p_w_seen_set_w_req p_returned_set_w_req p_hup_set_w_req p_erl_set_w_req p_slots_set_w_req p_rdy_set_w_req p_todo_set_w_req p_psig_set_w_req p_pn_set_w_req p_wkn_set_w_req p_g_relclose_set_w_req p_inp_set_w_req p_peof_set_w_req p_rdh_set_w_req p_tmn_set_w_req p_cbk_set_w_req : sysdb.
#[export] Hint Rewrite p_cbs_set_w_req p_lfreed_set_w_req p_g_uaf_set_w_req p_thr_set_w_req p_cnt_set_w_seen p_edge_set_w_seen p_to_exit_set_w_seen p_tidf_set_w_seen p_created_set_w_seen p_mtx_set_w_seen p_queue_set_w_seen p_next_id_set_w_seen p_reg_set_w_seen p_clr_set_w_seen p_exitdr_set_w_seen p_g_enq_set_w_seen p_g_relfail_set_w_seen p_g_relexit_set_w_seen p_g_relclear_set_w_seen p_g_leaked_set_w_seen p_g_late_set_w_seen p_w_req_set_w_seen p_w_seen_set_w_seen p_returned_set_w_seen p_hup_set_w_seen p_erl_set_w_seen p_slots_set_w_seen p_rdy_set_w_seen p_todo_set_w_seen p_psig_set_w_seen p_pn_set_w_seen p_wkn_set_w_seen p_g_relclose_set_w_seen p_inp_set_w_seen p_peof_set_w_seen p_rdh_set_w_seen p_tmn_set_w_seen p_cbk_set_w_seen p_cbs_set_w_seen p_lfreed_set_w_seen : sysdb.
#[export] Hint Rewrite p_g_uaf_set_w_seen p_thr_set_w_seen p_cnt_set_returned p_edge_set_returned p_to_exit_set_returned p_tidf_set_returned p_created_set_returned p_mtx_set_returned p_queue_set_returned p_next_id_set_returned p_reg_set_returned p_clr_set_returned p_exitdr_set_returned p_g_enq_set_returned p_g_relfail_set_returned p_g_relexit_set_returned p_g_relclear_set_returned p_g_leaked_set_returned p_g_late_set_returned p_w_req_set_returned p_w_seen_set_returned p_returned_set_returned p_hup_set_returned p_erl_set_returned p_slots_set_returned p_rdy_set_returned p_todo_set_returned p_psig_set_returned p_pn_set_returned p_wkn_set_returned p_g_relclose_set_returned p_inp_set_returned p_peof_set_returned p_rdh_set_returned p_tmn_set_returned p_cbk_set_returned p_cbs_set_returned p_lfreed_set_returned p_g_uaf_set_returned p_thr_set_returned : sysdb.
#[export] Hint Rewrite p_cnt_set_hup p_edge_set_hup p_to_exit_set_hup p_tidf_set_hup p_created_set_hup p_mtx_set_hup p_queue_set_hup p_next_id_set_hup p_reg_set_hup p_clr_set_hup p_exitdr_set_hup p_g_enq_set_hup p_g_relfail_set_hup p_g_relexit_set_hup p_g_relclear_set_hup p_g_leaked_set_hup p_g_late_set_hup p_w_req_set_hup p_w_seen_set_hup p_returned_set_hup p_hup_set_hup p_erl_set_hup p_slots_set_hup p_rdy_set_hup p_todo_set_hup p_psig_set_hup p_pn_set_hup p_wkn_set_hup p_g_relclose_set_hup p_inp_set_hup p_peof_set_hup p_rdh_set_hup p_tmn_set_hup p_cbk_set_hup p_cbs_set_hup p_lfreed_set_hup p_g_uaf_set_hup p_thr_set_hup p_cnt_set_erl p_edge_set_erl : sysdb.
#[export] Hint Rewrite p_to_exit_set_erl p_tidf_set_erl p_created_set_erl p_mtx_set_erl p_queue_set_erl p_next_id_set_erl p_reg_set_erl p_clr_set_erl p_exitdr_set_erl p_g_enq_set_erl p_g_relfail_set_erl p_g_relexit_set_erl p_g_relclear_set_erl p_g_leaked_set_erl p_g_late_set_erl p_w_req_set_erl p_w_seen_set_erl p_returned_set_erl p_hup_set_erl p_erl_set_erl p_slots_set_erl p_rdy_set_erl p_todo_set_erl p_psig_set_erl p_pn_set_erl p_wkn_set_erl p_g_relclose_set_erl p_inp_set_erl p_peof_set_erl p_rdh_set_erl p_tmn_set_erl p_cbk_set_erl p_cbs_set_erl p_lfreed_set_erl p_g_uaf_set_erl p_thr_set_erl p_cnt_set_slots p_edge_set_slots p_to_exit_set_slots p_tidf_set_slots : sysdb.
#[export] Hint Rewrite p_created_set_slots p_mtx_set_slots p_queue_set_slots p_next_id_set_slots p_reg_set_slots p_clr_set_slots p_exitdr_set_slots p_g_enq_set_slots p_g_relfail_set_slots p_g_relexit_set_slots p_g_relclear_set_slots p_g_leaked_set_slots p_g_late_set_slots p_w_req_set_slots p_w_seen_set_slots p_returned_set_slots p_hup_set_slots p_erl_set_slots p_slots_set_slots p_rdy_set_slots p_todo_set_slots p_psig_set_slots p_pn_set_slots p_wkn_set_slots p_g_relclose_set_slots p_inp_set_slots p_peof_set_slots p_rdh_set_slots p_tmn_set_slots p_cbk_set_slots p_cbs_set_slots p_lfreed_set_slots p_g_uaf_set_slots p_thr_set_slots p_cnt_set_rdy p_edge_set_rdy p_to_exit_set_rdy p_tidf_set_rdy p_created_set_rdy p_mtx_set_rdy : sysdb.
#[export] Hint Rewrite p_queue_set_rdy p_next_id_set_rdy p_reg_set_rdy p_clr_set_rdy p_exitdr_set_rdy p_g_enq_set_rdy p_g_relfail_set_rdy p_g_relexit_set_rdy p_g_relclear_set_rdy p_g_leaked_set_rdy p_g_late_set_rdy p_w_req_set_rdy p_w_seen_set_rdy p_returned_set_rdy p_hup_set_rdy p_erl_set_rdy p_slots_set_rdy p_rdy_set_rdy p_todo_set_rdy p_psig_set_rdy p_pn_set_rdy p_wkn_set_rdy p_g_relclose_set_rdy p_inp_set_rdy p_peof_set_rdy p_rdh_set_rdy p_tmn_set_rdy p_cbk_set_rdy p_cbs_set_rdy p_lfreed_set_rdy p_g_uaf_set_rdy p_thr_set_rdy p_cnt_set_todo p_edge_set_todo p_to_exit_set_todo p_tidf_set_todo p_created_set_todo p_mtx_set_todo p_queue_set_todo p_next_id_set_todo : sysdb.
#[export] Hint Rewrite p_reg_set_todo p_clr_set_todo p_exitdr_set_todo p_g_enq_set_todo p_g_relfail_set_todo p_g_relexit_set_todo p_g_relclear_set_todo p_g_leaked_set_todo p_g_late_set_todo p_w_req_set_todo p_w_seen_set_todo p_returned_set_todo p_hup_set_todo p_erl_set_todo p_slots_set_todo p_rdy_set_todo p_todo_set_todo p_psig_set_todo p_pn_set_todo p_wkn_set_todo p_g_relclose_set_todo p_inp_set_todo p_peof_set_todo p_rdh_set_todo p_tmn_set_todo p_cbk_set_todo p_cbs_set_todo p_lfreed_set_todo p_g_uaf_set_todo p_thr_set_todo p_cnt_set_psig p_edge_set_psig p_to_exit_set_psig p_tidf_set_psig p_created_set_psig p_mtx_set_psig p_queue_set_psig p_next_id_set_psig p_reg_set_psig p_clr_set_psig : sysdb.
#[export] Hint Rewrite p_exitdr_set_psig p_g_enq_set_psig p_g_relfail_set_psig p_g_relexit_set_psig p_g_relclear_set_psig p_g_leaked_set_psig p_g_late_set_psig p_w_req_set_psig p_w_seen_set_psig p_returned_set_psig p_hup_set_psig p_erl_set_psig p_slots_set_psig p_rdy_set_psig p_todo_set_psig p_psig_set_psig p_pn_set_psig p_wkn_set_psig p_g_relclose_set_psig p_inp_set_psig p_peof_set_psig p_rdh_set_psig p_tmn_set_psig p_cbk_set_psig p_cbs_set_psig p_lfreed_set_psig p_g_uaf_set_psig p_thr_set_psig p_cnt_set_pn p_edge_set_pn p_to_exit_set_pn p_tidf_set_pn p_created_set_pn p_mtx_set_pn p_queue_set_pn p_next_id_set_pn p_reg_set_pn p_clr_set_pn p_exitdr_set_pn p_g_enq_set_pn : sysdb.
#[export] Hint Rewrite p_g_relfail_set_pn p_g_relexit_set_pn p_g_relclear_set_pn p_g_leaked_set_pn p_g_late_set_pn p_w_req_set_pn p_w_seen_set_pn p_returned_set_pn p_hup_set_pn p_erl_set_pn p_slots_set_pn p_rdy_set_pn p_todo_set_pn p_psig_set_pn p_pn_set_pn p_wkn_set_pn p_g_relclose_set_pn p_inp_set_pn p_peof_set_pn p_rdh_set_pn p_tmn_set_pn p_cbk_set_pn p_cbs_set_pn p_lfreed_set_pn p_g_uaf_set_pn p_thr_set_pn p_cnt_set_wkn p_edge_set_wkn p_to_exit_set_wkn p_tidf_set_wkn p_created_set_wkn p_mtx_set_wkn p_queue_set_wkn p_next_id_set_wkn p_reg_set_wkn p_clr_set_wkn p_exitdr_set_wkn p_g_enq_set_wkn p_g_relfail_set_wkn p_g_relexit_set_wkn : sysdb.
#[export] Hint Rewrite p_g_relclear_set_wkn p_g_leaked_set_wkn p_g_late_set_wkn p_w_req_set_wkn p_w_seen_set_wkn p_returned_set_wkn p_hup_set_wkn p_erl_set_wkn p_slots_set_wkn p_rdy_set_wkn p_todo_set_wkn p_psig_set_wkn p_pn_set_wkn p_wkn_set_wkn p_g_relclose_set_wkn p_inp_set_wkn p_peof_set_wkn p_rdh_set_wkn p_tmn_set_wkn p_cbk_set_wkn p_cbs_set_wkn p_lfreed_set_wkn p_g_uaf_set_wkn p_thr_set_wkn p_cnt_set_g_relclose p_edge_set_g_relclose p_to_exit_set_g_relclose p_tidf_set_g_relclose p_created_set_g_relclose p_mtx_set_g_relclose p_queue_set_g_relclose p_next_id_set_g_relclose p_reg_set_g_relclose p_clr_set_g_relclose p_exitdr_set_g_relclose p_g_enq_set_g_relclose p_g_relfail_set_g_relclose p_g_relexit_set_g_relclose p_g_relclear_set_g_relclose p_g_leaked_set_g_relclose : sysdb.
#[export] Hint Rewrite p_g_late_set_g_relclose p_w_req_set_g_relclose p_w_seen_set_g_relclose p_returned_set_g_relclose p_hup_set_g_relclose p_erl_set_g_relclose p_slots_set_g_relclose p_rdy_set_g_relclose p_todo_set_g_relclose p_psig_set_g_relclose p_pn_set_g_relclose p_wkn_set_g_relclose p_g_relclose_set_g_relclose p_inp_set_g_relclose p_peof_set_g_relclose p_rdh_set_g_relclose p_tmn_set_g_relclose p_cbk_set_g_relclose p_cbs_set_g_relclose p_lfreed_set_g_relclose p_g_uaf_set_g_relclose p_thr_set_g_relclose p_cnt_set_inp p_edge_set_inp p_to_exit_set_inp p_tidf_set_inp p_created_set_inp p_mtx_set_inp p_queue_set_inp p_next_id_set_inp p_reg_set_inp p_clr_set_inp p_exitdr_set_inp p_g_enq_set_inp p_g_relfail_set_inp p_g_relexit_set_inp p_g_relclear_set_inp p_g_leaked_set_inp p_g_late_set_inp p_w_req_set_inp : sysdb.
#[export] Hint Rewrite p_w_seen_set_inp p_returned_set_inp p_hup_set_inp p_erl_set_inp p_slots_set_inp p_rdy_set_inp p_todo_set_inp p_psig_set_inp p_pn_set_inp p_wkn_set_inp p_g_relclose_set_inp p_inp_set_inp p_peof_set_inp p_rdh_set_inp p_tmn_set_inp p_cbk_set_inp p_cbs_set_inp p_lfreed_set_inp p_g_uaf_set_inp p_thr_set_inp p_cnt_set_peof p_edge_set_peof p_to_exit_set_peof p_tidf_set_peof p_created_set_peof p_mtx_set_peof p_queue_set_peof p_next_id_set_peof p_reg_set_peof p_clr_set_peof p_exitdr_set_peof p_g_enq_set_peof p_g_relfail_set_peof p_g_relexit_set_peof p_g_relclear_set_peof p_g_leaked_set_peof p_g_late_set_peof p_w_req_set_peof p_w_seen_set_peof p_returned_set_peof : sysdb.
#[export] Hint Rewrite p_hup_set_peof p_erl_set_peof p_slots_set_peof p_rdy_set_peof p_todo_set_peof p_psig_set_peof p_pn_set_peof p_wkn_set_peof p_g_relclose_set_peof p_inp_set_peof p_peof_set_peof p_rdh_set_peof p_tmn_set_peof p_cbk_set_peof p_cbs_set_peof p_lfreed_set_peof p_g_uaf_set_peof p_thr_set_peof p_cnt_set_rdh p_edge_set_rdh p_to_exit_set_rdh p_tidf_set_rdh p_created_set_rdh p_mtx_set_rdh p_queue_set_rdh p_next_id_set_rdh p_reg_set_rdh p_clr_set_rdh p_exitdr_set_rdh p_g_enq_set_rdh p_g_relfail_set_rdh p_g_relexit_set_rdh p_g_relclear_set_rdh p_g_leaked_set_rdh p_g_late_set_rdh p_w_req_set_rdh p_w_seen_set_rdh p_returned_set_rdh p_hup_set_rdh p_erl_set_rdh : sysdb.
#[export] Hint Rewrite p_slots_set_rdh p_rdy_set_rdh p_todo_set_rdh p_psig_set_rdh p_pn_set_rdh p_wkn_set_rdh p_g_relclose_set_rdh p_inp_set_rdh p_peof_set_rdh p_rdh_set_rdh p_tmn_set_rdh p_cbk_set_rdh p_cbs_set_rdh p_lfreed_set_rdh p_g_uaf_set_rdh p_thr_set_rdh p_cnt_set_tmn p_edge_set_tmn p_to_exit_set_tmn p_tidf_set_tmn p_created_set_tmn p_mtx_set_tmn p_queue_set_tmn p_next_id_set_tmn p_reg_set_tmn p_clr_set_tmn p_exitdr_set_tmn p_g_enq_set_tmn p_g_relfail_set_tmn p_g_relexit_set_tmn p_g_relclear_set_tmn p_g_leaked_set_tmn p_g_late_set_tmn p_w_req_set_tmn p_w_seen_set_tmn p_returned_set_tmn p_hup_set_tmn p_erl_set_tmn p_slots_set_tmn p_rdy_set_tmn : sysdb.
#[export] Hint Rewrite p_todo_set_tmn p_psig_set_tmn p_pn_set_tmn p_wkn_set_tmn p_g_relclose_set_tmn p_inp_set_tmn p_peof_set_tmn p_rdh_set_tmn p_tmn_set_tmn p_cbk_set_tmn p_cbs_set_tmn p_lfreed_set_tmn p_g_uaf_set_tmn p_thr_set_tmn p_cnt_set_cbk p_edge_set_cbk p_to_exit_set_cbk p_tidf_set_cbk p_created_set_cbk p_mtx_set_cbk p_queue_set_cbk p_next_id_set_cbk p_reg_set_cbk p_clr_set_cbk p_exitdr_set_cbk p_g_enq_set_cbk p_g_relfail_set_cbk p_g_relexit_set_cbk p_g_relclear_set_cbk p_g_leaked_set_cbk p_g_late_set_cbk p_w_req_set_cbk p_w_seen_set_cbk p_returned_set_cbk p_hup_set_cbk p_erl_set_cbk p_slots_set_cbk p_rdy_set_cbk p_todo_set_cbk p_psig_set_cbk : sysdb.
#[export] Hint Rewrite p_pn_set_cbk p_wkn_set_cbk p_g_relclose_set_cbk p_inp_set_cbk p_peof_set_cbk p_rdh_set_cbk p_tmn_set_cbk p_cbk_set_cbk p_cbs_set_cbk p_lfreed_set_cbk p_g_uaf_set_cbk p_thr_set_cbk p_cnt_set_cbs p_edge_set_cbs p_to_exit_set_cbs p_tidf_set_cbs p_created_set_cbs p_mtx_set_cbs p_queue_set_cbs p_next_id_set_cbs p_reg_set_cbs p_clr_set_cbs p_exitdr_set_cbs p_g_enq_set_cbs p_g_relfail_set_cbs p_g_relexit_set_cbs p_g_relclear_set_cbs p_g_leaked_set_cbs p_g_late_set_cbs p_w_req_set_cbs p_w_seen_set_cbs p_returned_set_cbs p_hup_set_cbs p_erl_set_cbs p_slots_set_cbs p_rdy_set_cbs p_todo_set_cbs p_psig_set_cbs p_pn_set_cbs p_wkn_set_cbs : sysdb.
#[export] Hint Rewrite p_g_relclose_set_cbs p_inp_set_cbs p_peof_set_cbs p_rdh_set_cbs p_tmn_set_cbs p_cbk_set_cbs p_cbs_set_cbs p_lfreed_set_cbs p_g_uaf_set_cbs p_thr_set_cbs p_cnt_set_lfreed p_edge_set_lfreed p_to_exit_set_lfreed p_tidf_set_lfreed p_created_set_lfreed p_mtx_set_lfreed p_queue_set_lfreed p_next_id_set_lfreed p_reg_set_lfreed p_clr_set_lfreed p_exitdr_set_lfreed p_g_enq_set_lfreed p_g_relfail_set_lfreed p_g_relexit_set_lfreed p_g_relclear_set_lfreed p_g_leaked_set_lfreed p_g_late_set_lfreed p_w_req_set_lfreed p_w_seen_set_lfreed p_returned_set_lfreed p_hup_set_lfreed p_erl_set_lfreed p_slots_set_lfreed p_rdy_set_lfreed p_todo_set_lfreed p_psig_set_lfreed p_pn_set_lfreed p_wkn_set_lfreed p_g_relclose_set_lfreed p_inp_set_lfreed : sysdb.
#[export] Hint Rewrite p_peof_set_lfreed p_rdh_set_lfreed p_tmn_set_lfreed p_cbk_set_lfreed p_cbs_set_lfreed p_lfreed_set_lfreed p_g_uaf_set_lfreed p_thr_set_lfreed p_cnt_set_g_uaf p_edge_set_g_uaf p_to_exit_set_g_uaf p_tidf_set_g_uaf p_created_set_g_uaf p_mtx_set_g_uaf p_queue_set_g_uaf p_next_id_set_g_uaf p_reg_set_g_uaf p_clr_set_g_uaf p_exitdr_set_g_uaf p_g_enq_set_g_uaf p_g_relfail_set_g_uaf p_g_relexit_set_g_uaf p_g_relclear_set_g_uaf p_g_leaked_set_g_uaf p_g_late_set_g_uaf p_w_req_set_g_uaf p_w_seen_set_g_uaf p_returned_set_g_uaf p_hup_set_g_uaf p_erl_set_g_uaf p_slots_set_g_uaf p_rdy_set_g_uaf p_todo_set_g_uaf p_psig_set_g_uaf p_pn_set_g_uaf p_wkn_set_g_uaf p_g_relclose_set_g_uaf p_inp_set_g_uaf p_peof_set_g_uaf p_rdh_set_g_uaf : sysdb.
#[export] Hint Rewrite p_tmn_set_g_uaf p_cbk_set_g_uaf p_cbs_set_g_uaf p_lfreed_set_g_uaf p_g_uaf_set_g_uaf p_thr_set_g_uaf p_cnt_set_thr p_edge_set_thr p_to_exit_set_thr p_tidf_set_thr p_created_set_thr p_mtx_set_thr p_queue_set_thr p_next_id_set_thr p_reg_set_thr p_clr_set_thr p_exitdr_set_thr p_g_enq_set_thr p_g_relfail_set_thr p_g_relexit_set_thr p_g_relclear_set_thr p_g_leaked_set_thr p_g_late_set_thr p_w_req_set_thr p_w_seen_set_thr p_returned_set_thr p_hup_set_thr p_erl_set_thr p_slots_set_thr p_rdy_set_thr p_todo_set_thr p_psig_set_thr p_pn_set_thr p_wkn_set_thr p_g_relclose_set_thr p_inp_set_thr p_peof_set_thr p_rdh_set_thr p_tmn_set_thr p_cbk_set_thr : sysdb.
#[export] Hint Rewrite p_cbs_set_thr p_lfreed_set_thr p_g_uaf_set_thr p_thr_set_thr p_cnt_set_pc p_edge_set_pc p_to_exit_set_pc p_tidf_set_pc p_created_set_pc p_mtx_set_pc p_queue_set_pc p_next_id_set_pc p_reg_set_pc p_clr_set_pc p_exitdr_set_pc p_g_enq_set_pc p_g_relfail_set_pc p_g_relexit_set_pc p_g_relclear_set_pc p_g_leaked_set_pc p_g_late_set_pc p_w_req_set_pc p_w_seen_set_pc p_returned_set_pc p_hup_set_pc p_erl_set_pc p_slots_set_pc p_rdy_set_pc p_todo_set_pc p_psig_set_pc p_pn_set_pc p_wkn_set_pc p_g_relclose_set_pc p_inp_set_pc p_peof_set_pc p_rdh_set_pc p_tmn_set_pc p_cbk_set_pc p_cbs_set_pc p_lfreed_set_pc : sysdb.
#[export] Hint Rewrite p_g_uaf_set_pc p_thr_set_pc p_cnt_touch p_edge_touch p_to_exit_touch p_tidf_touch p_created_touch p_mtx_touch p_queue_touch p_next_id_touch p_reg_touch p_clr_touch p_exitdr_touch p_g_enq_touch p_g_relfail_touch p_g_relexit_touch p_g_relclear_touch p_g_leaked_touch p_g_late_touch p_w_req_touch p_w_seen_touch p_returned_touch p_hup_touch p_erl_touch p_slots_touch p_rdy_touch p_todo_touch p_psig_touch p_pn_touch p_wkn_touch p_g_relclose_touch p_inp_touch p_peof_touch p_rdh_touch p_tmn_touch p_cbk_touch p_cbs_touch p_lfreed_touch p_g_uaf_touch p_thr_touch : sysdb.
#[export] Hint Rewrite p_cnt_sig_write p_edge_sig_write p_to_exit_sig_write p_tidf_sig_write p_created_sig_write p_mtx_sig_write p_queue_sig_write p_next_id_sig_write p_reg_sig_write p_clr_sig_write p_exitdr_sig_write p_g_enq_sig_write p_g_relfail_sig_write p_g_relexit_sig_write p_g_relclear_sig_write p_g_leaked_sig_write p_g_late_sig_write p_w_req_sig_write p_w_seen_sig_write p_returned_sig_write p_hup_sig_write p_erl_sig_write p_slots_sig_write p_rdy_sig_write p_todo_sig_write p_psig_sig_write p_pn_sig_write p_wkn_sig_write p_g_relclose_sig_write p_inp_sig_write p_peof_sig_write p_rdh_sig_write p_tmn_sig_write p_cbk_sig_write p_cbs_sig_write p_lfreed_sig_write p_g_uaf_sig_write p_thr_sig_write p_cnt_enqueue p_edge_enqueue : sysdb.
#[export] Hint Rewrite p_to_exit_enqueue p_tidf_enqueue p_created_enqueue p_mtx_enqueue p_queue_enqueue p_next_id_enqueue p_reg_enqueue p_clr_enqueue p_exitdr_enqueue p_g_enq_enqueue p_g_relfail_enqueue p_g_relexit_enqueue p_g_relclear_enqueue p_g_leaked_enqueue p_g_late_enqueue p_w_req_enqueue p_w_seen_enqueue p_returned_enqueue p_hup_enqueue p_erl_enqueue p_slots_enqueue p_rdy_enqueue p_todo_enqueue p_psig_enqueue p_pn_enqueue p_wkn_enqueue p_g_relclose_enqueue p_inp_enqueue p_peof_enqueue p_rdh_enqueue p_tmn_enqueue p_cbk_enqueue p_cbs_enqueue p_lfreed_enqueue p_g_uaf_enqueue p_thr_enqueue p_cnt_close_ctx p_edge_close_ctx p_to_exit_close_ctx p_tidf_close_ctx : sysdb.
#[export] Hint Rewrite p_created_close_ctx p_mtx_close_ctx p_queue_close_ctx p_next_id_close_ctx p_reg_close_ctx p_clr_close_ctx p_exitdr_close_ctx p_g_enq_close_ctx p_g_relfail_close_ctx p_g_relexit_close_ctx p_g_relclear_close_ctx p_g_leaked_close_ctx p_g_late_close_ctx p_w_req_close_ctx p_w_seen_close_ctx p_returned_close_ctx p_hup_close_ctx p_erl_close_ctx p_slots_close_ctx p_rdy_close_ctx p_todo_close_ctx p_psig_close_ctx p_pn_close_ctx p_wkn_close_ctx p_g_relclose_close_ctx p_inp_close_ctx p_peof_close_ctx p_rdh_close_ctx p_tmn_close_ctx p_cbk_close_ctx p_cbs_close_ctx p_lfreed_close_ctx p_g_uaf_close_ctx p_thr_close_ctx : sysdb.

(* the fields of an updated state, computed lazily (projections never duplicate the state) *)
Ltac nrm := cbn [cnt edge to_exit tidf created mtx queue next_id reg clr exitdr g_enq g_relfail g_relexit g_relclear g_leaked g_late w_req w_seen returned hup erl slots rdy todo psig pn wkn g_relclose inp peof rdh tmn cbk cbs lfreed g_uaf thr set_cnt set_edge set_to_exit set_tidf set_created set_mtx set_queue set_next_id set_reg set_clr set_exitdr set_g_enq set_g_relfail set_g_relexit set_g_relclear set_g_leaked set_g_late set_w_req set_w_seen set_returned set_hup set_erl set_slots set_rdy set_todo set_psig set_pn set_wkn set_g_relclose set_inp set_peof set_rdh set_tmn set_cbk set_cbs set_lfreed set_g_uaf set_thr set_pc touch sig_write enqueue close_ctx] in *.
Ltac nrmg := cbn [cnt edge to_exit tidf created mtx queue next_id reg clr exitdr g_enq g_relfail g_relexit g_relclear g_leaked g_late w_req w_seen returned hup erl slots rdy todo psig pn wkn g_relclose inp peof rdh tmn cbk cbs lfreed g_uaf thr set_cnt set_edge set_to_exit set_tidf set_created set_mtx set_queue set_next_id set_reg set_clr set_exitdr set_g_enq set_g_relfail set_g_relexit set_g_relclear set_g_leaked set_g_late set_w_req set_w_seen set_returned set_hup set_erl set_slots set_rdy set_todo set_psig set_pn set_wkn set_g_relclose set_inp set_peof set_rdh set_tmn set_cbk set_cbs set_lfreed set_g_uaf set_thr set_pc touch sig_write enqueue close_ctx].
Ltac nrmh H := cbn [cnt edge to_exit tidf created mtx queue next_id reg clr exitdr g_enq g_relfail g_relexit g_relclear g_leaked g_late w_req w_seen returned hup erl slots rdy todo psig pn wkn g_relclose inp peof rdh tmn cbk cbs lfreed g_uaf thr set_cnt set_edge set_to_exit set_tidf set_created set_mtx set_queue set_next_id set_reg set_clr set_exitdr set_g_enq set_g_relfail set_g_relexit set_g_relclear set_g_leaked set_g_late set_w_req set_w_seen set_returned set_hup set_erl set_slots set_rdy set_todo set_psig set_pn set_wkn set_g_relclose set_inp set_peof set_rdh set_tmn set_cbk set_cbs set_lfreed set_g_uaf set_thr set_pc touch sig_write enqueue close_ctx] in H.
