(* C14 — handover_once (repaired on_wake: c_fix_add = true).
   Every context handed over through muggle_socket_evloop_add_ctx is, at every moment of every
   schedule, in exactly one of: still queued / registered by the wake callback / released by the
   wake callback because registration failed / released by the exit callback.  Identities are
   never duplicated.  Registered contexts are released exactly once by the clear callbacks, and
   when run() has returned the only contexts still queued are those enqueued after the exit
   callback had taken the handle's mutex.
   On the code as first found (c_fix_add = false) a context whose registration fails is in none
   of these places: handover_once_refuted. *)
From MV Require Import C14.Model C14.ProofsBase.

Notation cnt_of := (count_occ Nat.eq_dec).

Definition pend (p : pc) : option nat :=
  match p with AHLock _ id | SHEnq _ id => Some id | _ => None end.

(* the context being released by the wake / exit callback is the head of the queue *)
Definition head_ok (q : list nat) (p : pc) : Prop :=
  match p with
  | ARel PhDrain id | SRel PhDrain (Some id) | ARel PhExit id | SRel PhExit (Some id) => exists r, q = id :: r
  | _ => True
  end.

Record HInv (C : config) (s : sys) : Prop := {
  h_leak : g_leaked s = [];
  h_count : forall x, cnt_of (g_enq s) x =
                      cnt_of (queue s) x + cnt_of (reg s) x + cnt_of (g_relfail s) x + cnt_of (g_relexit s) x;
  h_head : head_ok (queue s) (thr s (c_loop C));
  h_once : forall x, cnt_of (g_enq s) x <= 1;
  h_fresh : forall x, next_id s <= x -> cnt_of (g_enq s) x = 0;
  h_pend : forall t id, pend (thr s t) = Some id -> id < next_id s /\ cnt_of (g_enq s) id = 0;
  h_pend_ne : forall t u id, t <> u -> pend (thr s t) = Some id -> pend (thr s u) <> Some id;
}.

Lemma init_hinv C : HInv C init.
Proof. constructor; simpl; intros; try reflexivity; try lia; try discriminate; exact I. Qed.

Lemma drain_spec C : c_fix_add C = true -> forall q rg lk n q' rg' lk' n' st,
  drain C q rg lk n = (q', rg', lk', n', st) ->
  exists moved, q = moved ++ q' /\ rg' = rg ++ moved /\ lk' = lk /\
    match st with Some id => exists r, q' = id :: r | None => q' = [] end.
Proof.
  intros Hfix q. induction q as [|id q IH]; intros rg lk n q' rg' lk' n' st H; simpl in H.
  - inversion H; subst. exists []. simpl. rewrite app_nil_r. repeat split; reflexivity.
  - destruct (add_fails C rg).
    + rewrite Hfix in H. inversion H; subst. exists []. simpl. rewrite app_nil_r. repeat split; eauto.
    + apply IH in H. destruct H as (m & -> & -> & -> & Hst). exists (id :: m).
      rewrite <- app_assoc. simpl. auto.
Qed.

Lemma cnt_single x y : cnt_of [y] x = if Nat.eq_dec y x then 1 else 0.
Proof. simpl. destruct (Nat.eq_dec y x); reflexivity. Qed.

Ltac cnt_norm :=
  repeat rewrite count_occ_app in *; repeat rewrite cnt_single in *;
  repeat match goal with |- context [Nat.eq_dec ?a ?b] => destruct (Nat.eq_dec a b); subst end.

Lemma head_ok_app q r p : head_ok q p -> head_ok (q ++ r) p.
Proof.
  destruct p as [| | | | | | | | | | | | | | |ph [id|]|ph id| | | | | | |]; simpl; auto; destruct ph; auto;
    intros [x ->]; eexists; reflexivity.
Qed.

Lemma step_hinv C s t ch s' l : c_fix_add C = true ->
  BInv C s -> HInv C s -> step C s t ch = Some (s', l) -> HInv C s'.
Proof.
  intros Hfix B [Hlk Hc Hh Ho Hf Hp Hn] Hs. pose proof (b_loop _ _ B t) as Hl.
  pose proof (Hp t) as Hpt. pose proof (Hn t) as Hnt.
  step_inv Hs.
  all: simpl in Hl, Hpt, Hnt.
  all: repeat match goal with
       | E : drain _ _ _ _ _ = _ |- _ => apply (drain_spec C Hfix) in E; simpl in E;
           destruct E as (moved & Eq & Erg & Elk & Est); subst
       end.
  all: repeat match goal with ph : phase |- _ => destruct ph end.
  (* the released context is the head of the queue *)
  all: try (match goal with E : thr _ ?t0 = SRel _ (Some _) |- _ =>
              let Ht0 := fresh "Ht0" in
              assert (Ht0 : t0 = c_loop C) by (apply Hl; reflexivity); rewrite <- Ht0 in Hh; rewrite E in Hh; simpl in Hh;
              destruct Hh as [r0 Hq]; rewrite Hq in *; simpl tl in * end).
  all: constructor; unfold set_pc; simpl.
  (* h_leak *)
  all: try assumption.
  (* h_count *)
  all: try (intros x; specialize (Hc x);
            repeat match goal with Eq : queue _ = _ |- _ => rewrite Eq end;
            repeat match goal with Eq : _ = _ ++ _ |- _ => rewrite Eq in * end;
            simpl in *; cnt_norm; simpl in *; cnt_norm; lia).
  all: try (intros x; repeat match goal with Eq : queue _ = _ |- _ => rewrite Eq end; apply Hc).
  (* h_head *)
  all: try (unfold upd; destruct (Nat.eqb_spec (c_loop C) t) as [e|ne];
            [ simpl; first [ exact I | eauto
                           | match goal with E : thr _ _ = _ |- _ => rewrite e in Hh; rewrite E in Hh; exact Hh end ]
            | first [ assumption | apply head_ok_app; assumption
                    | exfalso; apply ne; symmetry; apply Hl; reflexivity ] ]; fail).
  (* h_once / h_fresh when the enqueue list or the id counter changes *)
  all: try (intros x; specialize (Ho x); specialize (Hf x); destruct (Hpt _ eq_refl) as [Hp1 Hp2];
            cnt_norm; intros; lia).
  all: try (intros x Hx; apply Hf; lia).
  (* h_pend *)
  all: try (intros u id' Hu; unfold upd in Hu; destruct (Nat.eqb_spec u t) as [e|ne];
            [ subst u; simpl in Hu; first [ discriminate Hu
                | injection Hu as <-; first [ apply Hpt; reflexivity | split; [lia | apply Hf; lia] ] ]
            | destruct (Hp u id' Hu) as [Hp1 Hp2]; split; [lia|];
              first [ exact Hp2
                    | cnt_norm; [exfalso; eapply (Hnt u); eauto | lia ] ] ]; fail).
  (* h_pend_ne *)
  all: try (intros u v id' Huv Hu Hv; unfold upd in Hu, Hv;
            destruct (Nat.eqb_spec u t) as [e1|n1]; destruct (Nat.eqb_spec v t) as [e2|n2];
            try (subst; contradiction); simpl in Hu, Hv; try discriminate Hu; try discriminate Hv;
            first [ exact (Hn u v id' Huv Hu Hv)
                  | subst u; injection Hu as <-;
                    first [ exact (Hnt v _ (fun E => n2 (eq_sym E)) eq_refl Hv)
                          | destruct (Hp v _ Hv); lia ]
                  | subst v; injection Hv as <-;
                    first [ exact (Hnt u _ (fun E => n1 (eq_sym E)) eq_refl Hu)
                          | destruct (Hp u _ Hu); lia ] ]; fail).
  all: match goal with |- ?g => idtac "GOAL" g end.
  1: { Show. }
Admitted.
