(* C14 — handover_once (repaired on_wake: c_fix_add = true).
   Every context handed over through muggle_socket_evloop_add_ctx is, at every moment of every
   schedule, in exactly one of: still queued / registered by the wake callback and still in the
   loop's list / released by the wake callback because registration failed / released by the
   back-end's close dispatch (it was flagged CLOSED and the back-end saw the flag) / released by
   the exit callback.  Identities are never duplicated.  The contexts still in the list when the
   loop stops are released exactly once by the clear pass WHATEVER THEIR FLAGS (a context that was
   shut down - flagged CLOSED - after the back-end's last look at it is released by the clear
   pass, not skipped), and when run() has returned the only contexts still queued are those
   enqueued after the exit callback had taken the handle's mutex.
   On the code as first found (c_fix_add = false) a context whose registration fails is in none
   of these places: handover_once_refuted. *)
From MV Require Import C14.Model C14.ProofsBase.
From Coq Require Import Permutation.

Notation cnt_of := (count_occ Nat.eq_dec).

Definition pend (p : pc) : option nat :=
  match p with AHLock _ id | SHEnq _ id | Cb (QHL _ id) | Cb (QHE _ id) => Some id | _ => None end.

(* the context being released by the wake / exit callback is the head of the queue *)
Definition head_ok (q : list nat) (p : pc) : Prop :=
  match p with
  | ARel PhDrain id | SRel PhDrain (Some id) | ARel PhExit id | SRel PhExit (Some id) => exists r, q = id :: r
  | _ => True
  end.

(* the context the back-end's close dispatch is releasing *)
Definition closing (p : pc) : option nat :=
  match p with ARel PhClose id | SRel PhClose (Some id) => Some id | _ => None end.

Record HInv (C : config) (s : sys) : Prop := {
  h_leak : g_leaked s = [];
  h_count : forall x, cnt_of (g_enq s) x =
                      cnt_of (queue s) x + cnt_of (reg s) x + cnt_of (g_relfail s) x + cnt_of (g_relexit s) x +
                      cnt_of (g_relclose s) x;
  h_head : head_ok (queue s) (thr s (c_loop C));
  h_once : forall x, cnt_of (g_enq s) x <= 1;
  h_fresh : forall x, next_id s <= x -> cnt_of (g_enq s) x = 0;
  h_pend : forall t id, pend (thr s t) = Some id -> id < next_id s /\ cnt_of (g_enq s) id = 0;
  h_pend_ne : forall t u id, t <> u -> pend (thr s t) = Some id -> pend (thr s u) <> Some id;
  (* the back-end's structures only hold registered contexts, each once *)
  h_slots : NoDup (slots s) /\ incl (slots s) (reg s);
  h_erl : NoDup (erl s) /\ incl (erl s) (reg s);
  h_todo : NoDup (todo s) /\ forall id, In (Some id) (todo s) -> In id (reg s);
  h_closing : forall id, closing (thr s (c_loop C)) = Some id -> In id (reg s) /\ ~ In (Some id) (todo s);
}.

Lemma init_hinv C : HInv C init.
Proof.
  constructor; simpl; intros; try reflexivity; try lia; try discriminate; try exact I;
    try (split; [constructor|intros x Hx; destruct Hx]).
Qed.

Lemma drain_spec C : c_fix_add C = true -> forall q rg lk n q' rg' lk' n' st,
  drain C q rg lk n = (q', rg', lk', n', st) ->
  exists moved, q = moved ++ q' /\ rg' = rg ++ moved /\ lk' = lk /\
    match st with Some id => exists r, q' = id :: r | None => q' = [] end.
Proof.
  intros Hfix q. induction q as [|id q IH]; intros rg lk n q' rg' lk' n' st H; simpl in H.
  - inversion H; subst. exists []. simpl. rewrite app_nil_r. repeat split; reflexivity.
  - destruct (add_fails C rg).
    + rewrite Hfix in H. inversion H; subst. exists []. simpl. rewrite app_nil_r. repeat split; eauto.
    + apply IH in H. destruct H as (m & -> & -> & -> & Hst). exists (id :: m).
      rewrite <- app_assoc. simpl. auto.
Qed.

Lemma cnt_single x y : cnt_of [y] x = if Nat.eq_dec y x then 1 else 0.
Proof. simpl. destruct (Nat.eq_dec y x); reflexivity. Qed.

Ltac cnt_norm :=
  repeat rewrite count_occ_app in *; repeat rewrite cnt_single in *;
  repeat match goal with |- context [Nat.eq_dec ?a ?b] => destruct (Nat.eq_dec a b); subst end.

Lemma cnt_drop id l x : cnt_of (drop id l) x = if Nat.eq_dec id x then 0 else cnt_of l x.
Proof.
  unfold drop. induction l as [|y l IH]; simpl; [destruct (Nat.eq_dec id x); reflexivity|].
  destruct (Nat.eqb_spec y id) as [->|ne]; simpl.
  - rewrite IH. destruct (Nat.eq_dec id x); reflexivity.
  - destruct (Nat.eq_dec y x) as [->|ne2]; rewrite IH; destruct (Nat.eq_dec id x); try reflexivity; congruence.
Qed.

Lemma head_ok_app q r p : head_ok q p -> head_ok (q ++ r) p.
Proof.
  destruct p; simpl; auto; repeat match goal with ph : phase |- _ => destruct ph | o : option nat |- _ => destruct o end;
    simpl; auto; intros [x ->]; eexists; reflexivity.
Qed.

(* a step that touches neither the queue nor the lists of the accounting, by a thread that is not
   (and will not be) inside a hand-over, and that leaves the loop thread at a point with no claim
   on the head of the queue (or where it was) *)
Lemma hinv_frame C s s' t :
  HInv C s ->
  queue s' = queue s -> reg s' = reg s -> g_enq s' = g_enq s -> g_relfail s' = g_relfail s ->
  g_relexit s' = g_relexit s -> g_relclose s' = g_relclose s -> g_leaked s' = g_leaked s -> next_id s' = next_id s ->
  slots s' = slots s ->
  (NoDup (erl s') /\ incl (erl s') (reg s)) ->
  (NoDup (todo s') /\ forall id, In (Some id) (todo s') -> In id (reg s)) ->
  (forall u, u <> t -> thr s' u = thr s u) ->
  (pend (thr s' t) = pend (thr s t) \/ pend (thr s' t) = None) ->
  (t = c_loop C -> head_ok (queue s) (thr s' t)) ->
  (t <> c_loop C -> todo s' = todo s) ->
  (t = c_loop C -> forall id, closing (thr s' t) = Some id -> In id (reg s) /\ ~ In (Some id) (todo s')) ->
  HInv C s'.
Proof.
  intros [Hlk Hc Hh Ho Hf Hp Hn Hsl Her Htd Hcl] E1 E2 E3 E4 E5 E6 E7 E8 E9 Her' Htd' Hoth Hpd Hhd Htd2 Hcl'.
  assert (Hpd' : forall id, pend (thr s' t) = Some id -> pend (thr s t) = Some id).
  { intros id K. destruct Hpd as [Hpd|Hpd]; congruence. }
  constructor.
  - rewrite E7. exact Hlk.
  - intros x. rewrite E1, E2, E3, E4, E5, E6. apply Hc.
  - rewrite E1. destruct (Nat.eq_dec (c_loop C) t) as [e|ne]; [rewrite e; apply Hhd; auto|rewrite (Hoth _ ne); exact Hh].
  - rewrite E3. exact Ho.
  - rewrite E3, E8. exact Hf.
  - rewrite E3, E8. intros u id Hu.
    destruct (Nat.eq_dec u t) as [->|ne]; [apply (Hp t); auto|apply (Hp u); rewrite <- (Hoth u ne); exact Hu].
  - intros u v id Huv Hu Hv.
    assert (Hu' : pend (thr s u) = Some id) by (destruct (Nat.eq_dec u t) as [->|ne]; [auto|rewrite <- (Hoth u ne); exact Hu]).
    assert (Hv' : pend (thr s v) = Some id) by (destruct (Nat.eq_dec v t) as [->|ne]; [auto|rewrite <- (Hoth v ne); exact Hv]).
    exact (Hn u v id Huv Hu' Hv').
  - rewrite E9, E2. exact Hsl.
  - rewrite E2. exact Her'.
  - rewrite E2. exact Htd'.
  - rewrite E2. intros id Hid. destruct (Nat.eq_dec (c_loop C) t) as [e|ne].
    + rewrite e in Hid. apply Hcl'; auto.
    + rewrite (Hoth _ ne) in Hid. rewrite Htd2 by auto. apply Hcl. exact Hid.
Qed.

Ltac hframe_tail F :=
  eapply hinv_frame;
  [ eassumption
  | rewrite (tf_queue _ _ _ F); nrmg; reflexivity | rewrite (tf_reg _ _ _ F); nrmg; reflexivity
  | rewrite (tf_g_enq _ _ _ F); nrmg; reflexivity | rewrite (tf_g_relfail _ _ _ F); nrmg; reflexivity
  | rewrite (tf_g_relexit _ _ _ F); nrmg; reflexivity | rewrite (tf_g_relclose _ _ _ F); nrmg; reflexivity
  | rewrite (tf_g_leaked _ _ _ F); nrmg; reflexivity | rewrite (tf_next_id _ _ _ F); nrmg; reflexivity
  | intros u Hu; rewrite (tf_thr _ _ _ F) by exact Hu; nrmg; try reflexivity; apply upd_other; exact Hu
  | | ].

Lemma tail_pc_pend p : tail_pc_cb p -> pend p = None /\ forall q, head_ok q p.
Proof.
  unfold tail_pc_cb, tail_pc. intros H.
  repeat match goal with H : _ \/ _ |- _ => destruct H | H : exists _, _ |- _ => destruct H end; subst; simpl; auto.
Qed.

(* ---- lists ---- *)
Lemma drop_In id l x : In x (drop id l) <-> In x l /\ x <> id.
Proof.
  unfold drop. rewrite filter_In. split; intros [H1 H2]; split; auto.
  - intros ->. rewrite Nat.eqb_refl in H2. discriminate.
  - apply Bool.negb_true_iff. apply Nat.eqb_neq. exact H2.
Qed.
Lemma drop_NoDup id l : NoDup l -> NoDup (drop id l).
Proof. apply NoDup_filter. Qed.

Lemma replace_NoDup id last r : NoDup r -> ~ In last r ->
  NoDup (map (fun x => if Nat.eqb x id then last else x) r).
Proof.
  induction r as [|a r IH]; simpl; intros Hnd Hl; [constructor|].
  inversion Hnd as [|? ? Ha Hr]; subst. constructor.
  - rewrite in_map_iff. intros (z & Hz & Hin).
    destruct (Nat.eqb_spec a id) as [Ea|Ea]; destruct (Nat.eqb_spec z id) as [Ez|Ez].
    + subst. contradiction.
    + subst. apply Hl. right. exact Hin.
    + subst. apply Hl. left. reflexivity.
    + subst. contradiction.
  - apply IH; [exact Hr|]. intros K. apply Hl. right. exact K.
Qed.

Lemma swap_remove_spec id l : NoDup l ->
  NoDup (swap_remove id l) /\ (forall x, In x (swap_remove id l) -> In x l /\ x <> id).
Proof.
  intros Hnd. unfold swap_remove. destruct (rev l) as [|last ri] eqn:E; [split; [constructor|intros x []]|].
  assert (El : l = rev ri ++ [last]) by (rewrite <- (rev_involutive l), E; reflexivity).
  rewrite El in Hnd. apply NoDup_remove in Hnd. rewrite app_nil_r in Hnd. destruct Hnd as [Hn1 Hn2].
  destruct (Nat.eqb_spec last id) as [->|ne].
  - split; [exact Hn1|]. intros x Hx. split; [rewrite El; apply in_or_app; left; exact Hx|]. intros ->. contradiction.
  - split; [apply replace_NoDup; assumption|].
    intros x Hx. rewrite in_map_iff in Hx. destruct Hx as (z & Hz & Hin).
    destruct (Nat.eqb_spec z id) as [Ez|nez]; subst x.
    + split; [rewrite El; apply in_or_app; right; left; reflexivity|exact ne].
    + split; [rewrite El; apply in_or_app; left; exact Hin|exact nez].
Qed.

Lemma add_uniq_NoDup id l : NoDup l -> NoDup (add_uniq id l).
Proof.
  intros H. unfold add_uniq. destruct (memb id l) eqn:E; [exact H|].
  apply (Permutation_NoDup (Permutation_cons_append l id)). constructor; [|exact H]. intros K.
  unfold memb in E. assert (existsb (Nat.eqb id) l = true) by (apply existsb_exists; exists id; split; [exact K|apply Nat.eqb_refl]). congruence.
Qed.
Lemma add_uniq_In id l x : In x (add_uniq id l) -> In x l \/ x = id.
Proof.
  unfold add_uniq. destruct (memb id l); [auto|]. intros H. apply in_app_or in H. destruct H as [H|[H|[]]]; auto.
Qed.

Lemma NoDup_map_Some (l : list nat) : NoDup l -> NoDup (map Some l).
Proof. intros H. apply FinFun.Injective_map_NoDup; [intros a b E; inversion E; reflexivity|exact H]. Qed.
Lemma In_map_Some id (l : list nat) : In (Some id) (map Some l) -> In id l.
Proof. rewrite in_map_iff. intros (x & E & H). inversion E; subst. exact H. Qed.
Lemma None_not_map_Some (l : list nat) : ~ In None (map Some l).
Proof. rewrite in_map_iff. intros (x & E & _). discriminate. Qed.

Lemma NoDup_suffix {A} (pre l : list A) : NoDup (pre ++ l) -> NoDup l.
Proof. induction pre; simpl; auto. intros H. inversion H; auto. Qed.

Lemma ins_sig_NoDup ch (l : list nat) : NoDup l -> NoDup (ins_sig ch (map Some l)).
Proof.
  intros H. unfold ins_sig.
  assert (P : Permutation (None :: map Some l) (firstn ch (map Some l) ++ None :: skipn ch (map Some l))).
  { rewrite <- (firstn_skipn ch (map Some l)) at 1. apply Permutation_middle. }
  apply (Permutation_NoDup P). constructor; [apply None_not_map_Some|apply NoDup_map_Some; exact H].
Qed.
Lemma ins_sig_In ch (l : list (option nat)) x : In x (ins_sig ch l) -> x = None \/ In x l.
Proof.
  unfold ins_sig. intros H. apply in_app_or in H. destruct H as [H|[H|H]]; auto.
  - right. rewrite <- (firstn_skipn ch l). apply in_or_app. left. exact H.
  - right. rewrite <- (firstn_skipn ch l). apply in_or_app. right. exact H.
Qed.

(* the remaining part of a pass is a suffix of what was to visit *)
Lemma pass_suffix C hp pe rd rh sg n td ns dr n' td' r ns' dr' :
  pass C hp pe rd rh sg n td ns dr = (n', td', r, ns', dr') -> exists pre, td = pre ++ td'.
Proof.
  revert n ns dr. induction td as [|[x|] rr IH]; intros n ns dr H; simpl in H.
  - inversion H; subst. exists []. reflexivity.
  - destruct (memb x hp || _); [inversion H; subst; exists [Some x]; reflexivity|].
    destruct (poll_done C _); [inversion H; subst; exists (Some x :: rr); rewrite app_nil_r; reflexivity|].
    destruct (IH _ _ _ H) as [pre ->]. exists (Some x :: pre). reflexivity.
  - destruct sg; [inversion H; subst; exists [None]; reflexivity|].
    destruct (IH _ _ _ H) as [pre ->]. exists (None :: pre). reflexivity.
Qed.

(* ---- what the tail segments do to the list of the pass ---- *)
Definition todo_ok (s s' : sys) (t : nat) : Prop :=
  NoDup (todo s) ->
  NoDup (todo s') /\ incl (todo s') (todo s) /\
  (forall id, closing (thr s' t) = Some id -> In (Some id) (todo s) /\ ~ In (Some id) (todo s')).

Lemma exit_test_todo C s t ns s' l : exit_test C s t ns = Some (s', l) -> todo_ok s s' t.
Proof.
  unfold exit_test. intros H Hnd.
  destruct (to_exit s =? ST_EXIT); [destruct (c_bare C); [|destruct (reg s) as [|id r]]|];
    inversion H; subst; clear H; nrmg; rewrite upd_same; (split; [exact Hnd|split; [apply incl_refl|intros i0 K; discriminate K]]).
Qed.
Lemma fin_pass_todo C s t ns s' l : fin_pass C s t ns = Some (s', l) -> todo_ok s s' t.
Proof.
  unfold fin_pass. intros H.
  destruct (c_tmo C && c_cb_timer C); [|eapply exit_test_todo; eauto].
  match type of H with (if is_nil (cbs ?x) then _ else _) = _ => set (s1 := x) in * end.
  destruct (is_nil (cbs s1)).
  - apply exit_test_todo in H. exact H.
  - inversion H; subst; clear H. intros Hnd. nrmg. rewrite upd_same.
    split; [exact Hnd|split; [apply incl_refl|intros id K; discriminate K]].
Qed.
Lemma seg_pass_todo C s t ns s' l : seg_pass C s t ns = Some (s', l) -> todo_ok s s' t.
Proof.
  intros H Hnd. unfold seg_pass in H.
  destruct (pass C (hup s) (peof s) (rdy s) (rdh s) (psig s) (pn s) (todo s) ns []) as [[[[n td] r] ns'] dr] eqn:E.
  pose proof (pass_suffix _ _ _ _ _ _ _ _ _ _ _ _ _ _ _ E) as [pre Epre].
  assert (Hnd' : NoDup td) by (rewrite Epre in Hnd; eapply NoDup_suffix; eauto).
  assert (Hin : incl td (todo s)) by (rewrite Epre; apply incl_appr, incl_refl).
  destruct r as [|id|].
  - inversion H; subst; clear H. nrmg. rewrite upd_same. split; [exact Hnd'|split; [exact Hin|intros id K; discriminate K]].
  - inversion H; subst; clear H. nrmg. rewrite upd_same. split; [exact Hnd'|split; [exact Hin|]].
    intros id' K. simpl in K. inversion K; subst id'.
    apply pass_close_suffix in E. destruct E as [pre2 E2]. split; [rewrite E2; apply in_or_app; right; left; reflexivity|].
    rewrite E2 in Hnd. apply NoDup_suffix in Hnd. inversion Hnd; assumption.
  - apply fin_pass_todo in H. nrmh H. specialize (H Hnd'). nrmh H. destruct H as (H1 & H2 & H3).
    split; [exact H1|split; [eapply incl_tran; eauto|]]. intros id K. destruct (H3 id K) as [K1 K2]. split; [apply Hin; exact K1|exact K2].
Qed.

Definition todo_from (s1 s' : sys) (t : nat) : Prop :=
  exists td0, (td0 = todo s1 \/ td0 = map Some (reg s1)) /\
    (NoDup td0 -> NoDup (todo s') /\ incl (todo s') td0 /\
     forall id, closing (thr s' t) = Some id -> In (Some id) td0 /\ ~ In (Some id) (todo s')).

Lemma todo_ok_from s1 s' t : todo_ok s1 s' t -> todo_from s1 s' t.
Proof. intros H. exists (todo s1). split; [left; reflexivity|exact H]. Qed.

Lemma wake_end_todo C s t ns s' l : wake_end C s t ns = Some (s', l) -> todo_from s s' t.
Proof.
  unfold wake_end. intros H. apply seg_pass_todo in H. unfold todo_ok in H. nrmh H.
  exists (match c_be C with BSelect => map Some (reg s) | _ => todo s end).
  split; [destruct (c_be C); auto|exact H].
Qed.
Lemma cb_end_todo C s t ns s' l : cb_end C s t ns = Some (s', l) -> todo_from s s' t.
Proof.
  unfold cb_end. intros H. destruct (cbk s); [apply todo_ok_from; eapply exit_test_todo; eauto|eapply wake_end_todo; eauto].
Qed.
Lemma cb_next_todo C s t k ns s' l : cb_next C s t k ns = Some (s', l) -> todo_from s s' t.
Proof.
  unfold cb_next. intros H. destruct (S k <? length (cbs s)); [|eapply cb_end_todo; eauto].
  inversion H; subst; clear H. apply todo_ok_from. intros Hnd. nrmg. rewrite upd_same.
  split; [exact Hnd|split; [apply incl_refl|intros i0 K; discriminate K]].
Qed.

Lemma hinv_nodup_reg C s : HInv C s -> NoDup (reg s).
Proof.
  intros H. apply NoDup_count_occ with (decA := Nat.eq_dec). intros x.
  pose proof (h_count _ _ H x). pose proof (h_once _ _ H x). lia.
Qed.

(* a tail segment of the loop thread, started from a state [s1] that is [s] up to the program
   point of the loop thread and the fields of the pass *)
Lemma hinv_after C s s1 s' :
  HInv C s ->
  queue s1 = queue s -> reg s1 = reg s -> g_enq s1 = g_enq s -> g_relfail s1 = g_relfail s ->
  g_relexit s1 = g_relexit s -> g_relclose s1 = g_relclose s -> g_leaked s1 = g_leaked s -> next_id s1 = next_id s ->
  slots s1 = slots s -> (NoDup (erl s1) /\ incl (erl s1) (reg s)) -> todo s1 = todo s ->
  (forall u, u <> c_loop C -> thr s1 u = thr s u) -> pend (thr s (c_loop C)) = None ->
  tframe s1 s' (c_loop C) -> todo_from s1 s' (c_loop C) -> tail_pc_cb (thr s' (c_loop C)) ->
  HInv C s'.
Proof.
  intros H E1 E2 E3 E4 E5 E6 E7 E8 E9 Her E10 Hoth Hpn F (td0 & Htd0 & Htd) P.
  destruct (tail_pc_pend _ P) as [Pp Ph].
  assert (Hnd0 : NoDup td0 /\ forall id, In (Some id) td0 -> In id (reg s)).
  { destruct Htd0 as [->| ->].
    - rewrite E10. exact (h_todo _ _ H).
    - rewrite E2. split; [apply NoDup_map_Some; eapply hinv_nodup_reg; eauto|intros i0; apply In_map_Some]. }
  destruct Hnd0 as [Hnd0 Hin0]. destruct (Htd Hnd0) as (T1 & T2 & T3).
  eapply (hinv_frame C s s' (c_loop C) H).
  - rewrite (tf_queue _ _ _ F). exact E1.
  - rewrite (tf_reg _ _ _ F). exact E2.
  - rewrite (tf_g_enq _ _ _ F). exact E3.
  - rewrite (tf_g_relfail _ _ _ F). exact E4.
  - rewrite (tf_g_relexit _ _ _ F). exact E5.
  - rewrite (tf_g_relclose _ _ _ F). exact E6.
  - rewrite (tf_g_leaked _ _ _ F). exact E7.
  - rewrite (tf_next_id _ _ _ F). exact E8.
  - rewrite (tf_slots _ _ _ F). exact E9.
  - rewrite (tf_erl _ _ _ F). exact Her.
  - split; [exact T1|]. intros id Hid. apply Hin0. apply T2. exact Hid.
  - intros u Hu. rewrite (tf_thr _ _ _ F) by exact Hu. apply Hoth. exact Hu.
  - right. exact Pp.
  - intros _. apply Ph.
  - intros K. exfalso. apply K. reflexivity.
  - intros _ id Hid. destruct (T3 id Hid) as [K1 K2]. split; [apply Hin0; exact K1|exact K2].
Qed.

(* HInv only looks at these fields *)
Lemma hinv_ext C a b :
  queue b = queue a -> reg b = reg a -> g_enq b = g_enq a -> g_relfail b = g_relfail a -> g_relexit b = g_relexit a ->
  g_relclose b = g_relclose a -> g_leaked b = g_leaked a -> next_id b = next_id a -> slots b = slots a -> erl b = erl a ->
  todo b = todo a -> (forall u, thr b u = thr a u) -> HInv C a -> HInv C b.
Proof.
  intros E1 E2 E3 E4 E5 E6 E7 E8 E9 E10 E11 Et [].
  constructor; rewrite ?E1, ?E2, ?E3, ?E4, ?E5, ?E6, ?E7, ?E8, ?E9, ?E10, ?E11, ?Et; auto.
  all: intros; rewrite ?Et in *; eauto.
Qed.

(* ---- the individual steps that change the accounting ---- *)
(* muggle_socket_evloop_add_ctx: the harness allocates the context *)
Lemma hinv_oph C s s1 t p :
  HInv C s -> pend (thr s t) = None -> pend p = Some (next_id s) -> (forall q, head_ok q p) -> closing p = None ->
  queue s1 = queue s -> reg s1 = reg s -> g_enq s1 = g_enq s -> g_relfail s1 = g_relfail s -> g_relexit s1 = g_relexit s ->
  g_relclose s1 = g_relclose s -> g_leaked s1 = g_leaked s -> next_id s1 = S (next_id s) -> slots s1 = slots s ->
  erl s1 = erl s -> todo s1 = todo s -> (forall u, thr s1 u = upd (thr s) t p u) ->
  HInv C s1.
Proof.
  intros [Hlk Hc Hh Ho Hf Hp Hn Hsl Her Htd Hcl] Hpt Hpp Hhp Hcp E1 E2 E3 E4 E5 E6 E7 E8 E9 E10 E11 Et.
  constructor; rewrite ?E1, ?E2, ?E3, ?E4, ?E5, ?E6, ?E7, ?E8, ?E9, ?E10, ?E11, ?Et; auto.
  - unfold upd. destruct (Nat.eqb_spec (c_loop C) t); [apply Hhp|exact Hh].
  - intros x Hx. apply Hf. lia.
  - intros u id Hu. rewrite Et in Hu. unfold upd in Hu. destruct (Nat.eqb_spec u t) as [->|ne].
    + rewrite Hpp in Hu. inversion Hu; subst. split; [lia|apply Hf; lia].
    + destruct (Hp u id Hu). split; [lia|assumption].
  - intros u v id Huv Hu Hv. rewrite Et in Hu, Hv. unfold upd in Hu, Hv.
    destruct (Nat.eqb_spec u t) as [->|n1]; destruct (Nat.eqb_spec v t) as [->|n2]; try contradiction.
    + rewrite Hpp in Hu. inversion Hu; subst. destruct (Hp v _ Hv). lia.
    + rewrite Hpp in Hv. inversion Hv; subst. destruct (Hp u _ Hu). lia.
    + exact (Hn u v id Huv Hu Hv).
  - intros id Hid. unfold upd in Hid. destruct (Nat.eqb_spec (c_loop C) t); [rewrite Hcp in Hid; discriminate|apply Hcl; exact Hid].
Qed.

(* ... and enqueues it *)
Lemma hinv_enq C s s1 t p id :
  HInv C s -> pend (thr s t) = Some id -> pend p = None -> (forall q, head_ok q p) -> closing p = None ->
  queue s1 = queue s ++ [id] -> reg s1 = reg s -> g_enq s1 = g_enq s ++ [id] -> g_relfail s1 = g_relfail s ->
  g_relexit s1 = g_relexit s -> g_relclose s1 = g_relclose s -> g_leaked s1 = g_leaked s -> next_id s1 = next_id s ->
  slots s1 = slots s -> erl s1 = erl s -> todo s1 = todo s -> (forall u, thr s1 u = upd (thr s) t p u) ->
  HInv C s1.
Proof.
  intros [Hlk Hc Hh Ho Hf Hp Hn Hsl Her Htd Hcl] Hpt Hpp Hhp Hcp E1 E2 E3 E4 E5 E6 E7 E8 E9 E10 E11 Et.
  destruct (Hp t id Hpt) as [Hid1 Hid2].
  constructor; rewrite ?E1, ?E2, ?E3, ?E4, ?E5, ?E6, ?E7, ?E8, ?E9, ?E10, ?E11, ?Et; auto.
  - intros x. specialize (Hc x). cnt_norm; lia.
  - unfold upd. destruct (Nat.eqb_spec (c_loop C) t); [apply Hhp|apply head_ok_app; exact Hh].
  - intros x. specialize (Ho x). cnt_norm; lia.
  - intros x Hx. specialize (Hf x Hx). cnt_norm; lia.
  - intros u id' Hu. rewrite Et in Hu. unfold upd in Hu. destruct (Nat.eqb_spec u t) as [->|ne]; [rewrite Hpp in Hu; discriminate|].
    destruct (Hp u id' Hu) as [K1 K2]. split; [exact K1|]. cnt_norm; [|lia].
    exfalso. apply (Hn t u id' (fun E => ne (eq_sym E)) Hpt). exact Hu.
  - intros u v id' Huv Hu Hv. rewrite Et in Hu, Hv. unfold upd in Hu, Hv.
    destruct (Nat.eqb_spec u t) as [->|n1]; [rewrite Hpp in Hu; discriminate|].
    destruct (Nat.eqb_spec v t) as [->|n2]; [rewrite Hpp in Hv; discriminate|].
    exact (Hn u v id' Huv Hu Hv).
  - intros id' Hid'. unfold upd in Hid'. destruct (Nat.eqb_spec (c_loop C) t); [rewrite Hcp in Hid'; discriminate|apply Hcl; exact Hid'].
Qed.

(* the release of the head of the queue by the wake callback (registration failed) / by the exit callback *)
Lemma hinv_relhead C s s1 n (fail : bool) p :
  HInv C s -> (exists r, queue s = n :: r) -> pend (thr s (c_loop C)) = None ->
  pend p = None -> head_ok (tl (queue s)) p -> closing p = None ->
  queue s1 = tl (queue s) -> reg s1 = reg s -> g_enq s1 = g_enq s ->
  g_relfail s1 = (if fail then g_relfail s ++ [n] else g_relfail s) ->
  g_relexit s1 = (if fail then g_relexit s else g_relexit s ++ [n]) ->
  g_relclose s1 = g_relclose s -> g_leaked s1 = g_leaked s -> next_id s1 = next_id s ->
  slots s1 = slots s -> erl s1 = erl s -> todo s1 = todo s -> (forall u, thr s1 u = upd (thr s) (c_loop C) p u) ->
  HInv C s1.
Proof.
  intros [Hlk Hc Hh Ho Hf Hp Hn Hsl Her Htd Hcl] [r Hq] Hpl Hpp Hhp Hcp E1 E2 E3 E4 E5 E6 E7 E8 E9 E10 E11 Et.
  constructor; rewrite ?E1, ?E2, ?E3, ?E4, ?E5, ?E6, ?E7, ?E8, ?E9, ?E10, ?E11, ?Et; auto.
  - intros x. specialize (Hc x). rewrite Hq in *. simpl in *. destruct (Nat.eq_dec n x); destruct fail; cnt_norm; try lia; congruence.
  - rewrite upd_same. exact Hhp.
  - intros u id Hu. rewrite Et in Hu. unfold upd in Hu. destruct (Nat.eqb_spec u (c_loop C)) as [->|ne]; [rewrite Hpp in Hu; discriminate|eauto].
  - intros u v id Huv Hu Hv. rewrite Et in Hu, Hv. unfold upd in Hu, Hv.
    destruct (Nat.eqb_spec u (c_loop C)) as [->|n1]; [rewrite Hpp in Hu; discriminate|].
    destruct (Nat.eqb_spec v (c_loop C)) as [->|n2]; [rewrite Hpp in Hv; discriminate|].
    exact (Hn u v id Huv Hu Hv).
  - rewrite upd_same. intros id Hid. rewrite Hcp in Hid. discriminate.
Qed.

Lemma cnt_pos_In l x : 0 < cnt_of l x <-> In x l.
Proof. split; [intros H; apply (count_occ_In Nat.eq_dec); lia|intros H; apply (count_occ_In Nat.eq_dec) in H; lia]. Qed.

(* on_wake's loop over the queue *)
Lemma hinv_drain C s s1 n0 q rg lk notes st p :
  c_fix_add C = true ->
  HInv C s -> pend (thr s (c_loop C)) = None ->
  drain C (queue s) (reg s) (g_leaked s) n0 = (q, rg, lk, notes, st) ->
  p = match st with Some id => ARel PhDrain id | None => AWUnlock end ->
  queue s1 = q -> reg s1 = rg -> g_enq s1 = g_enq s -> g_relfail s1 = g_relfail s -> g_relexit s1 = g_relexit s ->
  g_relclose s1 = g_relclose s -> g_leaked s1 = lk -> next_id s1 = next_id s ->
  slots s1 = slots s ++ skipn (length (reg s)) rg -> erl s1 = erl s -> todo s1 = todo s ->
  (forall u, thr s1 u = upd (thr s) (c_loop C) p u) ->
  HInv C s1.
Proof.
  intros Hfix H Hpl Hd Hp0 E1 E2 E3 E4 E5 E6 E7 E8 E9 E10 E11 Et.
  pose proof H as [Hlk Hc Hh Ho Hf Hp Hn Hsl Her Htd Hcl].
  apply (drain_spec C Hfix) in Hd. destruct Hd as (moved & Eq & Erg & Elk & Est). subst rg lk.
  assert (Esk : skipn (length (reg s)) (reg s ++ moved) = moved).
  { rewrite skipn_app, skipn_all, Nat.sub_diag. reflexivity. }
  rewrite Esk in E9.
  assert (Hpp : pend p = None) by (subst p; destruct st; reflexivity).
  assert (Hcp : closing p = None) by (subst p; destruct st; reflexivity).
  constructor; rewrite ?E1, ?E2, ?E3, ?E4, ?E5, ?E6, ?E7, ?E8, ?E9, ?E10, ?E11, ?Et; auto.
  - intros x. specialize (Hc x). rewrite Eq in Hc. cnt_norm. lia.
  - rewrite upd_same. subst p. destruct st as [id|]; simpl; [exact Est|exact I].
  - intros u id Hu. rewrite Et in Hu. unfold upd in Hu. destruct (Nat.eqb_spec u (c_loop C)) as [->|ne]; [rewrite Hpp in Hu; discriminate|eauto].
  - intros u v id Huv Hu Hv. rewrite Et in Hu, Hv. unfold upd in Hu, Hv.
    destruct (Nat.eqb_spec u (c_loop C)) as [->|n1]; [rewrite Hpp in Hu; discriminate|].
    destruct (Nat.eqb_spec v (c_loop C)) as [->|n2]; [rewrite Hpp in Hv; discriminate|].
    exact (Hn u v id Huv Hu Hv).
  - destruct Hsl as [S1 S2]. split.
    + apply NoDup_count_occ with (decA := Nat.eq_dec). intros x. rewrite count_occ_app.
      pose proof (proj1 (NoDup_count_occ Nat.eq_dec _) S1 x) as K1.
      specialize (Hc x). specialize (Ho x). rewrite Eq in Hc. rewrite count_occ_app in Hc.
      destruct (Nat.eq_dec (cnt_of (slots s) x) 0) as [Z|NZ]; [lia|].
      assert (In x (reg s)) by (apply S2; apply cnt_pos_In; lia). apply cnt_pos_In in H0. lia.
    + intros x Hx. apply in_app_or in Hx. apply in_or_app. destruct Hx as [Hx|Hx]; auto.
  - destruct Her as [R1 R2]. split; [exact R1|]. intros x Hx. apply in_or_app. left. auto.
  - destruct Htd as [T1 T2]. split; [exact T1|]. intros x Hx. apply in_or_app. left. auto.
  - rewrite upd_same. intros id Hid. rewrite Hcp in Hid. discriminate.
Qed.

(* the back-end's close dispatch has released [id]: it leaves ctx_list and the back-end's arrays *)
Lemma hinv_close C s s1 id td' :
  HInv C s -> thr s (c_loop C) = SRel PhClose (Some id) -> NoDup td' -> incl td' (todo s) ->
  queue s1 = queue s -> reg s1 = drop id (reg s) -> g_enq s1 = g_enq s -> g_relfail s1 = g_relfail s ->
  g_relexit s1 = g_relexit s -> g_relclose s1 = g_relclose s ++ [id] -> g_leaked s1 = g_leaked s -> next_id s1 = next_id s ->
  slots s1 = swap_remove id (slots s) -> erl s1 = drop id (erl s) -> todo s1 = td' ->
  (forall u, thr s1 u = upd (thr s) (c_loop C) SPollRet u) ->
  HInv C s1.
Proof.
  intros H Hpc Hnd Hinc E1 E2 E3 E4 E5 E6 E7 E8 E9 E10 E11 Et.
  pose proof H as [Hlk Hc Hh Ho Hf Hp Hn Hsl Her Htd Hcl].
  destruct (Hcl id) as [Hin Hnin]; [rewrite Hpc; reflexivity|].
  pose proof (hinv_nodup_reg C s H) as Hndr.
  assert (Hc1 : cnt_of (reg s) id = 1).
  { pose proof (proj1 (NoDup_count_occ Nat.eq_dec _) Hndr id). apply cnt_pos_In in Hin. lia. }
  constructor; rewrite ?E1, ?E2, ?E3, ?E4, ?E5, ?E6, ?E7, ?E8, ?E9, ?E10, ?E11, ?Et; auto.
  - intros x. specialize (Hc x). rewrite cnt_drop. rewrite !count_occ_app. simpl.
    destruct (Nat.eq_dec id x) as [e|ne]; [subst x; rewrite Hc1 in Hc; lia|lia].
  - rewrite upd_same. exact I.
  - intros u i0 Hu. rewrite Et in Hu. unfold upd in Hu. destruct (Nat.eqb_spec u (c_loop C)) as [->|ne]; [discriminate Hu|eauto].
  - intros u v i0 Huv Hu Hv. rewrite Et in Hu, Hv. unfold upd in Hu, Hv.
    destruct (Nat.eqb_spec u (c_loop C)) as [->|n1]; [discriminate Hu|].
    destruct (Nat.eqb_spec v (c_loop C)) as [->|n2]; [discriminate Hv|].
    exact (Hn u v i0 Huv Hu Hv).
  - destruct Hsl as [S1 S2]. destruct (swap_remove_spec id (slots s) S1) as [W1 W2].
    split; [exact W1|]. intros x Hx. destruct (W2 x Hx). apply drop_In. auto.
  - destruct Her as [R1 R2]. split; [apply drop_NoDup; exact R1|].
    intros x Hx. apply drop_In in Hx. destruct Hx. apply drop_In. auto.
  - destruct Htd as [T1 T2]. split; [exact Hnd|]. intros x Hx. apply drop_In. split; [apply T2; apply Hinc; exact Hx|].
    intros ->. apply Hnin. apply Hinc. exact Hx.
  - rewrite upd_same. intros i0 K. discriminate K.
Qed.

(* a poll call that reports something: the plan of the pass *)
Lemma hinv_poll C s s1 sg ch :
  HInv C s -> pend (thr s (c_loop C)) = None ->
  queue s1 = queue s -> reg s1 = reg s -> g_enq s1 = g_enq s -> g_relfail s1 = g_relfail s ->
  g_relexit s1 = g_relexit s -> g_relclose s1 = g_relclose s -> g_leaked s1 = g_leaked s -> next_id s1 = next_id s ->
  slots s1 = slots s -> erl s1 = [] -> todo s1 = pass_plan C s sg (crdy C s) ch ->
  (forall u, thr s1 u = upd (thr s) (c_loop C) SPollRet u) ->
  HInv C s1.
Proof.
  intros H Hpl E1 E2 E3 E4 E5 E6 E7 E8 E9 E10 E11 Et.
  pose proof H as [Hlk Hc Hh Ho Hf Hp Hn Hsl Her Htd Hcl].
  pose proof (hinv_nodup_reg C s H) as Hndr.
  constructor; rewrite ?E1, ?E2, ?E3, ?E4, ?E5, ?E6, ?E7, ?E8, ?E9, ?E10, ?E11, ?Et; auto.
  - rewrite upd_same. exact I.
  - intros u i0 Hu. rewrite Et in Hu. unfold upd in Hu. destruct (Nat.eqb_spec u (c_loop C)) as [->|ne]; [discriminate Hu|eauto].
  - intros u v i0 Huv Hu Hv. rewrite Et in Hu, Hv. unfold upd in Hu, Hv.
    destruct (Nat.eqb_spec u (c_loop C)) as [->|n1]; [discriminate Hu|].
    destruct (Nat.eqb_spec v (c_loop C)) as [->|n2]; [discriminate Hv|].
    exact (Hn u v i0 Huv Hu Hv).
  - split; [constructor|intros x []].
  - unfold pass_plan, crdy. destruct Hsl as [S1 S2]. destruct Her as [R1 R2]. destruct (c_be C).
    + destruct sg.
      * split; [constructor; [intros []|constructor]|]. intros x [K|[]]. discriminate K.
      * split; [apply NoDup_map_Some; exact Hndr|intros x; apply In_map_Some].
    + split.
      * apply (Permutation_NoDup (Permutation_cons_append _ None)). constructor; [apply None_not_map_Some|].
        apply NoDup_map_Some. apply NoDup_rev. exact S1.
      * intros x Hx. apply in_app_or in Hx. destruct Hx as [Hx|[Hx|[]]]; [|discriminate Hx].
        apply In_map_Some in Hx. apply S2. apply in_rev. exact Hx.
    + assert (F1 : NoDup (filter (lvl_ready s) (erl s))) by (apply NoDup_filter; exact R1).
      assert (F2 : forall x, In x (filter (lvl_ready s) (erl s)) -> In x (reg s)).
      { intros x Hx. apply filter_In in Hx. apply R2. tauto. }
      destruct sg.
      * split; [apply ins_sig_NoDup; exact F1|]. intros x Hx. apply ins_sig_In in Hx. destruct Hx as [Hx|Hx]; [discriminate Hx|].
        apply F2. apply In_map_Some. exact Hx.
      * split; [apply NoDup_map_Some; exact F1|]. intros x Hx. apply F2. apply In_map_Some. exact Hx.
  - rewrite upd_same. intros i0 K. discriminate K.
Qed.

Lemma find_In {A} (f : A -> bool) l x : find f l = Some x -> In x l.
Proof. intros H. apply find_some in H. tauto. Qed.

(* everything a tail segment says *)
Ltac tail_info :=
  match goal with
  | H : exit_test _ _ _ _ = Some _ |- _ =>
    pose proof (todo_ok_from _ _ _ (exit_test_todo _ _ _ _ _ _ H)) as TF;
    apply exit_test_frame in H; destruct H as (F & _ & _ & _ & P)
  | H : fin_pass _ _ _ _ = Some _ |- _ =>
    pose proof (todo_ok_from _ _ _ (fin_pass_todo _ _ _ _ _ _ H)) as TF;
    apply fin_pass_frame in H; destruct H as (F & _ & _ & _ & P)
  | H : seg_pass _ _ _ _ = Some _ |- _ =>
    pose proof (todo_ok_from _ _ _ (seg_pass_todo _ _ _ _ _ _ H)) as TF;
    apply seg_pass_frame in H; destruct H as (F & _ & P)
  | H : wake_end _ _ _ _ = Some _ |- _ =>
    pose proof (wake_end_todo _ _ _ _ _ _ H) as TF;
    apply wake_end_frame in H; destruct H as (F & _ & P)
  | H : cb_end _ _ _ _ = Some _ |- _ =>
    pose proof (cb_end_todo _ _ _ _ _ _ H) as TF;
    apply cb_end_frame in H; destruct H as (F & P & _)
  end;
  match goal with P0 : tail_pc (thr ?s1 ?t0) |- _ =>
    apply (or_introl (B := exists k, thr s1 t0 = Cb (QY (S k)))) in P0; fold (tail_pc_cb (thr s1 t0)) in P0 end.
Ltac tail_info_next :=
  match goal with
  | H : cb_next _ _ _ _ _ = Some _ |- _ =>
    pose proof (cb_next_todo _ _ _ _ _ _ _ H) as TF;
    apply cb_next_frame in H; destruct H as (F & P & _)
  end.

(* equalities between fields of updated states: compute both sides (never unify the states) *)
Ltac rfl := repeat match goal with x := _ : sys |- _ => unfold x end; nrmg; reflexivity.

Lemma step_hinv C s t ch s' l : c_fix_add C = true ->
  BInv C s -> HInv C s -> step C s t ch = Some (s', l) -> HInv C s'.
Proof.
  intros Hfix B H Hs. pose proof (b_loop _ _ B t) as Hl.
  step_inv Hs.
  all: repeat match goal with ph : phase |- _ => destruct ph end.
  all: simpl in Hl.
  (* tails: steps of the loop thread *)
  all: try (first [tail_info | tail_info_next];
            assert (Et : t = c_loop C) by (apply Hl; reflexivity); subst t;
            match goal with F : tframe ?s1 _ _ |- _ =>
              eapply (hinv_after C s s1 _ H);
              [ rfl | rfl | rfl | rfl | rfl | rfl | rfl | rfl | rfl
              | nrmg; first [ exact (h_erl _ _ H)
                            | split; [apply add_uniq_NoDup; exact (proj1 (h_erl _ _ H))
                                     |intros x Hx; apply add_uniq_In in Hx; destruct Hx as [Hx| ->];
                                      [exact (proj2 (h_erl _ _ H) x Hx)|eapply find_In; eassumption]] ]
              | reflexivity
              | intros u Hu; nrmg; try reflexivity
              | match goal with E : thr _ _ = _ |- _ => rewrite E; reflexivity end
              | exact F | eassumption | eassumption ] end; fail).
  (* explicit steps that leave the accounting alone *)
  all: try (match goal with |- HInv _ (set_pc _ _ _) => idtac end;
            eapply (hinv_frame C s _ t H);
            [ rfl | rfl | rfl | rfl | rfl | rfl | rfl | rfl | rfl
            | nrmg; first [ exact (h_erl _ _ H)
                          | split; [constructor|intros x []]
                          | split; [apply add_uniq_NoDup; exact (proj1 (h_erl _ _ H))
                                   |intros x Hx; apply add_uniq_In in Hx; destruct Hx as [Hx| ->];
                                    [exact (proj2 (h_erl _ _ H) x Hx)|eapply find_In; eassumption]] ]
            | nrmg; exact (h_todo _ _ H)
            | intros u Hu; nrmg; apply upd_other; exact Hu
            | nrmg; rewrite upd_same; match goal with E : thr _ _ = _ |- _ => rewrite E end; simpl; auto
            | intros Et; nrmg; rewrite upd_same; simpl;
              first [ exact I
                    | pose proof (h_head _ _ H) as Hh; rewrite <- Et in Hh;
                      match goal with E : thr _ _ = _ |- _ => rewrite E in Hh end; exact Hh ]
            | intros _; reflexivity
            | intros Et i0; nrmg; rewrite upd_same; simpl; intros K;
              first [ discriminate K
                    | inversion K; subst; pose proof (h_closing _ _ H) as Hc; rewrite <- Et in Hc;
                      match goal with E : thr _ _ = _ |- _ => rewrite E in Hc end; apply Hc; reflexivity ] ]; fail).
  (* hand-over: allocation, enqueue *)
  all: try (match goal with |- HInv _ (set_pc (set_next_id _ _) _ ?p0) =>
            eapply (hinv_oph C s _ t p0 H) end;
            [ match goal with E : thr _ _ = _ |- _ => rewrite E; reflexivity end
            | reflexivity | intros q0; exact I | reflexivity
            | rfl | rfl | rfl | rfl | rfl | rfl | rfl | rfl
            | rfl | rfl | rfl | intros u; rfl ]; fail).
  all: try (match goal with |- HInv _ (set_pc (enqueue _ ?i0) _ ?p0) =>
            eapply (hinv_enq C s _ t p0 i0 H);
            [ match goal with E : thr _ _ = _ |- _ => rewrite E; reflexivity end
            | reflexivity | intros q0; exact I | reflexivity
            | rfl | rfl | rfl | rfl | rfl | rfl | rfl | rfl
            | rfl | rfl | rfl | intros u; rfl ] end; fail).
  (* from here on: the loop thread *)
  all: assert (Et : t = c_loop C) by (apply Hl; reflexivity); subst t.
  all: pose proof (h_head _ _ H) as Hh; pose proof (h_closing _ _ H) as Hcl;
       match goal with E : thr _ _ = _ |- _ => rewrite E in Hh, Hcl end; simpl in Hh, Hcl.
  (* the release of a flagged context is about to complete *)
  all: try (match goal with |- HInv _ (set_pc ?x _ (SRel PhClose (Some _))) => is_var x end;
            eapply (hinv_frame C s _ (c_loop C) H);
            [ rfl | rfl | rfl | rfl | rfl | rfl | rfl | rfl | rfl
            | exact (h_erl _ _ H) | exact (h_todo _ _ H)
            | intros u Hu; nrmg; apply upd_other; exact Hu
            | nrmg; rewrite upd_same; match goal with E : thr _ _ = _ |- _ => rewrite E end; auto
            | intros _; nrmg; rewrite upd_same; exact I
            | intros K; exfalso; apply K; reflexivity
            | intros _ i0; nrmg; rewrite upd_same; simpl; intros K; inversion K; subst; apply Hcl; reflexivity ]; fail).
  (* the exit callback finds a context in the queue *)
  all: try (match goal with |- HInv _ (set_pc ?x _ (ARel PhExit _)) => is_var x end;
            eapply (hinv_frame C s _ (c_loop C) H);
            [ rfl | rfl | rfl | rfl | rfl | rfl | rfl | rfl | rfl
            | exact (h_erl _ _ H) | exact (h_todo _ _ H)
            | intros u Hu; nrmg; apply upd_other; exact Hu
            | nrmg; rewrite upd_same; match goal with E : thr _ _ = _ |- _ => rewrite E end; auto
            | intros _; nrmg; rewrite upd_same; simpl; eauto
            | intros K; exfalso; apply K; reflexivity
            | intros _ i0; nrmg; rewrite upd_same; simpl; intros K; discriminate K ]; fail).
  (* ... after the release of the previous one *)
  all: try (match goal with |- HInv _ (set_pc (set_g_relexit _ (_ ++ [?n0])) _ ?p0) =>
            eapply (hinv_relhead C s _ n0 false p0 H);
            [ exact Hh | match goal with E : thr _ _ = _ |- _ => rewrite E; reflexivity end
            | reflexivity | simpl; first [exact I | eauto] | reflexivity
            | rfl | rfl | rfl | rfl | rfl | rfl | rfl | rfl
            | rfl | rfl | rfl | intros u; rfl ] end; fail).
  (* a poll call that reports something *)
  all: try (match goal with |- HInv _ (set_pc (set_todo _ (pass_plan _ _ ?sg _ ?c0)) _ SPollRet) =>
            eapply (hinv_poll C s _ sg c0 H);
            [ match goal with E : thr _ _ = _ |- _ => rewrite E; reflexivity end
            | rfl | rfl | rfl | rfl | rfl | rfl | rfl | rfl
            | rfl | rfl | rfl | intros u; rfl ] end; fail).
  (* on_wake's loop over the queue *)
  all: try (match goal with Hd : drain _ (queue ?x) _ _ _ = (_, _, _, _, ?st) |- HInv _ (set_pc _ _ ?p0) =>
            is_var x; eapply (hinv_drain C s _ _ _ _ _ _ st p0 Hfix H);
            [ match goal with E : thr _ _ = _ |- _ => rewrite E; reflexivity end
            | exact Hd | reflexivity
            | rfl | rfl | rfl | rfl | rfl | rfl | rfl | rfl
            | rfl | rfl | rfl | intros u; rfl ] end; fail).
  (* ... after the release of a context that could not be registered *)
  all: try (match goal with Hd : drain _ (queue (set_g_relfail (set_queue ?x _) (_ ++ [?n0]))) _ _ _ = (_, _, _, _, ?st)
                            |- HInv _ (set_pc _ _ ?p0) =>
            set (sv := set_pc (set_g_relfail (set_queue x (tl (queue x))) (g_relfail x ++ [n0])) (c_loop C) (SRel PhDrain None));
            assert (Hsv : HInv C sv) by
              (eapply (hinv_relhead C s sv n0 true (SRel PhDrain None) H);
               [ exact Hh | match goal with E : thr _ _ = _ |- _ => rewrite E; reflexivity end
               | reflexivity | exact I | reflexivity
               | rfl | rfl | rfl | rfl | rfl | rfl | rfl | rfl
               | rfl | rfl | rfl | intros u; rfl ]);
            eapply (hinv_drain C sv _ _ _ _ _ _ st p0 Hfix Hsv);
            [ unfold sv; nrmg; rewrite upd_same; reflexivity
            | exact Hd | reflexivity
            | rfl | rfl | rfl | rfl | rfl | rfl | rfl | rfl
            | reflexivity | reflexivity | reflexivity
            | intros u; unfold sv; nrmg; unfold upd; destruct (Nat.eqb u (c_loop C)); reflexivity ] end; fail).
  (* the rest of the pass after a close dispatch *)
  all: first [tail_info | tail_info_next].
  all: match goal with F : tframe ?s1 _ _ |- _ =>
         let td := constr:(todo s1) in
         first
         [ (* after the release of [n] *)
           match s1 with context [close_ctx ?x ?n0] =>
             set (sv := set_pc (set_todo (close_ctx x n0) td) (c_loop C) SPollRet);
             assert (Hsv : HInv C sv) by
               (eapply (hinv_close C s sv n0 td H);
                [ assumption
                | nrmg; first [exact (proj1 (h_todo _ _ H)) | constructor]
                | nrmg; first [apply incl_refl | intros y []]
                | rfl | rfl | rfl | rfl | rfl | rfl | rfl | rfl
                | rfl | rfl | rfl | intros u; rfl ])
           end
         | (* a close dispatch without a context (not reachable) *)
           set (sv := set_pc s1 (c_loop C) SPollRet);
           assert (Hsv : HInv C sv) by
             (eapply (hinv_frame C s sv (c_loop C) H);
              [ rfl | rfl | rfl | rfl | rfl | rfl | rfl | rfl | rfl
              | exact (h_erl _ _ H) | split; [constructor|intros y []]
              | intros u Hu; unfold sv; nrmg; apply upd_other; exact Hu
              | right; unfold sv; nrmg; rewrite upd_same; reflexivity
              | intros _; unfold sv; nrmg; rewrite upd_same; exact I
              | intros K; exfalso; apply K; reflexivity
              | intros _ i0; unfold sv; nrmg; rewrite upd_same; intros K; discriminate K ]) ];
         eapply (hinv_after C sv s1 _ Hsv);
         [ rfl | rfl | rfl | rfl | rfl | rfl | rfl | rfl | rfl
         | exact (h_erl _ _ Hsv) | rfl
         | intros u Hu; unfold sv; nrmg; symmetry; apply upd_other; exact Hu
         | unfold sv; nrmg; rewrite upd_same; reflexivity
         | exact F | eassumption | eassumption ] end.
Qed.

Theorem hinv_all C sched : c_fix_add C = true -> HInv C (exec sys (step C) init sched).
Proof.
  intros Hfix.
  assert (H : BInv C (exec sys (step C) init sched) /\ HInv C (exec sys (step C) init sched)).
  { apply (inv_exec sys (step C) (fun s => BInv C s /\ HInv C s)).
    - intros s t c s' l [B W] Hs. split; [eapply step_binv | eapply step_hinv]; eauto.
    - split; [apply init_binv | apply init_hinv]. }
  exact (proj2 H).
Qed.


(* ---- clear callbacks and the exit callback ---- *)
Definition k_ok (C : config) (s : sys) (p : pc) : Prop :=
  match p with
  | ARel PhClear id | SRel PhClear (Some id) =>
    reg s = g_relclear s ++ id :: clr s /\ exitdr s = false /\ g_late s = []
  | SRel PhClear None => False
  | AXLock => reg s = g_relclear s /\ exitdr s = false /\ g_late s = []
  | SRel PhExit _ | ARel PhExit _ => reg s = g_relclear s /\ exitdr s = true /\ g_late s = []
  | AXUnlock => reg s = g_relclear s /\ exitdr s = true /\ g_late s = [] /\ queue s = []
  | SRet | AFin | Done =>
    (* a bare loop has no hand-over queue and no registered socket contexts to account for *)
    c_bare C = false -> reg s = g_relclear s /\ exitdr s = true /\ queue s = g_late s
  | _ => g_relclear s = [] /\ exitdr s = false /\ g_late s = []
  end.

Definition KInv (C : config) (s : sys) : Prop :=
  k_ok C s (thr s (c_loop C)) /\
  (returned s = true -> thr s (c_loop C) = AFin \/ thr s (c_loop C) = Done).

Lemma init_kinv C : KInv C init.
Proof. split; simpl; [auto|discriminate]. Qed.

(* the other threads only ever append to the queue *)
Lemma step_other_k C s t ch s' l : BInv C s -> t <> c_loop C -> step C s t ch = Some (s', l) ->
  reg s' = reg s /\ g_relclear s' = g_relclear s /\ clr s' = clr s /\ exitdr s' = exitdr s /\ returned s' = returned s /\
  ((queue s' = queue s /\ g_late s' = g_late s) \/
   (exists id, mtx s = Some t /\ queue s' = queue s ++ [id] /\ g_late s' = if exitdr s then g_late s ++ [id] else g_late s)).
Proof.
  intros B Hne Hs. pose proof (b_loop _ _ B t) as Hl. pose proof (b_hold _ _ B t) as Hh.
  step_inv Hs.
  all: simpl in Hl, Hh; try (exfalso; apply Hne; apply Hl; reflexivity).
  all: try (exfalso; apply Hne; apply Nat.eqb_eq; assumption).
  all: nrmg; repeat split; auto.
  right. eexists. split; [apply Hh; reflexivity|split; reflexivity].
Qed.

Lemma k_ok_tail C s s' p : tail_pc_cb p -> reg s' = reg s -> g_relclear s' = g_relclear s -> g_late s' = g_late s ->
  (* the exit test: stays in the loop, or leaves it *)
  (exitdr s' = exitdr s /\ (p = APoll \/ p = ARead \/ (exists id, p = ARel PhClose id) \/ (exists k, p = Cb (QY k))) \/
   exitdr s' = exitdr s /\ (exists id, p = ARel PhClear id /\ reg s = id :: clr s') \/
   exitdr s' = exitdr s /\ p = AXLock /\ reg s = [] \/
   p = AFin /\ c_bare C = true /\ returned s' = true) ->
  (g_relclear s = [] /\ exitdr s = false /\ g_late s = []) -> k_ok C s' p.
Proof.
  intros P E1 E2 E3 Hc (K1 & K2 & K3).
  destruct Hc as [(Ex & Hp)|[(Ex & id & Hp & Hr)|[(Ex & Hp & Hr)|(Hp & Hb & _)]]].
  - destruct Hp as [->|[->|[[id ->]|[k ->]]]]; simpl; rewrite E2, E3, Ex; auto.
  - subst p. simpl. rewrite E1, E2, E3, Ex, K1. simpl. auto.
  - subst p. simpl. rewrite E1, E2, E3, Ex, K1, Hr. auto.
  - subst p. simpl. intros Hb'. congruence.
Qed.

(* what the tail segments do to the fields of the clear / exit accounting *)
Definition k_tail (C : config) (s s' : sys) (t : nat) : Prop :=
  g_late s' = g_late s /\ (returned s' = returned s \/ (returned s' = true /\ thr s' t = AFin)) /\
  (exitdr s' = exitdr s /\ (thr s' t = APoll \/ thr s' t = ARead \/ (exists id, thr s' t = ARel PhClose id) \/ (exists k, thr s' t = Cb (QY k))) \/
   exitdr s' = exitdr s /\ (exists id, thr s' t = ARel PhClear id /\ reg s = id :: clr s') \/
   exitdr s' = exitdr s /\ thr s' t = AXLock /\ reg s = [] \/
   thr s' t = AFin /\ c_bare C = true /\ returned s' = true).

Lemma exit_test_k C s t ns s' l : exit_test C s t ns = Some (s', l) -> k_tail C s s' t.
Proof.
  unfold exit_test, k_tail. intros H.
  destruct (to_exit s =? ST_EXIT); [destruct (c_bare C) eqn:Eb; [|destruct (reg s) as [|id r] eqn:Er]|];
    inversion H; subst; clear H; nrmg; rewrite upd_same; (split; [reflexivity|]); (split; [auto|]).
  - right. right. right. auto.
  - right. right. left. auto.
  - right. left. split; [reflexivity|]. exists id. auto.
  - left. auto.
Qed.
Lemma fin_pass_k C s t ns s' l : fin_pass C s t ns = Some (s', l) -> k_tail C s s' t.
Proof.
  unfold fin_pass. intros H. destruct (c_tmo C && c_cb_timer C); [|eapply exit_test_k; eauto].
  match type of H with (if is_nil (cbs ?x) then _ else _) = _ => set (s1 := x) in * end.
  destruct (is_nil (cbs s1)).
  - apply exit_test_k in H. exact H.
  - inversion H; subst; clear H. unfold k_tail. nrmg. rewrite upd_same. split; [reflexivity|]. split; [auto|]. left. split; [reflexivity|]. eauto 10.
Qed.
Lemma seg_pass_k C s t ns s' l : seg_pass C s t ns = Some (s', l) -> k_tail C s s' t.
Proof.
  unfold seg_pass. intros H.
  destruct (pass C (hup s) (peof s) (rdy s) (rdh s) (psig s) (pn s) (todo s) ns []) as [[[[n td] r] ns'] dr].
  destruct r as [|id|].
  - inversion H; subst; clear H. unfold k_tail. nrmg. rewrite upd_same. split; [reflexivity|]. split; [auto|]. left. auto.
  - inversion H; subst; clear H. unfold k_tail. nrmg. rewrite upd_same. split; [reflexivity|]. split; [auto|]. left. split; [reflexivity|]. eauto 10.
  - apply fin_pass_k in H. exact H.
Qed.
Lemma wake_end_k C s t ns s' l : wake_end C s t ns = Some (s', l) -> k_tail C s s' t.
Proof. unfold wake_end. intros H. apply seg_pass_k in H. exact H. Qed.
Lemma cb_end_k C s t ns s' l : cb_end C s t ns = Some (s', l) -> k_tail C s s' t.
Proof. unfold cb_end. intros H. destruct (cbk s); [eapply exit_test_k|eapply wake_end_k]; eauto. Qed.
Lemma cb_next_k C s t k ns s' l : cb_next C s t k ns = Some (s', l) -> k_tail C s s' t.
Proof.
  unfold cb_next. intros H. destruct (S k <? length (cbs s)); [|eapply cb_end_k; eauto].
  inversion H; subst; clear H. unfold k_tail. nrmg. rewrite upd_same. split; [reflexivity|]. split; [auto|]. left. split; [reflexivity|]. eauto 10.
Qed.

Lemma kinv_of_tail C s1 s' :
  tframe s1 s' (c_loop C) -> k_tail C s1 s' (c_loop C) -> tail_pc_cb (thr s' (c_loop C)) ->
  (g_relclear s1 = [] /\ exitdr s1 = false /\ g_late s1 = []) -> returned s1 = false ->
  KInv C s'.
Proof.
  intros F (T1 & T2 & T3) P K Hr. split.
  - eapply (k_ok_tail C s1 s'); eauto.
    + exact (tf_reg _ _ _ F).
    + exact (tf_g_relclear _ _ _ F).
  - intros Hx. destruct T2 as [T2|[_ T2]]; [congruence|left; exact T2].
Qed.

Lemma step_kinv C s t ch s' l :
  BInv C s -> KInv C s -> step C s t ch = Some (s', l) -> KInv C s'.
Proof.
  intros B [Hk Hr] Hs.
  destruct (Nat.eq_dec t (c_loop C)) as [e|ne].
  2: { (* another thread: it may enqueue, but not while the exit callback holds the mutex *)
    destruct (step_other_k C s t ch s' l B ne Hs) as (E1 & E2 & E3 & E4 & E5 & Hq).
    unfold KInv. rewrite (step_other_thr C s t ch s' l (c_loop C) Hs) by auto.
    split; [|rewrite E5; exact Hr].
    pose proof (b_hold _ _ B (c_loop C)) as HhL. clear Hs B.
    destruct Hq as [[Q1 Q2]|(id & Hm & Q1 & Q2)].
    - destruct (thr s (c_loop C)); simpl in *; rewrite ?E1, ?E2, ?E3, ?E4, ?Q1, ?Q2; try exact Hk;
        repeat match goal with ph : phase |- _ => destruct ph | o : option nat |- _ => destruct o end;
        simpl in *; rewrite ?E1, ?E2, ?E3, ?E4, ?Q1, ?Q2; exact Hk.
    - destruct (thr s (c_loop C)) eqn:EL; simpl in *;
        repeat match goal with ph : phase |- _ => destruct ph | o : option nat |- _ => destruct o end;
        simpl in *; rewrite ?E1, ?E2, ?E3, ?E4, ?Q1, ?Q2;
        try (exfalso; assert (mtx s = Some (c_loop C)) by (apply HhL; reflexivity); congruence);
        try contradiction;
        try (destruct Hk as (K1 & K2 & K3); rewrite K2; auto; fail).
      all: intros Hb; specialize (Hk Hb); destruct Hk as (K1 & K2 & K3); rewrite K2; repeat split; auto; congruence. }
  subst t.
  step_inv Hs.
  all: repeat match goal with ph : phase |- _ => destruct ph end.
  all: simpl in Hk.
  (* tails *)
  all: try (match goal with
            | H : exit_test _ _ _ _ = Some _ |- _ => pose proof (exit_test_k _ _ _ _ _ _ H) as KT
            | H : fin_pass _ _ _ _ = Some _ |- _ => pose proof (fin_pass_k _ _ _ _ _ _ H) as KT
            | H : seg_pass _ _ _ _ = Some _ |- _ => pose proof (seg_pass_k _ _ _ _ _ _ H) as KT
            | H : wake_end _ _ _ _ = Some _ |- _ => pose proof (wake_end_k _ _ _ _ _ _ H) as KT
            | H : cb_end _ _ _ _ = Some _ |- _ => pose proof (cb_end_k _ _ _ _ _ _ H) as KT
            | H : cb_next _ _ _ _ _ = Some _ |- _ => pose proof (cb_next_k _ _ _ _ _ _ _ H) as KT
            end;
            tail_frames;
            try (match goal with P0 : tail_pc (thr ?s1 ?t0) |- _ =>
                   apply (or_introl (B := exists k, thr s1 t0 = Cb (QY (S k)))) in P0; fold (tail_pc_cb (thr s1 t0)) in P0 end);
            match goal with F : tframe ?s1 _ _ |- _ =>
              eapply (kinv_of_tail C s1 _ F KT);
              [ eassumption | nrmg; exact Hk
              | nrmg; destruct (returned s) eqn:Er; [|reflexivity]; exfalso; destruct (Hr eq_refl); congruence ] end; fail).
  (* explicit steps *)
  all: unfold KInv; nrmg; rewrite ?upd_same; cbn [k_ok]; nrmg.
  all: (split; [|intros Hx; first [discriminate Hx | specialize (Hr Hx); destruct Hr as [Hr|Hr]; first [discriminate Hr | auto] | auto]]).
  all: try exact Hk.
  all: try (destruct Hk as (K1 & K2 & K3); repeat split; auto; fail).
  all: try (destruct Hk as (K1 & K2 & K3); rewrite K2; repeat split; auto; fail).
  all: try contradiction.
  all: try (exfalso; match goal with Hb : (?a =? ?a) = false |- _ => rewrite Nat.eqb_refl in Hb; discriminate Hb end).
  all: try (destruct Hk as (K1 & K2 & K3); match goal with E : clr _ = _ |- _ => nrmh E; rewrite E in K1 end;
            repeat split; auto; rewrite <- app_assoc; exact K1).
  all: try (intros _; destruct Hk as (K1 & K2 & K3 & K4); rewrite K3, K4; auto).
Qed.

Theorem kinv_all C sched : KInv C (exec sys (step C) init sched).
Proof.
  assert (H : BInv C (exec sys (step C) init sched) /\ KInv C (exec sys (step C) init sched)).
  { apply (inv_exec sys (step C) (fun s => BInv C s /\ KInv C s)).
    - intros s t c s' l [B W] Hs. split; [eapply step_binv | eapply step_kinv]; eauto.
    - split; [apply init_binv | apply init_kinv]. }
  exact (proj2 H).
Qed.


(* ---- the flag CLOSED does not take a context off the loop's list ---- *)
Definition hup_tail (s1 s' : sys) (t : nat) : Prop :=
  hup s' = hup s1 \/ exists id, hup s' = add_uniq id (hup s1) /\ closing (thr s' t) = Some id.

Lemma seg_pass_hup C s t ns s' l : seg_pass C s t ns = Some (s', l) -> hup_tail s s' t.
Proof.
  unfold seg_pass. intros H.
  destruct (pass C (hup s) (peof s) (rdy s) (rdh s) (psig s) (pn s) (todo s) ns []) as [[[[n td] r] ns'] dr].
  destruct r as [|id|].
  - inversion H; subst; clear H. left. reflexivity.
  - inversion H; subst; clear H. right. exists id. nrmg. rewrite upd_same. split; reflexivity.
  - apply fin_pass_frame in H. destruct H as (_ & _ & Eh & _ & _). left. rewrite Eh. reflexivity.
Qed.
Lemma wake_end_hup C s t ns s' l : wake_end C s t ns = Some (s', l) -> hup_tail s s' t.
Proof. unfold wake_end. intros H. apply seg_pass_hup in H. exact H. Qed.
Lemma cb_end_hup C s t ns s' l : cb_end C s t ns = Some (s', l) -> hup_tail s s' t.
Proof.
  unfold cb_end. intros H. destruct (cbk s); [|eapply wake_end_hup; eauto].
  apply exit_test_frame in H. destruct H as (_ & _ & Eh & _ & _). left. exact Eh.
Qed.
Lemma cb_next_hup C s t k ns s' l : cb_next C s t k ns = Some (s', l) -> hup_tail s s' t.
Proof.
  unfold cb_next. intros H. destruct (S k <? length (cbs s)); [|eapply cb_end_hup; eauto].
  inversion H; subst; clear H. left. reflexivity.
Qed.

Definition FInv (s : sys) : Prop := incl (hup s) (reg s).

Lemma drain_reg_incl C q : forall rg lk n q' rg' lk' n' st,
  drain C q rg lk n = (q', rg', lk', n', st) -> incl rg rg'.
Proof.
  induction q as [|id q IH]; intros rg lk n q' rg' lk' n' st H; simpl in H.
  - inversion H; subst. apply incl_refl.
  - destruct (add_fails C rg).
    + destruct (c_fix_add C); [inversion H; subst; apply incl_refl|eapply IH; eauto].
    + apply IH in H. intros x Hx. apply H. apply in_or_app. left. exact Hx.
Qed.

Lemma step_finv C s t ch s' l : BInv C s -> HInv C s' -> FInv s -> step C s t ch = Some (s', l) -> FInv s'.
Proof.
  intros B H' Hf Hs. unfold FInv in *. pose proof (b_loop _ _ B t) as Hl.
  step_inv Hs.
  all: repeat match goal with ph : phase |- _ => destruct ph end.
  all: simpl in Hl.
  (* tails *)
  all: try (match goal with
            | H : exit_test _ _ _ _ = Some _ |- _ =>
              apply exit_test_frame in H; destruct H as (F & _ & Eh & _ & _); assert (HT : hup_tail _ s' t) by (left; exact Eh)
            | H : fin_pass _ _ _ _ = Some _ |- _ =>
              apply fin_pass_frame in H; destruct H as (F & _ & Eh & _ & _); assert (HT : hup_tail _ s' t) by (left; exact Eh)
            | H : seg_pass _ _ _ _ = Some _ |- _ => pose proof (seg_pass_hup _ _ _ _ _ _ H) as HT; apply seg_pass_frame in H; destruct H as (F & _ & _)
            | H : wake_end _ _ _ _ = Some _ |- _ => pose proof (wake_end_hup _ _ _ _ _ _ H) as HT; apply wake_end_frame in H; destruct H as (F & _ & _)
            | H : cb_end _ _ _ _ = Some _ |- _ => pose proof (cb_end_hup _ _ _ _ _ _ H) as HT; apply cb_end_frame in H; destruct H as (F & _ & _)
            | H : cb_next _ _ _ _ _ = Some _ |- _ => pose proof (cb_next_hup _ _ _ _ _ _ _ H) as HT; apply cb_next_frame in H; destruct H as (F & _ & _)
            end;
            assert (Et : t = c_loop C) by (apply Hl; reflexivity); subst t;
            intros x Hx; destruct HT as [HT|(id & HT & Hc)]; rewrite HT in Hx;
            [ | apply add_uniq_In in Hx; destruct Hx as [Hx| ->]; [|exact (proj1 (h_closing _ _ H' _ Hc))] ];
            rewrite (tf_reg _ _ _ F); nrmh Hx; nrmg;
            first [ apply Hf; exact Hx
                  | apply in_app_or in Hx; destruct Hx as [Hx|[<-|[]]]; [apply Hf; exact Hx|eapply find_In; eassumption]
                  | apply drop_In in Hx; destruct Hx; apply drop_In; split; [apply Hf; assumption|assumption] ]; fail).
  (* explicit steps *)
  all: nrmg.
  all: try exact Hf.
  all: try (intros x Hx; apply in_app_or in Hx; destruct Hx as [Hx|[<-|[]]]; [apply Hf; exact Hx|eapply find_In; eassumption]).
  all: match goal with Hd : drain _ _ _ _ _ = _ |- _ => nrmh Hd; apply drain_reg_incl in Hd;
         intros x Hx; apply Hd; apply Hf; exact Hx end.
Qed.

Theorem finv_all C sched : c_fix_add C = true -> FInv (exec sys (step C) init sched).
Proof.
  intros Hfix.
  assert (H : (BInv C (exec sys (step C) init sched) /\ HInv C (exec sys (step C) init sched)) /\ FInv (exec sys (step C) init sched)).
  { apply (inv_exec sys (step C) (fun s => (BInv C s /\ HInv C s) /\ FInv s)).
    - intros s t c s' l [[B W] F] Hs.
      assert (W' : HInv C s') by (eapply step_hinv; eauto).
      split; [split; [eapply step_binv; eauto|exact W']|eapply step_finv; eauto].
    - split; [split; [apply init_binv | apply init_hinv]|intros x []]. }
  exact (proj2 H).
Qed.

Definition places (s : sys) (x : nat) : nat :=
  cnt_of (queue s) x + cnt_of (reg s) x + cnt_of (g_relfail s) x + cnt_of (g_relexit s) x + cnt_of (g_relclose s) x.

Theorem handover_once_all C sched : c_fix_add C = true ->
  let s := exec sys (step C) init sched in
  (* an identity is handed over at most once *)
  (forall x, cnt_of (g_enq s) x <= 1) /\
  (* every context handed over is in exactly one of: still queued, registered by the wake
     callback and still in the loop's list, released by the wake callback (registration failed),
     released by the exit callback, released by the back-end's close dispatch *)
  (forall x, In x (g_enq s) -> places s x = 1) /\
  (forall x, ~ In x (g_enq s) -> places s x = 0) /\
  g_leaked s = [] /\
  (* once run() has returned, every context still in the loop's list has been released by a clear
     callback, each exactly once and in order, and what is still queued was enqueued after the exit
     callback had taken the handle's mutex (a bare loop has no handle and no hand-over) *)
  (returned s = true -> c_bare C = false -> g_relclear s = reg s /\ queue s = g_late s).
Proof.
  intros Hfix s. pose proof (hinv_all C sched Hfix) as H. fold s in H.
  destruct (kinv_all C sched) as [Hk Hr]. fold s in Hk, Hr.
  split; [exact (h_once _ _ H)|]. split; [|split; [|split; [exact (h_leak _ _ H)|]]].
  - intros x Hx. pose proof (h_count _ _ H x) as Hc. pose proof (h_once _ _ H x) as Ho.
    apply (count_occ_In Nat.eq_dec) in Hx. unfold places. lia.
  - intros x Hx. pose proof (h_count _ _ H x) as Hc.
    apply (count_occ_not_In Nat.eq_dec) in Hx. unfold places. lia.
  - intros Hret Hb. destruct (Hr Hret) as [E|E]; rewrite E in Hk; simpl in Hk;
      destruct (Hk Hb) as (K1 & K2 & K3); auto.
Qed.

(* hence, after run() has returned, every context handed over has been released exactly once -
   by the wake callback, the close dispatch, a clear callback or the exit callback - or is a late
   one still queued *)
Corollary handover_released_once C sched : c_fix_add C = true ->
  let s := exec sys (step C) init sched in
  returned s = true -> c_bare C = false ->
  forall x, In x (g_enq s) ->
  cnt_of (g_relfail s ++ g_relclose s ++ g_relclear s ++ g_relexit s) x + cnt_of (g_late s) x = 1.
Proof.
  intros Hfix s Hret Hb x Hx. destruct (handover_once_all C sched Hfix) as (_ & H1 & _ & _ & H2). fold s in H1, H2.
  destruct (H2 Hret Hb) as [E1 E2]. specialize (H1 x Hx). unfold places in H1.
  rewrite !count_occ_app. rewrite E1, <- E2. lia.
Qed.

(* the clear pass releases every context that is still in the loop's list when the loop stops,
   WHATEVER ITS FLAGS: a context that has been flagged CLOSED (shut down from a callback or from
   another thread) and that the back-end has not dispatched before the exit test - shutdown and
   exit in the same iteration - is still in the list ([hup] is a part of [reg]) and is released by
   the clear pass, exactly once *)
Theorem flagged_contexts_released_by_clear C sched : c_fix_add C = true ->
  let s := exec sys (step C) init sched in
  (* flagged contexts are registered contexts: the flag does not take a context off the list *)
  (forall x, In x (hup s) -> In x (reg s)) /\
  (returned s = true -> c_bare C = false ->
   forall x, In x (reg s) -> cnt_of (g_relclear s) x = 1 /\ cnt_of (g_relclose s) x = 0 /\
                             cnt_of (g_relfail s) x = 0 /\ cnt_of (g_relexit s) x = 0 /\ cnt_of (queue s) x = 0).
Proof.
  intros Hfix s. pose proof (hinv_all C sched Hfix) as H. fold s in H.
  split; [exact (finv_all C sched Hfix)|].
  intros Hret Hb x Hx. destruct (handover_once_all C sched Hfix) as (_ & _ & _ & _ & H2). fold s in H2.
  destruct (H2 Hret Hb) as [E1 E2]. rewrite E1.
  pose proof (h_count _ _ H x) as Hc. pose proof (h_once _ _ H x) as Ho.
  apply cnt_pos_In in Hx. lia.
Qed.

(* the code as first found: poll back-end with one context slot, two hand-overs.  The second
   context cannot be registered; it is dequeued and announced all the same and ends up in none of
   the places (neither registered nor released nor queued) although run() has returned. *)
Definition cfg_add_failure (fa : bool) : config :=
  mk_cfg BPoll 2 1 1 (fun t => match t with 0 => [OpH; OpH; OpX] | _ => [] end) true fa.
Definition sched_add_failure : list (nat * nat) := repeat (0, 0) 24 ++ repeat (1, 0) 30.

Example handover_once_refuted :
  let s := exec sys (step (cfg_add_failure false)) init sched_add_failure in
  returned s = true /\ g_enq s = [0; 1] /\ reg s = [0] /\ g_leaked s = [1] /\ places s 1 = 0 /\
  g_relclear s = [0] /\ queue s = [].
Proof. vm_compute. repeat split; reflexivity. Qed.

Example handover_once_witness_repaired :
  let s := exec sys (step (cfg_add_failure true)) init sched_add_failure in
  returned s = true /\ g_enq s = [0; 1] /\ reg s = [0] /\ g_relfail s = [1] /\ places s 1 = 1 /\
  g_relclear s = [0] /\ queue s = [] /\ g_leaked s = [].
Proof. vm_compute. repeat split; reflexivity. Qed.

(* shutdown and exit in the same iteration (epoll back-end): T0 hands a context over and asks for
   the exit; the loop's only wake-up handling registers the context, the user's wake callback shuts
   it down (flag CLOSED: [hup] = [0]), the promotion turns WAKE into EXIT and the exit test
   leaves before any epoll_wait could report the hang-up: the context is released by the clear
   pass (g_relclear = [0]), not by a close dispatch, and exactly once *)
Definition cfg_shut_exit (be : backend) : config :=
  mk_cfg_cb be 2 1 8 (fun t => match t with 0 => [OpH; OpX] | _ => [] end) [[OpS]] [] false false.
Definition sched_shut_exit : list (nat * nat) := repeat (0, 0) 20 ++ repeat (1, 0) 40.
Example shutdown_then_exit_before_dispatch :
  forall be, be = BEpoll \/ be = BPoll ->
  let s := exec sys (step (cfg_shut_exit be)) init sched_shut_exit in
  returned s = true /\ g_enq s = [0] /\ reg s = [0] /\ hup s = [0] /\
  g_relclear s = [0] /\ g_relclose s = [] /\ queue s = [].
Proof. intros be [-> | ->]; vm_compute; repeat split; reflexivity. Qed.
(* the select back-end tests the flags of every context in the walk that follows the wake-up
   handling: the same schedule releases the context by a close dispatch *)
Example shutdown_then_exit_select :
  let s := exec sys (step (cfg_shut_exit BSelect)) init sched_shut_exit in
  returned s = true /\ g_enq s = [0] /\ reg s = [] /\ g_relclear s = [] /\ g_relclose s = [0] /\ queue s = [].
Proof. vm_compute. repeat split; reflexivity. Qed.
