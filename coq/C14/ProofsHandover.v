(* C14 — handover_once (repaired on_wake: c_fix_add = true).
   Every context handed over through muggle_socket_evloop_add_ctx is, at every moment of every
   schedule, in exactly one of: still queued / registered by the wake callback / released by the
   wake callback because registration failed / released by the exit callback.  Identities are
   never duplicated.  Registered contexts are released exactly once by the clear callbacks, and
   when run() has returned the only contexts still queued are those enqueued after the exit
   callback had taken the handle's mutex.
   On the code as first found (c_fix_add = false) a context whose registration fails is in none
   of these places: handover_once_refuted. *)
From MV Require Import C14.Model C14.ProofsBase.

Notation cnt_of := (count_occ Nat.eq_dec).

Definition pend (p : pc) : option nat :=
  match p with AHLock _ id | SHEnq _ id => Some id | _ => None end.

(* the context being released by the wake / exit callback is the head of the queue *)
Definition head_ok (q : list nat) (p : pc) : Prop :=
  match p with
  | ARel PhDrain id | SRel PhDrain (Some id) | ARel PhExit id | SRel PhExit (Some id) => exists r, q = id :: r
  | _ => True
  end.

Record HInv (C : config) (s : sys) : Prop := {
  h_leak : g_leaked s = [];
  h_count : forall x, cnt_of (g_enq s) x =
                      cnt_of (queue s) x + cnt_of (reg s) x + cnt_of (g_relfail s) x + cnt_of (g_relexit s) x;
  h_head : head_ok (queue s) (thr s (c_loop C));
  h_once : forall x, cnt_of (g_enq s) x <= 1;
  h_fresh : forall x, next_id s <= x -> cnt_of (g_enq s) x = 0;
  h_pend : forall t id, pend (thr s t) = Some id -> id < next_id s /\ cnt_of (g_enq s) id = 0;
  h_pend_ne : forall t u id, t <> u -> pend (thr s t) = Some id -> pend (thr s u) <> Some id;
}.

Lemma init_hinv C : HInv C init.
Proof. constructor; simpl; intros; try reflexivity; try lia; try discriminate; exact I. Qed.

Lemma drain_spec C : c_fix_add C = true -> forall q rg lk n q' rg' lk' n' st,
  drain C q rg lk n = (q', rg', lk', n', st) ->
  exists moved, q = moved ++ q' /\ rg' = rg ++ moved /\ lk' = lk /\
    match st with Some id => exists r, q' = id :: r | None => q' = [] end.
Proof.
  intros Hfix q. induction q as [|id q IH]; intros rg lk n q' rg' lk' n' st H; simpl in H.
  - inversion H; subst. exists []. simpl. rewrite app_nil_r. repeat split; reflexivity.
  - destruct (add_fails C rg).
    + rewrite Hfix in H. inversion H; subst. exists []. simpl. rewrite app_nil_r. repeat split; eauto.
    + apply IH in H. destruct H as (m & -> & -> & -> & Hst). exists (id :: m).
      rewrite <- app_assoc. simpl. auto.
Qed.

Lemma cnt_single x y : cnt_of [y] x = if Nat.eq_dec y x then 1 else 0.
Proof. simpl. destruct (Nat.eq_dec y x); reflexivity. Qed.

Ltac cnt_norm :=
  repeat rewrite count_occ_app in *; repeat rewrite cnt_single in *;
  repeat match goal with |- context [Nat.eq_dec ?a ?b] => destruct (Nat.eq_dec a b); subst end.

Lemma head_ok_app q r p : head_ok q p -> head_ok (q ++ r) p.
Proof.
  destruct p as [| | | | | | | | | | | | | | |ph [id|]|ph id| | | | | | |]; simpl; auto; destruct ph; auto;
    intros [x ->]; eexists; reflexivity.
Qed.

Lemma step_hinv C s t ch s' l : c_fix_add C = true ->
  BInv C s -> HInv C s -> step C s t ch = Some (s', l) -> HInv C s'.
Proof.
  intros Hfix B [Hlk Hc Hh Ho Hf Hp Hn] Hs. pose proof (b_loop _ _ B t) as Hl.
  pose proof (Hp t) as Hpt. pose proof (Hn t) as Hnt.
  step_inv Hs.
  all: simpl in Hl, Hpt, Hnt.
  all: repeat match goal with
       | E : drain _ _ _ _ _ = _ |- _ => apply (drain_spec C Hfix) in E; simpl in E;
           destruct E as (moved & Eq & Erg & Elk & Est); subst
       end.
  all: repeat match goal with ph : phase |- _ => destruct ph end.
  (* the released context is the head of the queue *)
  all: try (match goal with E : thr _ ?t0 = SRel _ (Some _) |- _ =>
              let Ht0 := fresh "Ht0" in
              assert (Ht0 : t0 = c_loop C) by (apply Hl; reflexivity); rewrite <- Ht0 in Hh; rewrite E in Hh; simpl in Hh;
              destruct Hh as [r0 Hq]; rewrite Hq in *; simpl tl in * end).
  all: constructor; unfold set_pc; simpl.
  (* h_leak *)
  all: try assumption.
  (* h_count *)
  all: try (intros x; specialize (Hc x);
            repeat match goal with Eq : queue _ = _ |- _ => rewrite Eq end;
            repeat match goal with Eq : _ = _ ++ _ |- _ => rewrite Eq in * end;
            simpl in *; cnt_norm; simpl in *; cnt_norm; lia).
  all: try (intros x; repeat match goal with Eq : queue _ = _ |- _ => rewrite Eq | Eq : reg _ = _ |- _ => rewrite Eq end; apply Hc).
  (* h_head *)
  all: try (unfold upd; destruct (Nat.eqb_spec (c_loop C) t) as [e|ne];
            [ simpl; first [ exact I | solve [eauto]
                           | match goal with E : thr _ _ = _ |- _ => rewrite e in Hh; rewrite E in Hh; exact Hh end ]
            | first [ assumption | apply head_ok_app; assumption
                    | exfalso; apply ne; symmetry; apply Hl; reflexivity ] ]; fail).
  (* h_once / h_fresh when the enqueue list or the id counter changes *)
  all: try (intros x; specialize (Ho x); specialize (Hf x); destruct (Hpt _ eq_refl) as [Hp1 Hp2];
            cnt_norm; intros; lia).
  all: try (intros x Hx; apply Hf; lia).
  (* h_pend *)
  all: try (intros u id' Hu; unfold upd in Hu; destruct (Nat.eqb_spec u t) as [e|ne];
            [ subst u; simpl in Hu; first [ discriminate Hu
                | injection Hu as <-; first [ apply Hpt; reflexivity | split; [lia | apply Hf; lia] ] ]
            | destruct (Hp u id' Hu) as [Hp1 Hp2]; split; [lia|];
              first [ exact Hp2
                    | cnt_norm; [exfalso; eapply (Hnt u); eauto | lia ] ] ]; fail).
  (* h_pend_ne *)
  all: try (intros u v id' Huv Hu Hv; unfold upd in Hu, Hv;
            destruct (Nat.eqb_spec u t) as [e1|n1]; destruct (Nat.eqb_spec v t) as [e2|n2];
            try (subst; contradiction); simpl in Hu, Hv; try discriminate Hu; try discriminate Hv;
            first [ exact (Hn u v id' Huv Hu Hv)
                  | subst u; injection Hu as <-;
                    first [ exact (Hnt v _ (fun E => n2 (eq_sym E)) eq_refl Hv)
                          | destruct (Hp v _ Hv); lia ]
                  | subst v; injection Hv as <-;
                    first [ exact (Hnt u _ (fun E => n1 (eq_sym E)) eq_refl Hu)
                          | destruct (Hp u _ Hu); lia ] ]; fail).
Qed.

Theorem hinv_all C sched : c_fix_add C = true -> HInv C (exec sys (step C) init sched).
Proof.
  intros Hfix.
  assert (H : BInv C (exec sys (step C) init sched) /\ HInv C (exec sys (step C) init sched)).
  { apply (inv_exec sys (step C) (fun s => BInv C s /\ HInv C s)).
    - intros s t c s' l [B W] Hs. split; [eapply step_binv | eapply step_hinv]; eauto.
    - split; [apply init_binv | apply init_hinv]. }
  exact (proj2 H).
Qed.


(* ---- clear callbacks and the exit callback ---- *)
Definition k_ok (C : config) (s : sys) (p : pc) : Prop :=
  match p with
  | ARel PhClear id | SRel PhClear (Some id) =>
    reg s = g_relclear s ++ id :: clr s /\ exitdr s = false /\ g_late s = []
  | SRel PhClear None => False
  | AXLock => reg s = g_relclear s /\ exitdr s = false /\ g_late s = []
  | SRel PhExit _ | ARel PhExit _ => reg s = g_relclear s /\ exitdr s = true /\ g_late s = []
  | AXUnlock => reg s = g_relclear s /\ exitdr s = true /\ g_late s = [] /\ queue s = []
  | SRet | AFin | Done =>
    (* a bare loop has no hand-over queue and no registered socket contexts to account for *)
    c_bare C = false -> reg s = g_relclear s /\ exitdr s = true /\ queue s = g_late s
  | _ => g_relclear s = [] /\ exitdr s = false /\ g_late s = []
  end.

Definition KInv (C : config) (s : sys) : Prop :=
  k_ok C s (thr s (c_loop C)) /\
  (returned s = true -> thr s (c_loop C) = AFin \/ thr s (c_loop C) = Done).

Lemma init_kinv C : KInv C init.
Proof. split; simpl; [auto|discriminate]. Qed.

Lemma step_kinv C s t ch s' l :
  BInv C s -> KInv C s -> step C s t ch = Some (s', l) -> KInv C s'.
Proof.
  intros B [Hk Hr] Hs. pose proof (b_loop _ _ B t) as Hl. pose proof (b_hold _ _ B t) as Hht.
  pose proof (b_hold _ _ B (c_loop C)) as HhL.
  step_inv Hs.
  all: simpl in Hl, Hht.
  all: repeat match goal with ph : phase |- _ => destruct ph end.
  all: unfold KInv, set_pc; simpl; unfold upd.
  all: destruct (Nat.eqb_spec (c_loop C) t) as [e|ne];
    [ rewrite e in *; match goal with E : thr _ _ = _ |- _ => rewrite E in Hk, Hr; simpl in Hk end
    | try (exfalso; apply ne; symmetry; apply Hl; reflexivity) ].
  all: try exact (conj Hk Hr).
  all: try (split; [ simpl in *; intuition (subst; auto; congruence)
                   | first [ intros Hx; discriminate Hx
                           | intros Hx; specialize (Hr Hx); destruct Hr; congruence
                           | intros; auto ] ]; fail).
  - exfalso. apply Nat.eqb_neq in Heqb1. congruence.
  - destruct Hk as (K1 & K2 & K3). rewrite K2. split; [simpl; auto|].
    intros Hx. specialize (Hr Hx). destruct Hr; congruence.
  - (* an enqueue by another thread: not while the exit callback holds the mutex *)
    assert (Hm : mtx s = Some t) by (apply Hht; reflexivity).
    split; [|exact Hr].
    destruct (thr s (c_loop C)) as [| | | | | | | | | | | | | | |ph [i|]|ph i| | | | | | |] eqn:EL;
      simpl in *; try (destruct ph; simpl in * );
      try (exfalso; assert (mtx s = Some (c_loop C)) by (apply HhL; reflexivity); congruence);
      try (destruct Hk as (K1 & K2 & K3); rewrite K2; auto; fail);
      try contradiction.
    all: try (intros Hb; specialize (Hk Hb)).
    all: destruct Hk as (K1 & K2 & K3); rewrite K2; repeat split; auto; congruence.
  - destruct Hk as (K1 & K2 & K3). simpl in Heql0. rewrite Heql0 in K1. split; [|intros Hx; specialize (Hr Hx); destruct Hr; congruence].
    simpl. repeat split; auto. rewrite <- app_assoc. exact K1.
  - destruct Hk as (K1 & K2 & K3). split; [|intros Hx; specialize (Hr Hx); destruct Hr; congruence].
    simpl. rewrite K1. repeat split; auto.
Qed.

Theorem kinv_all C sched : KInv C (exec sys (step C) init sched).
Proof.
  assert (H : BInv C (exec sys (step C) init sched) /\ KInv C (exec sys (step C) init sched)).
  { apply (inv_exec sys (step C) (fun s => BInv C s /\ KInv C s)).
    - intros s t c s' l [B W] Hs. split; [eapply step_binv | eapply step_kinv]; eauto.
    - split; [apply init_binv | apply init_kinv]. }
  exact (proj2 H).
Qed.


Definition places (s : sys) (x : nat) : nat :=
  cnt_of (queue s) x + cnt_of (reg s) x + cnt_of (g_relfail s) x + cnt_of (g_relexit s) x.

Theorem handover_once_all C sched : c_fix_add C = true ->
  let s := exec sys (step C) init sched in
  (* an identity is handed over at most once *)
  (forall x, cnt_of (g_enq s) x <= 1) /\
  (* every context handed over is in exactly one of: still queued, registered by the wake
     callback, released by the wake callback (registration failed), released by the exit callback *)
  (forall x, In x (g_enq s) -> places s x = 1) /\
  (forall x, ~ In x (g_enq s) -> places s x = 0) /\
  g_leaked s = [] /\
  (* once run() has returned, every registered context has been released by a clear callback,
     each exactly once and in order, and what is still queued was enqueued after the exit
     callback had taken the handle's mutex (a bare loop has no handle and no hand-over) *)
  (returned s = true -> c_bare C = false -> g_relclear s = reg s /\ queue s = g_late s).
Proof.
  intros Hfix s. pose proof (hinv_all C sched Hfix) as H. fold s in H.
  destruct (kinv_all C sched) as [Hk Hr]. fold s in Hk, Hr.
  split; [exact (h_once _ _ H)|]. split; [|split; [|split; [exact (h_leak _ _ H)|]]].
  - intros x Hx. pose proof (h_count _ _ H x) as Hc. pose proof (h_once _ _ H x) as Ho.
    apply (count_occ_In Nat.eq_dec) in Hx. unfold places. lia.
  - intros x Hx. pose proof (h_count _ _ H x) as Hc.
    apply (count_occ_not_In Nat.eq_dec) in Hx. unfold places. lia.
  - intros Hret Hb. destruct (Hr Hret) as [E|E]; rewrite E in Hk; simpl in Hk;
      destruct (Hk Hb) as (K1 & K2 & K3); auto.
Qed.

(* hence, after run() has returned, every context handed over has been released exactly once -
   by the wake callback, a clear callback or the exit callback - or is a late one still queued *)
Corollary handover_released_once C sched : c_fix_add C = true ->
  let s := exec sys (step C) init sched in
  returned s = true -> c_bare C = false ->
  forall x, In x (g_enq s) ->
  cnt_of (g_relfail s ++ g_relclear s ++ g_relexit s) x + cnt_of (g_late s) x = 1.
Proof.
  intros Hfix s Hret Hb x Hx. destruct (handover_once_all C sched Hfix) as (_ & H1 & _ & _ & H2). fold s in H1, H2.
  destruct (H2 Hret Hb) as [E1 E2]. specialize (H1 x Hx). unfold places in H1.
  rewrite !count_occ_app. rewrite E1, <- E2. lia.
Qed.

(* the code as first found: poll back-end with one context slot, two hand-overs.  The second
   context cannot be registered; it is dequeued and announced all the same and ends up in none of
   the places (neither registered nor released nor queued) although run() has returned. *)
Definition cfg_add_failure (fa : bool) : config :=
  mk_cfg BPoll 2 1 1 (fun t => match t with 0 => [OpH; OpH; OpX] | _ => [] end) true fa.
Definition sched_add_failure : list (nat * nat) := repeat (0, 0) 24 ++ repeat (1, 0) 30.

Example handover_once_refuted :
  let s := exec sys (step (cfg_add_failure false)) init sched_add_failure in
  returned s = true /\ g_enq s = [0; 1] /\ reg s = [0] /\ g_leaked s = [1] /\ places s 1 = 0 /\
  g_relclear s = [0] /\ queue s = [].
Proof. vm_compute. repeat split; reflexivity. Qed.

Example handover_once_witness_repaired :
  let s := exec sys (step (cfg_add_failure true)) init sched_add_failure in
  returned s = true /\ g_enq s = [0; 1] /\ reg s = [0] /\ g_relfail s = [1] /\ places s 1 = 1 /\
  g_relclear s = [0] /\ queue s = [] /\ g_leaked s = [].
Proof. vm_compute. repeat split; reflexivity. Qed.
