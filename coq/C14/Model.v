(* C14 — cross-thread wake-up, hand-over and exit of the event loop.
   Executable model of muggle_evloop_run / the back-ends' run loops and handle_wakeup /
   muggle_evloop_exit / muggle_evloop_wakeup (event_loop.c, event_loop_{select,poll,epoll}.c,
   event_signal.c) and of muggle_socket_evloop_add_ctx / _on_wake / _on_read / _on_close /
   _on_timer / _on_clear / _on_exit (socket_evloop_handle.c), at the granularity of
   harness/vsched + vs_io.c: every poll/select/epoll_wait attempt, every eventfd read/write, every
   mutex operation, every ref-count CAS and every harness "plain op" is one step (label LEv);
   every plain segment between two of them is one step (LPlain).

   Threads: T0 creates the loop (evloop->tid = T0 until run() overwrites it); thread
   [c_loop] runs it; every thread first executes its script (wake-up / hand-over / exit /
   shutdown of a registered context / data from or close by the peer of a registered context).
   The user's wake callback and timer callback execute scripts of the same operations on the loop
   thread, inside the loop.

   Kernel, modelled (checked against the real kernel by trace acceptance, not verified):
   eventfd counter [cnt]: write adds 1, read returns it and resets it to 0; readable iff > 0.
   select/poll are level-triggered.  epoll registers every descriptor with EPOLLIN|EPOLLET: the
   signal is reported iff it is on the ready list ([edge]: set by EPOLL_CTL_ADD when readable and
   by every write; cleared when reported) and still readable.  A registered socket is readable
   while it has unread input ([inp]), after its peer has closed ([peof]: end of file) and after its
   own end has been shut down ([hup]: muggle_socket_ctx_shutdown = flag CLOSED +
   shutdown(SHUT_RDWR)); in the last two cases it is also hung up.  select/poll report it at every
   call while that lasts, epoll reports it once per event ([erl]: the contexts on epoll's ready
   list, in the order in which they were put there).  The position of the signal among the events
   of one epoll_wait batch is the step's choice parameter (every position is covered by the
   theorems; the model driver reads it off the trace).

   Plain shared ints ([to_exit], [tid], the flags of a context) are modelled sequentially
   consistent; in the C code they are ordinary fields accessed from several threads without
   synchronisation (flagged in the evidence: formally a data race; the serialised run cannot
   exhibit tearing or reordering).

   [c_fix_exit] / [c_fix_add] select the code as first found (false) or with
   fixes/C14-exit-before-run.patch / fixes/C14-add-ctx-failure.patch applied (true). *)
From MV Require Export Lib.Conc.

Inductive backend := BSelect | BPoll | BEpoll.
(* script operations: wake-up; hand-over; exit; shutdown of the first registered context that has
   not been flagged CLOSED (muggle_socket_ctx_shutdown); the peer of the first registered context
   that is not flagged and whose peer is still open sends data / closes.  Nothing happens when
   there is no such context. *)
Inductive sop := OpW | OpH | OpX | OpS | OpD | OpC.

Record config := {
  c_be : backend;
  c_n : nat;                 (* number of threads *)
  c_loop : nat;              (* the thread that calls muggle_evloop_run *)
  c_cap : nat;               (* hints_max_fd: context slots of the poll back-end *)
  c_scr : nat -> list sop;   (* script of every thread *)
  c_fix_exit : bool;
  c_fix_add : bool;
  (* loop configuration: which optional callbacks are installed.  [c_bare] = a bare
     muggle_event_loop_t (no socket_evloop_handle attached): the flags are the loop's own
     cb_wake / cb_read / cb_close / cb_clear / cb_exit / cb_timer and [c_nctx] contexts are
     registered by the creating thread before anything else runs (their peers stay silent).
     Otherwise the handle is attached (all loop-level callbacks are the handle's internal
     functions) and the flags are the handle's user callbacks cb_wake / cb_add_ctx / cb_release /
     cb_msg (read) / cb_close / cb_timer.  The WAKE -> EXIT promotion, the exit test and every
     release must not depend on any flag. *)
  c_bare : bool;
  c_nctx : nat;
  c_cb_wake : bool;
  c_cb_add : bool;
  c_cb_release : bool;
  c_cb_read : bool;
  c_cb_close : bool;
  c_cb_clear : bool;
  c_cb_exit : bool;
  c_cb_timer : bool;
  (* what the user's callbacks do (handle attached, callback installed): the j-th invocation of
     the wake callback executes the script [nth j c_cbw []], the j-th invocation of the timer
     callback [nth j c_cbt []] - on the loop thread, inside the back-end's pass *)
  c_cbw : list (list sop);
  c_cbt : list (list sop);
  (* timer interval 0: poll/select/epoll_wait do not block and every iteration, whether or not
     anything was ready, ends with the timer callback and the exit test; otherwise -1 (no timer) *)
  c_tmo : bool;
  (* the owner deletes the loop (muggle_evloop_delete) as soon as muggle_evloop_run has returned,
     without waiting for the other threads *)
  c_del : bool;
}.

(* the configuration of the first rounds of checking: handle attached, every callback installed *)
Definition mk_cfg (be : backend) (n lp cap : nat) (scr : nat -> list sop) (fx fa : bool) : config :=
  {| c_be := be; c_n := n; c_loop := lp; c_cap := cap; c_scr := scr; c_fix_exit := fx; c_fix_add := fa;
     c_bare := false; c_nctx := 0; c_cb_wake := true; c_cb_add := true; c_cb_release := true;
     c_cb_read := true; c_cb_close := true; c_cb_clear := true; c_cb_exit := true; c_cb_timer := true;
     c_cbw := []; c_cbt := []; c_tmo := false; c_del := false |}.
(* the same (both repairs) with callback scripts, a zero timer interval, immediate deletion *)
Definition mk_cfg_cb (be : backend) (n lp cap : nat) (scr : nat -> list sop) (cbw cbt : list (list sop))
  (tmo del : bool) : config :=
  {| c_be := be; c_n := n; c_loop := lp; c_cap := cap; c_scr := scr; c_fix_exit := true; c_fix_add := true;
     c_bare := false; c_nctx := 0; c_cb_wake := true; c_cb_add := true; c_cb_release := true;
     c_cb_read := true; c_cb_close := true; c_cb_clear := true; c_cb_exit := true; c_cb_timer := true;
     c_cbw := cbw; c_cbt := cbt; c_tmo := tmo; c_del := del |}.
(* a bare loop with the given wake / clear / exit callbacks (read, close, timer not installed) *)
Definition mk_bare (be : backend) (n lp cap : nat) (scr : nat -> list sop) (nctx : nat) (w cl ex : bool) : config :=
  {| c_be := be; c_n := n; c_loop := lp; c_cap := cap; c_scr := scr; c_fix_exit := true; c_fix_add := true;
     c_bare := true; c_nctx := nctx; c_cb_wake := w; c_cb_add := false; c_cb_release := false;
     c_cb_read := false; c_cb_close := false; c_cb_clear := cl; c_cb_exit := ex; c_cb_timer := false;
     c_cbw := []; c_cbt := []; c_tmo := false; c_del := false |}.

(* who releases a context: the wake callback (registration failed), the back-end's dispatch of a
   context flagged CLOSED (on_close), the clear pass of muggle_evloop_run, the exit callback *)
Inductive phase := PhDrain | PhClear | PhExit | PhClose.

(* program points of a callback script (the same operations as a thread script, on the loop
   thread): harness "plain op" before operation k, its first plain segment, the signal write and
   what follows, the four points of muggle_socket_evloop_add_ctx *)
Inductive spc :=
  | QY (k : nat) | QO (k : nat) | QW (k : nat) | QT (k : nat)
  | QHL (k id : nat) | QHE (k id : nat) | QHU (k : nat) | QHW (k : nat).

(* program points: A* = at an operation (label LEv), S* = in the plain segment before the next
   operation (label LPlain) *)
Inductive pc :=
  | SStart                       (* T0: muggle_evloop_new + handle attach + start of the other threads *)
  | AYield (k : nat)             (* harness "plain op" before script operation k (k = length: after the last) *)
  | SOp (k : nat)                (* first plain segment of operation k, or of run() / thread end *)
  | AWrite (k : nat)             (* muggle_ev_signal_wakeup: write(evfd) *)
  | STail (k : nat)
  | AHLock (k id : nat)          (* muggle_socket_evloop_add_ctx: lock *)
  | SHEnq (k id : nat)           (*   enqueue *)
  | AHUnlock (k : nat)           (*   unlock *)
  | SHW (k : nat)                (*   then muggle_evloop_wakeup *)
  | APoll                        (* select / poll / epoll_wait (one attempt) *)
  | SRepoll                      (* nothing ready: waiting for I/O (timer interval 0: timer, exit test) *)
  | SPollRet                     (* returned with something ready: the back-end's pass over the events *)
  | ARead                        (* muggle_ev_signal_clearup: read(evfd) *)
  | SWake                        (* cb_wake = muggle_socket_evloop_on_wake starts *)
  | AWLock                       (* on_wake: lock *)
  | SRel (ph : phase) (pend : option nat)  (* drain of the queue / close dispatch / clear of ctx_list / on_exit drain *)
  | ARel (ph : phase) (id : nat) (* muggle_socket_evloop_release_ctx: ref-count CAS 1 -> 0 *)
  | AWUnlock                     (* on_wake: unlock *)
  | SWakeEnd                     (* handle cb_wake; WAKE -> EXIT; rest of the pass; timer; exit test *)
  | Cb (q : spc)                 (* inside the user's wake / timer callback *)
  | AXLock                       (* on_exit: lock *)
  | AXUnlock
  | SRet                         (* muggle_evloop_run returns *)
  | AFin
  | Done.

(* [reg] = evloop->ctx_list (registered and not yet removed by a close dispatch), [hup] = its
   contexts whose flags have MUGGLE_EV_CTX_FLAG_CLOSED (in the order in which the flag was set),
   [inp] / [peof] = those with unread input / whose peer has closed, [erl] = those on epoll's
   ready list, [slots] = the poll back-end's fds[1..] / nodes[1..]; per pass of the back-end over
   the result of one poll call: [rdy] = the contexts reported, [rdh] = those of them reported as
   hung up, [psig] = the signal reported and handle_wakeup not reached yet, [pn] = the poll
   back-end's counter n (it is only compared with 0 after decrements: truncated subtraction),
   [todo] = what the pass still has to visit (None = the signal: handle_wakeup); [wkn] / [tmn] =
   invocations of the user's wake / timer callback, [cbs] = the script of the invocation in
   progress, [cbk] = it is the timer callback; [lfreed] = the loop has been deleted, [g_uaf] =
   library calls on the loop made after that *)
Record sys := {
  cnt : nat;
  edge : bool;
  to_exit : nat;
  tidf : nat;
  created : bool;
  mtx : option nat;
  queue : list nat;
  next_id : nat;
  reg : list nat;
  clr : list nat;
  exitdr : bool;
  g_enq : list nat;
  g_relfail : list nat;
  g_relexit : list nat;
  g_relclear : list nat;
  g_leaked : list nat;
  g_late : list nat;
  w_req : nat;
  w_seen : nat;
  returned : bool;
  hup : list nat;
  erl : list nat;
  slots : list nat;
  rdy : list nat;
  todo : list (option nat);
  psig : bool;
  pn : nat;
  wkn : nat;
  g_relclose : list nat;
  inp : list nat;
  peof : list nat;
  rdh : list nat;
  tmn : nat;
  cbk : bool;
  cbs : list sop;
  lfreed : bool;
  g_uaf : nat;
  thr : nat -> pc;
}.

Definition set_cnt (s : sys) (v : nat) : sys :=
  {| cnt := v; edge := edge s; to_exit := to_exit s; tidf := tidf s; created := created s; mtx := mtx s; queue := queue s; next_id := next_id s; reg := reg s; clr := clr s; exitdr := exitdr s; g_enq := g_enq s; g_relfail := g_relfail s; g_relexit := g_relexit s; g_relclear := g_relclear s; g_leaked := g_leaked s; g_late := g_late s; w_req := w_req s; w_seen := w_seen s; returned := returned s; hup := hup s; erl := erl s; slots := slots s; rdy := rdy s; todo := todo s; psig := psig s; pn := pn s; wkn := wkn s; g_relclose := g_relclose s; inp := inp s; peof := peof s; rdh := rdh s; tmn := tmn s; cbk := cbk s; cbs := cbs s; lfreed := lfreed s; g_uaf := g_uaf s; thr := thr s |}.
Definition set_edge (s : sys) (v : bool) : sys :=
  {| cnt := cnt s; edge := v; to_exit := to_exit s; tidf := tidf s; created := created s; mtx := mtx s; queue := queue s; next_id := next_id s; reg := reg s; clr := clr s; exitdr := exitdr s; g_enq := g_enq s; g_relfail := g_relfail s; g_relexit := g_relexit s; g_relclear := g_relclear s; g_leaked := g_leaked s; g_late := g_late s; w_req := w_req s; w_seen := w_seen s; returned := returned s; hup := hup s; erl := erl s; slots := slots s; rdy := rdy s; todo := todo s; psig := psig s; pn := pn s; wkn := wkn s; g_relclose := g_relclose s; inp := inp s; peof := peof s; rdh := rdh s; tmn := tmn s; cbk := cbk s; cbs := cbs s; lfreed := lfreed s; g_uaf := g_uaf s; thr := thr s |}.
Definition set_to_exit (s : sys) (v : nat) : sys :=
  {| cnt := cnt s; edge := edge s; to_exit := v; tidf := tidf s; created := created s; mtx := mtx s; queue := queue s; next_id := next_id s; reg := reg s; clr := clr s; exitdr := exitdr s; g_enq := g_enq s; g_relfail := g_relfail s; g_relexit := g_relexit s; g_relclear := g_relclear s; g_leaked := g_leaked s; g_late := g_late s; w_req := w_req s; w_seen := w_seen s; returned := returned s; hup := hup s; erl := erl s; slots := slots s; rdy := rdy s; todo := todo s; psig := psig s; pn := pn s; wkn := wkn s; g_relclose := g_relclose s; inp := inp s; peof := peof s; rdh := rdh s; tmn := tmn s; cbk := cbk s; cbs := cbs s; lfreed := lfreed s; g_uaf := g_uaf s; thr := thr s |}.
Definition set_tidf (s : sys) (v : nat) : sys :=
  {| cnt := cnt s; edge := edge s; to_exit := to_exit s; tidf := v; created := created s; mtx := mtx s; queue := queue s; next_id := next_id s; reg := reg s; clr := clr s; exitdr := exitdr s; g_enq := g_enq s; g_relfail := g_relfail s; g_relexit := g_relexit s; g_relclear := g_relclear s; g_leaked := g_leaked s; g_late := g_late s; w_req := w_req s; w_seen := w_seen s; returned := returned s; hup := hup s; erl := erl s; slots := slots s; rdy := rdy s; todo := todo s; psig := psig s; pn := pn s; wkn := wkn s; g_relclose := g_relclose s; inp := inp s; peof := peof s; rdh := rdh s; tmn := tmn s; cbk := cbk s; cbs := cbs s; lfreed := lfreed s; g_uaf := g_uaf s; thr := thr s |}.
Definition set_created (s : sys) (v : bool) : sys :=
  {| cnt := cnt s; edge := edge s; to_exit := to_exit s; tidf := tidf s; created := v; mtx := mtx s; queue := queue s; next_id := next_id s; reg := reg s; clr := clr s; exitdr := exitdr s; g_enq := g_enq s; g_relfail := g_relfail s; g_relexit := g_relexit s; g_relclear := g_relclear s; g_leaked := g_leaked s; g_late := g_late s; w_req := w_req s; w_seen := w_seen s; returned := returned s; hup := hup s; erl := erl s; slots := slots s; rdy := rdy s; todo := todo s; psig := psig s; pn := pn s; wkn := wkn s; g_relclose := g_relclose s; inp := inp s; peof := peof s; rdh := rdh s; tmn := tmn s; cbk := cbk s; cbs := cbs s; lfreed := lfreed s; g_uaf := g_uaf s; thr := thr s |}.
Definition set_mtx (s : sys) (v : option nat) : sys :=
  {| cnt := cnt s; edge := edge s; to_exit := to_exit s; tidf := tidf s; created := created s; mtx := v; queue := queue s; next_id := next_id s; reg := reg s; clr := clr s; exitdr := exitdr s; g_enq := g_enq s; g_relfail := g_relfail s; g_relexit := g_relexit s; g_relclear := g_relclear s; g_leaked := g_leaked s; g_late := g_late s; w_req := w_req s; w_seen := w_seen s; returned := returned s; hup := hup s; erl := erl s; slots := slots s; rdy := rdy s; todo := todo s; psig := psig s; pn := pn s; wkn := wkn s; g_relclose := g_relclose s; inp := inp s; peof := peof s; rdh := rdh s; tmn := tmn s; cbk := cbk s; cbs := cbs s; lfreed := lfreed s; g_uaf := g_uaf s; thr := thr s |}.
Definition set_queue (s : sys) (v : list nat) : sys :=
  {| cnt := cnt s; edge := edge s; to_exit := to_exit s; tidf := tidf s; created := created s; mtx := mtx s; queue := v; next_id := next_id s; reg := reg s; clr := clr s; exitdr := exitdr s; g_enq := g_enq s; g_relfail := g_relfail s; g_relexit := g_relexit s; g_relclear := g_relclear s; g_leaked := g_leaked s; g_late := g_late s; w_req := w_req s; w_seen := w_seen s; returned := returned s; hup := hup s; erl := erl s; slots := slots s; rdy := rdy s; todo := todo s; psig := psig s; pn := pn s; wkn := wkn s; g_relclose := g_relclose s; inp := inp s; peof := peof s; rdh := rdh s; tmn := tmn s; cbk := cbk s; cbs := cbs s; lfreed := lfreed s; g_uaf := g_uaf s; thr := thr s |}.
Definition set_next_id (s : sys) (v : nat) : sys :=
  {| cnt := cnt s; edge := edge s; to_exit := to_exit s; tidf := tidf s; created := created s; mtx := mtx s; queue := queue s; next_id := v; reg := reg s; clr := clr s; exitdr := exitdr s; g_enq := g_enq s; g_relfail := g_relfail s; g_relexit := g_relexit s; g_relclear := g_relclear s; g_leaked := g_leaked s; g_late := g_late s; w_req := w_req s; w_seen := w_seen s; returned := returned s; hup := hup s; erl := erl s; slots := slots s; rdy := rdy s; todo := todo s; psig := psig s; pn := pn s; wkn := wkn s; g_relclose := g_relclose s; inp := inp s; peof := peof s; rdh := rdh s; tmn := tmn s; cbk := cbk s; cbs := cbs s; lfreed := lfreed s; g_uaf := g_uaf s; thr := thr s |}.
Definition set_reg (s : sys) (v : list nat) : sys :=
  {| cnt := cnt s; edge := edge s; to_exit := to_exit s; tidf := tidf s; created := created s; mtx := mtx s; queue := queue s; next_id := next_id s; reg := v; clr := clr s; exitdr := exitdr s; g_enq := g_enq s; g_relfail := g_relfail s; g_relexit := g_relexit s; g_relclear := g_relclear s; g_leaked := g_leaked s; g_late := g_late s; w_req := w_req s; w_seen := w_seen s; returned := returned s; hup := hup s; erl := erl s; slots := slots s; rdy := rdy s; todo := todo s; psig := psig s; pn := pn s; wkn := wkn s; g_relclose := g_relclose s; inp := inp s; peof := peof s; rdh := rdh s; tmn := tmn s; cbk := cbk s; cbs := cbs s; lfreed := lfreed s; g_uaf := g_uaf s; thr := thr s |}.
Definition set_clr (s : sys) (v : list nat) : sys :=
  {| cnt := cnt s; edge := edge s; to_exit := to_exit s; tidf := tidf s; created := created s; mtx := mtx s; queue := queue s; next_id := next_id s; reg := reg s; clr := v; exitdr := exitdr s; g_enq := g_enq s; g_relfail := g_relfail s; g_relexit := g_relexit s; g_relclear := g_relclear s; g_leaked := g_leaked s; g_late := g_late s; w_req := w_req s; w_seen := w_seen s; returned := returned s; hup := hup s; erl := erl s; slots := slots s; rdy := rdy s; todo := todo s; psig := psig s; pn := pn s; wkn := wkn s; g_relclose := g_relclose s; inp := inp s; peof := peof s; rdh := rdh s; tmn := tmn s; cbk := cbk s; cbs := cbs s; lfreed := lfreed s; g_uaf := g_uaf s; thr := thr s |}.
Definition set_exitdr (s : sys) (v : bool) : sys :=
  {| cnt := cnt s; edge := edge s; to_exit := to_exit s; tidf := tidf s; created := created s; mtx := mtx s; queue := queue s; next_id := next_id s; reg := reg s; clr := clr s; exitdr := v; g_enq := g_enq s; g_relfail := g_relfail s; g_relexit := g_relexit s; g_relclear := g_relclear s; g_leaked := g_leaked s; g_late := g_late s; w_req := w_req s; w_seen := w_seen s; returned := returned s; hup := hup s; erl := erl s; slots := slots s; rdy := rdy s; todo := todo s; psig := psig s; pn := pn s; wkn := wkn s; g_relclose := g_relclose s; inp := inp s; peof := peof s; rdh := rdh s; tmn := tmn s; cbk := cbk s; cbs := cbs s; lfreed := lfreed s; g_uaf := g_uaf s; thr := thr s |}.
Definition set_g_enq (s : sys) (v : list nat) : sys :=
  {| cnt := cnt s; edge := edge s; to_exit := to_exit s; tidf := tidf s; created := created s; mtx := mtx s; queue := queue s; next_id := next_id s; reg := reg s; clr := clr s; exitdr := exitdr s; g_enq := v; g_relfail := g_relfail s; g_relexit := g_relexit s; g_relclear := g_relclear s; g_leaked := g_leaked s; g_late := g_late s; w_req := w_req s; w_seen := w_seen s; returned := returned s; hup := hup s; erl := erl s; slots := slots s; rdy := rdy s; todo := todo s; psig := psig s; pn := pn s; wkn := wkn s; g_relclose := g_relclose s; inp := inp s; peof := peof s; rdh := rdh s; tmn := tmn s; cbk := cbk s; cbs := cbs s; lfreed := lfreed s; g_uaf := g_uaf s; thr := thr s |}.
Definition set_g_relfail (s : sys) (v : list nat) : sys :=
  {| cnt := cnt s; edge := edge s; to_exit := to_exit s; tidf := tidf s; created := created s; mtx := mtx s; queue := queue s; next_id := next_id s; reg := reg s; clr := clr s; exitdr := exitdr s; g_enq := g_enq s; g_relfail := v; g_relexit := g_relexit s; g_relclear := g_relclear s; g_leaked := g_leaked s; g_late := g_late s; w_req := w_req s; w_seen := w_seen s; returned := returned s; hup := hup s; erl := erl s; slots := slots s; rdy := rdy s; todo := todo s; psig := psig s; pn := pn s; wkn := wkn s; g_relclose := g_relclose s; inp := inp s; peof := peof s; rdh := rdh s; tmn := tmn s; cbk := cbk s; cbs := cbs s; lfreed := lfreed s; g_uaf := g_uaf s; thr := thr s |}.
Definition set_g_relexit (s : sys) (v : list nat) : sys :=
  {| cnt := cnt s; edge := edge s; to_exit := to_exit s; tidf := tidf s; created := created s; mtx := mtx s; queue := queue s; next_id := next_id s; reg := reg s; clr := clr s; exitdr := exitdr s; g_enq := g_enq s; g_relfail := g_relfail s; g_relexit := v; g_relclear := g_relclear s; g_leaked := g_leaked s; g_late := g_late s; w_req := w_req s; w_seen := w_seen s; returned := returned s; hup := hup s; erl := erl s; slots := slots s; rdy := rdy s; todo := todo s; psig := psig s; pn := pn s; wkn := wkn s; g_relclose := g_relclose s; inp := inp s; peof := peof s; rdh := rdh s; tmn := tmn s; cbk := cbk s; cbs := cbs s; lfreed := lfreed s; g_uaf := g_uaf s; thr := thr s |}.
Definition set_g_relclear (s : sys) (v : list nat) : sys :=
  {| cnt := cnt s; edge := edge s; to_exit := to_exit s; tidf := tidf s; created := created s; mtx := mtx s; queue := queue s; next_id := next_id s; reg := reg s; clr := clr s; exitdr := exitdr s; g_enq := g_enq s; g_relfail := g_relfail s; g_relexit := g_relexit s; g_relclear := v; g_leaked := g_leaked s; g_late := g_late s; w_req := w_req s; w_seen := w_seen s; returned := returned s; hup := hup s; erl := erl s; slots := slots s; rdy := rdy s; todo := todo s; psig := psig s; pn := pn s; wkn := wkn s; g_relclose := g_relclose s; inp := inp s; peof := peof s; rdh := rdh s; tmn := tmn s; cbk := cbk s; cbs := cbs s; lfreed := lfreed s; g_uaf := g_uaf s; thr := thr s |}.
Definition set_g_leaked (s : sys) (v : list nat) : sys :=
  {| cnt := cnt s; edge := edge s; to_exit := to_exit s; tidf := tidf s; created := created s; mtx := mtx s; queue := queue s; next_id := next_id s; reg := reg s; clr := clr s; exitdr := exitdr s; g_enq := g_enq s; g_relfail := g_relfail s; g_relexit := g_relexit s; g_relclear := g_relclear s; g_leaked := v; g_late := g_late s; w_req := w_req s; w_seen := w_seen s; returned := returned s; hup := hup s; erl := erl s; slots := slots s; rdy := rdy s; todo := todo s; psig := psig s; pn := pn s; wkn := wkn s; g_relclose := g_relclose s; inp := inp s; peof := peof s; rdh := rdh s; tmn := tmn s; cbk := cbk s; cbs := cbs s; lfreed := lfreed s; g_uaf := g_uaf s; thr := thr s |}.
Definition set_g_late (s : sys) (v : list nat) : sys :=
  {| cnt := cnt s; edge := edge s; to_exit := to_exit s; tidf := tidf s; created := created s; mtx := mtx s; queue := queue s; next_id := next_id s; reg := reg s; clr := clr s; exitdr := exitdr s; g_enq := g_enq s; g_relfail := g_relfail s; g_relexit := g_relexit s; g_relclear := g_relclear s; g_leaked := g_leaked s; g_late := v; w_req := w_req s; w_seen := w_seen s; returned := returned s; hup := hup s; erl := erl s; slots := slots s; rdy := rdy s; todo := todo s; psig := psig s; pn := pn s; wkn := wkn s; g_relclose := g_relclose s; inp := inp s; peof := peof s; rdh := rdh s; tmn := tmn s; cbk := cbk s; cbs := cbs s; lfreed := lfreed s; g_uaf := g_uaf s; thr := thr s |}.
Definition set_w_req (s : sys) (v : nat) : sys :=
  {| cnt := cnt s; edge := edge s; to_exit := to_exit s; tidf := tidf s; created := created s; mtx := mtx s; queue := queue s; next_id := next_id s; reg := reg s; clr := clr s; exitdr := exitdr s; g_enq := g_enq s; g_relfail := g_relfail s; g_relexit := g_relexit s; g_relclear := g_relclear s; g_leaked := g_leaked s; g_late := g_late s; w_req := v; w_seen := w_seen s; returned := returned s; hup := hup s; erl := erl s; slots := slots s; rdy := rdy s; todo := todo s; psig := psig s; pn := pn s; wkn := wkn s; g_relclose := g_relclose s; inp := inp s; peof := peof s; rdh := rdh s; tmn := tmn s; cbk := cbk s; cbs := cbs s; lfreed := lfreed s; g_uaf := g_uaf s; thr := thr s |}.
Definition set_w_seen (s : sys) (v : nat) : sys :=
  {| cnt := cnt s; edge := edge s; to_exit := to_exit s; tidf := tidf s; created := created s; mtx := mtx s; queue := queue s; next_id := next_id s; reg := reg s; clr := clr s; exitdr := exitdr s; g_enq := g_enq s; g_relfail := g_relfail s; g_relexit := g_relexit s; g_relclear := g_relclear s; g_leaked := g_leaked s; g_late := g_late s; w_req := w_req s; w_seen := v; returned := returned s; hup := hup s; erl := erl s; slots := slots s; rdy := rdy s; todo := todo s; psig := psig s; pn := pn s; wkn := wkn s; g_relclose := g_relclose s; inp := inp s; peof := peof s; rdh := rdh s; tmn := tmn s; cbk := cbk s; cbs := cbs s; lfreed := lfreed s; g_uaf := g_uaf s; thr := thr s |}.
Definition set_returned (s : sys) (v : bool) : sys :=
  {| cnt := cnt s; edge := edge s; to_exit := to_exit s; tidf := tidf s; created := created s; mtx := mtx s; queue := queue s; next_id := next_id s; reg := reg s; clr := clr s; exitdr := exitdr s; g_enq := g_enq s; g_relfail := g_relfail s; g_relexit := g_relexit s; g_relclear := g_relclear s; g_leaked := g_leaked s; g_late := g_late s; w_req := w_req s; w_seen := w_seen s; returned := v; hup := hup s; erl := erl s; slots := slots s; rdy := rdy s; todo := todo s; psig := psig s; pn := pn s; wkn := wkn s; g_relclose := g_relclose s; inp := inp s; peof := peof s; rdh := rdh s; tmn := tmn s; cbk := cbk s; cbs := cbs s; lfreed := lfreed s; g_uaf := g_uaf s; thr := thr s |}.
Definition set_hup (s : sys) (v : list nat) : sys :=
  {| cnt := cnt s; edge := edge s; to_exit := to_exit s; tidf := tidf s; created := created s; mtx := mtx s; queue := queue s; next_id := next_id s; reg := reg s; clr := clr s; exitdr := exitdr s; g_enq := g_enq s; g_relfail := g_relfail s; g_relexit := g_relexit s; g_relclear := g_relclear s; g_leaked := g_leaked s; g_late := g_late s; w_req := w_req s; w_seen := w_seen s; returned := returned s; hup := v; erl := erl s; slots := slots s; rdy := rdy s; todo := todo s; psig := psig s; pn := pn s; wkn := wkn s; g_relclose := g_relclose s; inp := inp s; peof := peof s; rdh := rdh s; tmn := tmn s; cbk := cbk s; cbs := cbs s; lfreed := lfreed s; g_uaf := g_uaf s; thr := thr s |}.
Definition set_erl (s : sys) (v : list nat) : sys :=
  {| cnt := cnt s; edge := edge s; to_exit := to_exit s; tidf := tidf s; created := created s; mtx := mtx s; queue := queue s; next_id := next_id s; reg := reg s; clr := clr s; exitdr := exitdr s; g_enq := g_enq s; g_relfail := g_relfail s; g_relexit := g_relexit s; g_relclear := g_relclear s; g_leaked := g_leaked s; g_late := g_late s; w_req := w_req s; w_seen := w_seen s; returned := returned s; hup := hup s; erl := v; slots := slots s; rdy := rdy s; todo := todo s; psig := psig s; pn := pn s; wkn := wkn s; g_relclose := g_relclose s; inp := inp s; peof := peof s; rdh := rdh s; tmn := tmn s; cbk := cbk s; cbs := cbs s; lfreed := lfreed s; g_uaf := g_uaf s; thr := thr s |}.
Definition set_slots (s : sys) (v : list nat) : sys :=
  {| cnt := cnt s; edge := edge s; to_exit := to_exit s; tidf := tidf s; created := created s; mtx := mtx s; queue := queue s; next_id := next_id s; reg := reg s; clr := clr s; exitdr := exitdr s; g_enq := g_enq s; g_relfail := g_relfail s; g_relexit := g_relexit s; g_relclear := g_relclear s; g_leaked := g_leaked s; g_late := g_late s; w_req := w_req s; w_seen := w_seen s; returned := returned s; hup := hup s; erl := erl s; slots := v; rdy := rdy s; todo := todo s; psig := psig s; pn := pn s; wkn := wkn s; g_relclose := g_relclose s; inp := inp s; peof := peof s; rdh := rdh s; tmn := tmn s; cbk := cbk s; cbs := cbs s; lfreed := lfreed s; g_uaf := g_uaf s; thr := thr s |}.
Definition set_rdy (s : sys) (v : list nat) : sys :=
  {| cnt := cnt s; edge := edge s; to_exit := to_exit s; tidf := tidf s; created := created s; mtx := mtx s; queue := queue s; next_id := next_id s; reg := reg s; clr := clr s; exitdr := exitdr s; g_enq := g_enq s; g_relfail := g_relfail s; g_relexit := g_relexit s; g_relclear := g_relclear s; g_leaked := g_leaked s; g_late := g_late s; w_req := w_req s; w_seen := w_seen s; returned := returned s; hup := hup s; erl := erl s; slots := slots s; rdy := v; todo := todo s; psig := psig s; pn := pn s; wkn := wkn s; g_relclose := g_relclose s; inp := inp s; peof := peof s; rdh := rdh s; tmn := tmn s; cbk := cbk s; cbs := cbs s; lfreed := lfreed s; g_uaf := g_uaf s; thr := thr s |}.
Definition set_todo (s : sys) (v : list (option nat)) : sys :=
  {| cnt := cnt s; edge := edge s; to_exit := to_exit s; tidf := tidf s; created := created s; mtx := mtx s; queue := queue s; next_id := next_id s; reg := reg s; clr := clr s; exitdr := exitdr s; g_enq := g_enq s; g_relfail := g_relfail s; g_relexit := g_relexit s; g_relclear := g_relclear s; g_leaked := g_leaked s; g_late := g_late s; w_req := w_req s; w_seen := w_seen s; returned := returned s; hup := hup s; erl := erl s; slots := slots s; rdy := rdy s; todo := v; psig := psig s; pn := pn s; wkn := wkn s; g_relclose := g_relclose s; inp := inp s; peof := peof s; rdh := rdh s; tmn := tmn s; cbk := cbk s; cbs := cbs s; lfreed := lfreed s; g_uaf := g_uaf s; thr := thr s |}.
Definition set_psig (s : sys) (v : bool) : sys :=
  {| cnt := cnt s; edge := edge s; to_exit := to_exit s; tidf := tidf s; created := created s; mtx := mtx s; queue := queue s; next_id := next_id s; reg := reg s; clr := clr s; exitdr := exitdr s; g_enq := g_enq s; g_relfail := g_relfail s; g_relexit := g_relexit s; g_relclear := g_relclear s; g_leaked := g_leaked s; g_late := g_late s; w_req := w_req s; w_seen := w_seen s; returned := returned s; hup := hup s; erl := erl s; slots := slots s; rdy := rdy s; todo := todo s; psig := v; pn := pn s; wkn := wkn s; g_relclose := g_relclose s; inp := inp s; peof := peof s; rdh := rdh s; tmn := tmn s; cbk := cbk s; cbs := cbs s; lfreed := lfreed s; g_uaf := g_uaf s; thr := thr s |}.
Definition set_pn (s : sys) (v : nat) : sys :=
  {| cnt := cnt s; edge := edge s; to_exit := to_exit s; tidf := tidf s; created := created s; mtx := mtx s; queue := queue s; next_id := next_id s; reg := reg s; clr := clr s; exitdr := exitdr s; g_enq := g_enq s; g_relfail := g_relfail s; g_relexit := g_relexit s; g_relclear := g_relclear s; g_leaked := g_leaked s; g_late := g_late s; w_req := w_req s; w_seen := w_seen s; returned := returned s; hup := hup s; erl := erl s; slots := slots s; rdy := rdy s; todo := todo s; psig := psig s; pn := v; wkn := wkn s; g_relclose := g_relclose s; inp := inp s; peof := peof s; rdh := rdh s; tmn := tmn s; cbk := cbk s; cbs := cbs s; lfreed := lfreed s; g_uaf := g_uaf s; thr := thr s |}.
Definition set_wkn (s : sys) (v : nat) : sys :=
  {| cnt := cnt s; edge := edge s; to_exit := to_exit s; tidf := tidf s; created := created s; mtx := mtx s; queue := queue s; next_id := next_id s; reg := reg s; clr := clr s; exitdr := exitdr s; g_enq := g_enq s; g_relfail := g_relfail s; g_relexit := g_relexit s; g_relclear := g_relclear s; g_leaked := g_leaked s; g_late := g_late s; w_req := w_req s; w_seen := w_seen s; returned := returned s; hup := hup s; erl := erl s; slots := slots s; rdy := rdy s; todo := todo s; psig := psig s; pn := pn s; wkn := v; g_relclose := g_relclose s; inp := inp s; peof := peof s; rdh := rdh s; tmn := tmn s; cbk := cbk s; cbs := cbs s; lfreed := lfreed s; g_uaf := g_uaf s; thr := thr s |}.
Definition set_g_relclose (s : sys) (v : list nat) : sys :=
  {| cnt := cnt s; edge := edge s; to_exit := to_exit s; tidf := tidf s; created := created s; mtx := mtx s; queue := queue s; next_id := next_id s; reg := reg s; clr := clr s; exitdr := exitdr s; g_enq := g_enq s; g_relfail := g_relfail s; g_relexit := g_relexit s; g_relclear := g_relclear s; g_leaked := g_leaked s; g_late := g_late s; w_req := w_req s; w_seen := w_seen s; returned := returned s; hup := hup s; erl := erl s; slots := slots s; rdy := rdy s; todo := todo s; psig := psig s; pn := pn s; wkn := wkn s; g_relclose := v; inp := inp s; peof := peof s; rdh := rdh s; tmn := tmn s; cbk := cbk s; cbs := cbs s; lfreed := lfreed s; g_uaf := g_uaf s; thr := thr s |}.
Definition set_inp (s : sys) (v : list nat) : sys :=
  {| cnt := cnt s; edge := edge s; to_exit := to_exit s; tidf := tidf s; created := created s; mtx := mtx s; queue := queue s; next_id := next_id s; reg := reg s; clr := clr s; exitdr := exitdr s; g_enq := g_enq s; g_relfail := g_relfail s; g_relexit := g_relexit s; g_relclear := g_relclear s; g_leaked := g_leaked s; g_late := g_late s; w_req := w_req s; w_seen := w_seen s; returned := returned s; hup := hup s; erl := erl s; slots := slots s; rdy := rdy s; todo := todo s; psig := psig s; pn := pn s; wkn := wkn s; g_relclose := g_relclose s; inp := v; peof := peof s; rdh := rdh s; tmn := tmn s; cbk := cbk s; cbs := cbs s; lfreed := lfreed s; g_uaf := g_uaf s; thr := thr s |}.
Definition set_peof (s : sys) (v : list nat) : sys :=
  {| cnt := cnt s; edge := edge s; to_exit := to_exit s; tidf := tidf s; created := created s; mtx := mtx s; queue := queue s; next_id := next_id s; reg := reg s; clr := clr s; exitdr := exitdr s; g_enq := g_enq s; g_relfail := g_relfail s; g_relexit := g_relexit s; g_relclear := g_relclear s; g_leaked := g_leaked s; g_late := g_late s; w_req := w_req s; w_seen := w_seen s; returned := returned s; hup := hup s; erl := erl s; slots := slots s; rdy := rdy s; todo := todo s; psig := psig s; pn := pn s; wkn := wkn s; g_relclose := g_relclose s; inp := inp s; peof := v; rdh := rdh s; tmn := tmn s; cbk := cbk s; cbs := cbs s; lfreed := lfreed s; g_uaf := g_uaf s; thr := thr s |}.
Definition set_rdh (s : sys) (v : list nat) : sys :=
  {| cnt := cnt s; edge := edge s; to_exit := to_exit s; tidf := tidf s; created := created s; mtx := mtx s; queue := queue s; next_id := next_id s; reg := reg s; clr := clr s; exitdr := exitdr s; g_enq := g_enq s; g_relfail := g_relfail s; g_relexit := g_relexit s; g_relclear := g_relclear s; g_leaked := g_leaked s; g_late := g_late s; w_req := w_req s; w_seen := w_seen s; returned := returned s; hup := hup s; erl := erl s; slots := slots s; rdy := rdy s; todo := todo s; psig := psig s; pn := pn s; wkn := wkn s; g_relclose := g_relclose s; inp := inp s; peof := peof s; rdh := v; tmn := tmn s; cbk := cbk s; cbs := cbs s; lfreed := lfreed s; g_uaf := g_uaf s; thr := thr s |}.
Definition set_tmn (s : sys) (v : nat) : sys :=
  {| cnt := cnt s; edge := edge s; to_exit := to_exit s; tidf := tidf s; created := created s; mtx := mtx s; queue := queue s; next_id := next_id s; reg := reg s; clr := clr s; exitdr := exitdr s; g_enq := g_enq s; g_relfail := g_relfail s; g_relexit := g_relexit s; g_relclear := g_relclear s; g_leaked := g_leaked s; g_late := g_late s; w_req := w_req s; w_seen := w_seen s; returned := returned s; hup := hup s; erl := erl s; slots := slots s; rdy := rdy s; todo := todo s; psig := psig s; pn := pn s; wkn := wkn s; g_relclose := g_relclose s; inp := inp s; peof := peof s; rdh := rdh s; tmn := v; cbk := cbk s; cbs := cbs s; lfreed := lfreed s; g_uaf := g_uaf s; thr := thr s |}.
Definition set_cbk (s : sys) (v : bool) : sys :=
  {| cnt := cnt s; edge := edge s; to_exit := to_exit s; tidf := tidf s; created := created s; mtx := mtx s; queue := queue s; next_id := next_id s; reg := reg s; clr := clr s; exitdr := exitdr s; g_enq := g_enq s; g_relfail := g_relfail s; g_relexit := g_relexit s; g_relclear := g_relclear s; g_leaked := g_leaked s; g_late := g_late s; w_req := w_req s; w_seen := w_seen s; returned := returned s; hup := hup s; erl := erl s; slots := slots s; rdy := rdy s; todo := todo s; psig := psig s; pn := pn s; wkn := wkn s; g_relclose := g_relclose s; inp := inp s; peof := peof s; rdh := rdh s; tmn := tmn s; cbk := v; cbs := cbs s; lfreed := lfreed s; g_uaf := g_uaf s; thr := thr s |}.
Definition set_cbs (s : sys) (v : list sop) : sys :=
  {| cnt := cnt s; edge := edge s; to_exit := to_exit s; tidf := tidf s; created := created s; mtx := mtx s; queue := queue s; next_id := next_id s; reg := reg s; clr := clr s; exitdr := exitdr s; g_enq := g_enq s; g_relfail := g_relfail s; g_relexit := g_relexit s; g_relclear := g_relclear s; g_leaked := g_leaked s; g_late := g_late s; w_req := w_req s; w_seen := w_seen s; returned := returned s; hup := hup s; erl := erl s; slots := slots s; rdy := rdy s; todo := todo s; psig := psig s; pn := pn s; wkn := wkn s; g_relclose := g_relclose s; inp := inp s; peof := peof s; rdh := rdh s; tmn := tmn s; cbk := cbk s; cbs := v; lfreed := lfreed s; g_uaf := g_uaf s; thr := thr s |}.
Definition set_lfreed (s : sys) (v : bool) : sys :=
  {| cnt := cnt s; edge := edge s; to_exit := to_exit s; tidf := tidf s; created := created s; mtx := mtx s; queue := queue s; next_id := next_id s; reg := reg s; clr := clr s; exitdr := exitdr s; g_enq := g_enq s; g_relfail := g_relfail s; g_relexit := g_relexit s; g_relclear := g_relclear s; g_leaked := g_leaked s; g_late := g_late s; w_req := w_req s; w_seen := w_seen s; returned := returned s; hup := hup s; erl := erl s; slots := slots s; rdy := rdy s; todo := todo s; psig := psig s; pn := pn s; wkn := wkn s; g_relclose := g_relclose s; inp := inp s; peof := peof s; rdh := rdh s; tmn := tmn s; cbk := cbk s; cbs := cbs s; lfreed := v; g_uaf := g_uaf s; thr := thr s |}.
Definition set_g_uaf (s : sys) (v : nat) : sys :=
  {| cnt := cnt s; edge := edge s; to_exit := to_exit s; tidf := tidf s; created := created s; mtx := mtx s; queue := queue s; next_id := next_id s; reg := reg s; clr := clr s; exitdr := exitdr s; g_enq := g_enq s; g_relfail := g_relfail s; g_relexit := g_relexit s; g_relclear := g_relclear s; g_leaked := g_leaked s; g_late := g_late s; w_req := w_req s; w_seen := w_seen s; returned := returned s; hup := hup s; erl := erl s; slots := slots s; rdy := rdy s; todo := todo s; psig := psig s; pn := pn s; wkn := wkn s; g_relclose := g_relclose s; inp := inp s; peof := peof s; rdh := rdh s; tmn := tmn s; cbk := cbk s; cbs := cbs s; lfreed := lfreed s; g_uaf := v; thr := thr s |}.
Definition set_thr (s : sys) (v : nat -> pc) : sys :=
  {| cnt := cnt s; edge := edge s; to_exit := to_exit s; tidf := tidf s; created := created s; mtx := mtx s; queue := queue s; next_id := next_id s; reg := reg s; clr := clr s; exitdr := exitdr s; g_enq := g_enq s; g_relfail := g_relfail s; g_relexit := g_relexit s; g_relclear := g_relclear s; g_leaked := g_leaked s; g_late := g_late s; w_req := w_req s; w_seen := w_seen s; returned := returned s; hup := hup s; erl := erl s; slots := slots s; rdy := rdy s; todo := todo s; psig := psig s; pn := pn s; wkn := wkn s; g_relclose := g_relclose s; inp := inp s; peof := peof s; rdh := rdh s; tmn := tmn s; cbk := cbk s; cbs := cbs s; lfreed := lfreed s; g_uaf := g_uaf s; thr := v |}.

Definition set_pc (s : sys) (t : nat) (p : pc) : sys := set_thr s (upd (thr s) t p).

Definition init : sys :=
  {| cnt := 0; edge := false; to_exit := 0; tidf := 0; created := false; mtx := None; queue := [];
     next_id := 0; reg := []; clr := []; exitdr := false; g_enq := []; g_relfail := [];
     g_relexit := []; g_relclear := []; g_leaked := []; g_late := []; w_req := 0; w_seen := 0;
     returned := false; hup := []; erl := []; slots := []; rdy := []; todo := []; psig := false;
     pn := 0; wkn := 0; g_relclose := []; inp := []; peof := []; rdh := []; tmn := 0; cbk := false;
     cbs := []; lfreed := false; g_uaf := 0; thr := fun _ => SStart |}.

(* exit status values of event_loop.h *)
Definition ST_EXIT : nat := 1.
Definition ST_WAKE : nat := 2.

(* cells of the trace *)
Definition cell_hmtx : nat := 0.
Definition cell_efd : nat := 1.
Definition cell_sig : nat := 2.
Definition cell_op : nat := 3.
Definition cell_ref (id : nat) : nat := 10 + id.

(* notes (R lines) *)
Definition n_created : nat := 1.
Definition n_opw : nat := 2.
Definition n_oph : nat := 3.
Definition n_opx : nat := 4.
Definition n_done : nat := 5.
Definition n_addok : nat := 6.     (* cb_add_ctx, context registered *)
Definition n_addfail : nat := 7.   (* cb_add_ctx although registration failed (code as first found) *)
Definition n_release : nat := 8.
Definition n_free : nat := 9.
Definition n_wake : nat := 10.
Definition n_returned : nat := 11.
Definition n_clear : nat := 12.     (* bare loop: cb_clear of a registered context *)
Definition n_exitcb : nat := 13.    (* bare loop: cb_exit *)
Definition n_ops : nat := 14.       (* operation s: the context shut down, -1 = none *)
Definition n_opd : nat := 15.       (* operation d: the context whose peer sends data, -1 = none *)
Definition n_msg : nat := 16.       (* cb_msg *)
Definition n_close : nat := 17.     (* cb_close *)
Definition n_opc : nat := 18.       (* operation c: the context whose peer closes, -1 = none *)
Definition n_timer : nat := 19.     (* cb_timer *)

Definition zn (n : nat) : Z := Z.of_nat n.
Definition ev_yield := LEv (Ev OPlain cell_op MoNone 0 0 0).
Definition ev_write := LEv (Ev OFadd cell_efd MoNone 1 1 0).
Definition ev_read (v : nat) := LEv (Ev OXchg cell_efd MoNone (zn v) (if Nat.ltb 0 v then 1 else 0) 0).
(* one select / poll / epoll_wait attempt: signal reported?, number of descriptors reported *)
Definition ev_poll (sg : bool) (n : nat) := LEv (Ev OLoad cell_sig MoNone (if sg then 1 else 0) (zn n) 0).
Definition ev_mlock := LEv (Ev OMlock cell_hmtx MoNone 0 0 0).
Definition ev_munlock := LEv (Ev OMunlock cell_hmtx MoNone 0 0 0).
Definition ev_rel (id : nat) := LEv (Ev OCasS (cell_ref id) Rlx 1 0 1).

Definition memb (x : nat) (l : list nat) : bool := existsb (Nat.eqb x) l.
Definition add_uniq (id : nat) (l : list nat) : list nat := if memb id l then l else l ++ [id].
Definition is_nil {A} (l : list A) : bool := match l with [] => true | _ => false end.

(* is the signal reported by the next select / poll / epoll_wait ? *)
Definition ready (C : config) (s : sys) : bool :=
  match c_be C with
  | BEpoll => edge s && Nat.ltb 0 (cnt s)
  | _ => Nat.ltb 0 (cnt s)
  end.

(* the registered contexts reported by the next select / poll / epoll_wait (epoll: those on the
   ready list that are still readable; every epoll_wait call empties the list) *)
Definition lvl_ready (s : sys) (id : nat) : bool := memb id (hup s) || memb id (inp s) || memb id (peof s).
Definition crdy (C : config) (s : sys) : list nat :=
  match c_be C with
  | BEpoll => filter (lvl_ready s) (erl s)
  | _ => filter (lvl_ready s) (reg s)
  end.

(* the first context in ctx_list that is not flagged CLOSED and has not been freed by the clear
   pass (shutdown) / and whose peer has not closed (data from, close by the peer) *)
Definition shut_target (s : sys) : option nat :=
  find (fun id => negb (memb id (hup s)) && negb (memb id (g_relclear s))) (reg s).
Definition peer_target (s : sys) : option nat :=
  find (fun id => negb (memb id (hup s)) && negb (memb id (peof s)) && negb (memb id (g_relclear s))) (reg s).

(* removal of a context from ctx_list / from the poll back-end's arrays (the hole is filled with
   the last entry) *)
Definition drop (id : nat) (l : list nat) : list nat := filter (fun x => negb (Nat.eqb x id)) l.
Definition swap_remove (id : nat) (l : list nat) : list nat :=
  match rev l with
  | [] => []
  | last :: ri =>
    if Nat.eqb last id then rev ri
    else map (fun x => if Nat.eqb x id then last else x) (rev ri)
  end.
Definition close_ctx (s : sys) (id : nat) : sys :=
  set_g_relclose (set_peof (set_inp (set_slots (set_erl (set_hup (set_reg s (drop id (reg s))) (drop id (hup s)))
    (drop id (erl s))) (swap_remove id (slots s))) (drop id (inp s))) (drop id (peof s))) (g_relclose s ++ [id]).

(* the signal at position [ch] among the context events of one epoll_wait batch *)
Definition ins_sig (ch : nat) (l : list (option nat)) : list (option nat) := firstn ch l ++ None :: skipn ch l.

(* a library call on the loop object: counted when the loop has been deleted *)
Definition touch (s : sys) : sys := set_g_uaf s (if lfreed s then S (g_uaf s) else g_uaf s).

(* muggle_evloop_add_ctx fails: poll back-end with nfd = capacity (capacity = hints_max_fd + 1,
   slot 0 is the signal).  Other failure causes (fcntl, epoll_ctl, node allocation) do not
   occur in the scenarios and are not modelled. *)
Definition add_fails (C : config) (rg : list nat) : bool :=
  match c_be C with
  | BPoll => Nat.leb (c_cap C) (length rg)
  | _ => false
  end.

(* on_wake's while loop up to the next scheduling point: contexts that register are announced
   and dequeued; one that does not register is, in the repaired code, released (its ref-count
   CAS is the next operation; it stays at the head of the queue until released) and, in the code
   as first found, announced and dequeued all the same (leaked). *)
Fixpoint drain (C : config) (q rg lk : list nat) (notes : list (nat * Z))
  : list nat * list nat * list nat * list (nat * Z) * option nat :=
  match q with
  | [] => (q, rg, lk, notes, None)
  | id :: q' =>
    if add_fails C rg then
      if c_fix_add C then (q, rg, lk, notes, Some id)
      else drain C q' rg (lk ++ [id]) (notes ++ (if c_cb_add C then [(n_addfail, zn id)] else []))
    else drain C q' (rg ++ [id]) lk (notes ++ (if c_cb_add C then [(n_addok, zn id)] else []))
  end.

Definition rel_notes (C : config) (id : nat) : list (nat * Z) :=
  (if c_cb_release C then [(n_release, zn id)] else []) ++ [(n_free, zn id)].
Definition wake_notes (C : config) : list (nat * Z) := if c_cb_wake C then [(n_wake, 0%Z)] else [].
(* bare loop, after the break: muggle_evloop_run walks ctx_list calling cb_clear (when installed),
   then cb_exit (when installed), then returns *)
Definition bare_exit_notes (C : config) : list (nat * Z) :=
  (if c_cb_clear C then map (fun i => (n_clear, zn i)) (seq 0 (c_nctx C)) else []) ++
  (if c_cb_exit C then [(n_exitcb, 0%Z)] else []) ++ [(n_returned, 0%Z)].

(* on_wake's loop over the queue, from the current position to the next scheduling point; the
   contexts that register are appended to ctx_list and to the poll back-end's arrays *)
Definition seg_drain (C : config) (s1 : sys) (t : nat) (n0 : list (nat * Z)) : option (sys * label) :=
  match drain C (queue s1) (reg s1) (g_leaked s1) n0 with
  | (q, rg, lk, notes, Some id) =>
    Some (set_pc (set_slots (set_g_leaked (set_reg (set_queue s1 q) rg) lk)
                            (slots s1 ++ skipn (length (reg s1)) rg)) t (ARel PhDrain id), LPlain notes)
  | (q, rg, lk, notes, None) =>
    Some (set_pc (set_slots (set_g_leaked (set_reg (set_queue s1 q) rg) lk)
                            (slots s1 ++ skipn (length (reg s1)) rg)) t AWUnlock, LPlain notes)
  end.
(* muggle_evloop_run's walk over ctx_list calling cb_clear; then cb_exit *)
Definition seg_clear (s1 : sys) (t : nat) (n0 : list (nat * Z)) : option (sys * label) :=
  match clr s1 with
  | id :: r => Some (set_pc (set_clr s1 r) t (ARel PhClear id), LPlain n0)
  | [] => Some (set_pc s1 t AXLock, LPlain n0)
  end.
(* on_exit's loop over the queue *)
Definition seg_exit (s1 : sys) (t : nat) (n0 : list (nat * Z)) : option (sys * label) :=
  match queue s1 with
  | id :: _ => Some (set_pc s1 t (ARel PhExit id), LPlain n0)
  | [] => Some (set_pc s1 t AXUnlock, LPlain n0)
  end.

(* the poll back-end leaves its for loop as soon as n <= 0 *)
Definition poll_done (C : config) (n : nat) : bool :=
  match c_be C with BPoll => Nat.eqb n 0 | _ => false end.

(* the back-end's pass over what the poll call reported, up to the next scheduling point, as a
   function of the flags ([hp]), of the peers that have closed ([pe]), of what was reported ([rd],
   [rh] = hung up, [sg]), of the poll back-end's counter and of what is still to visit.
   A context: if its descriptor was reported, cb_read = on_read (the user's cb_msg when installed,
   the handle's own read loop otherwise: the input is consumed; at end of file the read sets the
   flag CLOSED) and, poll back-end, n decremented for POLLIN and again for POLLHUP; then if its
   flags have CLOSED: cb_close = on_close (the user's cb_close when installed, then the release:
   the ref-count CAS is the next operation).  The signal: handle_wakeup when it was reported.
   Result: the counter, what remains to visit, where the segment ends, the notes, the contexts
   whose input has been consumed. *)
Inductive pres := PRead | PClose (id : nat) | PEnd.
Fixpoint pass (C : config) (hp pe rd rh : list nat) (sg : bool) (n : nat) (td : list (option nat))
  (notes : list (nat * Z)) (dr : list nat) : nat * list (option nat) * pres * list (nat * Z) * list nat :=
  match td with
  | [] => (n, [], PEnd, notes, dr)
  | None :: r => if sg then (n, r, PRead, notes, dr) else pass C hp pe rd rh sg n r notes dr
  | Some id :: r =>
    let inr := memb id rd in
    let n1 := notes ++ (if inr && c_cb_read C then [(n_msg, zn id)] else []) in
    let m := (if inr then n - 1 else n) - (if memb id rh then 1 else 0) in
    let dr1 := if inr then dr ++ [id] else dr in
    if memb id hp || (inr && memb id pe) then
      (m, r, PClose id, n1 ++ (if c_cb_close C then [(n_close, zn id)] else []), dr1)
    else if poll_done C m then (m, [], PEnd, n1, dr1)
    else pass C hp pe rd rh sg m r n1 dr1
  end.

(* the back-end's exit test: if (to_exit == EXIT) break; after the break muggle_evloop_run walks
   ctx_list calling cb_clear = on_clear, which releases every context that is still in the list
   whatever its flags (a bare loop: the installed clear and exit callbacks, then the return, all in
   this segment) *)
Definition exit_test (C : config) (s : sys) (t : nat) (ns : list (nat * Z)) : option (sys * label) :=
  if Nat.eqb (to_exit s) ST_EXIT then
    if c_bare C then
      Some (set_pc (set_lfreed (set_returned (set_exitdr s true) true) (c_del C)) t AFin, LPlain (ns ++ bare_exit_notes C))
    else
      match reg s with
      | id :: r => Some (set_pc (set_clr s r) t (ARel PhClear id), LPlain ns)
      | [] => Some (set_pc s t AXLock, LPlain ns)
      end
  else Some (set_pc s t APoll, LPlain ns).

(* the end of an iteration of the back-end's loop: with a timer interval of 0 the timer callback
   (the user's, when installed; its script when it has one: the first "plain op" of the script
   ends the segment), then the exit test *)
Definition fin_pass (C : config) (s : sys) (t : nat) (ns : list (nat * Z)) : option (sys * label) :=
  if c_tmo C && c_cb_timer C then
    let s1 := set_cbs (set_cbk (set_tmn s (S (tmn s))) true) (if c_bare C then [] else nth (tmn s) (c_cbt C) []) in
    if is_nil (cbs s1) then exit_test C s1 t (ns ++ [(n_timer, 0%Z)])
    else Some (set_pc s1 t (Cb (QY 0)), LPlain (ns ++ [(n_timer, 0%Z)]))
  else exit_test C s t ns.

Definition seg_pass (C : config) (s : sys) (t : nat) (n0 : list (nat * Z)) : option (sys * label) :=
  match pass C (hup s) (peof s) (rdy s) (rdh s) (psig s) (pn s) (todo s) n0 [] with
  | (n, td, PRead, ns, dr) =>
    Some (set_pc (set_psig (set_inp (set_todo (set_pn s n) td) (filter (fun x => negb (memb x dr)) (inp s))) false) t ARead,
          LPlain ns)
  | (n, td, PClose id, ns, dr) =>
    Some (set_pc (set_hup (set_inp (set_todo (set_pn s n) td) (filter (fun x => negb (memb x dr)) (inp s)))
                          (add_uniq id (hup s))) t (ARel PhClose id), LPlain ns)
  | (n, td, PEnd, ns, dr) =>
    fin_pass C (set_inp (set_todo (set_pn s n) td) (filter (fun x => negb (memb x dr)) (inp s))) t ns
  end.

(* the end of the user's wake callback: back in handle_wakeup: if (to_exit == WAKE) to_exit = EXIT;
   then the rest of the back-end's pass (select: the walk over ctx_list, which tests the flags of
   every context; epoll: the remaining events of the batch; poll: the signal was the last slot) *)
Definition wake_end (C : config) (s : sys) (t : nat) (ns : list (nat * Z)) : option (sys * label) :=
  let s1 := set_to_exit s (if Nat.eqb (to_exit s) ST_WAKE then ST_EXIT else to_exit s) in
  let s2 := set_todo s1 (match c_be C with BSelect => map Some (reg s) | _ => todo s end) in
  seg_pass C s2 t ns.

(* the end of a callback script *)
Definition cb_end (C : config) (s : sys) (t : nat) (ns : list (nat * Z)) : option (sys * label) :=
  if cbk s then exit_test C s t ns else wake_end C s t ns.
Definition cb_next (C : config) (s : sys) (t k : nat) (ns : list (nat * Z)) : option (sys * label) :=
  if Nat.ltb (S k) (length (cbs s)) then Some (set_pc s t (Cb (QY (S k))), LPlain ns) else cb_end C s t ns.

(* what one select / poll / epoll_wait call that reported something leaves for the pass *)
Definition pass_plan (C : config) (s : sys) (sg : bool) (cr : list nat) (ch : nat) : list (option nat) :=
  match c_be C with
  | BSelect => if sg then [None] else map Some (reg s)
  | BPoll => map Some (rev (slots s)) ++ [None]
  | BEpoll => if sg then ins_sig ch (map Some cr) else map Some cr
  end.

(* the first plain segment of a script operation, executed by thread t (a thread script or a
   callback script): the state, what the operation does next, the notes *)
Inductive onext := NWrite | NHLock (id : nat) | NDone.
Definition op_begin (C : config) (s : sys) (t k : nat) (op : sop) : sys * onext * list (nat * Z) :=
  match op with
  | OpW => (touch s, NWrite, [(n_opw, zn k)])
  | OpH =>
    (* without a handle there is no hand-over queue: the drivers execute the operation as a
       plain wake-up *)
    if c_bare C then (touch s, NWrite, [(n_opw, zn k)])
    else (set_next_id (touch s) (S (next_id s)), NHLock (next_id s), [(n_oph, zn (next_id s))])
  | OpX =>
    (* muggle_evloop_exit: compare evloop->tid with the caller *)
    if Nat.eqb (tidf s) t then
      if c_fix_exit C then (set_to_exit (touch s) ST_EXIT, NWrite, [(n_opx, zn k)])
      else (set_to_exit (touch s) ST_EXIT, NDone, [(n_opx, zn k)])
    else (set_to_exit (touch s) ST_WAKE, NWrite, [(n_opx, zn k)])
  | OpS =>
    (* without a handle there are no socket contexts: executed as a plain wake-up *)
    if c_bare C then (touch s, NWrite, [(n_opw, zn k)]) else
    match shut_target s with
    | Some id => (set_erl (set_hup s (hup s ++ [id])) (add_uniq id (erl s)), NDone, [(n_ops, zn id)])
    | None => (s, NDone, [(n_ops, (-1)%Z)])
    end
  | OpD =>
    if c_bare C then (touch s, NWrite, [(n_opw, zn k)]) else
    match peer_target s with
    | Some id => (set_erl (set_inp s (add_uniq id (inp s))) (add_uniq id (erl s)), NDone, [(n_opd, zn id)])
    | None => (s, NDone, [(n_opd, (-1)%Z)])
    end
  | OpC =>
    if c_bare C then (touch s, NWrite, [(n_opw, zn k)]) else
    match peer_target s with
    | Some id => (set_erl (set_peof s (peof s ++ [id])) (add_uniq id (erl s)), NDone, [(n_opc, zn id)])
    | None => (s, NDone, [(n_opc, (-1)%Z)])
    end
  end.

(* muggle_ev_signal_wakeup's write *)
Definition sig_write (s : sys) : sys :=
  set_w_req (set_edge (set_cnt (touch s) (S (cnt s))) true) (S (w_req s)).
(* muggle_socket_evloop_add_ctx's enqueue *)
Definition enqueue (s : sys) (id : nat) : sys :=
  set_g_late (set_g_enq (set_queue (touch s) (queue s ++ [id])) (g_enq s ++ [id]))
             (if exitdr s then g_late s ++ [id] else g_late s).

Definition step (C : config) (s : sys) (t ch : nat) : option (sys * label) :=
  if negb (Nat.ltb t (c_n C)) then None else
  if negb (Nat.eqb t 0 || created s) then None else
  let go p := set_pc s t p in
  match thr s t with
  | SStart =>
    if Nat.eqb t 0 then Some (set_pc (set_created s true) t (AYield 0), LPlain [(n_created, 0%Z)])
    else Some (go (AYield 0), LPlain [])
  | AYield k => Some (go (SOp k), ev_yield)
  | SOp k =>
    match nth_error (c_scr C t) k with
    | Some op =>
      match op_begin C s t k op with
      | (s1, NWrite, ns) => Some (set_pc s1 t (AWrite k), LPlain ns)
      | (s1, NHLock id, ns) => Some (set_pc s1 t (AHLock k id), LPlain ns)
      | (s1, NDone, ns) => Some (set_pc s1 t (AYield (S k)), LPlain (ns ++ [(n_done, zn k)]))
      end
    | None =>
      if Nat.eqb t (c_loop C) then
        (* muggle_evloop_run: evloop->tid = self; epoll: EPOLL_CTL_ADD of the signal *)
        Some (set_pc (set_edge (set_tidf s t) (Nat.ltb 0 (cnt s))) t APoll, LPlain [])
      else Some (go AFin, LPlain [])
    end
  | AWrite k => Some (set_pc (sig_write s) t (STail k), ev_write)
  | STail k => Some (go (AYield (S k)), LPlain [(n_done, zn k)])
  | AHLock k id =>
    match mtx s with
    | None => Some (set_pc (set_mtx (touch s) (Some t)) t (SHEnq k id), ev_mlock)
    | Some _ => None
    end
  | SHEnq k id => Some (set_pc (enqueue s id) t (AHUnlock k), LPlain [])
  | AHUnlock k => Some (set_pc (set_mtx (touch s) None) t (SHW k), ev_munlock)
  | SHW k => Some (set_pc (touch s) t (AWrite k), LPlain [])
  | APoll =>
    let sg := ready C s in
    let cr := crdy C s in
    if sg || negb (is_nil cr) then
      let s1 := set_todo (set_pn (set_psig (set_rdh (set_rdy (set_erl (set_edge s (if sg then false else edge s)) []) cr)
                                                     (filter (fun id => memb id (hup s) || memb id (peof s)) cr)) sg)
                                 (length cr + (if sg then 1 else 0))) (pass_plan C s sg cr ch) in
      Some (set_pc s1 t SPollRet, ev_poll sg (length cr + (if sg then 1 else 0)))
    else Some (set_pc (set_erl s []) t SRepoll, ev_poll false 0)
  | SRepoll => if c_tmo C then fin_pass C s t [] else Some (go APoll, LPlain [])
  | SPollRet => seg_pass C s t []
  | ARead => Some (set_pc (set_cnt s 0) t SWake, ev_read (cnt s))
  | SWake =>
    if c_bare C then
      (* bare loop: cb_wake (when installed); if (to_exit == WAKE) to_exit = EXIT; timer; exit
         test; after the break the clear callbacks, the exit callback and the return - no
         scheduling point in between *)
      fin_pass C (set_to_exit (set_w_seen s (w_req s)) (if Nat.eqb (to_exit s) ST_WAKE then ST_EXIT else to_exit s))
               t (wake_notes C)
    else Some (set_pc (set_w_seen s (w_req s)) t AWLock, LPlain [])
  | AWLock =>
    match mtx s with
    | None => Some (set_pc (set_mtx s (Some t)) t (SRel PhDrain None), ev_mlock)
    | Some _ => None
    end
  | SRel PhDrain None => seg_drain C s t []
  | SRel PhDrain (Some id) =>
    (* id (head of the queue) has just been released because it could not be registered *)
    seg_drain C (set_g_relfail (set_queue s (tl (queue s))) (g_relfail s ++ [id])) t (rel_notes C id)
  | ARel ph id => Some (go (SRel ph (Some id)), ev_rel id)
  | AWUnlock => Some (set_pc (set_mtx s None) t SWakeEnd, ev_munlock)
  | SWakeEnd =>
    (* the user's wake callback (its script: the first "plain op" ends the segment), then the
       rest of handle_wakeup and of the pass *)
    if c_cb_wake C then
      let s1 := set_cbs (set_cbk (set_wkn s (S (wkn s))) false) (nth (wkn s) (c_cbw C) []) in
      if is_nil (cbs s1) then wake_end C s1 t (wake_notes C)
      else Some (set_pc s1 t (Cb (QY 0)), LPlain (wake_notes C))
    else wake_end C s t []
  | Cb (QY k) => Some (go (Cb (QO k)), ev_yield)
  | Cb (QO k) =>
    match nth_error (cbs s) k with
    | Some op =>
      match op_begin C s t k op with
      | (s1, NWrite, ns) => Some (set_pc s1 t (Cb (QW k)), LPlain ns)
      | (s1, NHLock id, ns) => Some (set_pc s1 t (Cb (QHL k id)), LPlain ns)
      | (s1, NDone, ns) => cb_next C s1 t k (ns ++ [(n_done, zn k)])
      end
    | None => cb_end C s t []
    end
  | Cb (QW k) => Some (set_pc (sig_write s) t (Cb (QT k)), ev_write)
  | Cb (QT k) => cb_next C s t k [(n_done, zn k)]
  | Cb (QHL k id) =>
    match mtx s with
    | None => Some (set_pc (set_mtx (touch s) (Some t)) t (Cb (QHE k id)), ev_mlock)
    | Some _ => None
    end
  | Cb (QHE k id) => Some (set_pc (enqueue s id) t (Cb (QHU k)), LPlain [])
  | Cb (QHU k) => Some (set_pc (set_mtx (touch s) None) t (Cb (QHW k)), ev_munlock)
  | Cb (QHW k) => Some (set_pc (touch s) t (Cb (QW k)), LPlain [])
  | SRel PhClose None => fin_pass C (set_todo s []) t []
  | SRel PhClose (Some id) =>
    (* on_close has released id: cb_release, close, free; the back-end removes it from ctx_list *)
    if poll_done C (pn s) then fin_pass C (set_todo (close_ctx s id) []) t (rel_notes C id)
    else seg_pass C (close_ctx s id) t (rel_notes C id)
  | SRel PhClear None => seg_clear s t []
  | SRel PhClear (Some id) => seg_clear (set_g_relclear s (g_relclear s ++ [id])) t (rel_notes C id)
  | AXLock =>
    match mtx s with
    | None => Some (set_pc (set_exitdr (set_mtx s (Some t)) true) t (SRel PhExit None), ev_mlock)
    | Some _ => None
    end
  | SRel PhExit None => seg_exit s t []
  | SRel PhExit (Some id) =>
    seg_exit (set_g_relexit (set_queue s (tl (queue s))) (g_relexit s ++ [id])) t (rel_notes C id)
  | AXUnlock => Some (set_pc (set_mtx s None) t SRet, ev_munlock)
  | SRet => Some (set_pc (set_lfreed (set_returned s true) (c_del C)) t AFin, LPlain [(n_returned, 0%Z)])
  | AFin => Some (go Done, LExit)
  | Done => None
  end.

(* summary printed by the drivers *)
Definition freed_count (s : sys) : nat :=
  length (g_relfail s) + length (g_relclear s) + length (g_relexit s) + length (g_relclose s).
