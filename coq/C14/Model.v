(* C14 — cross-thread wake-up, hand-over and exit of the event loop.
   Executable model of muggle_evloop_run / the back-ends' handle_wakeup / muggle_evloop_exit /
   muggle_evloop_wakeup (event_loop.c, event_loop_{select,poll,epoll}.c, event_signal.c) and of
   muggle_socket_evloop_add_ctx / _on_wake / _on_clear / _on_exit (socket_evloop_handle.c), at
   the granularity of harness/vsched + vs_io.c: every poll/select/epoll_wait attempt, every
   eventfd read/write, every mutex operation, every ref-count CAS and every harness "plain op"
   is one step (label LEv); every plain segment between two of them is one step (LPlain).

   Threads: T0 creates the loop (evloop->tid = T0 until run() overwrites it); thread
   [c_loop] runs it; every thread first executes its script (wake-up / hand-over / exit).

   Kernel, modelled (checked against the real kernel by trace acceptance, not verified):
   eventfd counter [cnt]: write adds 1, read returns it and resets it to 0; readable iff > 0.
   select/poll are level-triggered.  epoll registers the signal with EPOLLIN|EPOLLET: the
   descriptor is reported iff it is on the ready list ([edge]: set by EPOLL_CTL_ADD when
   readable and by every write; cleared when reported) and still readable.

   Plain shared ints ([to_exit], [tid]) are modelled sequentially consistent; in the C code they
   are ordinary fields accessed from several threads without synchronisation (flagged in the
   evidence: formally a data race; the serialised run cannot exhibit tearing or reordering).

   [c_fix_exit] / [c_fix_add] select the code as first found (false) or with
   fixes/C14-exit-before-run.patch / fixes/C14-add-ctx-failure.patch applied (true). *)
From MV Require Export Lib.Conc.

Inductive backend := BSelect | BPoll | BEpoll.
Inductive sop := OpW | OpH | OpX.

Record config := {
  c_be : backend;
  c_n : nat;                 (* number of threads *)
  c_loop : nat;              (* the thread that calls muggle_evloop_run *)
  c_cap : nat;               (* hints_max_fd: context slots of the poll back-end *)
  c_scr : nat -> list sop;   (* script of every thread *)
  c_fix_exit : bool;
  c_fix_add : bool;
  (* loop configuration: which optional callbacks are installed.  [c_bare] = a bare
     muggle_event_loop_t (no socket_evloop_handle attached): the flags are the loop's own
     cb_wake / cb_read / cb_close / cb_clear / cb_exit / cb_timer and [c_nctx] contexts are
     registered by the creating thread before anything else runs.  Otherwise the handle is
     attached (all loop-level callbacks are the handle's internal functions) and the flags are the
     handle's user callbacks cb_wake / cb_add_ctx / cb_release / cb_msg (read) / cb_close /
     cb_timer.  Peers are silent and no timeout is set, so read / close / timer callbacks are
     never invoked whatever their flag; the WAKE -> EXIT promotion, the exit test and every
     release must not depend on any flag. *)
  c_bare : bool;
  c_nctx : nat;
  c_cb_wake : bool;
  c_cb_add : bool;
  c_cb_release : bool;
  c_cb_read : bool;
  c_cb_close : bool;
  c_cb_clear : bool;
  c_cb_exit : bool;
  c_cb_timer : bool;
}.

(* the configuration of the first rounds of checking: handle attached, every callback installed *)
Definition mk_cfg (be : backend) (n lp cap : nat) (scr : nat -> list sop) (fx fa : bool) : config :=
  {| c_be := be; c_n := n; c_loop := lp; c_cap := cap; c_scr := scr; c_fix_exit := fx; c_fix_add := fa;
     c_bare := false; c_nctx := 0; c_cb_wake := true; c_cb_add := true; c_cb_release := true;
     c_cb_read := true; c_cb_close := true; c_cb_clear := true; c_cb_exit := true; c_cb_timer := true |}.
(* a bare loop with the given wake / clear / exit callbacks (read, close, timer not installed) *)
Definition mk_bare (be : backend) (n lp cap : nat) (scr : nat -> list sop) (nctx : nat) (w cl ex : bool) : config :=
  {| c_be := be; c_n := n; c_loop := lp; c_cap := cap; c_scr := scr; c_fix_exit := true; c_fix_add := true;
     c_bare := true; c_nctx := nctx; c_cb_wake := w; c_cb_add := false; c_cb_release := false;
     c_cb_read := false; c_cb_close := false; c_cb_clear := cl; c_cb_exit := ex; c_cb_timer := false |}.

Inductive phase := PhDrain | PhClear | PhExit.

(* program points: A* = at an operation (label LEv), S* = in the plain segment before the next
   operation (label LPlain) *)
Inductive pc :=
  | SStart                       (* T0: muggle_evloop_new + handle attach + start of the other threads *)
  | AYield (k : nat)             (* harness "plain op" before script operation k (k = length: after the last) *)
  | SOp (k : nat)                (* first plain segment of operation k, or of run() / thread end *)
  | AWrite (k : nat)             (* muggle_ev_signal_wakeup: write(evfd) *)
  | STail (k : nat)
  | AHLock (k id : nat)          (* muggle_socket_evloop_add_ctx: lock *)
  | SHEnq (k id : nat)           (*   enqueue *)
  | AHUnlock (k : nat)           (*   unlock *)
  | SHW (k : nat)                (*   then muggle_evloop_wakeup *)
  | APoll                        (* select / poll / epoll_wait (one attempt) *)
  | SRepoll                      (* nothing ready: waiting for I/O *)
  | SPollRet                     (* returned with the signal ready: handle_wakeup *)
  | ARead                        (* muggle_ev_signal_clearup: read(evfd) *)
  | SWake                        (* cb_wake = muggle_socket_evloop_on_wake starts *)
  | AWLock                       (* on_wake: lock *)
  | SRel (ph : phase) (pend : option nat)  (* drain of the queue / clear of ctx_list / on_exit drain *)
  | ARel (ph : phase) (id : nat) (* muggle_socket_evloop_release_ctx: ref-count CAS 1 -> 0 *)
  | AWUnlock                     (* on_wake: unlock *)
  | SWakeEnd                     (* handle cb_wake; WAKE -> EXIT; exit test *)
  | AXLock                       (* on_exit: lock *)
  | AXUnlock
  | SRet                         (* muggle_evloop_run returns *)
  | AFin
  | Done.

Record sys := {
  cnt : nat;
  edge : bool;
  to_exit : nat;
  tidf : nat;
  created : bool;
  mtx : option nat;
  queue : list nat;
  next_id : nat;
  reg : list nat;
  clr : list nat;
  exitdr : bool;
  g_enq : list nat;
  g_relfail : list nat;
  g_relexit : list nat;
  g_relclear : list nat;
  g_leaked : list nat;
  g_late : list nat;
  w_req : nat;
  w_seen : nat;
  returned : bool;
  thr : nat -> pc;
}.

Definition set_cnt (s : sys) (v : nat) : sys :=
  {| cnt := v; edge := edge s; to_exit := to_exit s; tidf := tidf s; created := created s; mtx := mtx s; queue := queue s; next_id := next_id s; reg := reg s; clr := clr s; exitdr := exitdr s; g_enq := g_enq s; g_relfail := g_relfail s; g_relexit := g_relexit s; g_relclear := g_relclear s; g_leaked := g_leaked s; g_late := g_late s; w_req := w_req s; w_seen := w_seen s; returned := returned s; thr := thr s |}.
Definition set_edge (s : sys) (v : bool) : sys :=
  {| cnt := cnt s; edge := v; to_exit := to_exit s; tidf := tidf s; created := created s; mtx := mtx s; queue := queue s; next_id := next_id s; reg := reg s; clr := clr s; exitdr := exitdr s; g_enq := g_enq s; g_relfail := g_relfail s; g_relexit := g_relexit s; g_relclear := g_relclear s; g_leaked := g_leaked s; g_late := g_late s; w_req := w_req s; w_seen := w_seen s; returned := returned s; thr := thr s |}.
Definition set_to_exit (s : sys) (v : nat) : sys :=
  {| cnt := cnt s; edge := edge s; to_exit := v; tidf := tidf s; created := created s; mtx := mtx s; queue := queue s; next_id := next_id s; reg := reg s; clr := clr s; exitdr := exitdr s; g_enq := g_enq s; g_relfail := g_relfail s; g_relexit := g_relexit s; g_relclear := g_relclear s; g_leaked := g_leaked s; g_late := g_late s; w_req := w_req s; w_seen := w_seen s; returned := returned s; thr := thr s |}.
Definition set_tidf (s : sys) (v : nat) : sys :=
  {| cnt := cnt s; edge := edge s; to_exit := to_exit s; tidf := v; created := created s; mtx := mtx s; queue := queue s; next_id := next_id s; reg := reg s; clr := clr s; exitdr := exitdr s; g_enq := g_enq s; g_relfail := g_relfail s; g_relexit := g_relexit s; g_relclear := g_relclear s; g_leaked := g_leaked s; g_late := g_late s; w_req := w_req s; w_seen := w_seen s; returned := returned s; thr := thr s |}.
Definition set_created (s : sys) (v : bool) : sys :=
  {| cnt := cnt s; edge := edge s; to_exit := to_exit s; tidf := tidf s; created := v; mtx := mtx s; queue := queue s; next_id := next_id s; reg := reg s; clr := clr s; exitdr := exitdr s; g_enq := g_enq s; g_relfail := g_relfail s; g_relexit := g_relexit s; g_relclear := g_relclear s; g_leaked := g_leaked s; g_late := g_late s; w_req := w_req s; w_seen := w_seen s; returned := returned s; thr := thr s |}.
Definition set_mtx (s : sys) (v : option nat) : sys :=
  {| cnt := cnt s; edge := edge s; to_exit := to_exit s; tidf := tidf s; created := created s; mtx := v; queue := queue s; next_id := next_id s; reg := reg s; clr := clr s; exitdr := exitdr s; g_enq := g_enq s; g_relfail := g_relfail s; g_relexit := g_relexit s; g_relclear := g_relclear s; g_leaked := g_leaked s; g_late := g_late s; w_req := w_req s; w_seen := w_seen s; returned := returned s; thr := thr s |}.
Definition set_queue (s : sys) (v : list nat) : sys :=
  {| cnt := cnt s; edge := edge s; to_exit := to_exit s; tidf := tidf s; created := created s; mtx := mtx s; queue := v; next_id := next_id s; reg := reg s; clr := clr s; exitdr := exitdr s; g_enq := g_enq s; g_relfail := g_relfail s; g_relexit := g_relexit s; g_relclear := g_relclear s; g_leaked := g_leaked s; g_late := g_late s; w_req := w_req s; w_seen := w_seen s; returned := returned s; thr := thr s |}.
Definition set_next_id (s : sys) (v : nat) : sys :=
  {| cnt := cnt s; edge := edge s; to_exit := to_exit s; tidf := tidf s; created := created s; mtx := mtx s; queue := queue s; next_id := v; reg := reg s; clr := clr s; exitdr := exitdr s; g_enq := g_enq s; g_relfail := g_relfail s; g_relexit := g_relexit s; g_relclear := g_relclear s; g_leaked := g_leaked s; g_late := g_late s; w_req := w_req s; w_seen := w_seen s; returned := returned s; thr := thr s |}.
Definition set_reg (s : sys) (v : list nat) : sys :=
  {| cnt := cnt s; edge := edge s; to_exit := to_exit s; tidf := tidf s; created := created s; mtx := mtx s; queue := queue s; next_id := next_id s; reg := v; clr := clr s; exitdr := exitdr s; g_enq := g_enq s; g_relfail := g_relfail s; g_relexit := g_relexit s; g_relclear := g_relclear s; g_leaked := g_leaked s; g_late := g_late s; w_req := w_req s; w_seen := w_seen s; returned := returned s; thr := thr s |}.
Definition set_clr (s : sys) (v : list nat) : sys :=
  {| cnt := cnt s; edge := edge s; to_exit := to_exit s; tidf := tidf s; created := created s; mtx := mtx s; queue := queue s; next_id := next_id s; reg := reg s; clr := v; exitdr := exitdr s; g_enq := g_enq s; g_relfail := g_relfail s; g_relexit := g_relexit s; g_relclear := g_relclear s; g_leaked := g_leaked s; g_late := g_late s; w_req := w_req s; w_seen := w_seen s; returned := returned s; thr := thr s |}.
Definition set_exitdr (s : sys) (v : bool) : sys :=
  {| cnt := cnt s; edge := edge s; to_exit := to_exit s; tidf := tidf s; created := created s; mtx := mtx s; queue := queue s; next_id := next_id s; reg := reg s; clr := clr s; exitdr := v; g_enq := g_enq s; g_relfail := g_relfail s; g_relexit := g_relexit s; g_relclear := g_relclear s; g_leaked := g_leaked s; g_late := g_late s; w_req := w_req s; w_seen := w_seen s; returned := returned s; thr := thr s |}.
Definition set_g_enq (s : sys) (v : list nat) : sys :=
  {| cnt := cnt s; edge := edge s; to_exit := to_exit s; tidf := tidf s; created := created s; mtx := mtx s; queue := queue s; next_id := next_id s; reg := reg s; clr := clr s; exitdr := exitdr s; g_enq := v; g_relfail := g_relfail s; g_relexit := g_relexit s; g_relclear := g_relclear s; g_leaked := g_leaked s; g_late := g_late s; w_req := w_req s; w_seen := w_seen s; returned := returned s; thr := thr s |}.
Definition set_g_relfail (s : sys) (v : list nat) : sys :=
  {| cnt := cnt s; edge := edge s; to_exit := to_exit s; tidf := tidf s; created := created s; mtx := mtx s; queue := queue s; next_id := next_id s; reg := reg s; clr := clr s; exitdr := exitdr s; g_enq := g_enq s; g_relfail := v; g_relexit := g_relexit s; g_relclear := g_relclear s; g_leaked := g_leaked s; g_late := g_late s; w_req := w_req s; w_seen := w_seen s; returned := returned s; thr := thr s |}.
Definition set_g_relexit (s : sys) (v : list nat) : sys :=
  {| cnt := cnt s; edge := edge s; to_exit := to_exit s; tidf := tidf s; created := created s; mtx := mtx s; queue := queue s; next_id := next_id s; reg := reg s; clr := clr s; exitdr := exitdr s; g_enq := g_enq s; g_relfail := g_relfail s; g_relexit := v; g_relclear := g_relclear s; g_leaked := g_leaked s; g_late := g_late s; w_req := w_req s; w_seen := w_seen s; returned := returned s; thr := thr s |}.
Definition set_g_relclear (s : sys) (v : list nat) : sys :=
  {| cnt := cnt s; edge := edge s; to_exit := to_exit s; tidf := tidf s; created := created s; mtx := mtx s; queue := queue s; next_id := next_id s; reg := reg s; clr := clr s; exitdr := exitdr s; g_enq := g_enq s; g_relfail := g_relfail s; g_relexit := g_relexit s; g_relclear := v; g_leaked := g_leaked s; g_late := g_late s; w_req := w_req s; w_seen := w_seen s; returned := returned s; thr := thr s |}.
Definition set_g_leaked (s : sys) (v : list nat) : sys :=
  {| cnt := cnt s; edge := edge s; to_exit := to_exit s; tidf := tidf s; created := created s; mtx := mtx s; queue := queue s; next_id := next_id s; reg := reg s; clr := clr s; exitdr := exitdr s; g_enq := g_enq s; g_relfail := g_relfail s; g_relexit := g_relexit s; g_relclear := g_relclear s; g_leaked := v; g_late := g_late s; w_req := w_req s; w_seen := w_seen s; returned := returned s; thr := thr s |}.
Definition set_g_late (s : sys) (v : list nat) : sys :=
  {| cnt := cnt s; edge := edge s; to_exit := to_exit s; tidf := tidf s; created := created s; mtx := mtx s; queue := queue s; next_id := next_id s; reg := reg s; clr := clr s; exitdr := exitdr s; g_enq := g_enq s; g_relfail := g_relfail s; g_relexit := g_relexit s; g_relclear := g_relclear s; g_leaked := g_leaked s; g_late := v; w_req := w_req s; w_seen := w_seen s; returned := returned s; thr := thr s |}.
Definition set_w_req (s : sys) (v : nat) : sys :=
  {| cnt := cnt s; edge := edge s; to_exit := to_exit s; tidf := tidf s; created := created s; mtx := mtx s; queue := queue s; next_id := next_id s; reg := reg s; clr := clr s; exitdr := exitdr s; g_enq := g_enq s; g_relfail := g_relfail s; g_relexit := g_relexit s; g_relclear := g_relclear s; g_leaked := g_leaked s; g_late := g_late s; w_req := v; w_seen := w_seen s; returned := returned s; thr := thr s |}.
Definition set_w_seen (s : sys) (v : nat) : sys :=
  {| cnt := cnt s; edge := edge s; to_exit := to_exit s; tidf := tidf s; created := created s; mtx := mtx s; queue := queue s; next_id := next_id s; reg := reg s; clr := clr s; exitdr := exitdr s; g_enq := g_enq s; g_relfail := g_relfail s; g_relexit := g_relexit s; g_relclear := g_relclear s; g_leaked := g_leaked s; g_late := g_late s; w_req := w_req s; w_seen := v; returned := returned s; thr := thr s |}.
Definition set_returned (s : sys) (v : bool) : sys :=
  {| cnt := cnt s; edge := edge s; to_exit := to_exit s; tidf := tidf s; created := created s; mtx := mtx s; queue := queue s; next_id := next_id s; reg := reg s; clr := clr s; exitdr := exitdr s; g_enq := g_enq s; g_relfail := g_relfail s; g_relexit := g_relexit s; g_relclear := g_relclear s; g_leaked := g_leaked s; g_late := g_late s; w_req := w_req s; w_seen := w_seen s; returned := v; thr := thr s |}.
Definition set_thr (s : sys) (v : nat -> pc) : sys :=
  {| cnt := cnt s; edge := edge s; to_exit := to_exit s; tidf := tidf s; created := created s; mtx := mtx s; queue := queue s; next_id := next_id s; reg := reg s; clr := clr s; exitdr := exitdr s; g_enq := g_enq s; g_relfail := g_relfail s; g_relexit := g_relexit s; g_relclear := g_relclear s; g_leaked := g_leaked s; g_late := g_late s; w_req := w_req s; w_seen := w_seen s; returned := returned s; thr := v |}.

Definition set_pc (s : sys) (t : nat) (p : pc) : sys := set_thr s (upd (thr s) t p).

Definition init : sys :=
  {| cnt := 0; edge := false; to_exit := 0; tidf := 0; created := false; mtx := None; queue := [];
     next_id := 0; reg := []; clr := []; exitdr := false; g_enq := []; g_relfail := [];
     g_relexit := []; g_relclear := []; g_leaked := []; g_late := []; w_req := 0; w_seen := 0;
     returned := false; thr := fun _ => SStart |}.

(* exit status values of event_loop.h *)
Definition ST_EXIT : nat := 1.
Definition ST_WAKE : nat := 2.

(* cells of the trace *)
Definition cell_hmtx : nat := 0.
Definition cell_efd : nat := 1.
Definition cell_sig : nat := 2.
Definition cell_op : nat := 3.
Definition cell_ref (id : nat) : nat := 10 + id.

(* notes (R lines) *)
Definition n_created : nat := 1.
Definition n_opw : nat := 2.
Definition n_oph : nat := 3.
Definition n_opx : nat := 4.
Definition n_done : nat := 5.
Definition n_addok : nat := 6.     (* cb_add_ctx, context registered *)
Definition n_addfail : nat := 7.   (* cb_add_ctx although registration failed (code as first found) *)
Definition n_release : nat := 8.
Definition n_free : nat := 9.
Definition n_wake : nat := 10.
Definition n_returned : nat := 11.
Definition n_clear : nat := 12.     (* bare loop: cb_clear of a registered context *)
Definition n_exitcb : nat := 13.    (* bare loop: cb_exit *)

Definition zn (n : nat) : Z := Z.of_nat n.
Definition ev_yield := LEv (Ev OPlain cell_op MoNone 0 0 0).
Definition ev_write := LEv (Ev OFadd cell_efd MoNone 1 1 0).
Definition ev_read (v : nat) := LEv (Ev OXchg cell_efd MoNone (zn v) (if Nat.ltb 0 v then 1 else 0) 0).
Definition ev_poll (r : bool) := LEv (Ev OLoad cell_sig MoNone (if r then 1 else 0) (if r then 1 else 0) 0).
Definition ev_mlock := LEv (Ev OMlock cell_hmtx MoNone 0 0 0).
Definition ev_munlock := LEv (Ev OMunlock cell_hmtx MoNone 0 0 0).
Definition ev_rel (id : nat) := LEv (Ev OCasS (cell_ref id) Rlx 1 0 1).

(* is the signal reported by the next select / poll / epoll_wait ? *)
Definition ready (C : config) (s : sys) : bool :=
  match c_be C with
  | BEpoll => edge s && Nat.ltb 0 (cnt s)
  | _ => Nat.ltb 0 (cnt s)
  end.

(* muggle_evloop_add_ctx fails: poll back-end with nfd = capacity (capacity = hints_max_fd + 1,
   slot 0 is the signal).  Other failure causes (fcntl, epoll_ctl, node allocation) do not
   occur in the scenarios and are not modelled. *)
Definition add_fails (C : config) (rg : list nat) : bool :=
  match c_be C with
  | BPoll => Nat.leb (c_cap C) (length rg)
  | _ => false
  end.

(* on_wake's while loop up to the next scheduling point: contexts that register are announced
   and dequeued; one that does not register is, in the repaired code, released (its ref-count
   CAS is the next operation; it stays at the head of the queue until released) and, in the code
   as first found, announced and dequeued all the same (leaked). *)
Fixpoint drain (C : config) (q rg lk : list nat) (notes : list (nat * Z))
  : list nat * list nat * list nat * list (nat * Z) * option nat :=
  match q with
  | [] => (q, rg, lk, notes, None)
  | id :: q' =>
    if add_fails C rg then
      if c_fix_add C then (q, rg, lk, notes, Some id)
      else drain C q' rg (lk ++ [id]) (notes ++ (if c_cb_add C then [(n_addfail, zn id)] else []))
    else drain C q' (rg ++ [id]) lk (notes ++ (if c_cb_add C then [(n_addok, zn id)] else []))
  end.

Definition rel_notes (C : config) (id : nat) : list (nat * Z) :=
  (if c_cb_release C then [(n_release, zn id)] else []) ++ [(n_free, zn id)].
Definition wake_notes (C : config) : list (nat * Z) := if c_cb_wake C then [(n_wake, 0%Z)] else [].
(* bare loop, after the break: muggle_evloop_run walks ctx_list calling cb_clear (when installed),
   then cb_exit (when installed), then returns *)
Definition bare_exit_notes (C : config) : list (nat * Z) :=
  (if c_cb_clear C then map (fun i => (n_clear, zn i)) (seq 0 (c_nctx C)) else []) ++
  (if c_cb_exit C then [(n_exitcb, 0%Z)] else []) ++ [(n_returned, 0%Z)].

(* on_wake's loop over the queue, from the current position to the next scheduling point *)
Definition seg_drain (C : config) (s1 : sys) (t : nat) (n0 : list (nat * Z)) : option (sys * label) :=
  match drain C (queue s1) (reg s1) (g_leaked s1) n0 with
  | (q, rg, lk, notes, Some id) =>
    Some (set_pc (set_g_leaked (set_reg (set_queue s1 q) rg) lk) t (ARel PhDrain id), LPlain notes)
  | (q, rg, lk, notes, None) =>
    Some (set_pc (set_g_leaked (set_reg (set_queue s1 q) rg) lk) t AWUnlock, LPlain notes)
  end.
(* muggle_evloop_run's walk over ctx_list calling cb_clear; then cb_exit *)
Definition seg_clear (s1 : sys) (t : nat) (n0 : list (nat * Z)) : option (sys * label) :=
  match clr s1 with
  | id :: r => Some (set_pc (set_clr s1 r) t (ARel PhClear id), LPlain n0)
  | [] => Some (set_pc s1 t AXLock, LPlain n0)
  end.
(* on_exit's loop over the queue *)
Definition seg_exit (s1 : sys) (t : nat) (n0 : list (nat * Z)) : option (sys * label) :=
  match queue s1 with
  | id :: _ => Some (set_pc s1 t (ARel PhExit id), LPlain n0)
  | [] => Some (set_pc s1 t AXUnlock, LPlain n0)
  end.

Definition step (C : config) (s : sys) (t ch : nat) : option (sys * label) :=
  if negb (Nat.ltb t (c_n C)) then None else
  if negb (Nat.eqb t 0 || created s) then None else
  let go p := set_pc s t p in
  match thr s t with
  | SStart =>
    if Nat.eqb t 0 then Some (set_pc (set_created s true) t (AYield 0), LPlain [(n_created, 0%Z)])
    else Some (go (AYield 0), LPlain [])
  | AYield k => Some (go (SOp k), ev_yield)
  | SOp k =>
    match nth_error (c_scr C t) k with
    | Some OpW => Some (go (AWrite k), LPlain [(n_opw, zn k)])
    | Some OpH =>
      (* without a handle there is no hand-over queue: the drivers execute the operation as a
         plain wake-up *)
      if c_bare C then Some (go (AWrite k), LPlain [(n_opw, zn k)]) else
      let id := next_id s in
      Some (set_pc (set_next_id s (S id)) t (AHLock k id), LPlain [(n_oph, zn id)])
    | Some OpX =>
      (* muggle_evloop_exit: compare evloop->tid with the caller *)
      if Nat.eqb (tidf s) t then
        if c_fix_exit C then Some (set_pc (set_to_exit s ST_EXIT) t (AWrite k), LPlain [(n_opx, zn k)])
        else Some (set_pc (set_to_exit s ST_EXIT) t (AYield (S k)), LPlain [(n_opx, zn k); (n_done, zn k)])
      else Some (set_pc (set_to_exit s ST_WAKE) t (AWrite k), LPlain [(n_opx, zn k)])
    | None =>
      if Nat.eqb t (c_loop C) then
        (* muggle_evloop_run: evloop->tid = self; epoll: EPOLL_CTL_ADD of the signal *)
        Some (set_pc (set_edge (set_tidf s t) (Nat.ltb 0 (cnt s))) t APoll, LPlain [])
      else Some (go AFin, LPlain [])
    end
  | AWrite k =>
    Some (set_pc (set_w_req (set_edge (set_cnt s (S (cnt s))) true) (S (w_req s))) t (STail k), ev_write)
  | STail k => Some (go (AYield (S k)), LPlain [(n_done, zn k)])
  | AHLock k id =>
    match mtx s with
    | None => Some (set_pc (set_mtx s (Some t)) t (SHEnq k id), ev_mlock)
    | Some _ => None
    end
  | SHEnq k id =>
    let s1 := set_g_enq (set_queue s (queue s ++ [id])) (g_enq s ++ [id]) in
    let s2 := set_g_late s1 (if exitdr s then g_late s ++ [id] else g_late s) in
    Some (set_pc s2 t (AHUnlock k), LPlain [])
  | AHUnlock k => Some (set_pc (set_mtx s None) t (SHW k), ev_munlock)
  | SHW k => Some (go (AWrite k), LPlain [])
  | APoll =>
    if ready C s then Some (set_pc (set_edge s false) t SPollRet, ev_poll true)
    else Some (go SRepoll, ev_poll false)
  | SRepoll => Some (go APoll, LPlain [])
  | SPollRet => Some (go ARead, LPlain [])
  | ARead => Some (set_pc (set_cnt s 0) t SWake, ev_read (cnt s))
  | SWake =>
    if c_bare C then
      (* bare loop: cb_wake (when installed); if (to_exit == WAKE) to_exit = EXIT; exit test;
         after the break the clear callbacks, the exit callback and the return - no scheduling
         point in between *)
      let te := if Nat.eqb (to_exit s) ST_WAKE then ST_EXIT else to_exit s in
      let s1 := set_to_exit (set_w_seen s (w_req s)) te in
      if Nat.eqb te ST_EXIT then
        Some (set_pc (set_returned (set_exitdr s1 true) true) t AFin, LPlain (wake_notes C ++ bare_exit_notes C))
      else Some (set_pc s1 t APoll, LPlain (wake_notes C))
    else Some (set_pc (set_w_seen s (w_req s)) t AWLock, LPlain [])
  | AWLock =>
    match mtx s with
    | None => Some (set_pc (set_mtx s (Some t)) t (SRel PhDrain None), ev_mlock)
    | Some _ => None
    end
  | SRel PhDrain None => seg_drain C s t []
  | SRel PhDrain (Some id) =>
    (* id (head of the queue) has just been released because it could not be registered *)
    seg_drain C (set_g_relfail (set_queue s (tl (queue s))) (g_relfail s ++ [id])) t (rel_notes C id)
  | ARel ph id => Some (go (SRel ph (Some id)), ev_rel id)
  | AWUnlock => Some (set_pc (set_mtx s None) t SWakeEnd, ev_munlock)
  | SWakeEnd =>
    (* handle->cb_wake; if (to_exit == WAKE) to_exit = EXIT; ... if (to_exit == EXIT) break;
       after the break muggle_evloop_run walks ctx_list calling cb_clear *)
    let te := if Nat.eqb (to_exit s) ST_WAKE then ST_EXIT else to_exit s in
    let s1 := set_to_exit s te in
    if Nat.eqb te ST_EXIT then
      match reg s with
      | id :: r => Some (set_pc (set_clr s1 r) t (ARel PhClear id), LPlain (wake_notes C))
      | [] => Some (set_pc s1 t AXLock, LPlain (wake_notes C))
      end
    else Some (set_pc s1 t APoll, LPlain (wake_notes C))
  | SRel PhClear None => seg_clear s t []
  | SRel PhClear (Some id) => seg_clear (set_g_relclear s (g_relclear s ++ [id])) t (rel_notes C id)
  | AXLock =>
    match mtx s with
    | None => Some (set_pc (set_exitdr (set_mtx s (Some t)) true) t (SRel PhExit None), ev_mlock)
    | Some _ => None
    end
  | SRel PhExit None => seg_exit s t []
  | SRel PhExit (Some id) =>
    seg_exit (set_g_relexit (set_queue s (tl (queue s))) (g_relexit s ++ [id])) t (rel_notes C id)
  | AXUnlock => Some (set_pc (set_mtx s None) t SRet, ev_munlock)
  | SRet => Some (set_pc (set_returned s true) t AFin, LPlain [(n_returned, 0%Z)])
  | AFin => Some (go Done, LExit)
  | Done => None
  end.

(* summary printed by the drivers *)
Definition freed_count (s : sys) : nat := length (g_relfail s) + length (g_relclear s) + length (g_relexit s).
