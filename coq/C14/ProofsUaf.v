(* C14 — the hazard counted by the ghost field g_uaf: a requester is still inside
   muggle_evloop_exit (flag written, signal not yet written: AWrite) when the owner deletes the
   loop after run() returned (c_del); its write of the signal is a library call on freed memory. *)
From MV Require Import C14.Model C14.ProofsBase.
From Coq Require Import List.
Import ListNotations.

Definition cfg_delete_race : config :=
  mk_cfg_cb BEpoll 3 1 8 (fun t => match t with 0 => [OpX] | 2 => [OpX] | _ => [] end) [] [] false true.
(* T0 creates; T1 enters run() and polls; T0 starts muggle_evloop_exit and stops before the write;
   T2 asks for the exit too (complete); T1 wakes up, leaves, run() returns, the loop is deleted *)
Definition sched_delete_race : list (nat * nat) :=
  [(0,0)] ++ repeat (1,0) 3 ++ repeat (0,0) 2 ++ repeat (2,0) 6 ++ repeat (1,0) 30.

Example loop_deleted_while_exit_in_flight :
  let C := cfg_delete_race in
  let s := exec sys (step C) init sched_delete_race in
  let s' := exec sys (step C) init (sched_delete_race ++ [(0,0)]) in
  c_fix_exit C = true /\ c_fix_add C = true /\ c_del C = true /\
  thr s 0 = AWrite 0 /\ thr s 1 = Done /\ returned s = true /\ lfreed s = true /\ g_uaf s = 0 /\
  thr s' 0 = STail 0 /\ g_uaf s' = 1.
Proof. vm_compute. repeat split; reflexivity. Qed.

(* g_uaf changes only by one, and only at a step taken while the loop is already deleted *)
Lemma uaf_step C s t ch s' l : step C s t ch = Some (s', l) ->
  g_uaf s' = g_uaf s \/ (lfreed s = true /\ g_uaf s' = S (g_uaf s)).
Proof.
  intros Hs. step_inv Hs; tail_frames;
    try (match goal with F : tframe _ _ _ |- _ => rewrite (tf_g_uaf _ _ _ F) end);
    nrmg; destruct (lfreed s); auto.
Qed.
