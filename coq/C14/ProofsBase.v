(* C14 — basic facts about the model: step inversion, only the loop thread is at a loop
   program point, the handle's mutex excludes. *)
From MV Require Import C14.Model.

Definition is_loop_pc (p : pc) : bool :=
  match p with
  | APoll | SRepoll | SPollRet | ARead | SWake | AWLock | SRel _ _ | ARel _ _ | AWUnlock
  | SWakeEnd | AXLock | AXUnlock | SRet => true
  | _ => false
  end.

(* program points at which the handle's mutex is held *)
Definition holds (p : pc) : bool :=
  match p with
  | SHEnq _ _ | AHUnlock _ | SRel PhDrain _ | ARel PhDrain _ | AWUnlock
  | SRel PhExit _ | ARel PhExit _ | AXUnlock => true
  | _ => false
  end.

Lemma thr_set_pc_same s t p : thr (set_pc s t p) t = p.
Proof. unfold set_pc; simpl. apply upd_same. Qed.
Lemma thr_set_pc_other s t u p : u <> t -> thr (set_pc s t p) u = thr s u.
Proof. intros H. unfold set_pc; simpl. now apply upd_other. Qed.

(* case analysis of one step: one goal per branch of [step], with the equations of every
   test along the way *)
Ltac step_split H :=
  repeat match type of H with
  | (if negb ?a then _ else _) = Some _ => destruct a eqn:?; simpl negb in H; cbv iota in H; [|discriminate H]
  | (if ?a then _ else _) = Some _ => destruct a eqn:?
  | (match ?a with _ => _ end) = Some _ => destruct a eqn:?
  | (let '(_, _) := ?a in _) = Some _ => destruct a eqn:?
  | (match ?a with (_, _) => _ end) = Some _ => destruct a eqn:?
  | None = Some _ => discriminate H
  end.
Ltac step_inv H := unfold step, seg_drain, seg_clear, seg_exit in H; step_split H; try discriminate H; inversion H; subst; clear H.

Record BInv (C : config) (s : sys) : Prop := {
  b_loop : forall t, is_loop_pc (thr s t) = true -> t = c_loop C;
  b_hold : forall t, holds (thr s t) = true -> mtx s = Some t;
  b_free : forall u, mtx s = Some u -> holds (thr s u) = true;
  b_valid : forall t, thr s t <> SStart -> Nat.ltb t (c_n C) = true /\ created s = true;
}.

Lemma init_binv C : BInv C init.
Proof. constructor; simpl; intros; try discriminate; congruence. Qed.

Ltac upd_cases :=
  repeat match goal with
  | H : context [upd _ ?t _ ?a] |- _ => unfold upd in H; destruct (Nat.eqb_spec a t); subst
  | |- context [upd _ ?t _ ?a] => unfold upd; destruct (Nat.eqb_spec a t); subst
  end.

Ltac use_eqb :=
  repeat match goal with
  | H : Nat.eqb _ _ = true |- _ => apply Nat.eqb_eq in H; subst
  | H : Nat.eqb _ _ = false |- _ => apply Nat.eqb_neq in H
  end.

Lemma step_binv C s t ch s' l : BInv C s -> step C s t ch = Some (s', l) -> BInv C s'.
Proof.
  intros [Hl Hh Hf Hv] Hs.
  step_inv Hs.
  all: repeat match goal with ph : phase |- _ => destruct ph end.
  all: match goal with E : thr _ ?t0 = _ |- _ =>
         pose proof (Hl t0) as Hlt; pose proof (Hh t0) as Hht; pose proof (Hv t0) as Hvt;
         rewrite E in Hlt, Hht, Hvt; simpl in Hlt, Hht, Hvt end.
  all: constructor; unfold set_pc; simpl.
  (* b_loop *)
  all: try (intros u Hu; upd_cases; simpl in Hu;
            first [ discriminate Hu | apply Hl; assumption | apply Hlt; reflexivity
                  | apply Nat.eqb_eq; assumption ]).
  (* b_hold *)
  all: try (intros u Hu; upd_cases; simpl in Hu;
            first [ discriminate Hu | reflexivity | apply Hh; assumption | apply Hht; reflexivity
                  | (* another thread holds: then the mutex is not free / not ours *)
                    exfalso; pose proof (Hh u Hu) as K; specialize (Hht eq_refl); congruence
                  | exfalso; pose proof (Hh u Hu) as K; congruence ]).
  (* b_free *)
  all: try (intros u Hu; simpl in Hu; upd_cases; simpl;
            first [ discriminate Hu | reflexivity | apply Hf; assumption
                  | injection Hu as Hu; subst; contradiction
                  | (* the stepping thread is said to hold the mutex although its point does not *)
                    exfalso; pose proof (Hf _ Hu) as K; match goal with E : thr _ _ = _ |- _ => rewrite E in K end;
                    simpl in K; discriminate K
                  | injection Hu as Hu; subst; apply Hf;
                    first [ assumption | apply Hht; reflexivity ] ]).
  (* b_valid *)
  all: try (intros u Hu; upd_cases;
            first [ apply Hv; assumption | destruct (Hv u Hu); split; auto
                  | split; [assumption | first [ reflexivity | apply Hvt; discriminate
                      | match goal with H1 : (?a || ?b) = true, H2 : ?a = false |- ?b = true =>
                          rewrite H2 in H1; exact H1 end ] ] ]).
  all: intros u Hu; upd_cases; [split; [assumption|exact Heqb0] | apply Hv; assumption].
Qed.

Theorem binv_all C sched : BInv C (exec sys (step C) init sched).
Proof. apply inv_exec; [|apply init_binv]. intros; eapply step_binv; eauto. Qed.

