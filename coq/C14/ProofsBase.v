(* C14 — basic facts about the model: step inversion, the frame of the loop thread's "tail"
   segments (exit test, timer, rest of a pass, end of a callback), only the loop thread is at a
   loop program point, the handle's mutex excludes, facts about the back-end's pass. *)
From MV Require Export C14.Model C14.ProofsFacts.

Definition is_loop_pc (p : pc) : bool :=
  match p with
  | APoll | SRepoll | SPollRet | ARead | SWake | AWLock | SRel _ _ | ARel _ _ | AWUnlock
  | SWakeEnd | Cb _ | AXLock | AXUnlock | SRet => true
  | _ => false
  end.

(* program points at which the handle's mutex is held *)
Definition holds (p : pc) : bool :=
  match p with
  | SHEnq _ _ | AHUnlock _ | SRel PhDrain _ | ARel PhDrain _ | AWUnlock
  | SRel PhExit _ | ARel PhExit _ | AXUnlock | Cb (QHE _ _) | Cb (QHU _) => true
  | _ => false
  end.


Lemma thr_set_pc_same s t p : thr (set_pc s t p) t = p.
Proof. nrmg. apply upd_same. Qed.
Lemma thr_set_pc_other s t u p : u <> t -> thr (set_pc s t p) u = thr s u.
Proof. intros H. nrmg. now apply upd_other. Qed.

(* case analysis of one step: one goal per branch of [step]; the tail segments (cb_next, cb_end,
   wake_end, seg_pass, fin_pass, exit_test) stay folded: they are handled by their own lemmas *)
Ltac step_split H :=
  repeat match type of H with
  | (if negb ?a then _ else _) = Some _ => destruct a eqn:?; simpl negb in H; cbv iota in H; [|discriminate H]
  | (if ?a then _ else _) = Some _ => destruct a eqn:?
  | (match ?a with _ => _ end) = Some _ => destruct a eqn:?
  | (let '(_, _) := ?a in _) = Some _ => destruct a eqn:?
  | (match ?a with (_, _) => _ end) = Some _ => destruct a eqn:?
  | None = Some _ => discriminate H
  end.
(* equations [op_begin ... = (s1, next, notes)] left by the split: one goal per operation *)
Ltac split_pairs :=
  repeat match goal with
  | H : (match ?a with _ => _ end) = (_, _) |- _ => destruct a eqn:?
  | H : (if ?a then _ else _) = (_, _) |- _ => destruct a eqn:?
  | H : (_, _, _) = (_, _, _) |- _ =>
    inversion H; clear H; repeat match goal with E : _ = ?y |- _ => is_var y; subst y end
  end.
Ltac step_fin H :=
  match type of H with
  | Some _ = Some _ => inversion H; subst; clear H
  | _ => idtac
  end.
Ltac step_inv H :=
  unfold step, seg_drain, seg_clear, seg_exit, op_begin in H; step_split H; try discriminate H; step_fin H; split_pairs.

Ltac upd_cases :=
  repeat match goal with
  | H : context [upd _ ?t _ ?a] |- _ => unfold upd in H; destruct (Nat.eqb_spec a t); subst
  | |- context [upd _ ?t _ ?a] => unfold upd; destruct (Nat.eqb_spec a t); subst
  end.

Ltac use_eqb :=
  repeat match goal with
  | H : Nat.eqb _ _ = true |- _ => apply Nat.eqb_eq in H; subst
  | H : Nat.eqb _ _ = false |- _ => apply Nat.eqb_neq in H
  end.

(* ------------------------------------------------------------------ *)
(* the tail segments of the loop thread: what they leave unchanged, where they end *)
Record tframe (s s' : sys) (t : nat) : Prop := {
  tf_cnt : cnt s' = cnt s;
  tf_edge : edge s' = edge s;
  tf_tidf : tidf s' = tidf s;
  tf_created : created s' = created s;
  tf_mtx : mtx s' = mtx s;
  tf_queue : queue s' = queue s;
  tf_next_id : next_id s' = next_id s;
  tf_reg : reg s' = reg s;
  tf_g_enq : g_enq s' = g_enq s;
  tf_g_relfail : g_relfail s' = g_relfail s;
  tf_g_relexit : g_relexit s' = g_relexit s;
  tf_g_relclear : g_relclear s' = g_relclear s;
  tf_g_leaked : g_leaked s' = g_leaked s;
  tf_g_late : g_late s' = g_late s;
  tf_w_req : w_req s' = w_req s;
  tf_w_seen : w_seen s' = w_seen s;
  tf_erl : erl s' = erl s;
  tf_slots : slots s' = slots s;
  tf_rdy : rdy s' = rdy s;
  tf_rdh : rdh s' = rdh s;
  tf_wkn : wkn s' = wkn s;
  tf_g_relclose : g_relclose s' = g_relclose s;
  tf_peof : peof s' = peof s;
  tf_g_uaf : g_uaf s' = g_uaf s;
  tf_thr : forall u, u <> t -> thr s' u = thr s u;
}.

Lemma tframe_refl s t : tframe s s t.
Proof. constructor; reflexivity. Qed.
Lemma tframe_trans s1 s2 s3 t : tframe s1 s2 t -> tframe s2 s3 t -> tframe s1 s3 t.
Proof.
  intros [] []. constructor; try congruence. intros u Hu. rewrite tf_thr1 by exact Hu. apply tf_thr0. exact Hu.
Qed.

Ltac tframe_tac := constructor; try reflexivity; intros; nrmg; unfold upd;
  match goal with |- (if Nat.eqb ?u ?t then _ else _) = _ => destruct (Nat.eqb_spec u t); [contradiction|reflexivity] end.

(* where a tail segment ends *)
Definition tail_pc (p : pc) : Prop :=
  p = ARead \/ (exists id, p = ARel PhClose id) \/ p = APoll \/ (exists id, p = ARel PhClear id) \/ p = AXLock \/
  p = AFin \/ p = Cb (QY 0).
Definition tail_pc_cb (p : pc) : Prop := tail_pc p \/ exists k, p = Cb (QY (S k)).

Lemma exit_test_frame C s t ns s' l : exit_test C s t ns = Some (s', l) ->
  tframe s s' t /\ to_exit s' = to_exit s /\ hup s' = hup s /\ inp s' = inp s /\ tail_pc (thr s' t).
Proof.
  unfold exit_test, tail_pc. intros H.
  destruct (to_exit s =? ST_EXIT); [destruct (c_bare C); [|destruct (reg s) as [|id r]]|];
    inversion H; subst; clear H; (split; [tframe_tac|]); nrmg; rewrite upd_same; repeat split; eauto 10.
Qed.

Lemma fin_pass_frame C s t ns s' l : fin_pass C s t ns = Some (s', l) ->
  tframe s s' t /\ to_exit s' = to_exit s /\ hup s' = hup s /\ inp s' = inp s /\ tail_pc (thr s' t).
Proof.
  unfold fin_pass. intros H.
  destruct (c_tmo C && c_cb_timer C); [|eapply exit_test_frame; eauto].
  match type of H with (if is_nil (cbs ?x) then _ else _) = _ => set (s1 := x) in * end.
  assert (F1 : tframe s s1 t) by (unfold s1; tframe_tac).
  assert (E1 : to_exit s1 = to_exit s /\ hup s1 = hup s /\ inp s1 = inp s) by (unfold s1; nrmg; auto).
  destruct E1 as (E1 & E2 & E3).
  destruct (is_nil (cbs s1)).
  - apply exit_test_frame in H. destruct H as (F & A & B & D & P).
    split; [eapply tframe_trans; eauto|]. repeat split; try congruence; try exact P.
  - inversion H; subst; clear H. split; [eapply tframe_trans; [exact F1|tframe_tac]|].
    nrmg. rewrite upd_same. repeat split; try assumption. unfold tail_pc. auto 10.
Qed.

Lemma seg_pass_frame C s t ns s' l : seg_pass C s t ns = Some (s', l) ->
  tframe s s' t /\ to_exit s' = to_exit s /\ tail_pc (thr s' t).
Proof.
  unfold seg_pass. intros H.
  destruct (pass C (hup s) (peof s) (rdy s) (rdh s) (psig s) (pn s) (todo s) ns []) as [[[[n td] r] ns'] dr].
  destruct r as [|id|].
  - inversion H; subst; clear H. split; [tframe_tac|]. nrmg. rewrite upd_same. split; [reflexivity|]. unfold tail_pc; auto.
  - inversion H; subst; clear H. split; [tframe_tac|]. nrmg. rewrite upd_same. split; [reflexivity|]. unfold tail_pc; eauto.
  - apply fin_pass_frame in H. destruct H as (F & A & _ & _ & P).
    split; [eapply tframe_trans; [|exact F]; tframe_tac|]. split; [|exact P]. rewrite A. nrmg. reflexivity.
Qed.

Lemma wake_end_frame C s t ns s' l : wake_end C s t ns = Some (s', l) ->
  tframe s s' t /\ to_exit s' = (if Nat.eqb (to_exit s) ST_WAKE then ST_EXIT else to_exit s) /\ tail_pc (thr s' t).
Proof.
  unfold wake_end. intros H. apply seg_pass_frame in H. destruct H as (F & A & P).
  split; [eapply tframe_trans; [|exact F]; tframe_tac|]. split; [|exact P]. rewrite A. nrmg. reflexivity.
Qed.

Lemma cb_end_frame C s t ns s' l : cb_end C s t ns = Some (s', l) ->
  tframe s s' t /\ tail_pc (thr s' t) /\
  (to_exit s' = to_exit s \/ (to_exit s = ST_WAKE /\ to_exit s' = ST_EXIT)).
Proof.
  unfold cb_end. intros H. destruct (cbk s).
  - apply exit_test_frame in H. destruct H as (F & A & _ & _ & P). auto.
  - apply wake_end_frame in H. destruct H as (F & A & P). split; [exact F|]. split; [exact P|].
    destruct (Nat.eqb_spec (to_exit s) ST_WAKE); auto.
Qed.

Lemma cb_next_frame C s t k ns s' l : cb_next C s t k ns = Some (s', l) ->
  tframe s s' t /\ tail_pc_cb (thr s' t) /\
  (to_exit s' = to_exit s \/ (to_exit s = ST_WAKE /\ to_exit s' = ST_EXIT)).
Proof.
  unfold cb_next. intros H. destruct (S k <? length (cbs s)).
  - inversion H; subst; clear H. split; [tframe_tac|]. nrmg. rewrite upd_same. split; [right; eauto|auto].
  - apply cb_end_frame in H. destruct H as (F & P & A). split; [exact F|]. split; [left; exact P|exact A].
Qed.

(* every tail, for facts that hold of all of them *)
Ltac tail_frames :=
  repeat match goal with
  | H : exit_test _ _ _ _ = Some _ |- _ => apply exit_test_frame in H; destruct H as (?F & ?A & ?Eh & ?Ei & ?P)
  | H : fin_pass _ _ _ _ = Some _ |- _ => apply fin_pass_frame in H; destruct H as (?F & ?A & ?Eh & ?Ei & ?P)
  | H : seg_pass _ _ _ _ = Some _ |- _ => apply seg_pass_frame in H; destruct H as (?F & ?A & ?P)
  | H : wake_end _ _ _ _ = Some _ |- _ => apply wake_end_frame in H; destruct H as (?F & ?A & ?P)
  | H : cb_end _ _ _ _ = Some _ |- _ => apply cb_end_frame in H; destruct H as (?F & ?P & ?A)
  | H : cb_next _ _ _ _ _ = Some _ |- _ => apply cb_next_frame in H; destruct H as (?F & ?P & ?A)
  end.

Lemma tail_pc_loop p : tail_pc_cb p -> (is_loop_pc p = true \/ p = AFin) /\ holds p = false.
Proof.
  unfold tail_pc_cb, tail_pc. intros H.
  repeat match goal with H : _ \/ _ |- _ => destruct H | H : exists _, _ |- _ => destruct H end; subst; simpl; auto.
Qed.

(* ------------------------------------------------------------------ *)
Record BInv (C : config) (s : sys) : Prop := {
  b_loop : forall t, is_loop_pc (thr s t) = true -> t = c_loop C;
  b_hold : forall t, holds (thr s t) = true -> mtx s = Some t;
  b_free : forall u, mtx s = Some u -> holds (thr s u) = true;
  b_valid : forall t, thr s t <> SStart -> Nat.ltb t (c_n C) = true /\ created s = true;
}.

Lemma init_binv C : BInv C init.
Proof. constructor; simpl; intros; try discriminate; congruence. Qed.

(* a step of thread t that moves it from a loop point (or to a point that is not one) to p, with
   the mutex and the creation flag as given *)
Lemma binv_move C s s' t p :
  BInv C s -> (forall u, u <> t -> thr s' u = thr s u) -> thr s' t = p ->
  thr s t <> SStart -> created s' = created s ->
  (is_loop_pc p = true -> t = c_loop C) ->
  (* mutex: unchanged and p holds iff the old point held; or taken; or released *)
  ((mtx s' = mtx s /\ holds p = holds (thr s t)) \/
   (mtx s = None /\ mtx s' = Some t /\ holds p = true) \/
   (holds (thr s t) = true /\ mtx s' = None /\ holds p = false)) ->
  BInv C s'.
Proof.
  intros [Hl Hh Hf Hv] Ho Hp Hns Hc Hlp Hm.
  assert (Hvt := Hv t Hns).
  constructor.
  - intros u Hu. destruct (Nat.eq_dec u t) as [->|ne]; [apply Hlp; rewrite <- Hp; exact Hu|].
    apply Hl. rewrite <- (Ho u ne). exact Hu.
  - intros u Hu. destruct (Nat.eq_dec u t) as [->|ne].
    + rewrite Hp in Hu. destruct Hm as [[M1 M2]|[(M1 & M2 & M3)|(M1 & M2 & M3)]]; try congruence.
      rewrite M1. apply Hh. congruence.
    + rewrite (Ho u ne) in Hu. pose proof (Hh u Hu) as K.
      destruct Hm as [[M1 M2]|[(M1 & M2 & M3)|(M1 & M2 & M3)]]; try congruence.
      pose proof (Hh t M1). congruence.
  - intros u Hu. destruct (Nat.eq_dec u t) as [->|ne].
    + rewrite Hp. destruct Hm as [[M1 M2]|[(M1 & M2 & M3)|(M1 & M2 & M3)]]; try congruence.
      rewrite M2. apply Hf. congruence.
    + rewrite (Ho u ne). destruct Hm as [[M1 M2]|[(M1 & M2 & M3)|(M1 & M2 & M3)]]; try congruence.
      apply Hf. congruence.
  - intros u Hu. rewrite Hc. destruct (Nat.eq_dec u t) as [->|ne]; [exact Hvt|].
    apply Hv. rewrite <- (Ho u ne). exact Hu.
Qed.

Lemma step_binv C s t ch s' l : BInv C s -> step C s t ch = Some (s', l) -> BInv C s'.
Proof.
  intros B Hs. pose proof B as [Hl Hh Hf Hv].
  assert (Hlt := Hl t). assert (Hht := Hh t).
  step_inv Hs.
  all: repeat match goal with ph : phase |- _ => destruct ph end.
  all: simpl in Hlt, Hht.
  (* the first step of T0 creates the loop *)
  all: try (match goal with E : thr _ _ = SStart |- _ => idtac end;
            constructor; nrmg;
            [ intros u Hu; unfold upd in Hu; destruct (Nat.eqb_spec u t); [discriminate Hu|apply Hl; exact Hu]
            | intros u Hu; unfold upd in Hu; destruct (Nat.eqb_spec u t); [discriminate Hu|apply Hh; exact Hu]
            | intros u Hu; unfold upd; destruct (Nat.eqb_spec u t);
              [subst; specialize (Hf _ Hu); match goal with E : thr _ _ = SStart |- _ => rewrite E in Hf end; discriminate Hf
              |apply Hf; exact Hu]
            | intros u Hu; unfold upd in Hu; destruct (Nat.eqb_spec u t);
              [ subst; split; [assumption|first [reflexivity|
                  match goal with H1 : false || ?b = true |- ?b = true => exact H1 end|
                  match goal with H1 : (?a || ?b) = true, H2 : ?a = false |- ?b = true => rewrite H2 in H1; exact H1 end]]
              | destruct (Hv u Hu); split; auto ] ]; fail).
  (* tails *)
  all: tail_frames.
  all: try (match goal with P : tail_pc (thr ?s1 ?t0) |- _ =>
              apply (or_introl (B := exists k, thr s1 t0 = Cb (QY (S k)))) in P; fold (tail_pc_cb (thr s1 t0)) in P end).
  all: try (match goal with B0 : BInv ?C0 ?s0, F : tframe _ ?s1 ?t0, P : tail_pc_cb (thr ?s1 ?t0) |- BInv ?C0 ?s1 =>
              destruct (tail_pc_loop _ P) as [Pl Ph]; destruct F;
              eapply (binv_move C0 s0 s1 t0 (thr s1 t0) B0);
              [ intros u Hu; rewrite tf_thr0 by exact Hu; nrmg; try reflexivity; apply upd_other; exact Hu
              | reflexivity
              | match goal with E : thr _ _ = _ |- _ => rewrite E; discriminate end
              | rewrite tf_created0; nrmg; reflexivity
              | intros Hp; destruct Pl as [Pl|Pl]; [apply Hlt; reflexivity|rewrite Pl in Hp; discriminate Hp]
              | left; split; [rewrite tf_mtx0; nrmg; reflexivity
                             |rewrite Ph; match goal with E : thr _ _ = _ |- _ => rewrite E; reflexivity end] ] end; fail).
  (* explicit steps *)
  all: match goal with B0 : BInv ?C0 ?s0 |- BInv ?C0 (set_pc ?s1 ?t0 ?p) =>
         eapply (binv_move C0 s0 (set_pc s1 t0 p) t0 p B0);
         [ intros u Hu; nrmg; apply upd_other; exact Hu
         | nrmg; apply upd_same
         | match goal with E : thr _ _ = _ |- _ => rewrite E; discriminate end
         | nrmg; reflexivity
         | simpl; intros Hp; first [discriminate Hp | apply Hlt; reflexivity | apply Nat.eqb_eq; assumption]
         | nrmg; match goal with E : thr _ _ = _ |- _ => rewrite E end; simpl;
           first [ left; split; reflexivity
                 | right; left; repeat split; [assumption|reflexivity]
                 | right; left; repeat split; assumption
                 | right; right; repeat split; reflexivity ] ] end.
Qed.

Theorem binv_all C sched : BInv C (exec sys (step C) init sched).
Proof. apply inv_exec; [|apply init_binv]. intros; eapply step_binv; eauto. Qed.

(* ------------------------------------------------------------------ *)
(* the back-end's pass *)
Definition has_none (l : list (option nat)) : bool :=
  existsb (fun o => match o with None => true | Some _ => false end) l.

Lemma has_none_In l : has_none l = true <-> In None l.
Proof.
  unfold has_none. rewrite existsb_exists. split.
  - intros (x & Hx & Hn). destruct x; [discriminate|exact Hx].
  - intros H. exists None. split; [exact H|reflexivity].
Qed.

Ltac pass_ind td :=
  induction td as [|[x|] r IH]; intros n ns dr H; simpl in H;
  [ | destruct (memb x _ || _) eqn:?; [|destruct (poll_done _ _) eqn:?] | ].

(* a pass that stops at a context to close has not gone past a reported signal *)
Lemma pass_close_keeps_none C hp pe rd rh n td ns dr n' td' id ns' dr' :
  pass C hp pe rd rh true n td ns dr = (n', td', PClose id, ns', dr') -> In None td -> In None td'.
Proof.
  revert n ns dr. pass_ind td; intros Hin.
  - inversion H.
  - inversion H; subst. destruct Hin as [Hin|Hin]; [discriminate|exact Hin].
  - inversion H.
  - destruct Hin as [Hin|Hin]; [discriminate|]. eapply IH; eauto.
  - inversion H.
Qed.

Lemma pass_close_flagged C hp pe rd rh sg n td ns dr n' td' id ns' dr' :
  pass C hp pe rd rh sg n td ns dr = (n', td', PClose id, ns', dr') ->
  (memb id hp = true \/ (memb id rd = true /\ memb id pe = true)) /\ In (Some id) td.
Proof.
  revert n ns dr. pass_ind td.
  - inversion H.
  - inversion H; subst. split; [|left; reflexivity].
    apply orb_prop in Heqb. destruct Heqb as [E|E]; [left; exact E|right; apply andb_prop in E; exact E].
  - inversion H.
  - destruct (IH _ _ _ H) as [H1 H2]. split; [exact H1|right; exact H2].
  - destruct sg; [inversion H|]. destruct (IH _ _ _ H) as [H1 H2]. split; [exact H1|right; exact H2].
Qed.

(* only the poll back-end (n <= 0) ends a pass before it has reached a reported signal *)
Lemma pass_end_none_poll C hp pe rd rh n td ns dr n' td' ns' dr' :
  pass C hp pe rd rh true n td ns dr = (n', td', PEnd, ns', dr') -> In None td -> c_be C = BPoll.
Proof.
  revert n ns dr. pass_ind td; intros Hin.
  - contradiction.
  - inversion H.
  - unfold poll_done in Heqb0. destruct (c_be C); try discriminate; reflexivity.
  - destruct Hin as [Hin|Hin]; [discriminate|]. eapply IH; eauto.
  - inversion H.
Qed.

Lemma pass_end_nil C hp pe rd rh sg n td ns dr n' td' ns' dr' :
  pass C hp pe rd rh sg n td ns dr = (n', td', PEnd, ns', dr') -> td' = [].
Proof.
  revert n ns dr. pass_ind td.
  - inversion H; reflexivity.
  - inversion H.
  - inversion H; reflexivity.
  - eapply IH; eauto.
  - destruct sg; [inversion H|]. eapply IH; eauto.
Qed.

Lemma pass_read_sg C hp pe rd rh sg n td ns dr n' td' ns' dr' :
  pass C hp pe rd rh sg n td ns dr = (n', td', PRead, ns', dr') -> sg = true /\ In None td.
Proof.
  revert n ns dr. pass_ind td.
  - inversion H.
  - inversion H.
  - inversion H.
  - destruct (IH _ _ _ H). split; [assumption|right; assumption].
  - destruct sg; [split; [reflexivity|left; reflexivity]|]. destruct (IH _ _ _ H). split; [assumption|right; assumption].
Qed.

(* what remains to visit is a part of what was to visit *)
Lemma pass_length C hp pe rd rh sg n td ns dr n' td' r ns' dr' :
  pass C hp pe rd rh sg n td ns dr = (n', td', r, ns', dr') -> length td' <= length td.
Proof.
  revert n ns dr. induction td as [|[x|] rr IH]; intros n ns dr H; simpl in H.
  - inversion H; subst; simpl; lia.
  - destruct (memb x hp || _); [inversion H; subst; simpl; lia|].
    destruct (poll_done C _); [inversion H; subst; simpl; lia|]. specialize (IH _ _ _ H). simpl. lia.
  - destruct sg; [inversion H; subst; simpl; lia|]. specialize (IH _ _ _ H). simpl. lia.
Qed.

Lemma pass_incl C hp pe rd rh sg n td ns dr n' td' r ns' dr' :
  pass C hp pe rd rh sg n td ns dr = (n', td', r, ns', dr') -> incl td' td.
Proof.
  revert n ns dr. induction td as [|[x|] rr IH]; intros n ns dr H; simpl in H.
  - inversion H; subst. apply incl_refl.
  - destruct (memb x hp || _); [inversion H; subst; apply incl_tl, incl_refl|].
    destruct (poll_done C _); [inversion H; subst; intros y Hy; destruct Hy|]. apply incl_tl. eapply IH; eauto.
  - destruct sg; [inversion H; subst; apply incl_tl, incl_refl|]. apply incl_tl. eapply IH; eauto.
Qed.

(* the context to close has been taken off the list: what remains is a strict suffix *)
Lemma pass_close_suffix C hp pe rd rh sg n td ns dr n' td' id ns' dr' :
  pass C hp pe rd rh sg n td ns dr = (n', td', PClose id, ns', dr') -> exists pre, td = pre ++ Some id :: td'.
Proof.
  revert n ns dr. pass_ind td.
  - inversion H.
  - inversion H; subst. exists []. reflexivity.
  - inversion H.
  - destruct (IH _ _ _ H) as [pre ->]. exists (Some x :: pre). reflexivity.
  - destruct sg; [inversion H|]. destruct (IH _ _ _ H) as [pre ->]. exists (None :: pre). reflexivity.
Qed.

(* ------------------------------------------------------------------ *)
(* the tail segments always complete *)
Lemma exit_test_total C s t ns : exit_test C s t ns <> None.
Proof. unfold exit_test. destruct (to_exit s =? ST_EXIT); [destruct (c_bare C); [|destruct (reg s)]|]; discriminate. Qed.
Lemma fin_pass_total C s t ns : fin_pass C s t ns <> None.
Proof.
  unfold fin_pass. destruct (c_tmo C && c_cb_timer C); [|apply exit_test_total].
  match goal with |- (if ?b then _ else _) <> None => destruct b end; [apply exit_test_total|discriminate].
Qed.
Lemma seg_pass_total C s t ns : seg_pass C s t ns <> None.
Proof.
  unfold seg_pass. destruct (pass C (hup s) (peof s) (rdy s) (rdh s) (psig s) (pn s) (todo s) ns []) as [[[[n td] r] ns'] dr].
  destruct r; try discriminate. apply fin_pass_total.
Qed.
Lemma wake_end_total C s t ns : wake_end C s t ns <> None.
Proof. unfold wake_end. apply seg_pass_total. Qed.
Lemma cb_end_total C s t ns : cb_end C s t ns <> None.
Proof. unfold cb_end. destruct (cbk s); [apply exit_test_total|apply wake_end_total]. Qed.
Lemma cb_next_total C s t k ns : cb_next C s t k ns <> None.
Proof. unfold cb_next. destruct (S k <? length (cbs s)); [discriminate|apply cb_end_total]. Qed.

(* a step of one thread leaves the program points of the others alone *)
Lemma step_other_thr C s t c s' l u : step C s t c = Some (s', l) -> u <> t -> thr s' u = thr s u.
Proof.
  intros Hs Hne. step_inv Hs; tail_frames;
    try (match goal with F : tframe _ _ _ |- _ => rewrite (tf_thr _ _ _ F) by exact Hne end);
    nrmg; try reflexivity; apply upd_other; exact Hne.
Qed.
